#!/usr/bin/env python3
"""Checker self-validation: apply each mutant of mutants/corpus.json (a unique-substring
rewrite of one file) to a scratch copy of the CURRENT /repo tree outside /repo and /verif,
run the named property check on the copy, and require that it reports a violation (exit 1).
Refactorings (expect = "green") must stay green. Each copy is removed immediately.

usage: selftest.py [-p Cxx] [-k substring] [-j N] [--repo /repo]
exit 0 iff every applicable mutant behaved as expected."""
import json, os, sys, subprocess, shutil, tempfile, argparse
from concurrent.futures import ThreadPoolExecutor

HERE = os.path.dirname(os.path.abspath(__file__))

def run_one(m, repo, keep=False):
    tmp = tempfile.mkdtemp(prefix="escalint-mut-")
    try:
        dst = os.path.join(tmp, "repo")
        subprocess.run(["rsync", "-a", "--exclude", ".git", repo + "/", dst + "/"], check=True)
        if m.get("base"):
            # a mutant of refactored code: apply the behaviour-preserving patch first
            r = subprocess.run(["patch", "-p1", "-s", "-i", os.path.join(HERE, "refactorings", m["base"])], cwd=dst, capture_output=True, text=True, errors="replace")
            if r.returncode != 0:
                return (m["id"], "skipped", "base patch %s does not apply: %s" % (m["base"], (r.stdout + r.stderr)[:200]))
        edits = m.get("edits") or [{"file": m["file"], "old": m["old"], "new": m["new"]}]
        for e in edits:
            path = os.path.join(dst, e["file"])
            src = open(path).read()
            if src.count(e["old"]) != 1:
                return (m["id"], "skipped", "anchor text occurs %d times in %s" % (src.count(e["old"]), e["file"]))
            open(path, "w").write(src.replace(e["old"], e["new"]))
        env = dict(os.environ, GOFLAGS="-mod=mod -trimpath", GOPROXY="off", GOSUMDB="off", GOTOOLCHAIN="local")
        env.pop("GOWORK", None)
        b = subprocess.run(["go", "build", "./..."], cwd=dst, env=env, capture_output=True, text=True, errors="replace")
        if b.returncode != 0:
            return (m["id"], "invalid", "does not compile: " + b.stderr.strip()[:300])
        results = {}
        props = m["props"] if "props" in m else [m["prop"]]
        if ALL:
            r = subprocess.run([os.environ.get("ESCALINT_BIN") or os.path.join(HERE, "bin", "escalint"), "check", "-prop", "all", "-repo", dst, "-verif", HERE, "-n"],
                               capture_output=True, text=True, errors="replace", env=env)
            fired = sorted(set(l.split("property=")[1].split()[0] for l in r.stdout.splitlines() if l.startswith("VIOLATION")))
            kinds = sorted(set(l.split()[0] + ":" + l.split()[1] for l in r.stdout.splitlines() if l.startswith(("VIOLATED", "UNDECIDED", "VACUOUS", "ANCHOR-LOST"))))
            expect = m.get("expect", "fire")
            ok = (all(p in fired for p in props)) if expect == "fire" else (len(fired) == 0)
            extra = [p for p in fired if p not in props]
            return (m["id"], "ok" if ok else "FAIL", "fired=%s extra=%s rules=%s" % (",".join(fired), ",".join(extra), " ".join(kinds)))
        for prop in props:
            r = subprocess.run([os.environ.get("ESCALINT_BIN") or os.path.join(HERE, "bin", "escalint"), "check", "-prop", prop, "-repo", dst, "-verif", HERE, "-n"],
                               capture_output=True, text=True, errors="replace", env=env)
            results[prop] = (r.returncode, r.stdout)
        expect = m.get("expect", "fire")
        msgs = []
        ok = True
        for prop, (rc, out) in results.items():
            lines = [l for l in out.splitlines() if l.startswith(("VIOLATED", "UNDECIDED", "VACUOUS", "ANCHOR-LOST"))]
            if expect == "fire":
                if rc != 1:
                    ok = False
                    msgs.append("%s: BLIND (exit %d)" % (prop, rc))
                else:
                    rule = m.get("rule")
                    if rule and not any((" " + rule + " ") in (" " + l + " ") or l.split()[1] == rule for l in lines):
                        msgs.append("%s: fired, but not by %s: %s" % (prop, rule, "; ".join(l[:160] for l in lines[:3])))
                    else:
                        msgs.append("%s: fired: %s" % (prop, "; ".join(l[:200] for l in lines[:2])))
            else:
                if rc != 0:
                    ok = False
                    msgs.append("%s: FALSE ALARM: %s" % (prop, "; ".join(l[:300] for l in lines[:3])))
                else:
                    msgs.append("%s: green" % prop)
        return (m["id"], "ok" if ok else "FAIL", " | ".join(msgs))
    finally:
        if not keep:
            shutil.rmtree(tmp, ignore_errors=True)

ALL = False

def main():
    global ALL
    ap = argparse.ArgumentParser()
    ap.add_argument("--all", action="store_true", help="run every property check on each mutant and report which fire")
    ap.add_argument("-p", default=None)
    ap.add_argument("-k", default=None)
    ap.add_argument("-j", type=int, default=8)
    ap.add_argument("--repo", default="/repo")
    ap.add_argument("--corpus", default=os.path.join(HERE, "mutants", "corpus.json"))
    args = ap.parse_args()
    ALL = args.all
    # make sure the binary reflects the current analyser sources (./run rebuilds when stale)
    subprocess.run([os.path.join(HERE, "run"), "version"], capture_output=True)
    corpus = json.load(open(args.corpus))
    sel = [m for m in corpus if (not args.p or args.p in (m.get("props") or [m.get("prop")])) and (not args.k or any(k in m["id"] for k in args.k.split(",")))]
    bad = 0
    with ThreadPoolExecutor(args.j) as ex:
        for (mid, status, msg) in ex.map(lambda m: run_one(m, args.repo), sel):
            print("%-8s %-44s %s" % (status, mid, msg))
            if status == "FAIL":
                bad += 1
    print("%d mutants, %d failed expectations" % (len(sel), bad))
    sys.exit(1 if bad else 0)

if __name__ == "__main__":
    main()
