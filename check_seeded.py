#!/usr/bin/env python3
"""Re-run every confirmed seeded change (seeded/<id>/patch.diff) against the current checks: each
must make the check of its own property exit 1. usage: check_seeded.py [-j N]"""
import os, sys, json, subprocess, tempfile, shutil
from concurrent.futures import ThreadPoolExecutor
HERE = os.path.dirname(os.path.abspath(__file__))

def one(sid):
    d = os.path.join(HERE, "seeded", sid)
    meta = json.load(open(os.path.join(d, "meta.json")))
    prop = meta.get("breaks_property") or sid[:3]
    tmp = tempfile.mkdtemp(prefix="seedchk-", dir="/tmp")
    try:
        dst = os.path.join(tmp, "repo")
        subprocess.run(["rsync", "-a", "--exclude", ".git", "/repo/", dst + "/"], check=True)
        r = subprocess.run(["git", "apply", os.path.join(d, "patch.diff")], cwd=dst, capture_output=True, text=True, errors="replace")
        if r.returncode != 0:
            r = subprocess.run(["patch", "-p1", "-i", os.path.join(d, "patch.diff")], cwd=dst, capture_output=True, text=True, errors="replace")
            if r.returncode != 0:
                return sid, prop, "patch does not apply", []
        env = dict(os.environ, GOFLAGS="-mod=mod -trimpath", GOPROXY="off", GOSUMDB="off", GOTOOLCHAIN="local")
        env.pop("GOWORK", None)
        c = subprocess.run([os.environ.get("ESCALINT_BIN") or os.path.join(HERE, "bin", "escalint"), "check", "-prop", prop, "-repo", dst, "-verif", HERE, "-n"], capture_output=True, text=True, errors="replace", env=env)
        rules = sorted(set(l.split()[1] for l in c.stdout.splitlines() if l.startswith(("VIOLATED", "UNDECIDED", "VACUOUS", "ANCHOR-LOST"))))
        return sid, prop, "fires" if c.returncode == 1 else "BLIND", rules
    finally:
        shutil.rmtree(tmp, ignore_errors=True)

def main():
    subprocess.run([os.path.join(HERE, "run"), "version"], capture_output=True)
    j = int(sys.argv[sys.argv.index("-j") + 1]) if "-j" in sys.argv else 8
    ids = sorted(os.listdir(os.path.join(HERE, "seeded")))
    bad = 0
    with ThreadPoolExecutor(j) as ex:
        for sid, prop, st, rules in ex.map(one, ids):
            print("%-8s %-48s %s %s" % (st, sid, prop, " ".join(rules)))
            if st != "fires":
                bad += 1
    print("%d seeded changes, %d not detected under their own property" % (len(ids), bad))
    sys.exit(1 if bad else 0)

if __name__ == "__main__":
    main()
