#!/usr/bin/env python3
"""Confirm a seeded change independently: fresh scratch worktree of /repo HEAD, apply the
patch, build, run the whole existing suite (must pass), add the demonstration test(s), run them
(must FAIL), revert the patch, run them again (must PASS). Then record under /verif/seeded/<id>/.
usage: confirm_seed.py <seed-id> <property> <patch.diff> <needs> <demo_src:target_dir> [...]"""
import os, sys, subprocess, json, shutil, tempfile, re
HERE = os.path.dirname(os.path.abspath(__file__))
ENV = dict(os.environ, GOFLAGS="-mod=mod -trimpath", GOPROXY="off", GOSUMDB="off", GOTOOLCHAIN="local")
ENV.pop("GOWORK", None)

def sh(cmd, cwd, check=False):
    r = subprocess.run(cmd, cwd=cwd, env=ENV, capture_output=True, text=True, errors="replace", shell=isinstance(cmd, str))
    if check and r.returncode != 0:
        raise SystemExit("FAILED: %s\n%s\n%s" % (cmd, r.stdout[-2000:], r.stderr[-2000:]))
    return r

def suite(cwd):
    r = sh("go test -json -vet=off -count=1 ./...", cwd)
    p = f = 0
    fails = []
    for l in r.stdout.splitlines():
        try:
            e = json.loads(l)
        except Exception:
            continue
        if e.get("Test"):
            if e["Action"] == "pass": p += 1
            elif e["Action"] == "fail": f += 1; fails.append(e["Package"].split("/")[-1] + "::" + e["Test"])
    return p, f, fails

def main():
    seed, prop, patch, needs = sys.argv[1:5]
    demos = [a.split(":") for a in sys.argv[5:]]
    wt = tempfile.mkdtemp(prefix="confirm-%s-" % seed, dir="/tmp")
    os.rmdir(wt)
    sh(["git", "-C", "/repo", "worktree", "add", "-q", "--detach", wt, "HEAD"], "/repo", check=True)
    ran = []
    try:
        head = sh("git rev-parse --short HEAD", wt).stdout.strip()
        sh(["git", "apply", os.path.abspath(patch)], wt, check=True); ran.append("git apply patch.diff (on /repo HEAD %s)" % head)
        sh("go build ./...", wt, check=True); ran.append("go build ./... : ok")
        p, f, fails = suite(wt); ran.append("go test -vet=off -count=1 ./... with the change: %d passed, %d failed" % (p, f))
        if f != 0 or p < 320:
            raise SystemExit("existing suite does not pass with the change: %d pass %d fail %s" % (p, f, fails[:5]))
        pkgs = set()
        for src, tgt in demos:
            shutil.copy(src, os.path.join(wt, tgt, os.path.basename(src) if os.path.basename(src).endswith("_test.go") else "zz_demo_test.go"))
            pkgs.add("./" + tgt)
        def rundemo():
            out = {}
            for pk in sorted(pkgs):
                r = sh("go test -vet=off -count=1 -run 'Demo' %s" % pk, wt)
                out[pk] = (r.returncode, (r.stdout + r.stderr)[-600:])
            return out
        w = rundemo()
        failed_with = any(rc != 0 for rc, _ in w.values())
        ran.append("demo with the change: " + ", ".join("%s exit %d" % (k, v[0]) for k, v in w.items()))
        if not failed_with:
            raise SystemExit("demo does not fail with the change: %s" % w)
        sh(["git", "apply", "-R", os.path.abspath(patch)], wt, check=True)
        wo = rundemo()
        ran.append("demo without the change: " + ", ".join("%s exit %d" % (k, v[0]) for k, v in wo.items()))
        if any(rc != 0 for rc, _ in wo.values()):
            raise SystemExit("demo does not pass without the change: %s" % wo)
        # which checks catch it
        t = subprocess.run([sys.executable, os.path.join(HERE, "trypatch.py"), os.path.abspath(patch)], capture_output=True, text=True, errors="replace")
        fired = t.stdout.splitlines()[0] if t.stdout else "?"
        rules = sorted(set(l.split()[1] for l in t.stdout.splitlines()[1:] if len(l.split()) > 1))
        ran.append("escalint (all 20 checks) on a scratch copy with the change: " + fired)
        d = os.path.join(HERE, "seeded", seed)
        os.makedirs(d, exist_ok=True)
        shutil.copy(patch, os.path.join(d, "patch.diff"))
        for src, tgt in demos:
            name = tgt.replace("/", "_") + "__" + (os.path.basename(src) if os.path.basename(src).endswith("_test.go") else "zz_demo_test.go")
            shutil.copy(src, os.path.join(d, name + ".txt"))  # .txt so the file is never compiled by accident
        meta = {"id": seed, "breaks_property": prop, "needs_to_manifest": needs, "source": "independent sub-agent given only the property text and its own worktree",
                "demo_files": [{"file": tgt.replace("/", "_") + "__" + os.path.basename(src) + ".txt", "belongs_in": tgt} for src, tgt in demos],
                "confirmed": ran, "detected_by_properties": fired.replace("fired: ", "").split(","), "detected_by_rules": rules}
        json.dump(meta, open(os.path.join(d, "meta.json"), "w"), indent=1)
        print(seed, "CONFIRMED;", fired, rules)
    finally:
        sh(["git", "-C", "/repo", "worktree", "remove", "--force", wt], "/repo")
        shutil.rmtree(wt, ignore_errors=True)

if __name__ == "__main__":
    main()
