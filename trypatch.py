#!/usr/bin/env python3
"""Apply a patch (git diff format) to a scratch copy of /repo outside /repo and /verif, run
every property check on the copy, report which properties raise a violation, remove the copy.
usage: trypatch.py <patch.diff> [--repo /repo] [--props C01,C02]"""
import os, sys, subprocess, tempfile, shutil, argparse
HERE = os.path.dirname(os.path.abspath(__file__))

def main():
    ap = argparse.ArgumentParser()
    ap.add_argument("patch")
    ap.add_argument("--repo", default="/repo")
    ap.add_argument("--props", default="all")
    ap.add_argument("-v", action="store_true")
    a = ap.parse_args()
    tmp = tempfile.mkdtemp(prefix="escalint-try-")
    try:
        dst = os.path.join(tmp, "repo")
        subprocess.run(["rsync", "-a", "--exclude", ".git", "--exclude", "_out", a.repo + "/", dst + "/"], check=True)
        r = subprocess.run(["patch", "-p1", "-s", "-i", os.path.abspath(a.patch)], cwd=dst, capture_output=True, text=True, errors="replace")
        if r.returncode != 0:
            print("PATCH DOES NOT APPLY:", r.stdout, r.stderr)
            return 2
        env = dict(os.environ, GOFLAGS="-mod=mod -trimpath", GOPROXY="off", GOSUMDB="off", GOTOOLCHAIN="local")
        env.pop("GOWORK", None)
        b = subprocess.run(["go", "build", "./..."], cwd=dst, env=env, capture_output=True, text=True, errors="replace")
        if b.returncode != 0:
            print("DOES NOT COMPILE:", b.stderr[:500])
            return 2
        fired = set()
        lines = []
        for prop in (a.props.split(",") if a.props != "all" else ["all"]):
            r = subprocess.run([os.environ.get("ESCALINT_BIN") or os.path.join(HERE, "bin", "escalint"), "check", "-prop", prop, "-repo", dst, "-verif", HERE, "-n"], capture_output=True, text=True, errors="replace", env=env)
            for l in r.stdout.splitlines():
                if l.startswith("VIOLATION"):
                    fired.add(l.split("property=")[1].split()[0])
                if l.startswith(("VIOLATED", "UNDECIDED", "VACUOUS", "ANCHOR-LOST")):
                    lines.append(l)
        print("fired:", ",".join(sorted(fired)) or "none")
        for l in lines:
            print("  " + (l if a.v else l[:330]))
        return 0
    finally:
        shutil.rmtree(tmp, ignore_errors=True)

if __name__ == "__main__":
    sys.exit(main())
