package main

// rules_scale.go — C02 (cool-down lock), C03 (taint clamp), C04 (max clamp).

import (
	"fmt"
	"go/token"
	"go/types"
	"sort"
	"strings"

	"golang.org/x/tools/go/ssa"
)

func init() {
	register(&propSpec{ID: "C02", Run: checkC02,
		Explanation: "(a) every call in the scan body that can reach an action site executes only on paths where a locked() call on this group's scale lock was evaluated earlier in the same invocation and returned false; (b) lock() is called only from ScaleUp, on this group's lock, only after the cloud step returned err == nil, and every success path passes through it; (c) lock() sets isLocked and lockTime ← time.Now() unconditionally, locked() can return true only under Since(lockTime) < minimumLockDuration (unlock() leaves isLocked false on all paths), minimumLockDuration is configured from the same options' scale_up_cool_down_period at both construction sites and never stored elsewhere.",
		RuleText:    "R1 one obligation per ACT call in the scan body; R2 arming (guard + must-pass-through + callers); R3 lock/locked/unlock bodies; R4 scaleLock construction sites and field store census; R5 one clock; R6 armed last: no action-reaching call follows a lock-arming call in the scan body; R7 nothing reachable from RunOnce replaces a group state or its lock as a whole",
		Assumptions: []string{"elapsed wall-clock time itself is not decided; the lock is in memory (within one controller lifetime, as the statement says)"}})
	register(&propSpec{ID: "C03", Run: checkC03,
		Explanation: "Per scan: at the call of the taint loop the linear fact n + min_nodes ≤ len(untainted) holds on every path (Fourier–Motzkin over the clamp's two paths); the taint loop is a bounded accumulator (≤ 1 taint write per iteration, exits before the write once n writes succeeded, accumulator grows on every success) so successes ≤ max(n,0); targets are elements of the classifier's untainted list, whose append requires ¬cordoned ∧ ¬tainted ∧ ¬forced; ScaleDown is reachable only when len(untainted) ≥ min_nodes and the below-minimum branch only scales up by min − len(untainted); auto-discovered bounds are the cloud group's own MinSize/MaxSize.",
		RuleText:    "R1 clamp fact, R2 bounded accumulator, R3 targets, R4 recovery branch, R5 auto-discovery stores",
		Assumptions: []string{"cache staleness across consecutive scans and failed-but-applied writes are not decided"}})
	register(&propSpec{ID: "C04", Run: checkC04,
		Explanation: "At the only IncreaseSize call the argument d satisfies d ≥ 1, TargetSize + d ≤ MaxSize and TargetSize + d ≤ max_nodes on every path (linear entailment through the inlined clamp helper and the min(max_nodes, MaxSize) selection); TargetSize/MaxSize are single terms in that function (nothing in its scope mutates the cached group); every action in the scan body is behind min_nodes ≤ len(allNodes) ≤ max_nodes; the provider itself refuses above the ASG maximum (C17.R1).",
		RuleText:    "R1 relational bound (2 facts), R2 positive delta, R3 provider bound (shared with C17.R1), R4 bounds guard per ACT call, R5 typestate of the cached desired capacity the clamp reads (shared with C07.R5)",
		Assumptions: []string{"whether the cached TargetSize equals the real desired capacity is C07.R5"}})
}

// actCalls: calls in the scan body whose callee can reach an action site.
func (ck *Check) actCalls() []ssa.CallInstruction {
	a := ck.A
	actFns := map[*ssa.Function]bool{}
	for _, s := range a.A {
		if s.Class != "A-CLOUD-DEC" {
			actFns[s.Fn] = true
		}
	}
	sctx := ck.P.NewCtx(a.Scan)
	return callsIn(a.Scan, func(ci ssa.CallInstruction) bool {
		// dead code (unsatisfiable path condition) performs no action
		if sat, err := Satisfiable(sctx.PC(ci)); err == nil && !sat {
			return false
		}
		for _, g := range ck.P.calleesOf(ci) {
			r := ck.P.reachCut([]*ssa.Function{g}, nil)
			for f := range actFns {
				if r[f] {
					return true
				}
			}
		}
		return false
	})
}

// ActCall is one call of the (extended) scan body that can reach an action site. Blocks of the scan
// body that a maintainer moved into a helper of their own (a function that is not itself one of
// the action anchors) are looked through: the call is reported at its place inside the helper,
// with the helper's parameters bound to the arguments of its call site and the path condition
// being the conjunction along the chain.
type ActCall struct {
	Ctx  *Ctx
	Call ssa.CallInstruction
	PC   *Formula
	Pre  *Formula // the path condition of the call chain leading into Fn (⊤ in the root itself)
	Key  string
	Fn   *ssa.Function
	Via  []ssa.CallInstruction // scanActs: the helper calls of the scan body leading into Fn
}

func (ck *Check) actionAnchors() (map[*ssa.Function]bool, map[*ssa.Function]bool) {
	a := ck.A
	actFns := map[*ssa.Function]bool{}
	for _, s := range a.A {
		if s.Class != "A-CLOUD-DEC" {
			actFns[s.Fn] = true
		}
	}
	anchors := map[*ssa.Function]bool{}
	for f := range actFns {
		anchors[f] = true
	}
	for _, f := range []*ssa.Function{a.ScaleUp, a.ScaleDown, a.CloudStep, a.UntaintStep, a.TaintLoop, a.UntaintLoop, a.TaintClamp, a.TryDelete, a.GraceReaper, a.ForceReaper, a.Filter, a.Scan, a.RunOnce, a.NewController} {
		if f != nil {
			anchors[f] = true
		}
	}
	return actFns, anchors
}

func (ck *Check) scanActs() []ActCall {
	a := ck.A
	actFns, anchors := ck.actionAnchors()
	reaches := func(g *ssa.Function) bool {
		r := ck.P.reachCut([]*ssa.Function{g}, nil)
		for f := range actFns {
			if r[f] {
				return true
			}
		}
		return false
	}
	var out []ActCall
	var via []ssa.CallInstruction
	var walk func(ctx *Ctx, fn *ssa.Function, prefix *Formula, keyPrefix string, depth int)
	walk = func(ctx *Ctx, fn *ssa.Function, prefix *Formula, keyPrefix string, depth int) {
		for _, ci := range callsIn(fn, nil) {
			acts := false
			for _, g := range ck.P.calleesOf(ci) {
				if reaches(g) {
					acts = true
				}
			}
			if !acts {
				continue
			}
			pc := And(prefix, ctx.PC(ci))
			// dead code (unsatisfiable path condition) performs no action
			if sat, err := Satisfiable(pc); err == nil && !sat {
				continue
			}
			h := ci.Common().StaticCallee()
			if call, isCall := ci.(*ssa.Call); isCall && h != nil && !anchors[h] && ck.P.inRepo(h) && h.Blocks != nil && depth < 3 && h != fn {
				args := make([]*Term, len(call.Common().Args))
				for i, av := range call.Common().Args {
					args[i] = ctx.Term(av)
				}
				ch := ctx.child(h, call, args)
				ch.depth = 0
				via = append(via, ci)
				walk(ch, h, pc, keyPrefix+ck.P.siteKey(ci)+">", depth+1)
				via = via[:len(via)-1]
				continue
			}
			out = append(out, ActCall{Ctx: ctx, Call: ci, PC: pc, Pre: prefix, Key: keyPrefix + ck.P.siteKey(ci), Fn: fn, Via: append([]ssa.CallInstruction{}, via...)})
		}
	}
	walk(ck.P.NewCtx(a.Scan), a.Scan, FTrue, "", 0)
	return out
}

// bodyCalls enumerates the calls matching match in root's extended body: root itself and, looked
// through, the repo helpers it calls statically that are not action anchors (depth ≤ 3). Each call
// comes with the context that binds the helper's parameters and the conjoined path condition.
func (ck *Check) bodyCalls(root *ssa.Function, match func(ssa.CallInstruction) bool) []ActCall {
	_, anchors := ck.actionAnchors()
	var out []ActCall
	var walk func(ctx *Ctx, fn *ssa.Function, prefix *Formula, keyPrefix string, depth int, stack map[*ssa.Function]bool)
	walk = func(ctx *Ctx, fn *ssa.Function, prefix *Formula, keyPrefix string, depth int, stack map[*ssa.Function]bool) {
		for _, ci := range callsIn(fn, nil) {
			pc := And(prefix, ctx.PC(ci))
			if match(ci) {
				out = append(out, ActCall{Ctx: ctx, Call: ci, PC: pc, Pre: prefix, Key: keyPrefix + ck.P.siteKey(ci), Fn: fn})
				continue
			}
			h := ci.Common().StaticCallee()
			call, isCall := ci.(*ssa.Call)
			if !isCall || h == nil || anchors[h] || !ck.P.inRepo(h) || h.Blocks == nil || depth >= 3 || stack[h] {
				continue
			}
			args := make([]*Term, len(call.Common().Args))
			for i, av := range call.Common().Args {
				args[i] = ctx.Term(av)
			}
			ch := ctx.child(h, call, args)
			ch.depth = 0
			stack[h] = true
			walk(ch, h, pc, keyPrefix+ck.P.siteKey(ci)+">", depth+1, stack)
			delete(stack, h)
		}
	}
	walk(ck.P.NewCtx(root), root, FTrue, "", 0, map[*ssa.Function]bool{root: true})
	return out
}

// bodyInstrs visits every instruction of root's extended body (see bodyCalls).
func (ck *Check) bodyInstrs(root *ssa.Function, visit func(ctx *Ctx, fn *ssa.Function, in ssa.Instruction)) {
	ck.bodyInstrsPC(root, func(ctx *Ctx, fn *ssa.Function, in ssa.Instruction, _ *Formula) { visit(ctx, fn, in) })
}

// bodyInstrsPC: as bodyInstrs, also handing the visitor the conjunction of the path conditions of
// the call sites leading into the current helper (FTrue in root itself).
func (ck *Check) bodyInstrsPC(root *ssa.Function, visit func(ctx *Ctx, fn *ssa.Function, in ssa.Instruction, prefix *Formula)) {
	_, anchors := ck.actionAnchors()
	var walk func(ctx *Ctx, fn *ssa.Function, depth int, stack map[*ssa.Function]bool, prefix *Formula)
	walk = func(ctx *Ctx, fn *ssa.Function, depth int, stack map[*ssa.Function]bool, prefix *Formula) {
		for _, b := range fn.Blocks {
			for _, in := range b.Instrs {
				visit(ctx, fn, in, prefix)
				call, isCall := in.(*ssa.Call)
				if !isCall {
					continue
				}
				h := call.Common().StaticCallee()
				if h == nil || anchors[h] || !ck.P.inRepo(h) || h.Blocks == nil || depth >= 3 || stack[h] {
					continue
				}
				args := make([]*Term, len(call.Common().Args))
				for i, av := range call.Common().Args {
					args[i] = ctx.Term(av)
				}
				ch := ctx.child(h, call, args)
				ch.depth = 0
				stack[h] = true
				walk(ch, h, depth+1, stack, And(prefix, ctx.PC(call)))
				delete(stack, h)
			}
		}
	}
	walk(ck.P.NewCtx(root), root, 0, map[*ssa.Function]bool{root: true}, FTrue)
}

// expandBoolHelpers: a boolean result of a small loop-free repo helper (`requested, pending :=
// g.pendingScaleUp(…)`) is read through the helper's returns.
func (ck *Check) expandBoolHelpers(ctx *Ctx, f *Formula) *Formula {
	a := ck.A
	return f.Subst(func(at *Term) *Formula {
		if at.Kind != "extract" || len(at.Args) != 1 || at.Args[0].Kind != "call" {
			return nil
		}
		ct := at.Args[0]
		h := ct.Fn
		if h == nil || !ck.P.inRepo(h) || h.Blocks == nil || len(h.Blocks) > 12 || infoOf(h).hasLoop || h == a.Locked {
			return nil
		}
		idx := 0
		fmt.Sscan(at.Name, &idx)
		if idx >= h.Signature.Results().Len() || !isBool(h.Signature.Results().At(idx).Type()) {
			return nil
		}
		ch := ctx.childTerm(ct)
		ch.depth = 0
		return ch.returnFormula(idx)
	})
}

func (ck *Check) isLockedCall(t *Term, g *Term) bool {
	if !isCallTo(t, ck.A.Locked) || len(t.Args) != 1 {
		return false
	}
	recv := t.Args[0]
	if recv.Kind == "unop" && recv.Name == "&" {
		recv = recv.Args[0]
	}
	f := field(ck.A.TState, "scaleUpLock")
	return recv.Kind == "field" && recv.Obj == f && recv.Args[0].Key() == g.Key()
}

func checkC02(ck *Check) {
	a := ck.A
	if !ck.need("C02.R1", map[string]interface{}{"scan": a.Scan, "lock": a.Lock, "locked": a.Locked, "ScaleUp": a.ScaleUp, "cloud step": a.CloudStep}) {
		return
	}
	// R1
	g := ck.groupTerm(a.Scan)
	acts := ck.scanActs()
	for _, ac := range acts {
		ci, pc, key := ac.Call, ac.PC, ac.Key
		if sat, err := Satisfiable(pc); err == nil && !sat {
			ck.ok("C02.R1", key, ck.P.instrPos(ci), funcID(a.Scan), "PC ⇒ ¬locked(g)", "unreachable call (path condition unsatisfiable)")
			continue
		}
		var found *Term
		for _, at := range pc.Atoms() {
			if ck.isLockedCall(at, g) {
				if okv, _, _ := Entails(pc, Not(Atom(at))); okv {
					found = at
				}
			}
		}
		if found == nil {
			// the test asked through a helper of the scan body (`requested, pending := g.pendingScaleUp(…)`):
			// its boolean result is read through its returns — what it logs on the way does not matter
			// for which test was evaluated
			pc2 := ck.expandBoolHelpers(ac.Ctx, pc)
			for _, at := range pc2.Atoms() {
				if ck.isLockedCall(at, g) {
					if okv, _, _ := Entails(pc2, Not(Atom(at))); okv {
						found = at
					}
				}
			}
		}
		ck.cond(found != nil, "C02.R1", key, ck.P.instrPos(ci), funcID(a.Scan), "PC ⇒ ¬locked(g): a locked() call on this group's scale lock was evaluated on the path and was false", pc.String(),
			"a call that can reach an action site (taint / untaint / cloud resize / delete) is not dominated by a false scale-lock test, so it runs inside the cool-down")
	}
	ck.floor("C02.R1", "ACT calls in the scan body", len(acts), 3)

	ck.armingRule("C02.R2")

	ck.lockBodies("C02.R3")
	ck.lockConstruction("C02.R4")
	ck.armedLast("C02.R6")
	ck.statePersistence("C02.R7")
	// R8: an accepted increase is reported as accepted in every frame of the cloud step
	for i := len(a.CloudStepChain) - 1; i >= 0; i-- {
		cs := a.CloudStepChain[i]
		if i == len(a.CloudStepChain)-1 {
			for _, s := range a.A {
				if s.Class == "A-CLOUD-INC" && s.Fn == cs {
					if call, ok := s.Call.(*ssa.Call); ok {
						ck.acceptedReported("C02.R8", cs, call, "IncreaseSize")
					}
				}
			}
			continue
		}
		for _, ci := range callsTo(cs, a.CloudStepChain[i+1]) {
			if call, ok := ci.(*ssa.Call); ok {
				ck.acceptedReported("C02.R8", cs, call, a.CloudStepChain[i+1].Name())
			}
		}
	}
	// R3 (continued): nothing else releases or forges the lock
	{
		var bad []string
		if a.Unlock != nil {
			for _, c := range ck.P.callers[a.Unlock] {
				if c != a.Locked {
					bad = append(bad, funcID(c))
				}
			}
		}
		unlockID := "(merged into locked)"
		if a.Unlock != nil {
			unlockID = funcID(a.Unlock)
		}
		ck.cond(len(bad) == 0, "C02.R3", "unlock/callers", "", unlockID, "unlock() is called only from locked() (after the cool-down elapsed)", strings.Join(bad, ", "), "the lock can be released inside the cool-down by "+strings.Join(bad, ", "))
		fIsLocked := field(a.TLock, "isLocked")
		n := 0
		for _, fn := range ck.P.Funcs {
			for _, b := range fn.Blocks {
				for _, in := range b.Instrs {
					if st, ok := in.(*ssa.Store); ok && fieldOfAddr(st.Addr) == fIsLocked && fn != a.Lock && fn != a.Unlock && !(a.Unlock == nil && fn == a.Locked) {
						n++
						ck.fail("C02.R3", funcID(fn)+"/isLocked-store", ck.P.instrPos(st), funcID(fn), "isLocked is written only by lock() and unlock()", "", "the lock state is changed behind the lock's back")
					}
				}
			}
		}
		// whole-lock overwrites (nodeGroup.scaleUpLock = scaleLock{…}) outside construction
		fLock := field(a.TState, "scaleUpLock")
		for _, fn := range ck.P.Funcs {
			for _, b := range fn.Blocks {
				for _, in := range b.Instrs {
					if st, ok := in.(*ssa.Store); ok && fieldOfAddr(st.Addr) == fLock {
						// initialising the lock of a state object under construction (a fresh
						// allocation of this function) is construction, wherever it is written
						if fa, ok := st.Addr.(*ssa.FieldAddr); ok {
							if _, fresh := fa.X.(*ssa.Alloc); fresh {
								continue
							}
						}
						ck.fail("C02.R3", funcID(fn)+"/lock-overwrite", ck.P.instrPos(st), funcID(fn), "a group's scale lock is never replaced after construction", "", "replacing the lock value resets the cool-down")
					}
				}
			}
		}
	}
}

// armedLast (C02.R6): once a call that can arm the scale lock has run, the same scan of the group
// performs no further action: no call that can reach an action site is reachable, in the control
// flow of any function of the scan body, from a call that can reach lock().
func (ck *Check) armedLast(rule string) {
	a := ck.A
	reach := ck.P.reachCut([]*ssa.Function{a.Scan}, nil)
	var fns []*ssa.Function
	for fn := range reach {
		if ck.P.inRepo(fn) && fn.Blocks != nil {
			fns = append(fns, fn)
		}
	}
	sort.Slice(fns, func(i, j int) bool { return funcID(fns[i]) < funcID(fns[j]) })
	actFns := map[*ssa.Function]bool{}
	actSite := map[ssa.Instruction]bool{}
	for _, s := range a.A {
		if s.Class != "A-CLOUD-DEC" {
			actFns[s.Fn] = true
			actSite[s.Call] = true
		}
	}
	reachOf := map[*ssa.Function]map[*ssa.Function]bool{}
	rc := func(g *ssa.Function) map[*ssa.Function]bool {
		if r, ok := reachOf[g]; ok {
			return r
		}
		r := ck.P.reachCut([]*ssa.Function{g}, nil)
		reachOf[g] = r
		return r
	}
	arms := func(ci ssa.CallInstruction) bool {
		for _, g := range ck.P.calleesOf(ci) {
			if g == a.Lock || rc(g)[a.Lock] {
				return true
			}
		}
		return false
	}
	acts := func(ci ssa.CallInstruction) bool {
		if actSite[ci] {
			return true
		}
		for _, g := range ck.P.calleesOf(ci) {
			r := rc(g)
			for f := range actFns {
				if r[f] {
					return true
				}
			}
		}
		return false
	}
	nArm := 0
	for _, fn := range fns {
		calls := callsIn(fn, nil)
		ctx := ck.P.NewCtx(fn)
		ord := 0
		for _, e := range calls {
			if !arms(e) {
				continue
			}
			nArm++
			key := fmt.Sprintf("%s/arming#%d:%s", funcID(fn), ord, calleeName(e))
			ord++
			var after []string
			for _, d := range calls {
				if !acts(d) {
					continue
				}
				if sat, err := Satisfiable(ctx.PC(d)); err == nil && !sat {
					continue
				}
				if reachesWithout(e, d, func(ssa.Instruction) bool { return false }) {
					after = append(after, calleeName(d)+" at "+ck.P.instrPos(d))
				}
			}
			ck.cond(len(after) == 0, rule, key, ck.P.instrPos(e), funcID(fn), "no call that can reach an action site follows, in the same scan of the group, a call that can arm the scale lock", "",
				"after the cloud provider accepted a scale-up (lock armed) the scan goes on to act on the group: "+strings.Join(after, ", "))
		}
	}
	ck.floor(rule, "calls in the scan body that can arm the lock", nArm, 1)
}

// armingRule (C02.R2, also C18.R5): the lock is armed only after the cloud step ran and returned
// no error, on this group's own lock, after the cloud step; every return after a successful cloud
// increase has passed through lock(); lock() has no other caller.
func (ck *Check) armingRule(rule string) {
	a := ck.A
	fn := a.ScaleUp
	sctx := ck.P.NewCtx(fn)
	sg := ck.groupTerm(fn)
	lockCalls := callsTo(fn, a.Lock)
	cloudCalls := callsTo(fn, a.CloudStep)
	if len(lockCalls) == 0 || len(cloudCalls) != 1 {
		ck.fail(rule, funcID(fn)+"/arming", "", funcID(fn), "ScaleUp calls the cloud step once and arms the lock", fmt.Sprintf("%d lock calls, %d cloud-step calls", len(lockCalls), len(cloudCalls)), "the lock is never armed after a cloud increase (or the cloud step is not unique)")
	} else {
		cloud := cloudCalls[0].(*ssa.Call)
		errNil := cmpFormula(token.EQL, &Term{Kind: "extract", Name: "1", Args: []*Term{sctx.Term(cloud)}}, &Term{Kind: "const", Name: "nil"})
		// find the exact atom used in the function (error-typed nil const)
		for _, b := range fn.Blocks {
			for _, at := range sctx.BlockPC(b).Atoms() {
				if at.Kind == "cmp" && at.Name == "==" && hasConstStr(at, "nil") {
					for _, x := range at.Args {
						if isExtractOf(x, 1, func(t *Term) bool { return t.Key() == sctx.Term(cloud).Key() }) {
							errNil = Atom(at)
						}
					}
				}
			}
		}
		for _, lc := range lockCalls {
			key := ck.P.siteKey(lc)
			ck.entails(rule, key, lc, sctx.PC(lc), And(sctx.PC(cloud), errNil), "PC(lock) ⇒ the cloud step ran and returned err == nil")
			recv := sctx.Term(lc.Common().Args[0])
			if recv.Kind == "unop" {
				recv = recv.Args[0]
			}
			okRecv := sg != nil && recv.Kind == "field" && recv.Obj == field(a.TState, "scaleUpLock") && recv.Args[0].Key() == sg.Key()
			ck.cond(okRecv, rule, key+"/receiver", ck.P.instrPos(lc), funcID(fn), "the armed lock is this group's scaleUpLock", recv.String(), "")
			ck.cond(dominatesInstr(cloud, lc), rule, key+"/order", ck.P.instrPos(lc), funcID(fn), "the cloud step precedes lock()", "", "the lock is armed before the cloud provider accepted the request")
		}
		// must-pass-through: every return reached after a successful cloud step has passed lock()
		lockPC := FFalse
		for _, lc := range lockCalls {
			lockPC = Or(lockPC, sctx.PC(lc))
		}
		for _, b := range fn.Blocks {
			r, ok := b.Instrs[len(b.Instrs)-1].(*ssa.Return)
			if !ok {
				continue
			}
			pre := And(sctx.BlockPC(b), sctx.PC(cloud), errNil)
			if sat, _ := Satisfiable(pre); !sat {
				continue
			}
			ck.entails(rule, fmt.Sprintf("%s/return@block%d/armed", funcID(fn), b.Index), r, pre, lockPC, "every return after a successful cloud increase has passed through lock()")
		}
	}
	var bad []string
	for _, c := range ck.P.callers[a.Lock] {
		if c != a.ScaleUp {
			bad = append(bad, funcID(c))
		}
	}
	ck.cond(len(bad) == 0, rule, "lock/callers", "", funcID(a.Lock), "lock() is called only by ScaleUp", strings.Join(bad, ", "), "the lock is armed from "+strings.Join(bad, ", "))
}

// denotesNow: t is a call of time.Now, or of a repo function every feasible return of which yields
// such a call (a clock accessor whose injection seam nothing fills).
func (ck *Check) denotesNow(t *Term, depth int) bool {
	if t == nil || t.Kind != "call" || depth > 2 {
		return false
	}
	if t.Name == "time.Now" {
		return true
	}
	h := t.Fn
	if h == nil || !ck.P.inRepo(h) || h.Blocks == nil || infoOf(h).hasLoop || h.Signature.Results().Len() != 1 {
		return false
	}
	hctx := ck.P.NewCtx(h)
	n := 0
	for _, b := range h.Blocks {
		r, ok := b.Instrs[len(b.Instrs)-1].(*ssa.Return)
		if !ok {
			continue
		}
		if sat, err := Satisfiable(hctx.BlockPC(b)); err == nil && !sat {
			continue
		}
		n++
		if !ck.denotesNow(hctx.Term(r.Results[0]), depth+1) {
			return false
		}
	}
	return n > 0
}

// lockBodies: C02.R3 and R5.
func (ck *Check) lockBodies(rule string) {
	a := ck.A
	fIsLocked := field(a.TLock, "isLocked")
	fLockTime := field(a.TLock, "lockTime")
	fMin := field(a.TLock, "minimumLockDuration")
	if fIsLocked == nil || fLockTime == nil || fMin == nil {
		ck.lost(rule, "scaleLock fields", "isLocked / lockTime / minimumLockDuration")
		return
	}
	// lock(): unconditional stores isLocked ← true, lockTime ← time.Now()
	{
		fn := a.Lock
		ctx := ck.P.NewCtx(fn)
		var gotLocked, gotTime bool
		var clock string
		for _, b := range fn.Blocks {
			for _, in := range b.Instrs {
				st, ok := in.(*ssa.Store)
				if !ok {
					continue
				}
				f := fieldOfAddr(st.Addr)
				uncond, _, _ := Entails(FTrue, ctx.PC(st))
				if f == fIsLocked {
					k, isC := st.Val.(*ssa.Const)
					if isC && k.Value != nil && k.Value.String() == "true" && uncond {
						gotLocked = true
					} else {
						gotLocked = false
						ck.fail(rule, "lock/isLocked-store", ck.P.instrPos(st), funcID(fn), "lock() sets isLocked ← true on every path", st.String(), "")
					}
				}
				if f == fLockTime {
					t := ctx.Term(st.Val)
					if ck.denotesNow(t, 0) && uncond {
						gotTime = true
						clock = "time"
					}
				}
			}
		}
		ck.cond(gotLocked && gotTime, rule, "lock/body", ck.P.position(fn.Pos()), funcID(fn), "lock() stores isLocked ← true and lockTime ← time.Now() unconditionally", fmt.Sprintf("isLocked=%v lockTime=%v", gotLocked, gotTime), "arming does not (always) start the cool-down timer")
		_ = clock
	}
	// unlock(): post-state isLocked = false on all paths
	if a.Unlock != nil {
		fn := a.Unlock
		ctx := ck.P.NewCtx(fn)
		recv := paramTerm(fn.Params[0])
		post, _, err := ctx.boolFieldExit(recv, fIsLocked)
		if err != nil {
			ck.undecided(rule, "unlock/post-state", ck.P.position(fn.Pos()), funcID(fn), "after unlock() isLocked is false on every path", err.Error())
		} else {
			okv, why, e2 := Entails(post, FFalse)
			if e2 != nil {
				ck.undecided(rule, "unlock/post-state", ck.P.position(fn.Pos()), funcID(fn), "after unlock() isLocked is false on every path", e2.Error())
			} else {
				ck.cond(okv, rule, "unlock/post-state", ck.P.position(fn.Pos()), funcID(fn), "after unlock() isLocked is false on every path (value of the field at exit, as a formula over its entry value and the branches, is ⊥)", "isLocked at exit = "+post.String(), "isLocked can still be true after unlock(): "+why)
			}
		}
	}
	// locked(): ret ⇒ Since(lockTime) < minimumLockDuration
	{
		fn := a.Locked
		ctx := ck.P.NewCtx(fn)
		recv := paramTerm(fn.Params[0])
		var elapsed *Term
		for _, b := range fn.Blocks {
			for _, at := range ctx.BlockPC(b).Atoms() {
				if at.Kind == "cmp" && at.Name == "<" {
					x, y := ctx.seeThrough(at.Args[0]), at.Args[1]
					isLockTime := func(t *Term) bool {
						return t.Kind == "field" && t.Obj == fLockTime && len(t.Args) == 1 && t.Args[0].Key() == recv.Key()
					}
					since := x.Kind == "call" && x.Name == "time.Since" && len(x.Args) == 1 && isLockTime(x.Args[0])
					// … or now.Sub(lockTime), now read through the lock's clock accessor
					if !since && x.Kind == "call" && strings.HasSuffix(x.Name, "(time.Time).Sub") && len(x.Args) == 2 {
						since = ck.denotesNow(x.Args[0], 0) && isLockTime(x.Args[1])
					}
					if since && y.Kind == "field" && y.Obj == fMin && y.Args[0].Key() == recv.Key() {
						elapsed = at
					}
				}
			}
		}
		if elapsed == nil {
			ck.fail(rule, "locked/elapsed-test", ck.P.position(fn.Pos()), funcID(fn), "locked() tests time.Since(lockTime) < minimumLockDuration", "not found", "the lock's release is not tied to the configured cool-down")
		} else {
			okv := true
			var why []string
			var unlockCalls []ssa.CallInstruction
			if a.Unlock != nil {
				unlockCalls = callsTo(fn, a.Unlock)
			}
			for _, b := range fn.Blocks {
				r, ok := b.Instrs[len(b.Instrs)-1].(*ssa.Return)
				if !ok {
					continue
				}
				pc := ctx.BlockPC(b)
				switch v := r.Results[0].(type) {
				case *ssa.Const:
					if v.Value.String() == "true" {
						if imp, _, _ := Entails(pc, Atom(elapsed)); !imp {
							okv = false
							why = append(why, "returns true outside the elapsed < cool-down window: "+pc.String())
						}
					}
				default:
					// must be a load of isLocked after unlock() with no store of true in between
					t := ctx.Term(v)
					isLoad := t.Kind == "field" && t.Obj == fIsLocked && t.Args[0].Key() == recv.Key()
					after := false
					if ld, ok := v.(ssa.Instruction); ok {
						for _, uc := range unlockCalls {
							if dominatesInstr(uc, ld) {
								after = true
							}
						}
					}
					if imp, _, _ := Entails(pc, Atom(elapsed)); imp {
						continue // any value is fine inside the window
					}
					if !(isLoad && after) {
						okv = false
						why = append(why, "outside the window locked() returns "+t.String()+" which is not known to be false (no unlock() before it)")
					}
				}
			}
			// locked() itself may only clear the flag, and only outside the window (unlock merged in)
			for _, b := range fn.Blocks {
				for _, in := range b.Instrs {
					if st, ok := in.(*ssa.Store); ok && fieldOfAddr(st.Addr) == fIsLocked {
						k, isC := st.Val.(*ssa.Const)
						clears := isC && k.Value != nil && k.Value.String() == "false"
						outside, _, _ := Entails(ctx.PC(st), Not(Atom(elapsed)))
						if !(clears && outside) {
							okv = false
							why = append(why, "locked() writes isLocked other than clearing it after the cool-down")
						}
					}
				}
			}
			if a.Unlock == nil {
				// without a separate unlock(): outside the window the flag is false when locked() returns
				post, _, err := ctx.boolFieldExit(recv, fIsLocked)
				if err != nil {
					okv = false
					why = append(why, "exit state of isLocked not determined: "+err.Error())
				} else if imp, _, _ := Entails(post, Atom(elapsed)); !imp {
					okv = false
					why = append(why, "after the cool-down locked() can return with the flag still set")
				}
			}
			ck.cond(okv, rule, "locked/release", ck.P.position(fn.Pos()), funcID(fn), "locked() ⇒ time.Since(lockTime) < minimumLockDuration (the lock cannot outlive its cool-down)", ctx.returnFormula(0).String(), strings.Join(why, "; "))
			ck.ok("C02.R5", "clock", "", funcID(fn), "lockTime is written from time.Now and compared with time.Since (same clock)", "time.Now / time.Since")
		}
	}
}

// lockConstruction: C02.R4
func (ck *Check) lockConstruction(rule string) {
	a := ck.A
	fMin := field(a.TLock, "minimumLockDuration")
	fLockTime := field(a.TLock, "lockTime")
	fOpts := field(a.TState, "Opts")
	coolName := "ScaleUpCoolDownPeriodDuration"
	n := 0
	for _, fn := range ck.P.Funcs {
		ctx := ck.P.NewCtx(fn)
		for _, b := range fn.Blocks {
			for _, in := range b.Instrs {
				st, ok := in.(*ssa.Store)
				if !ok {
					continue
				}
				f := fieldOfAddr(st.Addr)
				switch f {
				case fLockTime:
					if fn != a.Lock {
						ck.fail(rule, funcID(fn)+"/lockTime-store", ck.P.instrPos(st), funcID(fn), "lockTime is stored only by lock()", "", "the cool-down start can be moved")
					}
				case fMin:
					n++
					key := fmt.Sprintf("%s/minimumLockDuration-store", funcID(fn))
					// the builds this store takes part in: the storing function itself, or — when the
					// value is a parameter of a constructor — every call of that constructor
					type build struct {
						fn     *ssa.Function
						ctx    *Ctx
						v      *Term
						holder ssa.Value
						at     ssa.Instruction
					}
					var builds []build
					v := ctx.Term(st.Val)
					if pi := paramIndex(fn, v); pi >= 0 {
						for _, caller := range ck.P.callers[fn] {
							cctx := ck.P.NewCtx(caller)
							for _, ci := range callsIn(caller, func(ci ssa.CallInstruction) bool { return ci.Common().StaticCallee() == fn }) {
								if cv, ok := ci.(*ssa.Call); ok && pi < len(cv.Call.Args) {
									builds = append(builds, build{caller, cctx, cctx.Term(cv.Call.Args[pi]), cv, cv})
								}
							}
						}
						if len(builds) == 0 {
							ck.fail(rule, key, ck.P.instrPos(st), funcID(fn), "minimumLockDuration ← <options>.ScaleUpCoolDownPeriodDuration()", v.String(), "the lock constructor has no resolved call site")
							continue
						}
					} else {
						builds = []build{{fn, ctx, v, st.Addr.(*ssa.FieldAddr).X, st}}
					}
					for _, bd := range builds {
						v := bd.v
						okCall := v.Kind == "call" && v.Fn != nil && v.Fn.Name() == coolName && len(v.Args) == 1
						if !okCall {
							ck.fail(rule, key, ck.P.instrPos(bd.at), funcID(bd.fn), "minimumLockDuration ← <options>.ScaleUpCoolDownPeriodDuration()", v.String(), "the lock is configured with something other than scale_up_cool_down_period")
							continue
						}
						// the same options value becomes .Opts of the enclosing NodeGroupState literal
						stateBase := lockStateBase(bd.holder, field(a.TState, "scaleUpLock"), 0)
						var optsVal *Term
						if stateBase != nil {
							for _, r := range *stateBase.Referrers() {
								if fa, ok := r.(*ssa.FieldAddr); ok && fieldOfAddr(fa) == fOpts {
									for _, rr := range *fa.Referrers() {
										if s2, ok := rr.(*ssa.Store); ok && s2.Addr == ssa.Value(fa) {
											optsVal = bd.ctx.Term(s2.Val)
										}
									}
								}
							}
						}
						recv := v.Args[0]
						same := optsVal != nil && ((optsVal.Kind == "deref" && optsVal.Args[0].Key() == recv.Key()) || (recv.Kind == "unop" && recv.Name == "&" && recv.Args[0].Key() == optsVal.Key()))
						ck.cond(same, rule, key, ck.P.instrPos(bd.at), funcID(bd.fn), "the cool-down comes from the same options value that becomes the group's Opts", fmt.Sprintf("receiver %s, Opts ← %v", recv, optsVal), "the lock of one group is timed by another configuration")
					}
				}
			}
		}
	}
	ck.floor(rule, "scaleLock construction sites", n, 1)
}

// ---------------------------------------------------------------------------------------------
// C03

func checkC03(ck *Check) {
	a := ck.A
	if !ck.need("C03.R1", map[string]interface{}{"scan": a.Scan, "taint clamp": a.TaintClamp, "taint loop": a.TaintLoop, "ScaleDown": a.ScaleDown, "ScaleUp": a.ScaleUp}) {
		return
	}
	// R1 clamp
	{
		fn := a.TaintClamp
		ctx := ck.P.NewCtx(fn)
		g := ck.groupTerm(fn)
		calls := callsTo(fn, a.TaintLoop)
		for _, ci := range calls {
			key := ck.P.siteKey(ci)
			args := ci.Common().Args
			// parameters: receiver, nodes, group, n
			var nodes, nArg ssa.Value
			for _, av := range args {
				if _, ok := av.Type().(*types.Slice); ok {
					nodes = av
				}
				if isInteger(av.Type()) {
					nArg = av
				}
			}
			if nodes == nil || nArg == nil || g == nil {
				ck.undecided("C03.R1", key, ck.P.instrPos(ci), funcID(fn), "taint loop called with (node list, group, count)", "argument shape not recognised")
				continue
			}
			nt := ctx.Term(nodes)
			ck.cond(ck.isScaleOptsField(nt, "untaintedNodes"), "C03.R1", key+"/list", ck.P.instrPos(ci), funcID(fn), "the taint loop is given opts.untaintedNodes", nt.String(), "the clamp and the loop work on different lists")
			minT := ck.optTerm(g, "min_nodes")
			fact := LinFact{A: &Term{Kind: "binop", Name: "+", Args: []*Term{ctx.Term(nArg), minT}}, B: lenOf("len", nt), K: 0, Text: "n + min_nodes ≤ len(untainted)"}
			okv, why, err := ctx.EntailsLinear(ctx.PC(ci), []LinFact{fact})
			if err != nil {
				ck.undecided("C03.R1", key, ck.P.instrPos(ci), funcID(fn), fact.Text, err.Error())
				continue
			}
			ck.cond(okv, "C03.R1", key, ck.P.instrPos(ci), funcID(fn), "on every path to the taint loop: n + min_nodes ≤ len(opts.untaintedNodes)", ctx.PC(ci).String(), why)
		}
		ck.floor("C03.R1", "taint loop call sites", len(calls), 1)
	}
	// R2 bounded accumulator over A-TAINT
	ck.boundedEffectLoop("C03.R2", a.TaintLoop, "A-TAINT")
	// R3 targets
	ck.actionTargets("C03.R3")
	ck.nodeListImmutability("C03.R3")
	ck.classification("C03.R3", map[int]string{0: "untainted"})
	// R4 recovery branch
	ck.recoveryBranch("C03.R4")
	ck.restoreTotality("C03.R7")
	// R8 … and "requesting the rest" is not skipped because an untaint write failed (decided as C07.R12)
	ck.untaintNeverFails("C03.R8")
	// R5 auto discovery
	ck.autoDiscovery("C03.R5")
	// R6 a node counts as tainted only when the server confirmed the write
	ck.writeConfirmed("C03.R6", a.AddTaint)
}

// effAction is an action site as seen from the loop function: the action call itself, or the call
// of a thin wrapper around it (the loop body extracted into a helper). Success is the formula, in
// the loop function's vocabulary, under which the action succeeded.
type effAction struct {
	Call    *ssa.Call // in fn
	Inner   *ssa.Call // the action call proper
	Wrapper *ssa.Function
	NodeArg ssa.Value // the value in fn that becomes the action's node argument
}

func (ck *Check) effActionSite(cls string, fn *ssa.Function) *effAction {
	for i := range ck.A.A {
		s := ck.A.A[i]
		if s.Class != cls {
			continue
		}
		inner, ok := s.Call.(*ssa.Call)
		if !ok {
			continue
		}
		if s.Fn == fn {
			return &effAction{Call: inner, Inner: inner, NodeArg: inner.Common().Args[0]}
		}
		if c, ok := ck.A.thinWrapper(s); ok && c == fn {
			for _, ci := range callsTo(fn, s.Fn) {
				call, ok := ci.(*ssa.Call)
				if !ok {
					continue
				}
				ea := &effAction{Call: call, Inner: inner, Wrapper: s.Fn}
				if p, ok := inner.Common().Args[0].(*ssa.Parameter); ok {
					for pi, q := range s.Fn.Params {
						if q == p && pi < len(call.Common().Args) {
							ea.NodeArg = call.Common().Args[pi]
						}
					}
				}
				return ea
			}
		}
	}
	return nil
}

// wrapperSuccess: for a wrapped action, checks that the wrapper's (last) result tells the truth
// about the action — after the action call it returns true / a nil error exactly when the action's
// error is nil — and returns the success formula of the wrapper call in ctx's vocabulary.
func (ck *Check) wrapperSuccess(rule, key string, ctx *Ctx, ea *effAction) *Formula {
	h := ea.Wrapper
	hctx := ck.P.NewCtx(h)
	it := hctx.Term(ea.Inner)
	errNil := cmpFormula(token.EQL, &Term{Kind: "extract", Name: "1", Args: []*Term{it}}, &Term{Kind: "const", Name: "nil"})
	res := h.Signature.Results()
	if res.Len() == 0 {
		ck.fail(rule, key+"/wrapper", ck.P.instrPos(ea.Call), funcID(h), "the helper around the write reports whether it succeeded", "no result", "successes cannot be counted")
		return nil
	}
	last := res.Len() - 1
	isB, isE := isBool(res.At(last).Type()), isErrorType(res.At(last).Type())
	if !isB && !isE {
		ck.fail(rule, key+"/wrapper", ck.P.instrPos(ea.Call), funcID(h), "the helper around the write reports whether it succeeded (bool or error)", res.At(last).Type().String(), "")
		return nil
	}
	okv := true
	var why []string
	for _, b := range h.Blocks {
		r, isRet := b.Instrs[len(b.Instrs)-1].(*ssa.Return)
		if !isRet || !(ea.Inner.Block().Dominates(b)) {
			continue
		}
		pc := hctx.BlockPC(b)
		var succ *Formula // the formula of "this return reports success"
		if isB {
			succ = hctx.Formula(r.Results[last])
		} else if f, ok := hctx.nilDecided(r.Results[last], 0); ok {
			succ = f
		} else {
			succ = cmpFormula(token.EQL, hctx.Term(r.Results[last]), &Term{Kind: "const", Name: "nil"})
		}
		if eq, _, _ := Equivalent(And(pc, succ), And(pc, errNil)); !eq {
			okv = false
			why = append(why, "at "+ck.P.instrPos(r)+" the reported outcome differs from the write's error")
		}
	}
	ck.cond(okv, rule, key+"/wrapper", ck.P.instrPos(ea.Inner), funcID(h), "after the write the helper reports success exactly when the write's error is nil", "", strings.Join(why, "; "))
	// success of the wrapper call as seen by the caller
	if isB {
		if last == 0 {
			return ctx.Formula(ea.Call)
		}
	} else if last == 0 {
		return cmpFormula(token.EQL, ctx.Term(ea.Call), &Term{Kind: "const", Name: "nil"})
	}
	for _, r := range *ea.Call.Referrers() {
		if ex, ok := r.(*ssa.Extract); ok && ex.Index == last {
			if isB {
				return ctx.Formula(ex)
			}
			return cmpFormula(token.EQL, ctx.Term(ex), &Term{Kind: "const", Name: "nil"})
		}
	}
	return nil
}

// boundedEffectLoop: fn's effect call of class cls sits in a bounded-accumulator loop bounded by
// fn's integer parameter; the accumulator grows on the effect's success edge.
func (ck *Check) boundedEffectLoop(rule string, fn *ssa.Function, cls string) *BoundedAcc {
	ea := ck.effActionSite(cls, fn)
	if ea == nil {
		ck.lost(rule, cls+" site", "no such action site in "+funcID(fn))
		return nil
	}
	call := ea.Call
	key := ck.P.siteKey(ea.Inner)
	bas := boundedAccumulators(fn)
	var ba *BoundedAcc
	for _, b := range bas {
		if b.Loop.Blocks[call.Block()] && innermostLoop(fn, call.Block()) == b.Loop {
			ba = b
		}
	}
	if ba == nil {
		ck.fail(rule, key+"/loop", ck.P.instrPos(call), funcID(fn), "the write sits directly in a range loop that exits, before the write, once len(acc) ≥ n", "no bounded-accumulator loop recognised around the call",
			"the number of writes is not bounded by the requested count (loop bound changed, effect in a nested loop, or accumulator not tied to the exit test)")
		return nil
	}
	// bound is the integer parameter of fn
	_, isParam := ba.Bound.(*ssa.Parameter)
	ck.cond(isParam, rule, key+"/bound", ck.P.instrPos(ba.Test), funcID(fn), "the loop bound is the function's count parameter", ba.Bound.String(), "")
	// the exit test precedes the effect
	ck.cond(dominatesInstr(ba.Test, call), rule, key+"/test-first", ck.P.instrPos(ba.Test), funcID(fn), "the len(acc) ≥ n test precedes the write in each iteration", "", "a write can happen after the count was already reached")
	// success ⇒ append
	ctx := ck.P.NewCtx(fn)
	ct := ctx.Term(call)
	var errNil *Formula
	if ea.Wrapper != nil {
		errNil = ck.wrapperSuccess(rule, key, ctx, ea)
		if errNil == nil {
			return ba
		}
	}
	for b := range ba.Loop.Blocks {
		if ea.Wrapper != nil {
			break
		}
		for _, at := range ctx.BlockPC(b).Atoms() {
			if at.Kind == "cmp" && at.Name == "==" && hasConstStr(at, "nil") {
				for _, x := range at.Args {
					if isExtractOf(x, 1, func(t *Term) bool { return t.Key() == ct.Key() }) {
						errNil = Atom(at)
					}
				}
			}
		}
	}
	if errNil == nil {
		ck.fail(rule, key+"/success-edge", ck.P.instrPos(call), funcID(fn), "the write's error result is tested", "no err == nil test", "successes are not counted")
		return ba
	}
	grown := FFalse
	for _, ap := range ba.Acc.Appends {
		grown = Or(grown, ctx.PC(ap.Call))
	}
	ck.entails(rule, key+"/success-counted", call, And(ctx.PC(call), errNil), grown, "every successful write appends to the accumulator that bounds the loop")
	// the loop's only other exit is exhaustion; a failed write continues
	okExits := true
	for _, e := range ba.Loop.Exits {
		if !ba.Loop.exhaustionExit(e[0]) && e[0] != ba.Test.Block() {
			okExits = false
		}
	}
	for b := range ba.Loop.Blocks {
		switch b.Instrs[len(b.Instrs)-1].(type) {
		case *ssa.Return, *ssa.Panic:
			okExits = false
		}
	}
	ck.cond(okExits, rule, key+"/exits", ck.P.instrPos(call), funcID(fn), "the loop ends only by exhaustion or len(acc) ≥ n; a failed write goes on to the next node", "", "the loop stops at the first failed write (or returns early)")
	return ba
}

// recoveryBranch (C03.R4)
func (ck *Check) recoveryBranch(rule string) {
	a := ck.A
	ctx := ck.P.NewCtx(a.Scan)
	g := ck.groupTerm(a.Scan)
	_, lists, ok := ck.scanLists()
	if !ok || lists[0] == nil || g == nil {
		ck.undecided(rule, "scan/lists", "", funcID(a.Scan), "classifier results in the scan body", "not found")
		return
	}
	U := ctx.Term(lists[0])
	minT := ck.optTerm(g, "min_nodes")
	below := cmpFormula(token.LSS, lenOf("len", U), minT)
	reachTaint := func(ci ssa.CallInstruction) bool {
		for _, gf := range ck.P.calleesOf(ci) {
			if ck.P.reachCut([]*ssa.Function{gf}, nil)[a.TaintLoop] {
				return true
			}
		}
		return false
	}
	n := 0
	for _, ac := range ck.scanActs() {
		ci, pc, key := ac.Call, ac.PC, ac.Key
		if reachTaint(ci) {
			n++
			okv, why, err := ctx.EntailsLinear(pc, []LinFact{{A: minT, B: lenOf("len", U), K: 0, Text: "min_nodes ≤ len(untainted)"}})
			if err != nil {
				ck.undecided(rule, key+"/not-below-min", ck.P.instrPos(ci), funcID(a.Scan), "PC ⇒ len(untainted) ≥ min_nodes", err.Error())
			} else {
				ck.cond(okv, rule, key+"/not-below-min", ck.P.instrPos(ci), funcID(a.Scan), "a call that can taint runs only when len(untainted) ≥ min_nodes", pc.String(), why)
			}
		}
		// calls on the below-minimum branch
		if imp, _, _ := Entails(pc, below); imp {
			callee := ci.Common().StaticCallee()
			ck.cond(callee == a.ScaleUp, rule, key+"/recovery-action", ck.P.instrPos(ci), funcID(a.Scan), "below min_nodes the only action is ScaleUp", calleeName(ci), "")
			if callee == a.ScaleUp {
				for _, av := range ci.Common().Args {
					if types.Identical(av.Type(), a.TScaleOpts) {
						t := ac.Ctx.Term(av)
						var delta *Term
						st := a.TScaleOpts.Underlying().(*types.Struct)
						for i := 0; i < st.NumFields(); i++ {
							if st.Field(i) == field(a.TScaleOpts, "nodesDelta") && t.Kind == "struct" {
								delta = t.Args[i]
							}
						}
						want := &Term{Kind: "binop", Name: "-", Args: []*Term{minT, lenOf("len", U)}}
						ck.cond(delta != nil && delta.Key() == want.Key(), rule, key+"/recovery-delta", ck.P.instrPos(ci), funcID(a.Scan), "the recovery scale-up asks for min_nodes − len(untainted)", fmt.Sprint(delta), "")
					}
				}
			}
		}
	}
	ck.floor(rule, "scan-body calls that can reach the taint loop", n, 1)
	// A-TAINT unreachable from ScaleUp
	r := ck.P.reachCut([]*ssa.Function{a.ScaleUp}, nil)
	ck.cond(!r[a.TaintLoop], rule, "ScaleUp/no-taint", "", funcID(a.ScaleUp), "ScaleUp cannot reach the taint write", "", "chain: "+strings.Join(ck.P.chain(a.ScaleUp, a.TaintLoop), " → "))
}

// rebuildFailureStops (C04.R6): the provider the scan reads its target and maximum from was
// refreshed or rebuilt in this RunOnce. The structural part decided here: when the rebuild of the
// provider (CloudProviderBuilder.Build) fails, RunOnce ends — on the failure edge of Build's error
// test no group is scanned and no nil error is returned by the frame holding the call.
func (ck *Check) rebuildFailureStops(rule string) {
	a := ck.A
	n := 0
	seen := map[ssa.Instruction]bool{}
	ck.bodyInstrsPC(a.RunOnce, func(ctx *Ctx, fn *ssa.Function, in ssa.Instruction, prefix *Formula) {
		call, ok := in.(*ssa.Call)
		if !ok || seen[call] || !call.Common().IsInvoke() || call.Common().Method.Name() != "Build" {
			return
		}
		tup, ok := call.Type().(*types.Tuple)
		if !ok || tup.Len() != 2 || !isErrorType(tup.At(1).Type()) {
			return
		}
		seen[call] = true
		n++
		key := ck.P.siteKey(call)
		var errV ssa.Value
		for _, r := range *call.Referrers() {
			if ex, ok := r.(*ssa.Extract); ok && ex.Index == 1 {
				errV = ex
			}
		}
		var fails []*ssa.BasicBlock
		if errV != nil {
			for _, b := range fn.Blocks {
				iff, ok := b.Instrs[len(b.Instrs)-1].(*ssa.If)
				if !ok {
					continue
				}
				bo, ok := iff.Cond.(*ssa.BinOp)
				if !ok || (bo.Op != token.NEQ && bo.Op != token.EQL) {
					continue
				}
				isNil := func(v ssa.Value) bool { k, ok := v.(*ssa.Const); return ok && k.IsNil() }
				if !((bo.X == errV && isNil(bo.Y)) || (bo.Y == errV && isNil(bo.X))) {
					continue
				}
				if bo.Op == token.NEQ {
					fails = append(fails, b.Succs[0])
				} else {
					fails = append(fails, b.Succs[1])
				}
			}
		}
		if len(fails) == 0 {
			ck.fail(rule, key+"/tested", ck.P.instrPos(call), funcID(fn), "the error of the provider rebuild is tested", "no test of Build's error found", "a failed rebuild goes unnoticed and the scan runs on the provider of an earlier scan")
			return
		}
		// blocks that scan a group: the loop of RunOnce around the scan (or its per-group step)
		scanBlocks := map[*ssa.BasicBlock]bool{}
		if fn == a.RunOnce {
			for _, target := range []*ssa.Function{a.Scan, a.GroupStep} {
				if target == nil {
					continue
				}
				for _, ci := range callsTo(fn, target) {
					scanBlocks[ci.Block()] = true
				}
			}
		}
		reach := map[*ssa.BasicBlock]bool{}
		var walk func(b *ssa.BasicBlock)
		walk = func(b *ssa.BasicBlock) {
			if reach[b] {
				return
			}
			reach[b] = true
			for _, s := range b.Succs {
				walk(s)
			}
		}
		for _, b := range fails {
			walk(b)
		}
		var why []string
		pos := ck.P.instrPos(call)
		for b := range reach {
			if scanBlocks[b] {
				why = append(why, "a group scan is reachable after the failed rebuild")
				pos = ck.P.instrPos(b.Instrs[0])
			}
			if r, ok := b.Instrs[len(b.Instrs)-1].(*ssa.Return); ok {
				if len(r.Results) == 0 {
					if fn != a.RunOnce {
						why = append(why, "the helper returns without reporting the failed rebuild")
					}
					continue
				}
				last := r.Results[len(r.Results)-1]
				if k, isC := last.(*ssa.Const); isC && k.IsNil() && isErrorType(last.Type()) {
					why = append(why, "a nil error is returned after the failed rebuild")
					pos = ck.P.instrPos(r)
				}
			}
		}
		sort.Strings(why)
		ck.cond(len(why) == 0, rule, key+"/failure-stops", pos, funcID(fn), "after a failed rebuild of the cloud provider no group is scanned in this RunOnce", strings.Join(why, "; "),
			"the scan clamps against the target size and maximum cached by an earlier scan's provider")
	})
	ck.floor(rule, "provider rebuilds in RunOnce", n, 1)
}

// benignErrorOf: result idx of fn is an error that is non-nil only when a lister's List failed (the
// scan saw nothing), or never: every return yields the nil constant, such a lister error, or the
// error of another function of this kind.
func (ck *Check) benignErrorOf(fn *ssa.Function, idx int, depth int) bool {
	if fn == nil || fn.Blocks == nil || !ck.P.inRepo(fn) || depth > 3 || idx >= fn.Signature.Results().Len() {
		return false
	}
	for _, b := range fn.Blocks {
		r, ok := b.Instrs[len(b.Instrs)-1].(*ssa.Return)
		if !ok {
			continue
		}
		if idx >= len(r.Results) || !ck.benignErrorValue(r.Results[idx], depth, map[ssa.Value]bool{}) {
			return false
		}
	}
	return true
}

func (ck *Check) benignErrorValue(v ssa.Value, depth int, seen map[ssa.Value]bool) bool {
	if seen[v] {
		return true
	}
	seen[v] = true
	switch x := v.(type) {
	case *ssa.Const:
		return x.IsNil()
	case *ssa.Phi:
		for _, e := range x.Edges {
			if !ck.benignErrorValue(e, depth, seen) {
				return false
			}
		}
		return true
	case *ssa.Extract:
		if c, ok := x.Tuple.(*ssa.Call); ok {
			return ck.benignErrorCall(c, x.Index, depth)
		}
	case *ssa.Call:
		return ck.benignErrorCall(x, 0, depth)
	}
	return false
}

func (ck *Check) benignErrorCall(c *ssa.Call, idx int, depth int) bool {
	cc := c.Common()
	if cc.IsInvoke() {
		return ck.isListerList(cc.Method)
	}
	if f := cc.StaticCallee(); f != nil {
		return ck.benignErrorOf(f, idx, depth+1)
	}
	return false
}

// isListerList: the List method of one of the repo's lister interfaces (what the group state's Pods
// and Nodes fields hold).
func (ck *Check) isListerList(m *types.Func) bool {
	if m == nil || m.Name() != "List" || m.Pkg() == nil || !ck.P.Shipped[m.Pkg().Path()] {
		return false
	}
	sig, ok := m.Type().(*types.Signature)
	if !ok || sig.Params().Len() != 0 || sig.Results().Len() != 2 || !isErrorType(sig.Results().At(1).Type()) {
		return false
	}
	_, isSlice := sig.Results().At(0).Type().Underlying().(*types.Slice)
	return isSlice
}

// restoreTotality (C03.R7): a scan that sees fewer than min_nodes untainted nodes, with the node
// count inside its bounds and no cool-down pending, reaches the recovery scale-up. Every other way
// out of the frames between the scan body and the recovery call must be excluded by those
// assumptions — the listers answered, helpers that cannot fail did not fail.
func (ck *Check) restoreTotality(rule string) {
	a := ck.A
	ctx0 := ck.P.NewCtx(a.Scan)
	g := ck.groupTerm(a.Scan)
	_, lists, ok := ck.scanLists()
	if !ok || lists[0] == nil || g == nil {
		ck.undecided(rule, "scan/lists", "", funcID(a.Scan), "classifier results in the scan body", "not found")
		return
	}
	var all *Term
	for _, ci := range callsTo(a.Scan, a.Filter) {
		for _, av := range ci.Common().Args {
			if _, ok := av.Type().(*types.Slice); ok {
				all = ctx0.Term(av)
			}
		}
	}
	if all == nil {
		ck.undecided(rule, "scan/all-nodes", "", funcID(a.Scan), "listed node slice", "not found")
		return
	}
	U := ctx0.Term(lists[0])
	minT, maxT := ck.optTerm(g, "min_nodes"), ck.optTerm(g, "max_nodes")
	below := cmpFormula(token.LSS, lenOf("len", U), minT)
	var restore *ActCall
	for _, ac := range ck.scanActs() {
		ac := ac
		if imp, _, _ := Entails(ac.PC, below); imp && ac.Call.Common().StaticCallee() == a.ScaleUp {
			restore = &ac
		}
	}
	if restore == nil {
		ck.fail(rule, "scan/recovery-call", "", funcID(a.Scan), "the scan body calls ScaleUp on the branch len(untainted) < min_nodes", "not found", "below the minimum nothing restores capacity")
		return
	}
	type frame struct {
		ctx   *Ctx
		fn    *ssa.Function
		pre   *Formula
		after ssa.Instruction // the call of this frame that leads to (or is) the recovery call
	}
	var frames []frame
	if len(restore.Via) == 0 {
		frames = []frame{{ctx0, a.Scan, FTrue, restore.Call}}
	} else {
		frames = []frame{{ctx0, a.Scan, FTrue, restore.Via[0]}, {restore.Ctx, restore.Fn, restore.Pre, restore.Call}}
	}
	n := 0
	for _, fr := range frames {
		// assumptions read off this frame's own branch atoms
		assume := []*Formula{below}
		seenAt := map[string]bool{}
		for _, b := range fr.fn.Blocks {
			for _, at := range ck.expandBoolHelpers(fr.ctx, fr.ctx.BlockPC(b)).Atoms() {
				if seenAt[at.Key()] {
					continue
				}
				seenAt[at.Key()] = true
				if ck.isLockedCall(at, g) {
					assume = append(assume, Not(Atom(at)))
					continue
				}
				if at.Kind == "cmp" && (at.Name == "==" || at.Name == "!=") && hasConstStr(at, "nil") {
					for _, x := range at.Args {
						idx, ct := 0, x
						if x.Kind == "extract" && len(x.Args) == 1 {
							fmt.Sscan(x.Name, &idx)
							ct = x.Args[0]
						}
						benign := false
						switch {
						case ct.Kind == "invoke":
							if m, ok := ct.Obj.(*types.Func); ok {
								benign = ck.isListerList(m)
							}
						case ct.Kind == "call" && ct.Fn != nil:
							benign = ck.benignErrorOf(ct.Fn, idx, 0)
						}
						if benign {
							if at.Name == "==" {
								assume = append(assume, Atom(at))
							} else {
								assume = append(assume, Not(Atom(at)))
							}
						}
					}
				}
			}
		}
		for _, b := range fr.fn.Blocks {
			r, ok := b.Instrs[len(b.Instrs)-1].(*ssa.Return)
			if !ok {
				continue
			}
			if fr.after.Block() == b || fr.after.Block().Dominates(b) || reachesBlock(fr.after.Block(), b) {
				continue // the way out passes the recovery call
			}
			pre := And(append([]*Formula{fr.pre, ck.expandBoolHelpers(fr.ctx, fr.ctx.BlockPC(b))}, assume...)...)
			if sat, err := Satisfiable(pre); err == nil && !sat {
				continue
			}
			n++
			key := fmt.Sprintf("%s/return@block%d/recovery-reached", funcID(fr.fn), b.Index)
			okv, why, err := fr.ctx.EntailsLinearAny(pre, []LinFact{
				{A: lenOf("len", all), B: minT, K: 1, Text: "len(allNodes) < min_nodes"},
				{A: maxT, B: lenOf("len", all), K: 1, Text: "len(allNodes) > max_nodes"},
			})
			if err != nil {
				ck.undecided(rule, key, ck.P.instrPos(r), funcID(fr.fn), "a way out before the recovery call is excluded when len(untainted) < min_nodes within bounds", err.Error())
				continue
			}
			ck.cond(okv, rule, key, ck.P.instrPos(r), funcID(fr.fn), "with len(untainted) < min_nodes, the listers answering and no cool-down pending, a way out of the scan before the recovery scale-up is taken only when the node count is outside [min_nodes, max_nodes]", fr.ctx.BlockPC(b).String(),
				"a scan that sees fewer than min_nodes untainted nodes can end here without restoring capacity: "+why)
		}
	}
	ck.floor(rule, "ways out of the scan ahead of the recovery call", n, 1)
}

// autoDiscovery (C03.R5)
func (ck *Check) autoDiscovery(rule string) {
	a := ck.A
	fMin, fMax := fieldByJSON(a.TOptions, "min_nodes"), fieldByJSON(a.TOptions, "max_nodes")
	fCloud := fieldByJSON(a.TOptions, "cloud_provider_group_name")
	n := 0
	seen := map[ssa.Instruction]bool{}
	// the stores of NewController and RunOnce, including helpers they call (parameters bound)
	for _, root := range []*ssa.Function{a.NewController, a.RunOnce} {
		ck.bodyInstrsPC(root, func(ctx *Ctx, fn *ssa.Function, in ssa.Instruction, prefix *Formula) {
			st, ok := in.(*ssa.Store)
			if !ok || seen[st] {
				return
			}
			f := fieldOfAddr(st.Addr)
			if f != fMin && f != fMax {
				return
			}
			seen[st] = true
			n++
			key := fmt.Sprintf("%s/store:%s", funcID(root), f.Name())
			// the value that decides auto-discovery (the configured options) must stay as configured:
			// the store has to land in the per-group state / a local copy, never in Opts.NodeGroups
			_, how := storeRoot(st.Addr)
			target := how
			// rooted in the configured list: along the base chain of the stored-to location (map keys
			// and indices do not count) there is the NodeGroups field of the controller options
			intoConfigured := strings.Contains(how, "NodeGroups")
			if fa, ok := st.Addr.(*ssa.FieldAddr); ok {
				bt := ctx.Term(fa.X)
				target += " " + bt.String()
				for t := bt; t != nil; {
					if t.Kind == "field" && t.Name == "NodeGroups" {
						intoConfigured = true
					}
					if len(t.Args) == 0 {
						break
					}
					t = t.Args[0]
				}
			}
			ck.cond(!intoConfigured, rule, key+"/target", ck.P.instrPos(st), funcID(fn), "discovered bounds are written to the group's own state (or a local copy), not into the configured options that decide on auto-discovery", target,
				"the configured min_nodes/max_nodes are overwritten, so later scans no longer see (0,0) and stop following the cloud group's bounds")
			v := ctx.Term(st.Val)
			wantM := "MinSize"
			if f == fMax {
				wantM = "MaxSize"
			}
			okv := v.Kind == "invoke" && v.Name == wantM && isExtractOf(v.Args[0], 0, func(t *Term) bool {
				if t.Kind != "invoke" || t.Name != "GetNodeGroup" || len(t.Args) != 2 {
					return false
				}
				arg := t.Args[1]
				return arg.Kind == "field" && arg.Obj == fCloud
			})
			ck.cond(okv, rule, key, ck.P.instrPos(st), funcID(fn), fmt.Sprintf("%s ← int(cloud group looked up by the same options' cloud_provider_group_name).%s()", f.Name(), wantM), v.String(), "the discovered bound is not that of the group's own cloud group")
			// guard: auto-discover predicate
			pc := And(prefix, ctx.PC(st))
			guard := false
			for _, at := range pc.Atoms() {
				if at.Kind == "cmp" && at.Name == "==" && hasConstStr(at, "0") {
					for _, x := range at.Args {
						if x.Kind == "field" && (x.Obj == fMin || x.Obj == fMax) {
							guard = true
						}
					}
				}
			}
			ck.cond(guard, rule, key+"/guard", ck.P.instrPos(st), funcID(fn), "discovery happens only when min_nodes and max_nodes are both configured as 0", pc.String(), "configured bounds are overwritten")
		})
	}
	// … and nowhere else
	for _, fn := range ck.P.Funcs {
		for _, b := range fn.Blocks {
			for _, in := range b.Instrs {
				st, ok := in.(*ssa.Store)
				if !ok || seen[st] {
					continue
				}
				if f := fieldOfAddr(st.Addr); f == fMin || f == fMax {
					n++
					ck.fail(rule, fmt.Sprintf("%s/store:%s", funcID(fn), f.Name()), ck.P.instrPos(st), funcID(fn), "min_nodes / max_nodes are (re)written only by auto-discovery in NewController and RunOnce", "", "the bound can be changed while running")
				}
			}
		}
	}
	ck.floor(rule, "auto-discovery stores", n, 2)
}

// ---------------------------------------------------------------------------------------------
// C04

func checkC04(ck *Check) {
	a := ck.A
	if !ck.need("C04.R1", map[string]interface{}{"scan": a.Scan, "cloud step": a.CloudStep}) {
		return
	}
	fn := a.CloudStep
	g := ck.groupTerm(fn)
	n := 0
	for _, s := range a.A {
		if s.Class != "A-CLOUD-INC" {
			continue
		}
		n++
		key := ck.P.siteKey(s.Call)
		ictx, prefix := ck.fnChainCtxPC(a.CloudStepChain, s.Fn)
		if ictx == nil || g == nil {
			ck.undecided("C04.R1", key, ck.P.instrPos(s.Call), funcID(s.Fn), "IncreaseSize is called from the cloud step", "")
			continue
		}
		ctx := ictx
		cc := s.Call.Common()
		cp := ctx.Term(cc.Value)
		d := ctx.Term(cc.Args[0])
		ts := &Term{Kind: "invoke", Name: "TargetSize", Args: []*Term{cp}, Typ: types.Typ[types.Int64]}
		cmax := &Term{Kind: "invoke", Name: "MaxSize", Args: []*Term{cp}, Typ: types.Typ[types.Int64]}
		// use the exact terms occurring in the function (identity tags if the cache were mutable here)
		tsT, cmaxT := ck.findInvokeChain(a.CloudStepChain, cp, "TargetSize"), ck.findInvokeChain(a.CloudStepChain, cp, "MaxSize")
		if tsT == nil || cmaxT == nil {
			ck.fail("C04.R1", key, ck.P.instrPos(s.Call), funcID(fn), "the clamp reads TargetSize() and MaxSize() of the group it resizes", "not found", "")
			continue
		}
		if tsT.ID != "" || cmaxT.ID != "" {
			ck.fail("C04.R1", key+"/stable", ck.P.instrPos(s.Call), funcID(fn), "TargetSize()/MaxSize() denote one value each within the cloud step", tsT.String()+", "+cmaxT.String(), "the provider cache may be mutated between the clamp and the request")
			continue
		}
		_ = ts
		_ = cmax
		maxT := ck.optTerm(g, "max_nodes")
		pc := And(prefix, ctx.PC(s.Call))
		sum := &Term{Kind: "binop", Name: "+", Args: []*Term{tsT, d}}
		facts := []LinFact{
			{A: sum, B: cmaxT, K: 0, Text: "TargetSize + d ≤ cloud MaxSize"},
			{A: sum, B: maxT, K: 0, Text: "TargetSize + d ≤ max_nodes"},
		}
		for i, f := range facts {
			okv, why, err := ctx.EntailsLinear(pc, []LinFact{f})
			k := fmt.Sprintf("%s/bound%d", key, i)
			if err != nil {
				ck.undecided("C04.R1", k, ck.P.instrPos(s.Call), funcID(fn), f.Text, err.Error())
				continue
			}
			ck.cond(okv, "C04.R1", k, ck.P.instrPos(s.Call), funcID(fn), "PC ⇒ "+f.Text, pc.String(), why)
		}
		okv, why, err := ctx.EntailsLinear(pc, []LinFact{{A: &Term{Kind: "const", Name: "1", Val: ssa.NewConst(constantInt(1), types.Typ[types.Int64]), Typ: types.Typ[types.Int64]}, B: d, K: 0, Text: "1 ≤ d"}})
		if err != nil {
			ck.undecided("C04.R2", key, ck.P.instrPos(s.Call), funcID(fn), "d ≥ 1", err.Error())
		} else {
			ck.cond(okv, "C04.R2", key, ck.P.instrPos(s.Call), funcID(fn), "PC ⇒ d ≥ 1 (no request without headroom)", pc.String(), why)
		}
		// the request is for this group's own cloud group (by name)
		okCP := isExtractOf(cp, 0, func(t *Term) bool {
			return t.Kind == "invoke" && t.Name == "GetNodeGroup" && len(t.Args) == 2 && t.Args[1].Key() == ck.optTerm(g, "cloud_provider_group_name").Key()
		})
		ck.cond(okCP, "C04.R1", key+"/group", ck.P.instrPos(s.Call), funcID(fn), "the resized cloud group is looked up by this group's cloud_provider_group_name", cp.String(), "")
	}
	ck.floor("C04.R1", "IncreaseSize call sites", n, 1)
	ck.ok("C04.R3", "provider-bound", "", "", "the provider refuses TargetSize + d > MaxSize before any write (decided as C17.R1)", "see C17.R1")
	ck.providerBounds("C04.R3")
	// R8 … and the provider adds exactly the delta it is asked for, whichever strategy it takes
	// (decided as C17.R2 / R3)
	ck.shareRules(checkC17, "C04.R8", "C17.R2", "C17.R3")
	// R6 … by a provider that was refreshed or rebuilt in this RunOnce
	ck.rebuildFailureStops("C04.R6")
	// R7 … and the maximum and the target it reads are those of the last refresh (decided as C19.R8)
	ck.refreshReplaces("C04.R7")

	// R4 bounds guard
	sctx := ck.P.NewCtx(a.Scan)
	sg := ck.groupTerm(a.Scan)
	var all *Term
	for _, ci := range callsTo(a.Scan, a.Filter) {
		for _, av := range ci.Common().Args {
			if _, ok := av.Type().(*types.Slice); ok {
				all = sctx.Term(av)
			}
		}
	}
	if all == nil || sg == nil {
		ck.undecided("C04.R4", "scan/all-nodes", "", funcID(a.Scan), "listed node slice", "not found")
		return
	}
	acts := ck.scanActs()
	for _, ac := range acts {
		ci, pc := ac.Call, ac.PC
		facts := []LinFact{
			{A: ck.optTerm(sg, "min_nodes"), B: lenOf("len", all), K: 0, Text: "min_nodes ≤ len(allNodes)"},
			{A: lenOf("len", all), B: ck.optTerm(sg, "max_nodes"), K: 0, Text: "len(allNodes) ≤ max_nodes"},
		}
		okv, why, err := ac.Ctx.EntailsLinear(pc, facts)
		key := ac.Key + "/in-bounds"
		if err != nil {
			ck.undecided("C04.R4", key, ck.P.instrPos(ci), funcID(a.Scan), "node count within [min_nodes, max_nodes]", err.Error())
			continue
		}
		ck.cond(okv, "C04.R4", key, ck.P.instrPos(ci), funcID(a.Scan), "PC ⇒ min_nodes ≤ len(allNodes) ≤ max_nodes", pc.String(), why)
	}
	ck.floor("C04.R4", "ACT calls in the scan body", len(acts), 3)
	// R5 the TargetSize the clamp adds to is the real desired capacity: typestate on the provider's
	// cached desired size (shared with C07.R5 / C19.R1)
	ck.cacheTypestate("C04.R5")
}

// findInvoke: the term of an invoke of method on receiver term recv occurring in fn.
func (ck *Check) findInvoke(ctx *Ctx, fn *ssa.Function, recv *Term, method string) *Term {
	var out *Term
	for _, b := range fn.Blocks {
		for _, in := range b.Instrs {
			if c, ok := in.(*ssa.Call); ok && c.Common().IsInvoke() && c.Common().Method.Name() == method {
				t := ctx.Term(c)
				if t.Args[0].Key() == recv.Key() {
					if out == nil || t.ID == "" {
						out = t
					}
				}
			}
		}
	}
	return out
}

// paramIndex: the index of fn's parameter that the term stands for (a spilled by-value parameter
// counts as the parameter), or -1.
func paramIndex(fn *ssa.Function, t *Term) int {
	if t == nil {
		return -1
	}
	for i, p := range fn.Params {
		if t.Key() == paramTerm(p).Key() {
			return i
		}
	}
	return -1
}

// lockStateBase: the NodeGroupState object (its address) whose scaleUpLock field the lock
// represented by holder ends up in. holder is the lock's address (&state.scaleUpLock, or a local
// scaleLock copied whole into it) or the lock value itself (the result of a constructor call).
func lockStateBase(holder ssa.Value, fLock *types.Var, depth int) ssa.Value {
	if holder == nil || depth > 4 {
		return nil
	}
	if fa, ok := holder.(*ssa.FieldAddr); ok {
		if fieldOfAddr(fa) == fLock {
			return fa.X
		}
		return nil
	}
	if holder.Referrers() == nil {
		return nil
	}
	_, isAddr := holder.(*ssa.Alloc)
	for _, r := range *holder.Referrers() {
		switch x := r.(type) {
		case *ssa.UnOp: // load of a local lock
			if isAddr && x.Op == token.MUL {
				if b := lockStateBase(x, fLock, depth+1); b != nil {
					return b
				}
			}
		case *ssa.Store:
			if x.Val == holder {
				if b := lockStateBase(x.Addr, fLock, depth+1); b != nil {
					return b
				}
			}
		}
	}
	return nil
}

// statePersistence (C02.R7): a cool-down is only as long-lived as the NodeGroupState that holds
// its lock. Nothing reachable from RunOnce replaces a group's state or its lock as a whole: no
// store into a location whose type holds NodeGroupState / scaleLock values (the controller's map
// of states, a *NodeGroupState slot, the scaleUpLock field), no whole-struct overwrite through a
// pointer to one, no map update with such values. Field-wise updates of a state (what the scan
// does) and the lock's own methods are not whole-value stores.
func (ck *Check) statePersistence(rule string) {
	a := ck.A
	if a.TState == nil || a.TLock == nil || a.RunOnce == nil {
		ck.lost(rule, "NodeGroupState / scaleLock / RunOnce", "not resolved")
		return
	}
	var holds func(t types.Type, depth int) bool
	holds = func(t types.Type, depth int) bool {
		if t == nil || depth > 4 {
			return false
		}
		if types.Identical(t, a.TState) || types.Identical(t, a.TLock) {
			return true
		}
		switch u := t.Underlying().(type) {
		case *types.Pointer:
			return holds(u.Elem(), depth+1)
		case *types.Map:
			return holds(u.Elem(), depth+1)
		case *types.Slice:
			return holds(u.Elem(), depth+1)
		case *types.Array:
			return holds(u.Elem(), depth+1)
		}
		return false
	}
	reach := ck.P.reachableFrom([]*ssa.Function{a.RunOnce}, nil)
	var fns []*ssa.Function
	for fn := range reach {
		fns = append(fns, fn)
	}
	sort.Slice(fns, func(i, j int) bool { return funcID(fns[i]) < funcID(fns[j]) })
	n, bad := 0, 0
	for _, fn := range fns {
		ord := 0
		for _, b := range fn.Blocks {
			for _, in := range b.Instrs {
				switch x := in.(type) {
				case *ssa.Store:
					pt, ok := x.Addr.Type().Underlying().(*types.Pointer)
					if !ok || !holds(pt.Elem(), 0) {
						continue
					}
					if _, local := baseOfAddr(x.Addr).(*ssa.Alloc); local {
						if al := baseOfAddr(x.Addr).(*ssa.Alloc); !al.Heap {
							continue // a local copy
						}
					}
					n++
					bad++
					ck.fail(rule, fmt.Sprintf("%s/state-store#%d", funcID(fn), ord), ck.P.instrPos(x), funcID(fn), "nothing reachable from RunOnce replaces a group's state or scale lock as a whole", "store of a "+typeName(pt.Elem())+" value",
						"the scale-up lock (and the dry-mode bookkeeping) of a group is lost in the middle of its cool-down: "+strings.Join(ck.P.chain(a.RunOnce, fn), " → "))
					ord++
				case *ssa.MapUpdate:
					mt, ok := x.Map.Type().Underlying().(*types.Map)
					if !ok || !holds(mt.Elem(), 0) {
						continue
					}
					n++
					bad++
					ck.fail(rule, fmt.Sprintf("%s/state-store#%d", funcID(fn), ord), ck.P.instrPos(x), funcID(fn), "nothing reachable from RunOnce replaces a group's state or scale lock as a whole", "map update with "+typeName(mt.Elem())+" values",
						"a group's state is replaced during a scan: "+strings.Join(ck.P.chain(a.RunOnce, fn), " → "))
					ord++
				}
			}
		}
	}
	ck.Stats[rule+" functions reachable from RunOnce"] = len(fns)
	if bad == 0 {
		ck.ok(rule, "state/persistence", "", funcID(a.RunOnce), "nothing reachable from RunOnce replaces a group's state or scale lock as a whole", fmt.Sprintf("%d functions examined", len(fns)))
	}
	ck.floor(rule, "functions reachable from RunOnce", len(fns), 20)
}

// cloudStepDelta: the term of "the number of nodes the cloud step was asked for": the nodesDelta
// field of its options parameter, or its integer parameter.
func (ck *Check) cloudStepDelta(ctx *Ctx, fn *ssa.Function) *Term {
	a := ck.A
	if prm := ck.paramOfType(fn, a.TScaleOpts, false); prm != nil {
		if f := field(a.TScaleOpts, "nodesDelta"); f != nil {
			return mkField(paramTerm(prm), f)
		}
	}
	var ints []*ssa.Parameter
	for _, p := range fn.Params {
		if isInteger(p.Type()) {
			ints = append(ints, p)
		}
	}
	if len(ints) == 1 {
		return paramTerm(ints[0])
	}
	return nil
}

// onlyTheMaximumClamps (C05.R9): the cloud request is cut short by the maximum only — in every case
// either the whole delta the cloud step was asked for is requested, or the request takes the
// target exactly to max_nodes or to the cloud maximum. A clamp measured from anything larger than
// TargetSize() (instances listed, a stale value) buys too few nodes although the maximum is not
// reached.
func (ck *Check) onlyTheMaximumClamps(rule string) {
	a := ck.A
	fn := a.CloudStep
	if fn == nil {
		ck.lost(rule, "cloud step", "not resolved")
		return
	}
	ctx := ck.P.NewCtx(fn)
	g := ck.groupTerm(fn)
	n := 0
	for _, s := range a.A {
		if s.Class != "A-CLOUD-INC" || g == nil {
			continue
		}
		ictx, prefix := ck.fnChainCtxPC(a.CloudStepChain, s.Fn)
		if ictx == nil {
			continue
		}
		n++
		key := ck.P.siteKey(s.Call) + "/only-the-maximum-clamps"
		cc := s.Call.Common()
		cp := ictx.Term(cc.Value)
		d := ictx.Term(cc.Args[0])
		tsT, cmaxT := ck.findInvokeChain(a.CloudStepChain, cp, "TargetSize"), ck.findInvokeChain(a.CloudStepChain, cp, "MaxSize")
		delta := ck.cloudStepDelta(ctx, fn)
		if tsT == nil || cmaxT == nil || delta == nil {
			ck.undecided(rule, key, ck.P.instrPos(s.Call), funcID(fn), "the clamp reads TargetSize() and MaxSize() of the group it resizes, and the delta asked for is a parameter of the cloud step", "not found")
			continue
		}
		maxT := ck.optTerm(g, "max_nodes")
		pc := And(prefix, ictx.PC(s.Call))
		sum := &Term{Kind: "binop", Name: "+", Args: []*Term{tsT, d}}
		alts := []LinFact{
			{A: delta, B: d, K: 0, Text: "Δ ≤ d (the whole delta)"},
			{A: cmaxT, B: sum, K: 0, Text: "cloud MaxSize ≤ TargetSize + d"},
			{A: maxT, B: sum, K: 0, Text: "max_nodes ≤ TargetSize + d"},
		}
		okv, why, err := ictx.EntailsLinearAny(pc, alts)
		if err != nil {
			ck.undecided(rule, key, ck.P.instrPos(s.Call), funcID(fn), "d = Δ, or TargetSize + d reaches max_nodes / the cloud maximum", err.Error())
			continue
		}
		ck.cond(okv, rule, key, ck.P.instrPos(s.Call), funcID(fn), "PC ⇒ d ≥ Δ ∨ TargetSize + d ≥ cloud MaxSize ∨ TargetSize + d ≥ max_nodes", pc.String(), "fewer nodes are requested than needed although the maximum is not reached: "+why)
	}
	ck.floor(rule, "IncreaseSize call sites in the cloud step", n, 1)
}

// everyCandidateAttempted (C07.R8 / C06.R10): inside the taint / untaint loop the write is attempted
// for every element the loop reaches: the only conditions on the way to the write that speak about
// the current element are the dry-mode switch and — for the untaint — "the node carries the
// escalator taint" by the classifier's own predicate (GetToBeRemovedTaint). Any other
// element-dependent condition (a readable time stamp, an annotation, a label) silently skips
// nodes the classifier counted: fewer nodes than decided are tainted, or capacity is bought
// although tainted nodes were available.
func (ck *Check) everyCandidateAttempted(rule string, fn *ssa.Function, cls string) {
	ea := ck.effActionSite(cls, fn)
	if ea == nil {
		ck.lost(rule, cls+" site", "no such action site in "+funcID(fn))
		return
	}
	call := ea.Call
	key := ck.P.siteKey(ea.Inner) + "/every-candidate"
	l := innermostLoop(fn, call.Block())
	if l == nil || l.IdxPhi == nil || l.Over == nil {
		ck.fail(rule, key, ck.P.instrPos(call), funcID(fn), "the write sits in a range loop over the candidates", "no such loop", "")
		return
	}
	ctx := ck.P.NewCtx(fn)
	over := ctx.Term(l.Over)
	lid := "L" + ctx.instrID(l.IdxPhi)
	aboutElem := func(t *Term) bool {
		return t.contains(func(x *Term) bool {
			return x.Kind == "elem" && x.ID == lid && len(x.Args) == 1 && x.Args[0].Key() == over.Key()
		})
	}
	var extra []string
	for _, at := range ctx.PC(call).Atoms() {
		if !aboutElem(at) {
			continue
		}
		if at.Kind == "cmp" && at.Name == "<" && strings.Contains(at.String(), "rangeindex") {
			continue
		}
		// the classifier's own "carries the escalator taint"
		if cls == "A-UNTAINT" && at.Kind == "extract" && at.Name == "1" && len(at.Args) == 1 && isCallTo(at.Args[0], ck.A.GetTaint) {
			continue
		}
		extra = append(extra, at.String())
	}
	ck.cond(len(extra) == 0, rule, key, ck.P.instrPos(call), funcID(fn), "no condition on the current element other than dry mode (and, for the untaint, the classifier's own taint test) stands between the loop and the write", strings.Join(extra, "; "),
		"candidates the classifier counted are skipped without a write: the loop runs out before n writes succeeded")
}
