package main

func cmdSelftest(args []string) int { return 0 }
