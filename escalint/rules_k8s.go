package main

// rules_k8s.go — C15 (taint writes) and C14 (attribution filters).

import (
	"fmt"
	"go/constant"
	"go/token"
	"go/types"
	"sort"
	"strings"

	"golang.org/x/tools/go/ssa"
)

func init() {
	register(&propSpec{ID: "C15", Run: checkC15,
		Explanation: "Both Node updates send the object freshly fetched with Get in the same call; between Get and Update the only stores rooted at that object target Spec.Taints (the slice header or one of its elements); the add path appends exactly one taint literal {Key: atlassian.com/escalator, Value: decimal Unix seconds of now, Effect: parameter if non-empty else NoSchedule} and is reachable only when a full search of the fetched object's taints found no such key; the delete path removes exactly one element at an index whose Key matched (swap-with-last + truncate-by-one, or splice) and returns right after its single Update; the reader parses base-10 int64 seconds into time.Unix(x, 0); Update is called from nowhere else; the effect passed at the taint site is the group's taint_effect.",
		RuleText:    "R1 fresh object, R2 store census, R3 added taint literal, R4 no re-stamp, R5 delete idiom, R6 writer/reader agreement, R7 who-may-update, R8 a nil error is returned only after the Get (and, once issued, the Update) of the same call succeeded, R9 no repo type answers a method of the typed client itself (live Get)",
		Assumptions: []string{"API-server semantics of Update (optimistic concurrency, admission mutation) and other actors re-tainting are not decided"}})
	register(&propSpec{ID: "C14", Run: checkC14,
		Explanation: "Each filter's boolean function, read off its return sites: the labelled-group pod filter returns true exactly under ¬DaemonSet ∧ (selector[key] present ∧ = value), or inside the full nested traversal of the nil-safely unwrapped required node-affinity terms under Key = key ∧ Operator = In ∧ some value = value — with no other condition and no early false; the default filter ⇔ ¬DaemonSet ∧ ¬static ∧ no selector ∧ (no affinity ∨ all three affinity kinds nil); the node filter ⇔ labels[key] present ∧ = value; PodIsDaemonSet / PodIsStatic are the documented predicates; the filtered listers append exactly the elements the filter accepts.",
		RuleText:    "R1 labelled pod filter, R2 default pod filter, R3 node filter, R4 DaemonSet / static predicates, R5 listers, R6 lister wiring",
		Assumptions: []string{"what the informer's field selector admits, matchFields and preferred affinities are outside the statement"}})
}

// ---------------------------------------------------------------------------------------------
// C15

type updSite struct {
	fn      *ssa.Function
	ctx     *Ctx
	get     *ssa.Call
	upd     *ssa.Call
	fetched *Term
	// commit: the instruction at which the modified object is handed on — the Update itself, or
	// the `return true` of a mutator helper (then key names the Update site of the caller)
	commit ssa.Instruction
	key    string
	// executor form: the Update lives in a helper (fn) that one of the two writers (outer) calls once
	// (via), handing it the fetched object; ctx is then the helper's context with its parameters bound
	outer    *ssa.Function
	outerCtx *Ctx
	via      *ssa.Call
}

// role: the writer this update site belongs to.
func (us *updSite) role() *ssa.Function {
	if us.outer != nil {
		return us.outer
	}
	return us.fn
}

// executorOf: fn is a helper holding the Update that exactly one of the two taint writers calls,
// exactly once, and nobody else; returns that writer and the call.
func (ck *Check) executorOf(fn *ssa.Function) (*ssa.Function, *ssa.Call) {
	var writer *ssa.Function
	var via *ssa.Call
	for _, c := range ck.P.callers[fn] {
		if c != ck.A.AddTaint && c != ck.A.DelTaint {
			return nil, nil
		}
		sites := callsTo(c, fn)
		if len(sites) != 1 || writer != nil {
			return nil, nil
		}
		call, ok := sites[0].(*ssa.Call)
		if !ok {
			return nil, nil
		}
		writer, via = c, call
	}
	for _, g := range ck.P.addressTaken() {
		if g == fn {
			return nil, nil
		}
	}
	return writer, via
}

// writeHelperCalls: w.Fn is a helper whose only effect on its node parameter is to hand it to the
// client's Update (no store into it, the parameter itself is the argument), it returns the
// Update's own result (or nil next to an error), and it is called only — statically — by the two
// writers. Returns those calls.
func (ck *Check) writeHelperCalls(w Site) ([]*ssa.Call, bool) {
	h := w.Fn
	upd, ok := w.Call.(*ssa.Call)
	if !ok || h == nil || h.Blocks == nil {
		return nil, false
	}
	for _, o := range ck.A.W {
		if o.Fn == h && o.Call != w.Call {
			return nil, false
		}
	}
	var prm *ssa.Parameter
	for _, av := range upd.Common().Args {
		if pt, ok := av.Type().(*types.Pointer); ok && strings.HasSuffix(typeName(pt.Elem()), "v1.Node") {
			prm, _ = av.(*ssa.Parameter)
		}
	}
	if prm == nil || prm.Parent() != h {
		return nil, false
	}
	// nothing is written through the parameter, and it goes nowhere else but field reads
	ctx := ck.P.NewCtx(h)
	for _, b := range h.Blocks {
		for _, in := range b.Instrs {
			if st, ok := in.(*ssa.Store); ok {
				if _, rooted := rootedAt(ctx, st.Addr, paramTerm(prm)); rooted {
					return nil, false
				}
			}
			if c, ok := in.(ssa.CallInstruction); ok && in != ssa.Instruction(upd) {
				for _, av := range c.Common().Args {
					if av == ssa.Value(prm) {
						return nil, false
					}
				}
			}
		}
	}
	// the result: the Update's, or nil
	res := h.Signature.Results()
	if res.Len() != 2 || !isErrorType(res.At(1).Type()) {
		return nil, false
	}
	for _, b := range h.Blocks {
		r, ok := b.Instrs[len(b.Instrs)-1].(*ssa.Return)
		if !ok {
			continue
		}
		switch x := r.Results[0].(type) {
		case *ssa.Const:
			if !x.IsNil() {
				return nil, false
			}
			// nil only next to an error
			if f, ok := ctx.nilDecided(r.Results[1], 0); !(ok && f == FFalse) {
				if imp, _, _ := Entails(ctx.BlockPC(b), Not(cmpFormula(token.EQL, ctx.Term(r.Results[1]), &Term{Kind: "const", Name: "nil"}))); !imp {
					return nil, false
				}
			}
		case *ssa.Extract:
			if x.Tuple != ssa.Value(upd) || x.Index != 0 {
				return nil, false
			}
		default:
			return nil, false
		}
	}
	var calls []*ssa.Call
	for _, c := range ck.P.callers[h] {
		if c != ck.A.AddTaint && c != ck.A.DelTaint {
			return nil, false
		}
		sites := callsTo(c, h)
		if len(sites) == 0 {
			return nil, false
		}
		for _, ci := range sites {
			call, ok := ci.(*ssa.Call)
			if !ok {
				return nil, false
			}
			calls = append(calls, call)
		}
	}
	for _, g := range ck.P.addressTaken() {
		if g == h {
			return nil, false
		}
	}
	return calls, len(calls) > 0
}

func (ck *Check) updateSites(rule string) []*updSite {
	var out []*updSite
	for _, w := range ck.A.W {
		if w.Class != "W-K8S-UPD" {
			continue
		}
		us := &updSite{fn: w.Fn, ctx: ck.P.NewCtx(w.Fn), upd: w.Call.(*ssa.Call)}
		us.get = ck.getCallIn(w.Fn)
		key := ck.P.siteKey(w.Call)
		if w.Fn != ck.A.AddTaint && w.Fn != ck.A.DelTaint {
			// a write helper shared by the two writers — h(node) = client.Update(node), nothing else: its
			// calls in the writers are the update sites
			if calls, ok := ck.writeHelperCalls(w); ok {
				for _, call := range calls {
					wr := call.Parent()
					hs := &updSite{fn: wr, ctx: ck.P.NewCtx(wr), upd: call, get: ck.getCallIn(wr)}
					hkey := ck.P.siteKey(call)
					if hs.get == nil {
						ck.fail(rule, hkey+"/fresh", ck.P.instrPos(call), funcID(wr), "the updated object is fetched with Get in the same call", "no Get", "the cached (possibly stale) node is written back")
						continue
					}
					hs.fetched = &Term{Kind: "extract", Name: "0", Args: []*Term{hs.ctx.Term(hs.get)}}
					var obj *Term
					for _, av := range call.Common().Args {
						if pt, ok := av.Type().(*types.Pointer); ok && strings.HasSuffix(typeName(pt.Elem()), "v1.Node") {
							obj = hs.ctx.Term(av)
						}
					}
					ck.cond(obj != nil && obj.Key() == hs.fetched.Key(), rule, hkey+"/fresh", ck.P.instrPos(call), funcID(wr), "Update is given the object returned by Get in this call", fmt.Sprint(obj), "the cached node (or a rebuilt object) is written, discarding concurrent changes")
					ck.cond(dominatesInstr(hs.get, call), rule, hkey+"/order", ck.P.instrPos(call), funcID(wr), "Get precedes Update", "", "")
					out = append(out, hs)
				}
				continue
			}
			// an executor of one of the two writers: the writer fetched, the helper writes
			if writer, via := ck.executorOf(w.Fn); writer != nil {
				octx := ck.P.NewCtx(writer)
				args := make([]*Term, len(via.Common().Args))
				for i, av := range via.Common().Args {
					args[i] = octx.Term(av)
				}
				ch := octx.child(w.Fn, via, args)
				ch.depth = 0
				us.ctx, us.outer, us.outerCtx, us.via = ch, writer, octx, via
				us.get = ck.getCallIn(writer)
			} else {
				ck.fail("C15.R7", key, ck.P.instrPos(w.Call), funcID(w.Fn), "Node updates are issued only by AddToBeRemovedTaint and DeleteToBeRemovedTaint", funcID(w.Fn), "another function rewrites Node objects")
				continue
			}
		}
		if us.get == nil {
			ck.fail(rule, key+"/fresh", ck.P.instrPos(w.Call), funcID(w.Fn), "the updated object is fetched with Get in the same call", "no Get", "the cached (possibly stale) node is written back")
			continue
		}
		if us.outer != nil {
			us.fetched = &Term{Kind: "extract", Name: "0", Args: []*Term{us.outerCtx.Term(us.get)}}
		} else {
			us.fetched = &Term{Kind: "extract", Name: "0", Args: []*Term{us.ctx.Term(us.get)}}
		}
		// R1
		var obj *Term
		for _, av := range us.upd.Common().Args {
			if pt, ok := av.Type().(*types.Pointer); ok && strings.HasSuffix(typeName(pt.Elem()), "v1.Node") {
				obj = us.ctx.Term(av)
			}
		}
		ck.cond(obj != nil && obj.Key() == us.fetched.Key(), rule, key+"/fresh", ck.P.instrPos(w.Call), funcID(w.Fn), "Update is given the object returned by Get in this call", fmt.Sprint(obj), "the cached node (or a rebuilt object) is written, discarding concurrent changes")
		if us.outer != nil {
			ck.cond(dominatesInstr(us.get, us.via), rule, key+"/order", ck.P.instrPos(w.Call), funcID(w.Fn), "Get precedes Update", "", "")
		} else {
			ck.cond(dominatesInstr(us.get, us.upd), rule, key+"/order", ck.P.instrPos(w.Call), funcID(w.Fn), "Get precedes Update", "", "")
		}
		out = append(out, us)
	}
	return out
}

// rootedAt: does address addr lead (through field / index addressing and loads) to term root?
func rootedAt(ctx *Ctx, addr ssa.Value, root *Term) ([]string, bool) {
	var path []string
	for {
		switch x := addr.(type) {
		case *ssa.FieldAddr:
			path = append([]string{fieldOfAddr(x).Name()}, path...)
			addr = x.X
		case *ssa.IndexAddr:
			path = append([]string{"[]"}, path...)
			addr = x.X
		case *ssa.UnOp:
			if x.Op != token.MUL {
				return nil, false
			}
			addr = x.X
		default:
			return path, ctx.Term(addr).Key() == root.Key()
		}
	}
}

func checkC15(ck *Check) {
	a := ck.A
	if !ck.need("C15.R1", map[string]interface{}{"AddToBeRemovedTaint": a.AddTaint, "DeleteToBeRemovedTaint": a.DelTaint, "GetToBeRemovedTime": a.GetTime}) {
		return
	}
	sites := ck.updateSites("C15.R1")
	ck.floor("C15.R1", "Node update sites", len(sites), 2)
	const keyLit = `"atlassian.com/escalator"`
	for _, us := range sites {
		fn, ctx := us.fn, us.ctx
		// R2 store census (the executor and the writer that calls it)
		type frame struct {
			fn  *ssa.Function
			ctx *Ctx
		}
		frames := []frame{{fn, ctx}}
		if us.outer != nil {
			frames = append(frames, frame{us.outer, us.outerCtx})
		}
		for _, fr := range frames {
			for _, b := range fr.fn.Blocks {
				for _, in := range b.Instrs {
					st, ok := in.(*ssa.Store)
					if !ok {
						continue
					}
					path, rooted := rootedAt(fr.ctx, st.Addr, us.fetched)
					if !rooted {
						continue
					}
					p := strings.Join(path, ".")
					okv := p == "Spec.Taints" || p == "Spec.Taints.[]"
					ck.cond(okv, "C15.R2", fmt.Sprintf("%s/store:%s", funcID(fr.fn), p), ck.P.instrPos(st), funcID(fr.fn), "between Get and Update only Spec.Taints of the fetched object is written", p, "another field of the node ("+p+") is modified by the taint write")
				}
			}
		}
		// the search loop over the fetched object's taints
		var loop *Loop
		for _, l := range loopsOf(fn) {
			if l.IdxPhi == nil {
				continue
			}
			ot := ctx.Term(l.Over)
			if ot.Kind == "field" && ot.Name == "Taints" && ot.Args[0].Kind == "field" && ot.Args[0].Name == "Spec" && ot.Args[0].Args[0].Key() == us.fetched.Key() {
				loop = l
			}
		}
		key := ck.P.siteKey(us.upd)
		if loop == nil && fn == a.AddTaint {
			// the search may live in a helper: found(fetched) decided by a search function
			if call, node, found := ck.taintSearchCall(ctx, fn, keyLit); call != nil && node.Key() == us.fetched.Key() {
				ck.entails("C15.R4", key+"/no-restamp", us.upd, ctx.PC(us.upd), Not(found), "Update runs only if no taint of the fetched object carries the escalator key (decided by the search function "+calleeName(call)+")")
				ck.addedTaint("C15.R3", us)
				continue
			}
		}
		if loop == nil && fn == a.DelTaint {
			if ck.deleteThroughHelper(us, keyLit) {
				continue
			}
		}
		if loop == nil && us.outer == a.DelTaint {
			if ck.deleteThroughExecutor(us, keyLit) {
				continue
			}
		}
		if loop == nil {
			ck.fail("C15.R4", key+"/search", ck.P.instrPos(us.upd), funcID(fn), "the function searches the fetched object's Spec.Taints for the escalator key", "no such loop", "the decision is taken on the cached node")
			continue
		}
		// match atom: elem.Key == const
		isMatch := func(at *Term) bool {
			if at.Kind != "cmp" || at.Name != "==" || !hasConstStr(at, keyLit) {
				return false
			}
			for _, x := range at.Args {
				if x.Kind == "field" && x.Name == "Key" {
					base := x.Args[0]
					if base.Kind == "deref" || base.Kind == "elem" || strings.Contains(base.String(), "elem(") || base.Kind == "memphi" || base.Kind == "alloc" {
						return true
					}
				}
			}
			return false
		}
		var match *Term
		for _, b := range fn.Blocks {
			if !loop.Header.Dominates(b) {
				continue
			}
			for _, at := range ctx.BlockPC(b).Atoms() {
				if isMatch(at) {
					match = at
				}
			}
		}
		if match == nil {
			ck.fail("C15.R4", key+"/match", ck.P.instrPos(us.upd), funcID(fn), "the search compares each taint's Key with "+keyLit, "no such comparison", "")
			continue
		}
		if fn == a.AddTaint {
			// R4: Update reachable only when the search found nothing
			okv := !loop.Blocks[us.upd.Block()]
			var why []string
			if !okv {
				why = append(why, "the update happens inside the search loop")
			}
			for _, e := range loop.Exits {
				if loop.exhaustionExit(e[0]) {
					continue
				}
				src := ctx.BlockPC(e[0])
				if imp, _, _ := Entails(And(src, ctx.edgeCond(e[0], e[1])), Atom(match)); !imp {
					okv = false
					why = append(why, "the search loop can be left early without a key match")
				}
				// the update must not be reachable through this exit
				if !reachesBlock(e[1], us.upd.Block()) {
					continue // the exit leaves the function (return on a match)
				}
				if sat, _ := Satisfiable(And(ctx.PC(us.upd), ctx.edgePC(e[0], e[1]))); sat {
					okv = false
					why = append(why, "Update is reachable after a taint with the escalator key was found (re-stamp)")
				}
			}
			ck.cond(okv, "C15.R4", key+"/no-restamp", ck.P.instrPos(us.upd), funcID(fn), "Update runs only if no taint of the fetched object carries the escalator key", "", strings.Join(why, "; "))
			ck.addedTaint("C15.R3", us)
		} else {
			ck.deleteIdiom("C15.R5", us, loop, match)
		}
	}
	// R3 (call site): the effect argument is the group's option
	for _, s := range a.A {
		if s.Class != "A-TAINT" {
			continue
		}
		ctx := ck.P.NewCtx(s.Fn)
		g := ck.groupTerm(s.Fn)
		var eff *Term
		for _, av := range s.Call.Common().Args {
			if strings.HasSuffix(typeName(av.Type()), "TaintEffect") {
				eff = ctx.Term(av)
			}
		}
		want := ck.optTerm(g, "taint_effect")
		ck.cond(eff != nil && want != nil && eff.Key() == want.Key(), "C15.R3", ck.P.siteKey(s.Call)+"/effect", ck.P.instrPos(s.Call), funcID(s.Fn), "the taint is written with the group's configured taint_effect", fmt.Sprint(eff), "")
	}
	ck.timeRoundTrip("C15.R6")
	ck.writeConfirmed("C15.R8", a.AddTaint)
	ck.writeConfirmed("C15.R8", a.DelTaint)
	// R9 the Get is a read of the API server
	ck.liveClient("C15.R9")
}

// addedTaint (C15.R3)
func (ck *Check) addedTaint(rule string, us *updSite) {
	fn, ctx := us.fn, us.ctx
	litCtx := ctx
	key := ck.P.siteKey(us.upd)
	// the store to Spec.Taints
	var st *ssa.Store
	for _, b := range fn.Blocks {
		for _, in := range b.Instrs {
			if s, ok := in.(*ssa.Store); ok {
				if path, rooted := rootedAt(ctx, s.Addr, us.fetched); rooted && strings.Join(path, ".") == "Spec.Taints" {
					st = s
				}
			}
		}
	}
	if st == nil {
		ck.fail(rule, key+"/append", ck.P.instrPos(us.upd), funcID(fn), "Spec.Taints ← append(old taints, one taint)", "no store", "nothing is added")
		return
	}
	ap, isAp := isBuiltinCall(st.Val, "append")
	okv := isAp
	var lit *Term
	var why []string
	if isAp {
		base := ctx.Term(ap.Common().Args[0])
		if !(base.Kind == "field" && base.Name == "Taints" && base.Args[0].Args[0].Key() == us.fetched.Key()) {
			okv = false
			why = append(why, "the new list is not built on the fetched object's taints: "+base.String())
		}
		el, ok := variadicElems(ap.Common().Args[1])
		if !ok || len(el) != 1 {
			okv = false
			why = append(why, "not exactly one taint appended")
		} else {
			lit = ctx.Term(el[0])
			// the taint may be built by a constructor: read its returned value with the arguments bound
			if c, isCall := el[0].(*ssa.Call); isCall && lit.Kind != "struct" {
				if h := c.Common().StaticCallee(); h != nil && ck.P.inRepo(h) && h.Blocks != nil && !infoOf(h).hasLoop && h.Signature.Results().Len() == 1 {
					args := make([]*Term, len(c.Common().Args))
					for i, av := range c.Common().Args {
						args[i] = ctx.Term(av)
					}
					ch := ctx.child(h, c, args)
					ch.depth = 0
					var got *Term
					nret := 0
					for _, hb := range h.Blocks {
						if r, ok := hb.Instrs[len(hb.Instrs)-1].(*ssa.Return); ok {
							nret++
							got = ch.Term(r.Results[0])
						}
					}
					if nret == 1 && got != nil && got.Kind == "struct" {
						lit = got
						litCtx = ch
					}
				}
			}
		}
	} else {
		why = append(why, "Spec.Taints is not assigned an append")
	}
	ck.cond(okv && dominatesInstr(st, us.upd), rule, key+"/append", ck.P.instrPos(st), funcID(fn), "Spec.Taints ← append(fetched.Spec.Taints, exactly one taint), before the Update", "", strings.Join(why, "; "))
	if lit == nil || lit.Kind != "struct" {
		ck.fail(rule, key+"/literal", ck.P.instrPos(st), funcID(fn), "the appended taint is a literal with Key, Value, Effect", fmt.Sprint(lit), "")
		return
	}
	stT, _ := lit.Typ.Underlying().(*types.Struct)
	get := func(name string) *Term {
		for i := 0; i < stT.NumFields(); i++ {
			if stT.Field(i).Name() == name {
				return lit.Args[i]
			}
		}
		return nil
	}
	k := get("Key")
	ck.cond(k != nil && k.Kind == "const" && k.Name == `"atlassian.com/escalator"`, rule, key+"/Key", ck.P.instrPos(st), funcID(fn), `Key ← "atlassian.com/escalator"`, fmt.Sprint(k), "")
	v := get("Value")
	okV := false
	if v != nil && v.Kind == "call" && (v.Name == "fmt.Sprint" || v.Name == "strconv.Itoa" || v.Name == "strconv.FormatInt") {
		// argument: (time.Time).Unix(time.Now())
		var arg *Term
		if v.Name == "fmt.Sprint" {
			if sl, ok := v.Args[0].Val.(*ssa.Slice); ok {
				if el, ok := variadicElems(sl); ok && len(el) == 1 {
					// the literal may have been read out of a one-expression helper: its operands
					// are then values of the helper, read with its parameters bound at the call
					if h := sl.Parent(); h != fn && litCtx == ctx {
						for _, ci := range callsTo(fn, h) {
							if c, ok := ci.(*ssa.Call); ok {
								args := make([]*Term, len(c.Common().Args))
								for i, av := range c.Common().Args {
									args[i] = ctx.Term(av)
								}
								litCtx = ctx.child(h, c, args)
							}
						}
					}
					arg = litCtx.Term(el[0])
				}
			} else if a0 := v.Args[0]; a0.Kind == "slice" && len(a0.Args) > 0 {

				// the variadic slice read in a helper's frame: a slice of the argument array
				if al, ok := a0.Args[0].Val.(*ssa.Alloc); ok {
					for _, r := range *al.Referrers() {
						if sl, ok := r.(*ssa.Slice); ok {
							if el, ok := variadicElems(sl); ok && len(el) == 1 {
								arg = litCtx.Term(el[0])
							}
						}
					}
				}
			}
		} else {
			arg = v.Args[0]
		}
		if arg != nil && arg.Kind == "call" && strings.HasSuffix(arg.Name, "(time.Time).Unix") && arg.Args[0].Kind == "call" && (arg.Args[0].Name == "time.Now" || strings.HasSuffix(arg.Args[0].Name, "clock.Now")) {
			okV = true
		}
		if v.Name == "strconv.FormatInt" && len(v.Args) == 2 && v.Args[1].Name != "10" {
			okV = false
		}
	}
	ck.cond(okV, rule, key+"/Value", ck.P.instrPos(st), funcID(fn), "Value ← base-10 rendering of time.Now().Unix() (seconds)", fmt.Sprint(v), "the stored taint time is not Unix seconds in decimal")
	e := get("Effect")
	okE := false
	whyE := "Effect is not (parameter if non-empty else NoSchedule)"
	if e != nil && e.Kind == "phi" {
		ph := e.Val.(*ssa.Phi)
		var prm *ssa.Parameter
		for _, p := range fn.Params {
			if strings.HasSuffix(typeName(p.Type()), "TaintEffect") {
				prm = p
			}
		}
		if prm != nil && len(ph.Edges) == 2 {
			nonEmpty := cmpFormula(token.LSS, zeroTerm(types.Typ[types.Int]), lenOf("len", paramTerm(prm)))
			okE = true
			b := ph.Block()
			for i, ev := range ph.Edges {
				et := ctx.Term(ev)
				ec := ctx.edgeCond(b.Preds[i], b)
				// reduce to the deciding branch: the edge's own condition or that of its single predecessor
				if ec == FTrue && len(b.Preds[i].Preds) == 1 {
					ec = ctx.edgeCond(b.Preds[i].Preds[0], b.Preds[i])
				}
				// decided arithmetically, so that len(e) > 0, len(e) != 0, len(e) == 0 (inverted) all read the same
				ln := lenOf("len", paramTerm(prm))
				zero, one := zeroTerm(types.Typ[types.Int]), intConstTermTyped(1, types.Typ[types.Int])
				_ = nonEmpty
				switch {
				case et.Kind == "const" && et.Name == `"NoSchedule"`:
					if imp, _, err := ctx.EntailsLinear(ec, []LinFact{{A: ln, B: zero, K: 0, Text: "len(effect) ≤ 0"}}); err != nil || !imp {
						okE = false
					}
				case et.Key() == paramTerm(prm).Key():
					if imp, _, err := ctx.EntailsLinear(ec, []LinFact{{A: one, B: ln, K: 0, Text: "1 ≤ len(effect)"}}); err != nil || !imp {
						okE = false
					}
				default:
					okE = false
					whyE = "unexpected effect value " + et.String()
				}
			}
		}
	}
	if !okE && e != nil && e.Kind == "memphi" {
		// a field assigned in two steps (literal, then a conditional overwrite): decided over the
		// values that reach the merge, each under the condition of its edge
		var prm *ssa.Parameter
		for _, p := range fn.Params {
			if strings.HasSuffix(typeName(p.Type()), "TaintEffect") {
				prm = p
			}
		}
		gs, ts := memCases(e, 0)
		if prm != nil && len(ts) >= 2 && e.C != nil {
			okE = true
			ln := lenOf("len", paramTerm(prm))
			zero, one := zeroTerm(types.Typ[types.Int]), intConstTermTyped(1, types.Typ[types.Int])
			// the path conditions of the two ways into the merge differ in the deciding test only
			for i, et := range ts {
				rel := gs[i]
				switch {
				case et.Kind == "const" && et.Name == `"NoSchedule"`:
					if imp, _, err := e.C.EntailsLinear(rel, []LinFact{{A: ln, B: zero, K: 0, Text: "len(effect) ≤ 0"}}); err != nil || !imp {
						okE = false
					}
				case et.Key() == paramTerm(prm).Key():
					// the parameter's value is kept on the path where it is not overwritten
					other := FFalse
					for j := range ts {
						if j != i {
							other = Or(other, gs[j])
						}
					}
					if imp, _, err := e.C.EntailsLinear(And(rel, Not(other)), []LinFact{{A: one, B: ln, K: 0, Text: "1 ≤ len(effect)"}}); err != nil || !imp {
						okE = false
					}
				default:
					okE = false
					whyE = "unexpected effect value " + et.String()
				}
			}
		}
	}
	if !okE && e != nil && e.Kind == "call" && e.Fn != nil && pkgPathOfFn(e.Fn) == "cmp" && strings.HasPrefix(e.Fn.Name(), "Or") && len(e.Args) == 1 {
		// cmp.Or(effect, NoSchedule): the first argument that is not the zero value
		if sl, ok := e.Args[0].Val.(*ssa.Slice); ok {
			if els, ok := variadicElems(sl); ok && len(els) == 2 {
				// read in the frame the call was made in (the constructor's, with its parameters bound)
				c2 := ctx
				if e.C != nil {
					c2 = e.C
				}
				first, second := c2.Term(els[0]), c2.Term(els[1])
				isParam := false
				for _, p := range fn.Params {
					if strings.HasSuffix(typeName(p.Type()), "TaintEffect") && first.Key() == paramTerm(p).Key() {
						isParam = true
					}
				}
				if isParam && second.Kind == "const" && second.Name == `"NoSchedule"` {
					okE = true
				} else {
					whyE = "cmp.Or is not given (the configured effect, NoSchedule): " + first.String() + ", " + second.String()
				}
			}
		}
	}
	ck.cond(okE, rule, key+"/Effect", ck.P.instrPos(st), funcID(fn), "Effect ← the configured effect if non-empty, else NoSchedule", fmt.Sprint(e), whyE)
}

// deleteIdiom (C15.R5)
func (ck *Check) deleteIdiom(rule string, us *updSite, loop *Loop, match *Term) {
	fn, ctx := us.fn, us.ctx
	key := ck.P.siteKey(us.upd)
	if us.key != "" {
		key = us.key
	}
	commit := us.commit
	if commit == nil {
		commit = us.upd
	}
	// the removal index: the loop's own index under the match (Update inside the loop), or a
	// variable every feasible defining case of which is the loop index taken on an exit under the
	// match (search first, remove after the loop)
	idxOK := func(v ssa.Value) bool {
		if rangeLoopOf(v) == loop.IdxPhi {
			imp, _, _ := Entails(ctx.PC(commit), Atom(match))
			return imp && loop.Header.Dominates(commit.Block())
		}
		ph, isPhi := v.(*ssa.Phi)
		if !isPhi || ctx.loopCarried(ph) {
			return false
		}
		vt := ctx.Term(v)
		matched := 0
		for _, vc := range ck.valueCases(ctx, FTrue, v, 0) {
			// the path condition of the Update with the index replaced by this case's value
			pcv := ctx.PC(commit).Subst(func(at *Term) *Formula {
				if at.Kind != "cmp" || !at.contains(func(x *Term) bool { return x.Key() == vt.Key() }) {
					return nil
				}
				return foldCmp(replaceTerm(at, vt.Key(), vc.term))
			})
			if sat, err := Satisfiable(And(pcv, vc.guard)); err == nil && !sat {
				continue // this definition cannot reach the Update
			}
			tv, _ := vc.term.Val.(ssa.Value)
			if tv == nil || rangeLoopOf(tv) != loop.IdxPhi {
				return false
			}
			if imp, _, _ := Entails(vc.guard, Atom(match)); !imp {
				return false
			}
			matched++
		}
		return matched > 0
	}
	var removalIdx ssa.Value
	for _, b := range fn.Blocks {
		if !loop.Header.Dominates(b) {
			continue
		}
		for _, in := range b.Instrs {
			if st, ok := in.(*ssa.Store); ok {
				if path, rooted := rootedAt(ctx, st.Addr, us.fetched); rooted && strings.Join(path, ".") == "Spec.Taints.[]" {
					if ia, ok := st.Addr.(*ssa.IndexAddr); ok {
						removalIdx = ia.Index
					}
				}
			}
			if ap, ok := isBuiltinCall(valueOf(in), "append"); ok && removalIdx == nil {
				if sx, ok := ap.Common().Args[0].(*ssa.Slice); ok && sx.High != nil {
					removalIdx = sx.High
				}
			}
		}
	}
	okPos := false
	if removalIdx != nil {
		okPos = idxOK(removalIdx)
	} else if imp, _, _ := Entails(ctx.PC(commit), Atom(match)); imp {
		okPos = loop.Header.Dominates(commit.Block())
	}
	ck.cond(okPos, rule, key+"/guard", ck.P.instrPos(commit), funcID(fn), "the removal and Update happen at an index whose taint Key matched", ctx.PC(commit).String(), "a taint other than escalator's is removed")
	back := reachesWithout(commit, loop.Header.Instrs[0], func(ssa.Instruction) bool { return false })
	ck.cond(!back, rule, key+"/returns", ck.P.instrPos(commit), funcID(fn), "the function returns on every path after its single Update (no further iteration over the mutated slice)", "", "the loop continues over a slice it has just modified (more than one taint can be removed)")
	// the stores: swap-with-last + truncate-by-one, or splice
	var elemStore, hdrStore *ssa.Store
	for _, b := range fn.Blocks {
		if !loop.Header.Dominates(b) {
			continue
		}
		for _, in := range b.Instrs {
			if s, ok := in.(*ssa.Store); ok {
				if path, rooted := rootedAt(ctx, s.Addr, us.fetched); rooted {
					switch strings.Join(path, ".") {
					case "Spec.Taints.[]":
						elemStore = s
					case "Spec.Taints":
						hdrStore = s
					}
				}
			}
		}
	}
	okv := false
	why := "the removal is not a recognised idiom (swap-with-last + truncate-by-one, or append(s[:i], s[i+1:]...))"
	if hdrStore != nil {
		hv := ctx.Term(hdrStore.Val)
		taints := func(t *Term) bool {
			return t.Kind == "field" && t.Name == "Taints" && t.Args[0].Kind == "field" && t.Args[0].Args[0].Key() == us.fetched.Key()
		}
		lenMinus1 := func(t *Term) bool {
			return t.Kind == "binop" && t.Name == "-" && t.Args[0].Kind == "len" && taints(t.Args[0].Args[0]) && t.Args[1].Name == "1"
		}
		isIdx := func(v ssa.Value) bool { return rangeLoopOf(v) == loop.IdxPhi || (v == removalIdx && okPos) }
		switch {
		case hv.Kind == "slice" && taints(hv.Args[0]) && hv.Args[1].Name == "0" && lenMinus1(hv.Args[2]) && elemStore != nil:
			// element store: Taints[i] ← Taints[len-1]
			ia, _ := elemStore.Addr.(*ssa.IndexAddr)
			src := ctx.Term(elemStore.Val)
			if ia != nil && isIdx(ia.Index) && src.Kind == "index" && taints(src.Args[0]) && lenMinus1(src.Args[1]) && dominatesInstr(elemStore, hdrStore) {
				okv = true
			} else {
				why = "swap-delete: the element at the matched index is not overwritten with the last element before truncating by one"
			}
		case removeAtCall(ck, hdrStore.Val, isIdx, func(v ssa.Value) bool { return taints(ctx.Term(v)) }):
			// Spec.Taints = removeAt(Spec.Taints, i) through a repo helper (or slices.Delete(s, i, i+1))
			okv = true
		case hv.Kind == "call" && hv.Name == "append":
			// splice: append(s[:i], s[i+1:]...)
			if ap, ok := hdrStore.Val.(*ssa.Call); ok {
				x, y := ap.Common().Args[0], ap.Common().Args[1]
				sx, okx := x.(*ssa.Slice)
				sy, oky := y.(*ssa.Slice)
				if okx && oky && isIdx(sx.High) && sy.High == nil {
					if bo, ok := sy.Low.(*ssa.BinOp); ok && bo.Op == token.ADD && isIdx(bo.X) {
						if k, ok := bo.Y.(*ssa.Const); ok && k.Int64() == 1 {
							okv = true
						}
					}
				}
			}
		}
	}
	ck.cond(okv && hdrStore != nil && dominatesInstr(hdrStore, commit), rule, key+"/idiom", ck.P.instrPos(commit), funcID(fn), "exactly one element — the matched one — is removed from Spec.Taints before the Update", "", why)
	if !okv && hdrStore != nil {
		return
	}
}

// timeRoundTrip (C15.R6 / C01.R8)
func (ck *Check) timeRoundTrip(rule string) {
	fn := ck.A.GetTime
	ctx := ck.P.NewCtx(fn)
	okv := false
	var got string
	for _, b := range fn.Blocks {
		r, ok := b.Instrs[len(b.Instrs)-1].(*ssa.Return)
		if !ok {
			continue
		}
		rt := ctx.Term(r.Results[0])
		if rt.Kind == "const" {
			continue
		}
		// &result where result ← time.Unix(ParseInt(taint.Value, 10, 64).#0, 0)
		var stored *Term
		if al, ok := r.Results[0].(*ssa.Alloc); ok {
			for _, rr := range *al.Referrers() {
				if st, ok := rr.(*ssa.Store); ok && st.Addr == ssa.Value(al) {
					stored = ctx.Term(st.Val)
				}
			}
		}
		got = fmt.Sprint(stored)
		// the decoding in a helper `decode(taint) (time.Time, error)`: what it returns next to a nil error
		if stored != nil && stored.Kind == "extract" && stored.Name == "0" && len(stored.Args) == 1 && stored.Args[0].Kind == "call" {
			if h := stored.Args[0].Fn; h != nil && ck.P.inRepo(h) && h.Blocks != nil && h.Signature.Results().Len() == 2 {
				ch := ctx.childTerm(stored.Args[0])
				ch.depth = 0
				var vals []*Term
				for _, hb := range h.Blocks {
					if hr, isRet := hb.Instrs[len(hb.Instrs)-1].(*ssa.Return); isRet && len(hr.Results) == 2 {
						if et := ch.Term(hr.Results[1]); et.Kind == "const" && et.Name == "nil" {
							vals = append(vals, ch.Term(hr.Results[0]))
						}
					}
				}
				if len(vals) == 1 {
					stored = vals[0]
					got = fmt.Sprint(stored)
				}
			}
		}
		if stored != nil && stored.Kind == "call" && stored.Name == "time.Unix" && len(stored.Args) == 2 && stored.Args[1].Name == "0" {
			p := stored.Args[0]
			if isExtractOf(p, 0, func(t *Term) bool {
				return t.Kind == "call" && t.Name == "strconv.ParseInt" && len(t.Args) == 3 && t.Args[1].Name == "10" && t.Args[2].Name == "64" &&
					t.Args[0].Kind == "field" && t.Args[0].Name == "Value"
			}) {
				okv = true
			}
		}
	}
	ck.cond(okv, rule, "GetToBeRemovedTime/parse", ck.P.position(fn.Pos()), funcID(fn), "the reader parses the taint Value as base-10 int64 seconds into time.Unix(x, 0) — the unit the writer stores", got, "writer and reader of the taint time disagree (unit or base)")
}

// ---------------------------------------------------------------------------------------------
// C14

func checkC14(ck *Check) {
	ck.filterPredicates(func(n int) string { return fmt.Sprintf("C14.R%d", n) })
	// R6 the group listers are built from exactly these filters, unwrapped (decided as C12.R3)
	ck.listerWiring("C14.R6")
}

// filterPredicates decides the boolean function of each pod / node filter and of the filtered
// listers; rule(n) names the rule the n-th group of obligations is reported under.
func (ck *Check) filterPredicates(rule func(n int) string) {
	sp := ck.P.SSAPkg[pkgController]
	kp := ck.P.SSAPkg[pkgK8s]
	if sp == nil || kp == nil {
		ck.lost(rule(1), "packages", "controller / k8s not loaded")
		return
	}
	closureOf := func(name string) *ssa.Function {
		f := sp.Func(name)
		if f == nil || len(f.AnonFuncs) != 1 {
			ck.lost(rule(1), name, "constructor with exactly one closure not found")
			return nil
		}
		return f.AnonFuncs[0]
	}
	hasClosure := func(name string) bool {
		f := sp.Func(name)
		return f != nil && len(f.AnonFuncs) == 1
	}
	isDS := kp.Func("PodIsDaemonSet")
	isStatic := kp.Func("PodIsStatic")
	if isDS == nil || isStatic == nil {
		ck.lost(rule(4), "PodIsDaemonSet/PodIsStatic", "not found")
		return
	}
	// R1: decided on the quantified reading of whatever the constructor returns; the structural
	// rule remains as the fallback (it names the offending branch)
	if !ck.affinityFilterQ(rule(1), sp.Func("NewPodAffinityFilterFunc"), isDS, ck.A.Unwrap, hasClosure("NewPodAffinityFilterFunc")) {
		if fn := closureOf("NewPodAffinityFilterFunc"); fn != nil {
			ck.affinityFilter(rule(1), fn, isDS, ck.A.Unwrap)
		}
	}
	// R2
	if fn := closureOf("NewPodDefaultFilterFunc"); fn != nil {
		ctx := ck.P.NewCtx(fn)
		pod := paramTerm(fn.Params[0])
		got := ctx.returnFormula(0)
		ds := boolResultFormula(ctx, isDS, []*Term{pod}, 0)
		static := ctx.childTerm(&Term{Kind: "call", Name: funcID(isStatic), Fn: isStatic, Args: []*Term{pod}}).returnFormula(0)
		spec := ck.nodeField(pod, "Spec")
		sel := ck.nodeField(pod, "Spec", "NodeSelector")
		aff := ck.nodeField(pod, "Spec", "Affinity")
		nilT := &Term{Kind: "const", Name: "nil"}
		isNil := func(t *Term) *Formula { return cmpFormula(token.EQL, t, nilT) }
		_ = spec
		want := And(Not(ds), Not(static), cmpFormula(token.EQL, lenOf("len", sel), zeroTerm(types.Typ[types.Int])),
			Or(isNil(aff), And(isNil(ck.nodeField(aff, "NodeAffinity")), isNil(ck.nodeField(aff, "PodAffinity")), isNil(ck.nodeField(aff, "PodAntiAffinity")))))
		okv, why, err := Equivalent(got, want)
		if err != nil {
			ck.undecided(rule(2), "default-filter", "", funcID(fn), want.String(), err.Error())
		} else {
			ck.cond(okv, rule(2), "default-filter", ck.P.position(fn.Pos()), funcID(fn), "default group: counts ⇔ ¬DaemonSet ∧ ¬static ∧ no nodeSelector ∧ (Affinity = nil ∨ node/pod/anti affinity all nil)", got.String(), why)
		}
	}
	// R3
	if ck.nodeLabelFilterQ(rule(3), sp.Func("NewNodeLabelFilterFunc"), hasClosure("NewNodeLabelFilterFunc")) {
	} else if fn := closureOf("NewNodeLabelFilterFunc"); fn != nil {
		ctx := ck.P.NewCtx(fn)
		node := paramTerm(fn.Params[0])
		got := ctx.returnFormula(0)
		var k, v *Term
		for _, fv := range fn.FreeVars {
			if fv.Name() == "labelKey" {
				k = freeVarValue(ctx, fv)
			}
			if fv.Name() == "labelValue" {
				v = freeVarValue(ctx, fv)
			}
		}
		okv := false
		why := "free variables labelKey / labelValue not found"
		if k != nil && v != nil {
			lk := &Term{Kind: "lookup", Args: []*Term{ck.nodeField(node, "ObjectMeta", "Labels"), k}}
			// the value compared may be result 0 of the comma-ok lookup
			var present, equal *Formula
			for _, at := range got.Atoms() {
				if at.Kind == "extract" && at.Name == "1" && at.Args[0].Key() == lk.Key() {
					present = Atom(at)
				}
				if at.Kind == "cmp" && at.Name == "==" {
					x, y := at.Args[0], at.Args[1]
					for _, pr := range [][2]*Term{{x, y}, {y, x}} {
						if pr[0].Key() == v.Key() && isExtractOf(pr[1], 0, func(t *Term) bool { return t.Key() == lk.Key() }) {
							equal = Atom(at)
						}
					}
				}
			}
			if present != nil && equal != nil {
				okv, why, _ = Equivalent(got, And(present, equal))
			} else {
				why = "no comma-ok lookup of the label key compared with the label value"
			}
		}
		ck.cond(okv, rule(3), "node-filter", ck.P.position(fn.Pos()), funcID(fn), "node belongs ⇔ labels[key] present ∧ = value", got.String(), why)
	}
	// R4
	ck.existsPredicate(rule(4), isDS, "OwnerReferences", "Kind", `"DaemonSet"`)
	{
		ctx := ck.P.NewCtx(isStatic)
		pod := paramTerm(isStatic.Params[0])
		got := ctx.returnFormula(0)
		lk := &Term{Kind: "lookup", Args: []*Term{ck.nodeField(pod, "ObjectMeta", "Annotations"), {Kind: "const", Name: `"kubernetes.io/config.source"`}}}
		present := Atom(&Term{Kind: "extract", Name: "1", Args: []*Term{lk}})
		equal := cmpFormula(token.EQL, &Term{Kind: "extract", Name: "0", Args: []*Term{lk}}, &Term{Kind: "const", Name: `"file"`})
		okv, why, _ := Equivalent(got, And(present, equal))
		if !okv {
			// plain index form: a missing key reads as "", which is not "file"
			if alt, _, _ := Equivalent(got, cmpFormula(token.EQL, lk, &Term{Kind: "const", Name: `"file"`})); alt {
				okv, why = true, ""
			}
		}
		ck.cond(okv, rule(4), "PodIsStatic", ck.P.position(isStatic.Pos()), funcID(isStatic), `static ⇔ annotations["kubernetes.io/config.source"] = "file"`, got.String(), why)
	}
	// R5 listers
	for _, name := range []string{"FilteredPodsLister", "FilteredNodesLister"} {
		tn := ck.A.named(pkgK8s, name)
		fn := ck.A.method(tn, "List")
		if fn == nil {
			ck.lost(rule(5), name+".List", "not found")
			continue
		}
		ck.filteredLister(rule(5), fn)
	}
}

// existsPredicate: fn(x) ⇔ ∃ e ∈ x.<listField>: e.<field> == lit.
func (ck *Check) existsPredicate(rule string, fn *ssa.Function, listField, fieldName, lit string) {
	ctx := ck.P.NewCtx(fn)
	okv := true
	var why []string
	trues := 0
	for _, b := range fn.Blocks {
		r, ok := b.Instrs[len(b.Instrs)-1].(*ssa.Return)
		if !ok {
			continue
		}
		k, isC := r.Results[len(r.Results)-1].(*ssa.Const)
		if !isC {
			okv = false
			why = append(why, "non-constant result")
			continue
		}
		if k.Value.String() != "true" {
			// false only after exhaustion: the block must not be inside a loop
			if innermostLoop(fn, b) != nil {
				okv = false
				why = append(why, "returns false before the search is exhausted")
			}
			continue
		}
		trues++
		pc := ctx.BlockPC(b)
		var m *Term
		var extra []string
		for _, at := range pc.Atoms() {
			switch {
			case at.Kind == "cmp" && at.Name == "==" && hasConstStr(at, lit):
				m = at
			case at.Kind == "cmp" && at.Name == "<" && strings.Contains(at.String(), "rangeindex"):
			default:
				extra = append(extra, at.String())
			}
		}
		if m == nil {
			okv = false
			why = append(why, "true is returned without comparing "+fieldName+" with "+lit)
			continue
		}
		var el *Term
		for _, x := range m.Args {
			if x.Kind == "field" && x.Name == fieldName {
				el = x.Args[0]
			}
		}
		if el == nil || !strings.Contains(el.String(), listField) {
			okv = false
			why = append(why, "the compared value is not "+listField+"[i]."+fieldName+": "+m.String())
		}
		if imp, _, _ := Entails(pc, Atom(m)); !imp || len(extra) > 0 {
			okv = false
			why = append(why, "extra or inverted conditions: "+pc.String())
		}
	}
	if trues == 0 {
		okv = false
		why = append(why, "never returns true")
	}
	for _, l := range loopsOf(fn) {
		for _, e := range l.Exits {
			if !l.exhaustionExit(e[0]) {
				if r, ok := e[1].Instrs[len(e[1].Instrs)-1].(*ssa.Return); ok {
					if k, ok := r.Results[len(r.Results)-1].(*ssa.Const); ok && k.Value.String() == "true" {
						continue
					}
				}
				okv = false
				why = append(why, "the search can stop early without a match")
			}
		}
	}
	if !okv && len(fn.Params) == 1 {
		// however the search is written (helper, slices.ContainsFunc, …): its quantified reading
		x := paramTerm(fn.Params[0])
		if got, ok := ck.qResult(ck.P.NewCtx(fn), fn, 0); ok {
			for _, path := range [][]string{{"ObjectMeta", listField}, {listField}} {
				list := ck.nodeField(x, path...)
				if list.Kind == "opaque" {
					continue
				}
				want := mkExists(list, cmpFormula(token.EQL, ck.nodeField(boundElem(list), fieldName), &Term{Kind: "const", Name: lit}))
				if eq, _, _ := Equivalent(got, want); eq {
					okv, why = true, nil
				}
			}
		}
	}
	ck.cond(okv, rule, funcID(fn), ck.P.position(fn.Pos()), funcID(fn), fmt.Sprintf("%s(x) ⇔ ∃ e ∈ x.%s: e.%s = %s", fn.Name(), listField, fieldName, lit), "", strings.Join(why, "; "))
}

// affinityFilter (C14.R1)
func (ck *Check) affinityFilter(rule string, fn, isDS, unwrap *ssa.Function) {
	ctx := ck.P.NewCtx(fn)
	pod := paramTerm(fn.Params[0])
	var k, v *Term
	for _, fv := range fn.FreeVars {
		if fv.Name() == "labelKey" {
			k = freeVarValue(ctx, fv)
		}
		if fv.Name() == "labelValue" {
			v = freeVarValue(ctx, fv)
		}
	}
	if k == nil || v == nil || unwrap == nil {
		ck.lost(rule, "labelKey/labelValue/unwrapNodeSelectorTerms", "not found")
		return
	}
	ds := boolResultFormula(ctx, isDS, []*Term{pod}, 0)
	lk := &Term{Kind: "lookup", Args: []*Term{ck.nodeField(pod, "Spec", "NodeSelector"), k}}
	selOK := Atom(&Term{Kind: "extract", Name: "1", Args: []*Term{lk}})
	selEq := cmpFormula(token.EQL, &Term{Kind: "extract", Name: "0", Args: []*Term{lk}}, v)
	valuesViaHelper := false
	classify := func(at *Term) string {
		switch {
		case at.Key() == ds.atom.Key():
			return "ds"
		case at.Key() == selOK.atom.Key():
			return "selOK"
		case selEq.kind == fAtom && at.Key() == selEq.atom.Key():
			return "selEq"
		case at.Kind == "cmp" && at.Name == "<" && strings.Contains(at.String(), "rangeindex"):
			return "range"
		case at.Kind == "cmp" && at.Name == "==":
			s := at.String()
			switch {
			case strings.Contains(s, ".Key") && (at.Args[0].Key() == k.Key() || at.Args[1].Key() == k.Key()):
				return "keyEq"
			case strings.Contains(s, ".Operator") && hasConstStr(at, `"In"`):
				return "opIn"
			case (at.Args[0].Key() == v.Key() || at.Args[1].Key() == v.Key()) && strings.Contains(s, "Values"):
				return "valEq"
			}
		case at.Kind == "call" && at.Fn != nil && ck.P.inRepo(at.Fn):
			// membership helper: h(values, wanted) ⇔ ∃ e ∈ values: e == wanted
			if sum := ck.existsSummary(at.Fn); sum != nil && sum.Field == "" {
				bind := map[ssa.Value]*Term{}
				for i, p := range at.Fn.Params {
					if i < len(at.Args) {
						bind[p] = at.Args[i]
					}
				}
				if sum.Lit.subst(bind).Key() == v.Key() && strings.HasSuffix(sum.List.subst(bind).String(), ".Values") {
					valuesViaHelper = true
					return "valEq"
				}
			}
		}
		return "?"
	}
	okv := true
	var why []string
	selRet, affRet := 0, 0
	for _, b := range fn.Blocks {
		r, ok := b.Instrs[len(b.Instrs)-1].(*ssa.Return)
		if !ok {
			continue
		}
		kc, isC := r.Results[0].(*ssa.Const)
		if !isC {
			okv = false
			why = append(why, "non-constant result")
			continue
		}
		pc := ctx.BlockPC(b)
		if kc.Value.String() != "true" {
			// false: either DaemonSet, or after all loops (not inside one)
			if innermostLoop(fn, b) != nil {
				okv = false
				why = append(why, "returns false inside the affinity search (before all terms were examined)")
			}
			if imp, _, _ := Entails(pc, ds); imp {
				continue
			}
			continue
		}
		kinds := map[string]*Term{}
		for _, at := range pc.Atoms() {
			c := classify(at)
			if c == "?" {
				okv = false
				why = append(why, "unexpected condition on a true result: "+at.String())
			}
			kinds[c] = at
		}
		if innermostLoop(fn, b) == nil && kinds["keyEq"] == nil {
			selRet++
			if imp, _, _ := Entails(pc, And(Not(ds), selOK, selEq)); !imp {
				okv = false
				why = append(why, "selector branch is not ¬DaemonSet ∧ selector[key] present ∧ = value: "+pc.String())
			}
			continue
		}
		affRet++
		if kinds["keyEq"] == nil || kinds["opIn"] == nil || kinds["valEq"] == nil {
			okv = false
			why = append(why, "affinity branch lacks one of Key = key, Operator = In, value = label value: "+pc.String())
			continue
		}
		if imp, _, _ := Entails(pc, And(Not(ds), Atom(kinds["keyEq"]), Atom(kinds["opIn"]), Atom(kinds["valEq"]))); !imp {
			okv = false
			why = append(why, "affinity branch conditions have the wrong polarity: "+pc.String())
		}
	}
	if selRet != 1 || affRet < 1 {
		okv = false
		why = append(why, fmt.Sprintf("expected one selector branch and an affinity branch returning true (got %d / %d)", selRet, affRet))
	}
	// loops: terms ← unwrap(pod); expressions ← term.MatchExpressions; values ← expression.Values; no break
	var overs []string
	for _, l := range loopsOf(fn) {
		for _, e := range l.Exits {
			if !l.exhaustionExit(e[0]) {
				if r, ok := e[1].Instrs[len(e[1].Instrs)-1].(*ssa.Return); ok {
					if kc, ok := r.Results[0].(*ssa.Const); ok && kc.Value.String() == "true" {
						continue
					}
				}
				okv = false
				why = append(why, "a loop of the affinity search is left early without a match (break)")
			}
		}
		if l.Over != nil {
			overs = append(overs, ctx.Term(l.Over).String())
		}
	}
	joined := strings.Join(overs, " | ")
	for _, need := range []string{unwrap.Name() + "(pod)", "MatchExpressions", "Values"} {
		if need == "Values" && valuesViaHelper {
			continue // the values are searched by a membership helper
		}
		if !strings.Contains(joined, need) {
			okv = false
			why = append(why, "no loop over "+need)
		}
	}
	ck.cond(okv, rule, "affinity-filter", ck.P.position(fn.Pos()), funcID(fn), "labelled group: counts ⇔ ¬DaemonSet ∧ (selector[key] = value ∨ ∃ required term ∃ expression: Key = key ∧ Operator = In ∧ ∃ value = label value)", joined, strings.Join(why, "; "))
	ck.unwrapShape(rule, unwrap)
}

// unwrapShape: unwrapNodeSelectorTerms returns the terms only when all three pointers are non-nil, else nil
func (ck *Check) unwrapShape(rule string, unwrap *ssa.Function) {
	{
		uctx := ck.P.NewCtx(unwrap)
		p := paramTerm(unwrap.Params[0])
		aff := ck.nodeField(p, "Spec", "Affinity")
		na := ck.nodeField(aff, "NodeAffinity")
		req := ck.nodeField(na, "RequiredDuringSchedulingIgnoredDuringExecution")
		nilT := &Term{Kind: "const", Name: "nil"}
		all := And(Not(cmpFormula(token.EQL, aff, nilT)), Not(cmpFormula(token.EQL, na, nilT)), Not(cmpFormula(token.EQL, req, nilT)))
		okU := true
		var whyU []string
		for _, b := range unwrap.Blocks {
			r, ok := b.Instrs[len(b.Instrs)-1].(*ssa.Return)
			if !ok {
				continue
			}
			rt := uctx.Term(r.Results[0])
			pc := uctx.BlockPC(b)
			if rt.Kind == "const" && rt.Name == "nil" {
				if imp, _, _ := Entails(pc, Not(all)); !imp {
					okU = false
					whyU = append(whyU, "returns nil although all three pointers are set")
				}
				continue
			}
			if !(rt.Kind == "field" && rt.Name == "NodeSelectorTerms" && rt.Args[0].Key() == req.Key()) {
				okU = false
				whyU = append(whyU, "returns "+rt.String())
			}
			if imp, _, _ := Entails(pc, all); !imp {
				okU = false
				whyU = append(whyU, "dereferences without checking all three pointers")
			}
		}
		ck.cond(okU, rule, "unwrapNodeSelectorTerms", ck.P.position(unwrap.Pos()), funcID(unwrap), "required(p) = the required node-selector terms when Affinity, NodeAffinity and Required… are all non-nil, else empty", "", strings.Join(whyU, "; "))
	}
}

// filteredLister (C14.R5)
func (ck *Check) filteredLister(rule string, fn *ssa.Function) {
	ctx := ck.P.NewCtx(fn)
	okv := false
	why := "List() is not: for every element of the backing list, append it iff filter(element)"
	for _, b := range fn.Blocks {
		r, ok := b.Instrs[len(b.Instrs)-1].(*ssa.Return)
		if !ok {
			continue
		}
		sharedErr := false
		if et := ctx.Term(r.Results[1]); !(et.Kind == "const" && et.Name == "nil") {
			// one shared `return list, err` with err the backing List's own error: on the success
			// path it is nil, on the other the loop did not run
			if !(isExtractOf(et, 1, func(t *Term) bool { return t.Kind == "invoke" && t.Name == "List" })) {
				continue
			}
			sharedErr = true
			// the collecting loop runs exactly when that error is nil
			errNil := cmpFormula(token.EQL, et, &Term{Kind: "const", Name: "nil"})
			okLoop := false
			for _, l := range loopsOf(fn) {
				if l.Over == nil {
					continue
				}
				if eq, _, _ := Equivalent(ctx.BlockPC(l.Header), errNil); eq {
					okLoop = true
				}
			}
			if !okLoop {
				why = "with one shared return, the collecting loop does not run exactly when the backing List succeeded"
				continue
			}
		}
		_ = sharedErr
		over, filter, w := ck.filterCollect(fn, ctx, r.Results[0], 0)
		if over == nil {
			if w != "" {
				why = w
			}
			continue
		}
		// over = result 0 of the backing lister's List
		if !(over.Kind == "extract" && over.Name == "0" && over.Args[0].Kind == "invoke" && over.Args[0].Name == "List") {
			why = "the ranged list is not the backing lister's result"
			continue
		}
		// the guard is the lister's own filter: a function-typed field of the receiver
		isRecvField := filter != nil && filter.Kind == "field" && len(filter.Args) == 1
		if isRecvField {
			base := filter.Args[0]
			if base.Kind == "deref" {
				base = base.Args[0]
			}
			_, isSig := filter.Typ.Underlying().(*types.Signature)
			isRecvField = base.Kind == "param" && len(fn.Params) > 0 && base.Val == ssa.Value(fn.Params[0]) && isSig
		}
		if !isRecvField {
			why = "the append is not guarded by the lister's own filter function: " + fmt.Sprint(filter)
			continue
		}
		okv = true
	}
	ck.cond(okv, rule, funcID(fn), ck.P.position(fn.Pos()), funcID(fn), "List() returns exactly the elements of the backing list that the group's filter accepts", "", why)
}

// filterCollect: slice is `for x in L { if f(x) { acc = append(acc, x) } }` starting empty — built
// in fn, or by a repo helper fn calls for it. Returns L and f as terms of ctx's vocabulary.
func (ck *Check) filterCollect(fn *ssa.Function, ctx *Ctx, slice ssa.Value, depth int, given ...map[*ssa.Parameter]ssa.Value) (*Term, *Term, string) {
	pr := sliceProv(slice)
	var argOf map[*ssa.Parameter]ssa.Value
	if len(given) > 0 {
		argOf = given[0]
	}
	if len(pr.Appends) == 0 && len(pr.Roots) == 1 && depth < 2 {
		if call, ok := pr.Roots[0].(*ssa.Call); ok {
			if h := call.Common().StaticCallee(); h != nil && ck.P.inRepo(h) && h.Blocks != nil && h.Signature.Results().Len() == 1 {
				args := make([]*Term, len(call.Common().Args))
				for i, av := range call.Common().Args {
					args[i] = ctx.Term(av)
				}
				ch := ctx.child(h, call, args)
				ch.depth = 0
				pm := map[*ssa.Parameter]ssa.Value{}
				for i, av := range call.Common().Args {
					if i < len(h.Params) {
						pm[h.Params[i]] = av
					}
				}
				var over, filter *Term
				for _, b := range h.Blocks {
					ret, ok := b.Instrs[len(b.Instrs)-1].(*ssa.Return)
					if !ok {
						continue
					}
					o, f, w := ck.filterCollect(h, ch, ret.Results[0], depth+1, pm)
					if o == nil {
						return nil, nil, "in " + funcID(h) + ": " + w
					}
					if over != nil && (over.Key() != o.Key() || filter.Key() != f.Key()) {
						return nil, nil, funcID(h) + " returns differently built lists"
					}
					over, filter = o, f
				}
				return over, filter, ""
			}
		}
	}
	if len(pr.Appends) != 1 || len(pr.Appends[0].Elems) != 1 {
		return nil, nil, ""
	}
	for _, root := range pr.Roots {
		// the accumulator a helper is handed: what the call passes
		if prm, ok := root.(*ssa.Parameter); ok && argOf != nil && argOf[prm] != nil {
			root = argOf[prm]
		}
		if k, isConst := root.(*ssa.Const); isConst && k.IsNil() {
			continue
		}
		if !makeSliceEmpty(root) {
			if ms, ok := root.(*ssa.MakeSlice); ok {
				if k, ok := ms.Len.(*ssa.Const); ok && k.Int64() == 0 {
					continue
				}
			}
			return nil, nil, ""
		}
	}
	ap := pr.Appends[0]
	l := innermostLoop(fn, ap.Call.Block())
	if l == nil || !l.FullTraversal() {
		return nil, nil, ""
	}
	el := ctx.Term(ap.Elems[0])
	over := ctx.Term(l.Over)
	if el.Kind != "elem" || el.Args[0].Key() != over.Key() {
		return nil, nil, ""
	}
	// PC(append) ⇔ body ∧ f(elem) for a call of a function value f
	body := l.bodyPC(ctx)
	var fa, fv *Term
	for _, b := range fn.Blocks {
		for _, in := range b.Instrs {
			c, ok := in.(*ssa.Call)
			if !ok || c.Common().IsInvoke() || c.Common().StaticCallee() != nil || len(c.Common().Args) != 1 {
				continue
			}
			if _, isBuiltin := c.Common().Value.(*ssa.Builtin); isBuiltin {
				continue
			}
			if ctx.Term(c.Common().Args[0]).Key() == el.Key() {
				t := ctx.Term(c)
				for _, at := range ctx.PC(ap.Call).Atoms() {
					if at.Key() == t.Key() {
						fa, fv = at, ctx.Term(c.Common().Value)
					}
				}
			}
		}
	}
	if fa == nil {
		return nil, nil, "the append is not guarded by a filter call on the element"
	}
	if eq, _, _ := Equivalent(ctx.PC(ap.Call), And(body, Atom(fa))); !eq {
		return nil, nil, "extra conditions besides the filter: " + ctx.PC(ap.Call).String()
	}
	return over, fv, ""
}

// freeVarValue: the term of the captured variable's value (free variables are pointers).
func freeVarValue(ctx *Ctx, fv *ssa.FreeVar) *Term {
	if _, ok := fv.Type().(*types.Pointer); ok {
		return &Term{Kind: "deref", Args: []*Term{ctx.Term(fv)}}
	}
	return ctx.Term(fv)
}

// untaintAgreement (C07.R3 / C05.R7 / C15.R4): the untaint write recognises the escalator taint
// by the same predicate as the classifier (GetToBeRemovedTaint: Key == const and nothing else),
// so a node the controller counts as untainted really had its taint removed.
func (ck *Check) untaintAgreement(rule string) {
	a := ck.A
	const keyLit = `"atlassian.com/escalator"`
	for _, fn := range []*ssa.Function{a.DelTaint, a.GetTaint, a.AddTaint} {
		ctx := ck.P.NewCtx(fn)
		var loop *Loop
		for _, l := range loopsOf(fn) {
			if l.IdxPhi != nil && strings.HasSuffix(ctx.Term(l.Over).String(), "Spec.Taints") || (l.IdxPhi != nil && strings.Contains(ctx.Term(l.Over).String(), "Spec.Taints@")) {
				loop = l
			}
		}
		key := funcID(fn) + "/taint-match"
		if loop == nil {
			// the search may live in a helper: a search function called with the escalator key
			if call, _, _ := ck.taintSearchCall(ctx, fn, keyLit); call != nil {
				ck.ok(rule, key, ck.P.instrPos(call), funcID(fn), "the escalator taint is recognised by Key == "+keyLit+" and nothing else (writer, remover and classifier agree)", "through the search function "+calleeName(call)+" called with the escalator key")
				continue
			}
			// … or an index search: the position of the first taint with the escalator key
			if call, _ := ck.taintIndexSearch(ctx, fn, keyLit); call != nil {
				ck.ok(rule, key, ck.P.instrPos(call), funcID(fn), "the escalator taint is recognised by Key == "+keyLit+" and nothing else (writer, remover and classifier agree)", "through the index search "+calleeName(call))
				continue
			}
			ck.fail(rule, key, ck.P.position(fn.Pos()), funcID(fn), "the function searches Spec.Taints for the escalator key", "no such loop", "")
			continue
		}
		// every condition on the loop element, on any path leaving the loop early, is exactly Key == const
		okv := true
		var why []string
		found := false
		for _, e := range loop.Exits {
			if loop.exhaustionExit(e[0]) {
				continue
			}
			pc := And(ctx.BlockPC(e[0]), ctx.edgeCond(e[0], e[1]))
			for _, at := range pc.Atoms() {
				if !strings.Contains(at.String(), "elem(") && !strings.Contains(at.String(), "&taint") {
					continue
				}
				if at.Kind == "cmp" && at.Name == "<" && strings.Contains(at.String(), "rangeindex") {
					continue
				}
				isKey := at.Kind == "cmp" && at.Name == "==" && hasConstStr(at, keyLit) && strings.Contains(at.String(), ".Key")
				if isKey {
					if imp, _, _ := Entails(pc, Atom(at)); imp {
						found = true
						continue
					}
				}
				okv = false
				why = append(why, "the match depends on "+at.String())
			}
		}
		if !found {
			okv = false
			why = append(why, "no exit of the search under Key == "+keyLit)
		}
		ck.cond(okv, rule, key, ck.P.position(fn.Pos()), funcID(fn), "the escalator taint is recognised by Key == "+keyLit+" and nothing else (writer, remover and classifier agree)", "", strings.Join(why, "; "))
	}
}

// nodeListImmutability: no function reachable from the scan body writes into a node list it
// received (elements of the classifier's lists are shared between capacity calculation and
// the actions), neither by element stores nor by appending into a re-slice of it.
func (ck *Check) nodeListImmutability(rule string) {
	a := ck.A
	reach := ck.P.reachCut([]*ssa.Function{a.Scan}, nil)
	var fns []*ssa.Function
	for fn := range reach {
		fns = append(fns, fn)
	}
	isNodeList := func(t types.Type) bool {
		sl, ok := t.Underlying().(*types.Slice)
		if !ok {
			return false
		}
		pt, ok := sl.Elem().(*types.Pointer)
		return ok && (strings.HasSuffix(typeName(pt.Elem()), "v1.Node") || strings.HasSuffix(typeName(pt.Elem()), "v1.Pod"))
	}
	// sharedRoot: the slice value derives (through re-slicing / φ) from a parameter, a scaleOpts field, a lister result or the classifier
	n, bad := 0, 0
	var sharedRoot func(v ssa.Value, seen map[ssa.Value]bool) string
	sharedRoot = func(v ssa.Value, seen map[ssa.Value]bool) string {
		if seen[v] {
			return ""
		}
		seen[v] = true
		switch x := v.(type) {
		case *ssa.Parameter:
			if isNodeList(x.Type()) {
				// an accumulator handed in by the callers (nil, or a list they made themselves) is theirs
				if pf := x.Parent(); pf != nil && len(seen) < 12 {
					idx := -1
					for i, q := range pf.Params {
						if q == x {
							idx = i
						}
					}
					sites, shared := 0, ""
					for _, cf := range ck.P.callers[pf] {
						for _, ci := range callsTo(cf, pf) {
							if idx < 0 || idx >= len(ci.Common().Args) {
								continue
							}
							sites++
							if r := sharedRoot(ci.Common().Args[idx], seen); r != "" && shared == "" {
								shared = r
							}
						}
					}
					taken := false
					for _, g := range ck.P.addressTaken() {
						if g == pf {
							taken = true
						}
					}
					if sites > 0 && shared == "" && !taken {
						return ""
					}
				}
				return "parameter " + x.Name()
			}
		case *ssa.Slice:
			return sharedRoot(x.X, seen)
		case *ssa.Phi:
			for _, e := range x.Edges {
				if r := sharedRoot(e, seen); r != "" {
					return r
				}
			}
		case *ssa.UnOp:
			if fa, ok := x.X.(*ssa.FieldAddr); ok && isNodeList(x.Type()) {
				if st := derefStruct(fa.X.Type()); st != nil && a.TScaleOpts != nil && types.Identical(st, a.TScaleOpts.Underlying()) {
					return "scaleOpts." + fieldOfAddr(fa).Name()
				}
			}
			// a local spilled because a closure captures it (`sort.Slice(nodes, func… nodes[i] …)`)
			if al, ok := x.X.(*ssa.Alloc); ok && x.Op == token.MUL && isNodeList(x.Type()) {
				for _, ref := range *al.Referrers() {
					if st, ok := ref.(*ssa.Store); ok && st.Addr == ssa.Value(al) {
						if r := sharedRoot(st.Val, seen); r != "" {
							return r
						}
					}
				}
			}
		case *ssa.Extract:
			if c, ok := x.Tuple.(*ssa.Call); ok && isNodeList(x.Type()) {
				if c.Common().IsInvoke() || (c.Common().StaticCallee() != nil && ck.P.inRepo(c.Common().StaticCallee())) {
					return "result of " + calleeName(c)
				}
			}
		case *ssa.Call:
			// append(shared, more…) writes into — and may return — shared's backing array when it has
			// room (the classifier makes its lists with the capacity of the whole node list)
			if ap, ok := isBuiltinCall(x, "append"); ok && len(ap.Common().Args) > 0 {
				return sharedRoot(ap.Common().Args[0], seen)
			}
		case *ssa.MakeInterface:
			return sharedRoot(x.X, seen)
		case *ssa.ChangeType:
			return sharedRoot(x.X, seen)
		case *ssa.Convert:
			return sharedRoot(x.X, seen)
		}
		return ""
	}
	// object immutability: a Node / Pod object that came from a lister (a parameter, an element of a
	// node list, a result of a repo helper) is the informer cache's copy, shared by every later
	// scan: no field of it is written. Objects returned by the typed client (Get / Update) and
	// DeepCopy results are the caller's own.
	isObjPtr := func(t types.Type) bool {
		pt, ok := t.(*types.Pointer)
		if !ok {
			return false
		}
		if _, named := pt.Elem().(*types.Named); !named {
			return false // a pointer to a slice of nodes is not a node
		}
		return strings.HasSuffix(typeName(pt.Elem()), "v1.Node") || strings.HasSuffix(typeName(pt.Elem()), "v1.Pod")
	}
	var sharedObj func(v ssa.Value, seen map[ssa.Value]bool) string
	sharedObj = func(v ssa.Value, seen map[ssa.Value]bool) string {
		if seen[v] {
			return ""
		}
		seen[v] = true
		switch x := v.(type) {
		case *ssa.Parameter:
			// a helper that is only ever handed the caller's own (fetched) object may write it
			if fn := x.Parent(); fn != nil && len(seen) < 12 {
				idx := -1
				for i, q := range fn.Params {
					if q == x {
						idx = i
					}
				}
				n, allOwn := 0, true
				for _, cf := range ck.P.callers[fn] {
					sites := callsTo(cf, fn)
					if len(sites) == 0 {
						allOwn = false
					}
					for _, ci := range sites {
						n++
						if idx < 0 || idx >= len(ci.Common().Args) || sharedObj(ci.Common().Args[idx], seen) != "" {
							allOwn = false
						}
					}
				}
				if n > 0 && allOwn && fn.Object() != nil && !fn.Object().Exported() {
					return ""
				}
			}
			return "parameter " + x.Name()
		case *ssa.FreeVar:
			return "captured " + x.Name()
		case *ssa.Phi:
			for _, e := range x.Edges {
				if r := sharedObj(e, seen); r != "" {
					return r
				}
			}
		case *ssa.UnOp:
			if x.Op != token.MUL {
				return ""
			}
			switch ad := x.X.(type) {
			case *ssa.IndexAddr:
				return "element of a listed slice"
			case *ssa.FieldAddr:
				return "field " + fieldOfAddr(ad).Name() + " of a shared structure"
			case *ssa.Alloc:
				// a spilled local: shared if any store into it is
				for _, ref := range *ad.Referrers() {
					if st, ok := ref.(*ssa.Store); ok && st.Addr == ad {
						if r := sharedObj(st.Val, seen); r != "" {
							return r
						}
					}
				}
			}
		case *ssa.Extract:
			if c, ok := x.Tuple.(*ssa.Call); ok {
				if f := c.Common().StaticCallee(); f != nil && ck.P.inRepo(f) {
					if x.Index == 0 && ck.fetchHelper(f, 0) {
						return "" // a helper that hands out the object it just fetched from the server
					}
					return "result of " + calleeName(c)
				}
			}
			if ta, ok := x.Tuple.(*ssa.TypeAssert); ok {
				return sharedObj(ta.X, seen)
			}
		case *ssa.TypeAssert:
			return sharedObj(x.X, seen)
		case *ssa.MakeInterface:
			return sharedObj(x.X, seen)
		case *ssa.Call:
			if f := x.Common().StaticCallee(); f != nil && ck.P.inRepo(f) {
				return "result of " + calleeName(x)
			}
		case *ssa.Lookup, *ssa.Index:
			return "element of a shared collection"
		}
		return ""
	}
	objStores := 0
	// every shipped function, not only the scan body: informer callbacks / transforms and start-up
	// code see the same shared objects before the scan does
	allFns := append([]*ssa.Function{}, ck.P.Funcs...)
	sort.Slice(allFns, func(i, j int) bool { return funcID(allFns[i]) < funcID(allFns[j]) })
	for _, fn := range allFns {
		ord := 0
		for _, b := range fn.Blocks {
			for _, in := range b.Instrs {
				st, ok := in.(*ssa.Store)
				if !ok {
					continue
				}
				// walk the address down to the object pointer it is rooted at
				v := st.Addr
				var root ssa.Value
				for steps := 0; steps < 16 && root == nil; steps++ {
					if isObjPtr(v.Type()) {
						if _, isField := v.(*ssa.FieldAddr); !isField {
							root = v
							break
						}
					}
					switch x := v.(type) {
					case *ssa.FieldAddr:
						v = x.X
					case *ssa.IndexAddr:
						v = x.X
					case *ssa.UnOp:
						if x.Op == token.MUL {
							v = x.X
						} else {
							steps = 99
						}
					default:
						steps = 99
					}
				}
				if root == nil {
					continue
				}
				// (root == st.Addr: the whole object is overwritten through the pointer)
				objStores++
				if r := sharedObj(root, map[ssa.Value]bool{}); r != "" {
					bad++
					ck.fail(rule, fmt.Sprintf("%s/object-store#%d", funcID(fn), ord), ck.P.instrPos(st), funcID(fn), "Node / Pod objects received from the listers are never written (only objects returned by Get / Update are)", "store into a field of "+r,
						"the informer cache's copy is modified: every later scan classifies and times the node from a state the cluster never had")
				}
				ord++
			}
		}
	}
	ck.Stats[rule+" object field stores examined"] = objStores
	// a resource.Quantity copied out of an object still shares its big-number payload (*inf.Dec) with
	// it: in-place arithmetic on the copy writes into the listed object. The mutating methods are
	// called only on quantities this code built itself.
	for _, fn := range allFns {
		for _, b := range fn.Blocks {
			for _, in := range b.Instrs {
				c, ok := in.(*ssa.Call)
				if !ok {
					continue
				}
				f := c.Common().StaticCallee()
				if f == nil || pkgPathOfFn(f) != "k8s.io/apimachinery/pkg/api/resource" || f.Signature.Recv() == nil || len(c.Common().Args) == 0 {
					continue
				}
				switch f.Name() {
				case "Add", "Sub", "Neg", "Set", "SetMilli", "SetScaled", "RoundUp", "Mul":
				default:
					continue
				}
				own := func(v ssa.Value) bool {
					switch y := v.(type) {
					case *ssa.Const:
						return true // the zero quantity
					case *ssa.Call:
						if g := y.Common().StaticCallee(); g != nil && pkgPathOfFn(g) == "k8s.io/apimachinery/pkg/api/resource" {
							switch g.Name() {
							case "NewQuantity", "NewMilliQuantity", "NewScaledQuantity", "MustParse", "DeepCopy":
								return true
							}
						}
					case *ssa.UnOp:
						// *resource.NewQuantity(…)
						if yc, ok := y.X.(*ssa.Call); ok && y.Op == token.MUL {
							if g := yc.Common().StaticCallee(); g != nil && pkgPathOfFn(g) == "k8s.io/apimachinery/pkg/api/resource" && strings.HasPrefix(g.Name(), "New") {
								return true
							}
						}
					}
					return false
				}
				okRecv := false
				if al, isAlloc := c.Common().Args[0].(*ssa.Alloc); isAlloc {
					okRecv = true
					for _, r := range *al.Referrers() {
						if st, isSt := r.(*ssa.Store); isSt && st.Addr == ssa.Value(al) && !own(st.Val) {
							okRecv = false
						}
					}
				} else if yc, isCall := c.Common().Args[0].(*ssa.Call); isCall {
					okRecv = own(yc)
				}
				if !okRecv {
					bad++
					ck.fail(rule, fmt.Sprintf("%s/quantity-%s", funcID(fn), f.Name()), ck.P.instrPos(c), funcID(fn), "in-place Quantity arithmetic is applied only to quantities built here (a copy of a listed object's quantity shares its payload)", c.Common().Args[0].String(),
						"the informer cache's node / pod is modified through the shared payload: capacity and requests drift from scan to scan")
				}
			}
		}
	}
	// the informers hand the listers the API server's objects: no transform may rewrite (or
	// replace by a trimmed copy) what is stored in the cache
	for _, fn := range allFns {
		for _, b := range fn.Blocks {
			for _, in := range b.Instrs {
				switch x := in.(type) {
				case *ssa.Store:
					if f := fieldOfAddr(x.Addr); f != nil && f.Name() == "Transform" && f.Pkg() != nil && strings.Contains(f.Pkg().Path(), "client-go/tools/cache") {
						if k, isNil := x.Val.(*ssa.Const); !(isNil && k.IsNil()) {
							bad++
							ck.fail(rule, funcID(fn)+"/informer-transform", ck.P.instrPos(x), funcID(fn), "no informer transform is installed: listed objects are the API server's objects, field for field", "InformerOptions.Transform ← "+x.Val.String(),
								"fields the classification and the totals read (Spec.Unschedulable, Spec.Overhead, …) can be dropped before the scan sees the object")
						}
					}
				case ssa.CallInstruction:
					if g := x.Common().StaticCallee(); g != nil && strings.Contains(pkgPathOfFn(g), "client-go/tools/cache") && (strings.Contains(g.Name(), "Transform") || g.Name() == "SetTransform") {
						bad++
						ck.fail(rule, funcID(fn)+"/informer-transform", ck.P.instrPos(in), funcID(fn), "no informer transform is installed: listed objects are the API server's objects, field for field", g.String(), "")
					}
					if x.Common().IsInvoke() && x.Common().Method.Name() == "SetTransform" {
						bad++
						ck.fail(rule, funcID(fn)+"/informer-transform", ck.P.instrPos(in), funcID(fn), "no informer transform is installed: listed objects are the API server's objects, field for field", "SetTransform", "")
					}
				}
			}
		}
	}
	for _, fn := range fns {
		for _, b := range fn.Blocks {
			for _, in := range b.Instrs {
				switch x := in.(type) {
				case *ssa.Store:
					if ia, ok := x.Addr.(*ssa.IndexAddr); ok && isNodeList(ia.X.Type()) {
						n++
						if r := sharedRoot(ia.X, map[ssa.Value]bool{}); r != "" {
							bad++
							ck.fail(rule, fmt.Sprintf("%s/%s", funcID(fn), ck.P.siteKeyInstr(x)), ck.P.instrPos(x), funcID(fn), "node / pod lists received from the scan are not modified in place", "element store into "+r, "a list shared with later steps of the scan is reordered or overwritten")
						}
					}
				case *ssa.Call:
					// a library sort (or reversal) reorders its argument in place
					if f := x.Common().StaticCallee(); f != nil && len(x.Common().Args) > 0 {
						pkg, name := pkgPathOfFn(f), f.Name()
						if o := f.Origin(); o != nil {
							name = o.Name()
						}
						inPlace := (pkg == "sort" && (name == "Slice" || name == "SliceStable" || name == "Sort" || name == "Stable")) ||
							(pkg == "slices" && (strings.HasPrefix(name, "Sort") || name == "Reverse"))
						if inPlace {
							arg := x.Common().Args[0]
							under := arg
							for {
								switch y := under.(type) {
								case *ssa.MakeInterface:
									under = y.X
									continue
								case *ssa.ChangeType:
									under = y.X
									continue
								case *ssa.Convert:
									under = y.X
									continue
								}
								break
							}
							if isNodeList(under.Type()) {
								n++
								if r := sharedRoot(under, map[ssa.Value]bool{}); r != "" {
									bad++
									ck.fail(rule, ck.P.siteKey(x), ck.P.instrPos(x), funcID(fn), "node / pod lists received from the scan are not modified in place", name+" of "+r, "a list shared with later steps of the scan is reordered: the candidates are no longer the classifier's")
								}
							}
						}
					}
					if ap, ok := isBuiltinCall(x, "append"); ok && isNodeList(ap.Type()) {
						n++
						base := ap.Common().Args[0]
						_, isSlice := base.(*ssa.Slice)
						_, isPhi := base.(*ssa.Phi)
						if isSlice || isPhi {
							if r := sharedRoot(base, map[ssa.Value]bool{}); r != "" {
								bad++
								ck.fail(rule, ck.P.siteKey(x), ck.P.instrPos(x), funcID(fn), "node / pod lists received from the scan are not modified in place", "append into a re-slice of "+r, "filtering in place compacts the caller's backing array: elements of a list shared with later steps disappear or are duplicated")
							}
						}
					}
				}
			}
		}
	}
	ck.Stats[rule+" list writes examined"] = n
	if bad == 0 {
		ck.ok(rule, "scan/list-immutability", "", funcID(a.Scan), "no function reachable from the scan body writes into a node / pod list, or into a Node / Pod object, it received", fmt.Sprintf("%d element stores / appends and %d object field stores examined in %d functions", n, objStores, len(fns)))
	}
}

// writeConfirmed: fn (AddToBeRemovedTaint / DeleteToBeRemovedTaint) reports success — a nil error —
// only when the API server answered: on every return whose error result can be nil, the Get of this
// call succeeded, and if the Update was issued it succeeded too. The callers count a nil error as
// "one node tainted / untainted" (bounded accumulators of C03.R2 / C07.R3), so a success reported
// for a node that could not be read or written makes the loop stop short of N and the cloud
// request shrink by a node that was never reused.
func (ck *Check) writeConfirmed(rule string, fn *ssa.Function) {
	if fn == nil {
		ck.lost(rule, "taint writer", "function not resolved")
		return
	}
	ctx := ck.P.NewCtx(fn)
	var upd *ssa.Call
	get := ck.getCallIn(fn)
	for _, w := range ck.A.W {
		if w.Fn == fn && w.Class == "W-K8S-UPD" {
			upd, _ = w.Call.(*ssa.Call)
		}
	}
	if upd == nil && get != nil {
		// the Update in an executor helper this writer calls: the helper reports success only if the
		// Update succeeded, and the writer treats the helper's call as its write
		for _, w := range ck.A.W {
			if w.Class != "W-K8S-UPD" {
				continue
			}
			if writer, via := ck.executorOf(w.Fn); writer == fn {
				ck.executorConfirmed(rule, w.Fn, w.Call.(*ssa.Call))
				upd = via
			}
			// … or in a write helper shared by the two writers
			if upd == nil {
				if calls, ok := ck.writeHelperCalls(w); ok {
					for _, c := range calls {
						if c.Parent() == fn {
							if upd == nil {
								ck.executorConfirmed(rule, w.Fn, w.Call.(*ssa.Call))
							}
							upd = c
						}
					}
				}
			}
		}
	}
	if get == nil || upd == nil {
		ck.fail(rule, funcID(fn)+"/confirmed", ck.P.position(fn.Pos()), funcID(fn), "the taint writer reads the node with Get and writes it with Update", fmt.Sprintf("get=%v update=%v", get != nil, upd != nil), "")
		return
	}
	nilT := &Term{Kind: "const", Name: "nil"}
	errAtom := func(call *ssa.Call) *Formula {
		ct := ctx.Term(call)
		f := cmpFormula(token.EQL, &Term{Kind: "extract", Name: "1", Args: []*Term{ct}}, nilT)
		for _, b := range fn.Blocks {
			for _, at := range ctx.BlockPC(b).Atoms() {
				if at.Kind == "cmp" && at.Name == "==" && hasConstStr(at, "nil") {
					for _, x := range at.Args {
						if isExtractOf(x, 1, func(t *Term) bool { return t.Key() == ct.Key() }) {
							f = Atom(at)
						}
					}
				}
			}
		}
		return f
	}
	getOK, updOK := errAtom(get), errAtom(upd)
	// blocks reachable from the Update
	after := map[*ssa.BasicBlock]bool{}
	var walk func(b *ssa.BasicBlock)
	walk = func(b *ssa.BasicBlock) {
		for _, s := range b.Succs {
			if !after[s] {
				after[s] = true
				walk(s)
			}
		}
	}
	walk(upd.Block())
	n := 0
	for _, b := range fn.Blocks {
		r, ok := b.Instrs[len(b.Instrs)-1].(*ssa.Return)
		if !ok || len(r.Results) != 2 {
			continue
		}
		pc := ctx.PC(r)
		if k, isConst := r.Results[1].(*ssa.Const); !isConst || !k.IsNil() {
			if errorConstructor(r.Results[1]) {
				continue // a freshly built error: a failure return
			}
			et := ctx.Term(r.Results[1])
			pc = And(pc, cmpFormula(token.EQL, et, nilT))
		}
		if sat, _ := Satisfiable(pc); !sat {
			continue
		}
		key := fmt.Sprintf("%s/success-return#%d", funcID(fn), n)
		n++
		ck.entails(rule, key+"/read", r, pc, getOK, "a nil error is returned only if the Get of this call succeeded")
		if after[b] || b == upd.Block() {
			ck.entails(rule, key+"/written", r, pc, updOK, "after the Update, a nil error is returned only if the Update succeeded")
		} else if fn == ck.A.AddTaint {
			// success without a write: only when the fetched node already carries the taint — the
			// taint loop counts every nil error as one node tainted
			if present := ck.alreadyPresent(ctx, fn); present != nil {
				ck.entails(rule, key+"/present", r, pc, present, "without an Update, a nil error is returned only if the search found the escalator taint on the fetched node")
			} else {
				ck.fail(rule, key+"/present", ck.P.instrPos(r), funcID(fn), "without an Update, a nil error is returned only if the search found the escalator taint on the fetched node", "no search for the taint found", "a node counts as tainted although nothing was written and nothing was there")
			}
		}
	}
	ck.floor(rule, "success returns of "+fn.Name(), n, 1)
	// the converse, after the write: once the server accepted the Update (nil error, non-nil result)
	// the writer reports success — a failure reported for a write that took effect makes the taint
	// loop write one node more than decided
	ut := ctx.Term(upd)
	resNil := FFalse
	for _, b := range fn.Blocks {
		for _, at := range ctx.BlockPC(b).Atoms() {
			if at.Kind == "cmp" && at.Name == "==" && hasConstStr(at, "nil") {
				for _, x := range at.Args {
					if isExtractOf(x, 0, func(t *Term) bool { return t.Key() == ut.Key() }) {
						resNil = Atom(at)
					}
				}
			}
		}
	}
	m := 0
	for _, b := range fn.Blocks {
		r, ok := b.Instrs[len(b.Instrs)-1].(*ssa.Return)
		if !ok || len(r.Results) != 2 || !(after[b] || b == upd.Block()) {
			continue
		}
		pre := And(ctx.PC(r), updOK, Not(resNil))
		if sat, err := Satisfiable(pre); err == nil && !sat {
			continue
		}
		m++
		k, isConst := r.Results[1].(*ssa.Const)
		good := isConst && k.IsNil()
		if !good {
			// the Update's own error handed on: nil under the premise
			good = isExtractOf(ctx.Term(r.Results[1]), 1, func(t *Term) bool { return t.Key() == ut.Key() })
		}
		ck.cond(good, rule, fmt.Sprintf("%s/return@block%d/reported", funcID(fn), b.Index), ck.P.instrPos(r), funcID(fn), "after an Update the server accepted, the writer returns a nil error", ctx.Term(r.Results[1]).String(),
			"a write that took effect is reported as a failure: the caller does not count the node and writes another one")
	}
	ck.floor(rule, "returns of "+fn.Name()+" after an accepted Update", m, 1)
}

// alreadyPresent: the condition under which the taint writer's search found a taint with the
// escalator key — the verdict of a search function, or having left the range over some
// x.Spec.Taints through an exit other than exhaustion.
func (ck *Check) alreadyPresent(ctx *Ctx, fn *ssa.Function) *Formula {
	keyLit := fmt.Sprintf("%q", "atlassian.com/escalator")
	if call, _, found := ck.taintSearchCall(ctx, fn, keyLit); call != nil && found != nil {
		return found
	}
	var out *Formula
	for _, l := range loopsOf(fn) {
		if l.Over == nil {
			continue
		}
		ot := ctx.Term(l.Over)
		if !(ot.Kind == "field" && ot.Name == "Taints" && len(ot.Args) == 1 && ot.Args[0].Kind == "field" && ot.Args[0].Name == "Spec") {
			continue
		}
		for _, e := range l.Exits {
			if l.exhaustionExit(e[0]) {
				continue
			}
			f := ctx.edgePC(e[0], e[1])
			if out == nil {
				out = f
			} else {
				out = Or(out, f)
			}
		}
	}
	return out
}

// errorConstructor: v is the result of fmt.Errorf / errors.New / pkg/errors constructors (possibly
// converted to the error interface) — never nil.
func errorConstructor(v ssa.Value) bool {
	for {
		switch x := v.(type) {
		case *ssa.MakeInterface:
			v = x.X
			continue
		case *ssa.ChangeInterface:
			v = x.X
			continue
		case *ssa.Call:
			f := x.Call.StaticCallee()
			if f == nil || f.Pkg == nil {
				return false
			}
			switch f.Pkg.Pkg.Path() + "." + f.Name() {
			case "fmt.Errorf", "errors.New", "github.com/pkg/errors.New", "github.com/pkg/errors.Errorf", "github.com/pkg/errors.Wrap", "github.com/pkg/errors.Wrapf":
				return f.Name() != "Wrap" && f.Name() != "Wrapf" // Wrap(nil) is nil
			}
			return false
		case *ssa.Alloc:
			return true // &T{} converted to error
		}
		return false
	}
}

// existsSum: fn's last (boolean) result ⇔ ∃ e ∈ List: e.Field == Lit, where List is a term over
// fn's parameters and Lit a constant or one of fn's parameters.
type existsSum struct {
	Fn    *ssa.Function
	List  *Term
	Field string
	Lit   *Term
}

// existsSummary recognises a search function: one range loop, left early only to return true
// under exactly `elem.Field == Lit`, false returned only after exhaustion.
func (ck *Check) existsSummary(fn *ssa.Function) *existsSum {
	if fn == nil || fn.Blocks == nil {
		return nil
	}
	res := fn.Signature.Results()
	if res.Len() == 0 || !isBool(res.At(res.Len()-1).Type()) {
		return nil
	}
	var loop *Loop
	for _, l := range loopsOf(fn) {
		if l.IdxPhi == nil || loop != nil {
			return nil // not a slice range, or several loops
		}
		loop = l
	}
	if loop == nil {
		return ck.existsSummaryLibrary(fn)
	}
	ctx := ck.P.NewCtx(fn)
	ctx.maxD = 0 // the summary is about fn's own body
	sum := &existsSum{Fn: fn, List: ctx.Term(loop.Over)}
	trues := 0
	for _, b := range fn.Blocks {
		r, ok := b.Instrs[len(b.Instrs)-1].(*ssa.Return)
		if !ok {
			continue
		}
		k, isC := r.Results[len(r.Results)-1].(*ssa.Const)
		if !isC || k.Value == nil {
			return nil
		}
		if k.Value.String() != "true" {
			if innermostLoop(fn, b) != nil {
				return nil // false before the search is exhausted
			}
			continue
		}
		trues++
		pc := ctx.BlockPC(b)
		var m *Term
		for _, at := range pc.Atoms() {
			switch {
			case at.Kind == "cmp" && at.Name == "<" && strings.Contains(at.String(), "rangeindex"):
			case at.Kind == "cmp" && at.Name == "==" && m == nil:
				m = at
			default:
				return nil // extra conditions
			}
		}
		if m == nil {
			return nil
		}
		if imp, _, _ := Entails(pc, Atom(m)); !imp {
			return nil
		}
		var lit *Term
		fname, hit := "", false
		for i, x := range m.Args {
			switch {
			case x.Kind == "field" && isElemOf(x.Args[0], func(t *Term) bool { return t.Key() == sum.List.Key() }):
				fname, lit, hit = x.Name, m.Args[1-i], true
			case isElemOf(x, func(t *Term) bool { return t.Key() == sum.List.Key() }):
				fname, lit, hit = "", m.Args[1-i], true // the element itself is compared (membership)
			}
		}
		if !hit || !(lit.Kind == "const" || lit.Kind == "param") {
			return nil
		}
		if sum.Lit != nil && (sum.Lit.Key() != lit.Key() || sum.Field != fname) {
			return nil
		}
		sum.Field, sum.Lit = fname, lit
	}
	if trues == 0 {
		return nil
	}
	for _, e := range loop.Exits {
		if loop.exhaustionExit(e[0]) {
			continue
		}
		r, ok := e[1].Instrs[len(e[1].Instrs)-1].(*ssa.Return)
		if !ok {
			return nil
		}
		if k, ok := r.Results[len(r.Results)-1].(*ssa.Const); !ok || k.Value == nil || k.Value.String() != "true" {
			return nil
		}
	}
	return sum
}

// taintSearchCall: a call in fn of a search function that, with the call's arguments bound,
// decides ∃ t ∈ <node>.Spec.Taints: t.Key == keyLit. Returns the call, the node term and the
// formula of "found" in ctx's vocabulary.
func (ck *Check) taintSearchCall(ctx *Ctx, fn *ssa.Function, keyLit string) (*ssa.Call, *Term, *Formula) {
	for _, ci := range callsIn(fn, nil) {
		call, ok := ci.(*ssa.Call)
		if !ok {
			continue
		}
		// a library search written in place: slices.ContainsFunc(x.Spec.Taints, <Key == escalator key>)
		if list, probe, pred, found := ck.librarySearch(ctx, fn, call); list != nil {
			isKey := pred.kind == fAtom && pred.atom.Kind == "cmp" && pred.atom.Name == "==" && hasConstStr(pred.atom, keyLit)
			if isKey {
				okField := false
				for _, x := range pred.atom.Args {
					if x.Kind == "field" && x.Name == "Key" && len(x.Args) == 1 && x.Args[0].Key() == probe.Key() {
						okField = true
					}
				}
				if okField && list.Kind == "field" && list.Name == "Taints" && list.Args[0].Kind == "field" && list.Args[0].Name == "Spec" {
					return call, list.Args[0].Args[0], found
				}
			}
			continue
		}
		h := call.Common().StaticCallee()
		if h == nil || !ck.P.inRepo(h) {
			continue
		}
		sum := ck.existsSummary(h)
		if sum == nil || sum.Field != "Key" {
			continue
		}
		bind := map[ssa.Value]*Term{}
		args := make([]*Term, len(call.Common().Args))
		for i, av := range call.Common().Args {
			args[i] = ctx.Term(av)
			if i < len(h.Params) {
				bind[h.Params[i]] = args[i]
			}
		}
		lit := sum.Lit.subst(bind)
		list := sum.List.subst(bind)
		if !(lit.Kind == "const" && lit.Name == keyLit) {
			continue
		}
		if !(list.Kind == "field" && list.Name == "Taints" && list.Args[0].Kind == "field" && list.Args[0].Name == "Spec") {
			continue
		}
		// the formula of this very call's boolean result (its term carries the call's identity when
		// the enclosing function later writes the searched list)
		last := h.Signature.Results().Len() - 1
		var found *Formula
		if last == 0 {
			found = ctx.Formula(call)
		} else {
			for _, r := range *call.Referrers() {
				if ex, ok := r.(*ssa.Extract); ok && ex.Index == last {
					found = ctx.Formula(ex)
				}
			}
		}
		if found == nil {
			continue
		}
		return call, list.Args[0].Args[0], found
	}
	return nil, nil, nil
}

func valueOf(in ssa.Instruction) ssa.Value {
	v, _ := in.(ssa.Value)
	return v
}

// replaceTerm rebuilds t with every subterm of the given key replaced by `by`.
func replaceTerm(t *Term, key string, by *Term) *Term {
	if t == nil {
		return nil
	}
	if t.Key() == key {
		return by
	}
	if len(t.Args) == 0 {
		return t
	}
	changed := false
	args := make([]*Term, len(t.Args))
	for i, a := range t.Args {
		args[i] = replaceTerm(a, key, by)
		if args[i] != a {
			changed = true
		}
	}
	if !changed {
		return t
	}
	n := *t
	n.Args = args
	n.key, n.str = "", ""
	return &n
}

// foldCmp evaluates a comparison atom whose operands are integer constants.
func foldCmp(at *Term) *Formula {
	if at.Kind == "cmp" && len(at.Args) == 2 {
		a, okA := at.Args[0].isConstInt()
		b, okB := at.Args[1].isConstInt()
		if okA && okB {
			var v bool
			switch at.Name {
			case "<":
				v = a < b
			case "==":
				v = a == b
			default:
				return Atom(at)
			}
			if v {
				return FTrue
			}
			return FFalse
		}
	}
	return Atom(at)
}

// fetchHelper: h returns (object, error) where every return with a nil error hands out an object
// freshly fetched from the API server in the same call (result 0 of the typed client's Get, or of
// another fetch helper), and every other return carries a non-nil error.
func (ck *Check) fetchHelper(h *ssa.Function, depth int) bool {
	if h == nil || h.Blocks == nil || depth > 2 || h.Signature.Results().Len() != 2 || !isErrorType(h.Signature.Results().At(1).Type()) {
		return false
	}
	fresh := func(v ssa.Value) bool {
		ex, ok := v.(*ssa.Extract)
		if !ok || ex.Index != 0 {
			return false
		}
		c, ok := ex.Tuple.(*ssa.Call)
		if !ok {
			return false
		}
		if c.Common().IsInvoke() {
			cls, _ := classifyExternal(c.Common().Value.Type(), c.Common().Method.Name())
			return c.Common().Method.Name() == "Get" && strings.Contains(cls, "K8S") || c.Common().Method.Name() == "Get" && strings.HasSuffix(c.Common().Value.Type().String(), "NodeInterface")
		}
		if g := c.Common().StaticCallee(); g != nil && ck.P.inRepo(g) {
			return ck.fetchHelper(g, depth+1)
		}
		return false
	}
	ctx := ck.P.NewCtx(h)
	good := 0
	for _, b := range h.Blocks {
		r, ok := b.Instrs[len(b.Instrs)-1].(*ssa.Return)
		if !ok {
			continue
		}
		if f, ok := ctx.nilDecided(r.Results[1], 0); ok && f == FFalse {
			continue // an error return
		}
		if k, ok := r.Results[1].(*ssa.Const); ok && k.IsNil() && fresh(r.Results[0]) {
			good++
			continue
		}
		// `return obj, err` forwarding both results of the fetch itself
		if ex, ok := r.Results[1].(*ssa.Extract); ok && ex.Index == 1 && fresh(r.Results[0]) {
			if e0, ok := r.Results[0].(*ssa.Extract); ok && e0.Tuple == ex.Tuple {
				good++
				continue
			}
		}
		return false
	}
	return good > 0
}

// getCallIn: the call in fn that fetches the node from the server: the typed client's Get, or a
// call of a fetch helper.
func (ck *Check) getCallIn(fn *ssa.Function) *ssa.Call {
	for _, r := range ck.A.R {
		if r.Fn == fn && r.Method == "Get" {
			if c, ok := r.Call.(*ssa.Call); ok {
				return c
			}
		}
	}
	for _, ci := range callsIn(fn, nil) {
		if c, ok := ci.(*ssa.Call); ok {
			if h := c.Common().StaticCallee(); h != nil && ck.P.inRepo(h) && ck.fetchHelper(h, 0) {
				return c
			}
		}
	}
	return nil
}

// deleteThroughHelper: the untaint's search-and-remove lives in a mutator helper h(fetched, key)
// bool: with h's parameters bound to the call's arguments, h searches fetched.Spec.Taints for the
// escalator key, removes exactly the matched element before returning true, leaves the object
// untouched when it returns false, and the caller's Update runs only when h returned true.
func (ck *Check) deleteThroughHelper(us *updSite, keyLit string) bool {
	fn, ctx := us.fn, us.ctx
	for _, ci := range callsIn(fn, nil) {
		call, ok := ci.(*ssa.Call)
		if !ok || !dominatesInstr(call, us.upd) {
			continue
		}
		h := call.Common().StaticCallee()
		if h == nil || !ck.P.inRepo(h) || h.Blocks == nil || h.Signature.Results().Len() != 1 || !isBool(h.Signature.Results().At(0).Type()) {
			continue
		}
		args := make([]*Term, len(call.Common().Args))
		for i, av := range call.Common().Args {
			args[i] = ctx.Term(av)
		}
		ch := ctx.child(h, call, args)
		ch.depth = 0
		var loop *Loop
		for _, l := range loopsOf(h) {
			if l.IdxPhi == nil {
				continue
			}
			ot := ch.Term(l.Over)
			if ot.Kind == "field" && ot.Name == "Taints" && ot.Args[0].Kind == "field" && ot.Args[0].Name == "Spec" && ot.Args[0].Args[0].Key() == us.fetched.Key() {
				loop = l
			}
		}
		if loop == nil {
			continue
		}
		key := ck.P.siteKey(us.upd)
		// the match atom in the helper: elem.Key == <escalator key> (key parameter bound)
		var match *Term
		for _, b := range h.Blocks {
			for _, at := range ch.BlockPC(b).Atoms() {
				if at.Kind == "cmp" && at.Name == "==" && hasConstStr(at, keyLit) {
					for _, x := range at.Args {
						if x.Kind == "field" && x.Name == "Key" {
							match = at
						}
					}
				}
			}
		}
		if match == nil {
			ck.fail("C15.R4", key+"/match", ck.P.instrPos(call), funcID(h), "the search compares each taint's Key with "+keyLit, "no such comparison in "+funcID(h), "")
			return true
		}
		// returns: true ones are commits, false ones must not follow a store into the object
		var stores []*ssa.Store
		for _, b := range h.Blocks {
			for _, in := range b.Instrs {
				if st, ok := in.(*ssa.Store); ok {
					if _, rooted := rootedAt(ch, st.Addr, us.fetched); rooted {
						stores = append(stores, st)
					}
				}
			}
		}
		okFalse := true
		ncommit := 0
		for _, b := range h.Blocks {
			r, ok := b.Instrs[len(b.Instrs)-1].(*ssa.Return)
			if !ok {
				continue
			}
			k, isC := r.Results[0].(*ssa.Const)
			if !isC || k.Value == nil {
				okFalse = false
				continue
			}
			if k.Value.String() == "true" {
				ncommit++
				us2 := &updSite{fn: h, ctx: ch, get: us.get, upd: us.upd, fetched: us.fetched, commit: r, key: key}
				ck.deleteIdiom("C15.R5", us2, loop, match)
				continue
			}
			for _, st := range stores {
				if reachesWithout(st, r, func(ssa.Instruction) bool { return false }) {
					okFalse = false
				}
			}
		}
		ck.cond(okFalse && ncommit >= 1, "C15.R5", key+"/helper-false", ck.P.instrPos(call), funcID(h), "the mutator helper leaves the object untouched when it reports that nothing was removed", "", "the object is modified although the helper returns false")
		// the Update runs only when the helper removed the taint
		removed := ctx.Formula(call)
		ck.entails("C15.R4", key+"/search", us.upd, ctx.PC(us.upd), removed, "Update runs only when the search found and removed the escalator taint (through "+funcID(h)+")")
		return true
	}
	return false
}

// predicateOf: the boolean result of applying the function value v (a closure made in fn, or the
// closure returned by a repo factory such as taintHasKey(key)) to the element term, in ctx's
// vocabulary. nil when v is not such a value.
func (ck *Check) predicateOf(ctx *Ctx, fn *ssa.Function, v ssa.Value, elem *Term) *Formula {
	switch x := v.(type) {
	case *ssa.MakeClosure:
		return closureResult(ctx, x, []*Term{elem})
	case *ssa.Call:
		h := x.Common().StaticCallee()
		if h == nil || !ck.P.inRepo(h) || h.Blocks == nil || len(h.Blocks) != 1 {
			return nil
		}
		r, ok := h.Blocks[0].Instrs[len(h.Blocks[0].Instrs)-1].(*ssa.Return)
		if !ok || len(r.Results) != 1 {
			return nil
		}
		mc, ok := r.Results[0].(*ssa.MakeClosure)
		if !ok {
			return nil
		}
		args := make([]*Term, len(x.Common().Args))
		for i, av := range x.Common().Args {
			args[i] = ctx.Term(av)
		}
		ch := ctx.child(h, x, args)
		ch.depth = 0
		return closureResult(ch, mc, []*Term{elem})
	case *ssa.Function:
		if ck.P.inRepo(x) && x.Blocks != nil && !infoOf(x).hasLoop && len(x.Params) == 1 {
			ch := ctx.child(x, nil, []*Term{elem})
			ch.depth = 0
			return ch.returnFormula(0)
		}
	}
	return nil
}

// librarySearch: call is slices.ContainsFunc / slices.IndexFunc / slices.Contains / slices.Index over
// a list; returns the list term, the formula of "the element satisfies the predicate" for a probe
// element, and the formula of "found" for this very call.
func (ck *Check) librarySearch(ctx *Ctx, fn *ssa.Function, call *ssa.Call) (list *Term, probe *Term, pred *Formula, found *Formula) {
	f := call.Common().StaticCallee()
	if f == nil || pkgPathOfFn(f) != "slices" || len(call.Common().Args) != 2 {
		return nil, nil, nil, nil
	}
	list = ctx.Term(call.Common().Args[0])
	probe = &Term{Kind: "elem", Args: []*Term{list}, ID: "probe"}
	name := f.Name()
	switch {
	case strings.HasPrefix(name, "ContainsFunc"), strings.HasPrefix(name, "IndexFunc"):
		pred = ck.predicateOf(ctx, fn, call.Common().Args[1], probe)
	case strings.HasPrefix(name, "Contains"), strings.HasPrefix(name, "Index"):
		pred = cmpFormula(token.EQL, probe, ctx.Term(call.Common().Args[1]))
	}
	if pred == nil {
		return nil, nil, nil, nil
	}
	if strings.HasPrefix(name, "Contains") {
		found = ctx.Formula(call)
	} else {
		found = Not(cmpFormula(token.LSS, ctx.Term(call), zeroTerm(types.Typ[types.Int])))
	}
	return
}

// existsSummaryLibrary: a loop-free search function built on slices.ContainsFunc / IndexFunc /
// Contains / Index: its last (boolean) result is true exactly when the library search finds an
// element, and the predicate is `e.Field == Lit` (or `e == Lit`).
func (ck *Check) existsSummaryLibrary(fn *ssa.Function) *existsSum {
	if infoOf(fn).hasLoop {
		return nil
	}
	ctx := ck.P.NewCtx(fn)
	ctx.maxD = 0
	var sum *existsSum
	for _, ci := range callsIn(fn, nil) {
		call, ok := ci.(*ssa.Call)
		if !ok {
			continue
		}
		list, probe, pred, found := ck.librarySearch(ctx, fn, call)
		if list == nil {
			continue
		}
		if pred.kind != fAtom || pred.atom.Kind != "cmp" || pred.atom.Name != "==" {
			return nil
		}
		var lit *Term
		fname, hit := "", false
		for i, x := range pred.atom.Args {
			switch {
			case x.Kind == "field" && len(x.Args) == 1 && x.Args[0].Key() == probe.Key():
				fname, lit, hit = x.Name, pred.atom.Args[1-i], true
			case x.Key() == probe.Key():
				fname, lit, hit = "", pred.atom.Args[1-i], true
			}
		}
		if !hit || !(lit.Kind == "const" || lit.Kind == "param") {
			return nil
		}
		// the function's boolean result ⇔ found
		last := fn.Signature.Results().Len() - 1
		got := ctx.returnFormula(last)
		if eq, _, _ := Equivalent(got, found); !eq {
			return nil
		}
		if sum != nil {
			return nil // several searches
		}
		sum = &existsSum{Fn: fn, List: list, Field: fname, Lit: lit}
	}
	return sum
}

// stringParams: the (label key, label value) parameters of a filter constructor, by position.
func stringParams(bf *builtFilter) (*Term, *Term, bool) {
	var out []*Term
	for _, p := range bf.Params {
		if b, ok := p.Typ.Underlying().(*types.Basic); ok && b.Kind() == types.String {
			out = append(out, p)
		}
	}
	if len(out) != 2 {
		return nil, nil, false
	}
	return out[0], out[1], true
}

// affinityFilterQ (C14.R1 / C12.R7): the predicate NewPodAffinityFilterFunc(k, v) returns is
// ¬DaemonSet(p) ∧ (selector[k] present ∧ = v ∨ ∃ t ∈ required(p) ∃ x ∈ t.MatchExpressions:
// x.Key = k ∧ x.Operator = In ∧ ∃ w ∈ x.Values: w = v), however it is written. Returns false
// (and reports nothing) when that could not be shown and a structural fallback exists.
func (ck *Check) affinityFilterQ(rule string, cons, isDS, unwrap *ssa.Function, haveFallback bool) bool {
	required := "labelled group: counts ⇔ ¬DaemonSet ∧ (selector[key] = value ∨ ∃ required term ∃ expression: Key = key ∧ Operator = In ∧ ∃ value = label value)"
	bf, why := ck.builtFilterOf(cons)
	var okv bool
	var got string
	if bf != nil && unwrap != nil {
		k, v, okp := stringParams(bf)
		if !okp {
			why = "the constructor does not take (label key, label value)"
		} else {
			pod := bf.Obj
			ds := ck.qExpand(bf.Ctx, Atom(&Term{Kind: "call", Name: funcID(isDS), Fn: isDS, Obj: isDS.Object(), Args: []*Term{pod}}), 0)
			if bf.Ctx.inlinable(isDS) {
				ds = boolResultFormula(bf.Ctx, isDS, []*Term{pod}, 0)
			}
			lk := &Term{Kind: "lookup", Args: []*Term{ck.nodeField(pod, "Spec", "NodeSelector"), k}}
			selOK := Atom(&Term{Kind: "extract", Name: "1", Args: []*Term{lk}})
			selEq := cmpFormula(token.EQL, &Term{Kind: "extract", Name: "0", Args: []*Term{lk}}, v)
			terms := &Term{Kind: "call", Name: funcID(unwrap), Fn: unwrap, Obj: unwrap.Object(), Args: []*Term{pod}, Typ: unwrap.Signature.Results().At(0).Type()}
			t1 := boundElem(terms)
			exprs := ck.nodeField(t1, "MatchExpressions")
			x := boundElem(exprs)
			vals := ck.nodeField(x, "Values")
			w := boundElem(vals)
			inner := And(
				cmpFormula(token.EQL, ck.nodeField(x, "Key"), k),
				cmpFormula(token.EQL, ck.nodeField(x, "Operator"), &Term{Kind: "const", Name: `"In"`}),
				mkExists(vals, cmpFormula(token.EQL, w, v)))
			aff := mkExists(terms, mkExists(exprs, inner))
			want := And(Not(ds), Or(And(selOK, selEq), aff))
			// the plain index form of the selector test: a missing key reads "", never the label value
			wantIdx := And(Not(ds), Or(cmpFormula(token.EQL, lk, v), aff))
			got = bf.Got.String()
			eq, w1, err := Equivalent(bf.Got, want)
			if err != nil {
				why = err.Error()
			} else if eq {
				okv = true
			} else if eq2, _, _ := Equivalent(bf.Got, wantIdx); eq2 {
				okv = true
			} else {
				why = w1
			}
		}
	}
	if !okv && haveFallback {
		return false
	}
	pos := ""
	fid := "NewPodAffinityFilterFunc"
	if cons != nil {
		pos, fid = ck.P.position(cons.Pos()), funcID(cons)
	}
	ck.cond(okv, rule, "affinity-filter", pos, fid, required, got, why)
	if okv && unwrap != nil {
		ck.unwrapShape(rule, unwrap)
	}
	return true
}

// nodeLabelFilterQ (C14.R3): NewNodeLabelFilterFunc(k, v) returns n ↦ labels[k] present ∧ = v.
func (ck *Check) nodeLabelFilterQ(rule string, cons *ssa.Function, haveFallback bool) bool {
	bf, why := ck.builtFilterOf(cons)
	okv := false
	got := ""
	if bf != nil {
		k, v, okp := stringParams(bf)
		if !okp {
			why = "the constructor does not take (label key, label value)"
		} else {
			lk := &Term{Kind: "lookup", Args: []*Term{ck.nodeField(bf.Obj, "ObjectMeta", "Labels"), k}}
			present := Atom(&Term{Kind: "extract", Name: "1", Args: []*Term{lk}})
			equal := cmpFormula(token.EQL, &Term{Kind: "extract", Name: "0", Args: []*Term{lk}}, v)
			got = bf.Got.String()
			eq, w1, err := Equivalent(bf.Got, And(present, equal))
			switch {
			case err != nil:
				why = err.Error()
			case eq:
				okv = true
			default:
				why = w1
			}
		}
	}
	if !okv && haveFallback {
		return false
	}
	pos, fid := "", "NewNodeLabelFilterFunc"
	if cons != nil {
		pos, fid = ck.P.position(cons.Pos()), funcID(cons)
	}
	ck.cond(okv, rule, "node-filter", pos, fid, "node belongs ⇔ labels[key] present ∧ = value", got, why)
	return true
}

// liveClient (C15.R9, C01 / C03 by sharing): "fetch the latest version" is a read of the API
// server only if the typed client the writers are handed is client-go's. The repo may wrap a
// clientset (Client embeds kubernetes.Interface) but must not answer any method of the typed
// client interfaces itself: a repo-declared CoreV1 / Nodes / Get / Update … can serve the
// informer cache's copy (stale: the exists-test misses a taint that is already there and a second
// time stamp is written) or drop a write. Decided over the types: (a) no shipped named type has
// in its method set a method of these interfaces that is declared in the repo, (b) no shipped
// function converts a repo type to one of them.
func (ck *Check) liveClient(rule string) {
	guarded := map[string][]string{
		"k8s.io/client-go/kubernetes":               {"Interface"},
		"k8s.io/client-go/kubernetes/typed/core/v1": {"CoreV1Interface", "NodeInterface", "PodInterface"},
	}
	var ifaces []*types.Named
	seenPkg := map[*types.Package]bool{}
	var visit func(p *types.Package)
	visit = func(p *types.Package) {
		if p == nil || seenPkg[p] {
			return
		}
		seenPkg[p] = true
		if names, ok := guarded[p.Path()]; ok {
			for _, n := range names {
				if tn, ok := p.Scope().Lookup(n).(*types.TypeName); ok {
					if nt, ok := tn.Type().(*types.Named); ok {
						ifaces = append(ifaces, nt)
					}
				}
			}
		}
		for _, q := range p.Imports() {
			visit(q)
		}
	}
	for _, pk := range ck.P.Pkgs {
		if ck.P.isShippedPkg(pk.Types) {
			visit(pk.Types)
		}
	}
	if len(ifaces) < 3 {
		ck.lost(rule, "typed client interfaces", fmt.Sprintf("only %d of kubernetes.Interface, CoreV1Interface, NodeInterface, PodInterface found in the import graph", len(ifaces)))
		return
	}
	ntypes, nconv, bad := 0, 0, 0
	reported := map[string]bool{}
	for _, pk := range ck.P.Pkgs {
		if !ck.P.isShippedPkg(pk.Types) {
			continue
		}
		sc := pk.Types.Scope()
		for _, name := range sc.Names() {
			tn, ok := sc.Lookup(name).(*types.TypeName)
			if !ok || tn.IsAlias() {
				continue
			}
			nt, ok := tn.Type().(*types.Named)
			if !ok {
				continue
			}
			if _, isIface := nt.Underlying().(*types.Interface); isIface {
				continue
			}
			ntypes++
			for _, recv := range []types.Type{nt, types.NewPointer(nt)} {
				ms := types.NewMethodSet(recv)
				for _, it := range ifaces {
					iface := it.Underlying().(*types.Interface)
					if !types.Implements(recv, iface) {
						continue
					}
					for i := 0; i < iface.NumMethods(); i++ {
						m := iface.Method(i)
						sel := ms.Lookup(m.Pkg(), m.Name())
						if sel == nil {
							continue
						}
						if f, ok := sel.Obj().(*types.Func); ok && ck.P.isShippedPkg(f.Pkg()) {
							k := typeName(nt) + "." + m.Name()
							if reported[k] {
								continue
							}
							reported[k] = true
							// a pass-through (instrumentation around the embedded client's own answer, or another
							// wrapper of the same kind) changes nothing the writers can observe
							if ck.passThroughMethod(f, ifaces) {
								continue
							}
							bad++
							ck.fail(rule, fmt.Sprintf("client-method:%s.%s", typeName(nt), m.Name()), ck.P.position(f.Pos()), typeName(nt), "no repo type answers a method of the typed Kubernetes client itself (wrappers only embed client-go's)", typeName(it)+"."+m.Name()+" is declared by "+typeName(nt),
								"the taint writers' Get / Update may not reach the API server: a cached Get misses an existing taint and a second time stamp is written; foreign changes are overwritten")
						}
					}
				}
			}
		}
	}
	for _, fn := range ck.P.Funcs {
		for _, b := range fn.Blocks {
			for _, in := range b.Instrs {
				mi, ok := in.(*ssa.MakeInterface)
				if !ok {
					continue
				}
				target := false
				for _, it := range ifaces {
					if types.Identical(mi.Type(), it) {
						target = true
					}
				}
				if !target {
					continue
				}
				nconv++
				xt := mi.X.Type()
				if pt, ok := xt.(*types.Pointer); ok {
					xt = pt.Elem()
				}
				if nt, ok := xt.(*types.Named); ok && nt.Obj() != nil && ck.P.isShippedPkg(nt.Obj().Pkg()) {
					// a repo wrapper that only embeds is fine: its methods were examined above
					continue
				}
				if _, ok := xt.(*types.Named); !ok {
					bad++
					ck.fail(rule, funcID(fn)+"/"+ck.P.siteKeyInstr(mi), ck.P.instrPos(mi), funcID(fn), "values converted to the typed client interfaces are client-go's or repo wrappers that embed them", xt.String(), "an unnamed local type stands in for the typed client")
				}
			}
		}
	}
	ck.Stats[rule+" shipped named types examined"] = ntypes
	ck.Stats[rule+" conversions to client interfaces"] = nconv
	if bad == 0 {
		ck.ok(rule, "typed-client/live", "", "", "no repo type answers a method of the typed Kubernetes client itself (wrappers only embed client-go's)", fmt.Sprintf("%d named types, %d interfaces, %d conversions examined", ntypes, len(ifaces), nconv))
	}
	ck.floor(rule, "shipped named types examined", ntypes, 10)
}

// passThroughMethod: every return of the repo method f hands back, unchanged and in order, the
// results of the same-named method invoked on a typed-client interface value (the embedded
// client), or a repo wrapper converted to a typed-client interface (whose methods are held to the
// same rule).
func (ck *Check) passThroughMethod(f *types.Func, ifaces []*types.Named) bool {
	var fn *ssa.Function
	for _, g := range ck.P.Funcs {
		if g.Object() == types.Object(f) {
			fn = g
		}
	}
	if fn == nil || fn.Blocks == nil {
		return false
	}
	isGuarded := func(t types.Type) bool {
		for _, it := range ifaces {
			if types.Identical(t, it) {
				return true
			}
		}
		return false
	}
	nret := 0
	for _, b := range fn.Blocks {
		r, ok := b.Instrs[len(b.Instrs)-1].(*ssa.Return)
		if !ok {
			continue
		}
		nret++
		if len(r.Results) == 1 {
			switch x := r.Results[0].(type) {
			case *ssa.Call:
				if x.Common().IsInvoke() && x.Common().Method.Name() == f.Name() && isGuarded(x.Common().Value.Type()) {
					continue
				}
			case *ssa.MakeInterface:
				xt := x.X.Type()
				if pt, ok := xt.(*types.Pointer); ok {
					xt = pt.Elem()
				}
				if nt, ok := xt.(*types.Named); ok && nt.Obj() != nil && ck.P.isShippedPkg(nt.Obj().Pkg()) && isGuarded(x.Type()) {
					continue
				}
			}
			return false
		}
		var src *ssa.Call
		for i, rv := range r.Results {
			ex, ok := rv.(*ssa.Extract)
			if !ok || ex.Index != i {
				return false
			}
			c, ok := ex.Tuple.(*ssa.Call)
			if !ok || (src != nil && src != c) {
				return false
			}
			src = c
		}
		if src == nil || !src.Common().IsInvoke() || src.Common().Method.Name() != f.Name() || !isGuarded(src.Common().Value.Type()) {
			return false
		}
	}
	return nret > 0
}

// clusterView (C13.R7 / C01.R11): the scan's view of the cluster is what the two informers list
// and watch. Every call of cache.NewListWatchFromClient in shipped code is for "pods" or "nodes",
// over all namespaces; the node selector selects everything, and the pod selector leaves out
// nothing but pods whose phase is Succeeded or Failed (pods that hold no resources any more). A
// namespace, a label or phase restriction makes pods invisible: their requests are missing from
// the utilisation and their node looks empty to the reapers. The selector is read as a set of
// (field, operator, value) requirements, however it is built (ParseSelector* of a constant string,
// fmt.Sprint / + / strings.Join of constants, OneTerm*Selector, AndSelectors, Everything).
func (ck *Check) clusterView(rule string) {
	type req struct{ k, op, v string }
	// env binds the parameters of a list-watch helper to the arguments of one of its call sites
	var env map[*ssa.Parameter]ssa.Value
	// paramField: v reads field i of a structure parameter the env binds (directly, or through the
	// compiler's spill of the parameter): the value the call site stored into that field of the
	// literal it passes
	paramField := func(v ssa.Value) (ssa.Value, bool) {
		var prm *ssa.Parameter
		fld := -1
		switch x := v.(type) {
		case *ssa.Field:
			prm, _ = x.X.(*ssa.Parameter)
			fld = x.Field
		case *ssa.UnOp:
			if fa, ok := x.X.(*ssa.FieldAddr); ok && x.Op == token.MUL {
				if al, ok := fa.X.(*ssa.Alloc); ok && al.Referrers() != nil {
					n := 0
					for _, r := range *al.Referrers() {
						if st, ok := r.(*ssa.Store); ok && st.Addr == ssa.Value(al) {
							n++
							prm, _ = st.Val.(*ssa.Parameter)
						}
					}
					if n != 1 {
						prm = nil
					}
					fld = fa.Field
				}
			}
		}
		if prm == nil || env == nil {
			return nil, false
		}
		bv, ok := env[prm]
		if !ok {
			return nil, false
		}
		ld, ok := bv.(*ssa.UnOp)
		if !ok || ld.Op != token.MUL {
			return nil, false
		}
		lit, ok := ld.X.(*ssa.Alloc)
		if !ok || lit.Referrers() == nil {
			return nil, false
		}
		var val ssa.Value
		var at *ssa.Store
		n := 0
		for _, r := range *lit.Referrers() {
			switch y := r.(type) {
			case *ssa.FieldAddr:
				if y.Field != fld {
					continue
				}
				for _, rr := range *y.Referrers() {
					if st, ok := rr.(*ssa.Store); ok && st.Addr == ssa.Value(y) {
						n++
						val, at = st.Val, st
					} else if _, isLoad := rr.(*ssa.UnOp); !isLoad {
						return nil, false
					}
				}
			case *ssa.Store:
				if y.Addr == ssa.Value(lit) {
					return nil, false
				}
			}
		}
		if n != 1 || !dominatesInstr(at, ld) {
			return nil, false
		}
		return val, true
	}
	var constStr func(v ssa.Value, depth int) (string, bool)
	constStr = func(v ssa.Value, depth int) (string, bool) {
		if depth > 6 {
			return "", false
		}
		if fv, ok := paramField(v); ok {
			saved := env
			env = nil
			s, ok := constStr(fv, depth+1)
			env = saved
			return s, ok
		}
		switch x := v.(type) {
		case *ssa.Parameter:
			if bv, ok := env[x]; ok {
				saved := env
				env = nil
				s, ok := constStr(bv, depth+1)
				env = saved
				return s, ok
			}
		case *ssa.Const:
			if x.Value != nil && x.Value.Kind() == constant.String {
				return constant.StringVal(x.Value), true
			}
		case *ssa.Convert:
			return constStr(x.X, depth+1)
		case *ssa.ChangeType:
			return constStr(x.X, depth+1)
		case *ssa.MakeInterface:
			return constStr(x.X, depth+1)
		case *ssa.BinOp:
			if x.Op == token.ADD {
				a, ok1 := constStr(x.X, depth+1)
				b, ok2 := constStr(x.Y, depth+1)
				return a + b, ok1 && ok2
			}
		case *ssa.Call:
			f := x.Common().StaticCallee()
			if f == nil {
				return "", false
			}
			switch f.String() {
			case "fmt.Sprint":
				// operands of string kind are concatenated without spaces
				els, ok := variadicElems(x.Common().Args[0])
				if !ok {
					return "", false
				}
				out := ""
				for _, e := range els {
					s, ok := constStr(e, depth+1)
					if !ok {
						return "", false
					}
					out += s
				}
				return out, true
			case "strings.Join":
				sl, ok := x.Common().Args[0].(*ssa.Slice)
				if !ok {
					return "", false
				}
				els, ok := variadicElems(sl)
				sep, ok2 := constStr(x.Common().Args[1], depth+1)
				if !ok || !ok2 {
					return "", false
				}
				var parts []string
				for _, e := range els {
					s, ok := constStr(e, depth+1)
					if !ok {
						return "", false
					}
					parts = append(parts, s)
				}
				return strings.Join(parts, sep), true
			}
		}
		return "", false
	}
	var selector func(v ssa.Value, depth int) ([]req, bool)
	selector = func(v ssa.Value, depth int) ([]req, bool) {
		if depth > 6 {
			return nil, false
		}
		if ex, ok := v.(*ssa.Extract); ok && ex.Index == 0 {
			v = ex.Tuple
		}
		if fv, ok := paramField(v); ok {
			saved := env
			env = nil
			r, ok := selector(fv, depth+1)
			env = saved
			return r, ok
		}
		if prm, ok := v.(*ssa.Parameter); ok {
			if bv, ok := env[prm]; ok {
				saved := env
				env = nil
				r, ok := selector(bv, depth+1)
				env = saved
				return r, ok
			}
		}
		c, ok := v.(*ssa.Call)
		if !ok {
			return nil, false
		}
		f := c.Common().StaticCallee()
		if f == nil || pkgPathOfFn(f) != "k8s.io/apimachinery/pkg/fields" {
			return nil, false
		}
		switch f.Name() {
		case "Everything":
			return nil, true
		case "ParseSelectorOrDie", "ParseSelector":
			s, ok := constStr(c.Common().Args[0], 0)
			if !ok {
				return nil, false
			}
			var out []req
			for _, part := range strings.Split(s, ",") {
				if part == "" {
					continue
				}
				switch {
				case strings.Contains(part, "!="):
					kv := strings.SplitN(part, "!=", 2)
					out = append(out, req{kv[0], "!=", kv[1]})
				case strings.Contains(part, "=="):
					kv := strings.SplitN(part, "==", 2)
					out = append(out, req{kv[0], "=", kv[1]})
				case strings.Contains(part, "="):
					kv := strings.SplitN(part, "=", 2)
					out = append(out, req{kv[0], "=", kv[1]})
				default:
					return nil, false
				}
			}
			return out, true
		case "OneTermEqualSelector", "OneTermNotEqualSelector":
			k, ok1 := constStr(c.Common().Args[0], 0)
			val, ok2 := constStr(c.Common().Args[1], 0)
			op := "="
			if f.Name() == "OneTermNotEqualSelector" {
				op = "!="
			}
			return []req{{k, op, val}}, ok1 && ok2
		case "AndSelectors":
			els, ok := variadicElems(c.Common().Args[0])
			if !ok {
				return nil, false
			}
			var out []req
			for _, e := range els {
				r, ok := selector(e, depth+1)
				if !ok {
					return nil, false
				}
				out = append(out, r...)
			}
			return out, true
		}
		return nil, false
	}
	seen := map[string]int{}
	for _, fn := range ck.P.Funcs {
		for _, ci := range callsIn(fn, nil) {
			f := ci.Common().StaticCallee()
			if f == nil || f.Name() != "NewListWatchFromClient" || !strings.HasSuffix(pkgPathOfFn(f), "client-go/tools/cache") || len(ci.Common().Args) != 4 {
				continue
			}
			args := ci.Common().Args
			// a helper that takes the resource, the namespace or the selector as parameters is read
			// once per call site
			var envs []map[*ssa.Parameter]ssa.Value
			usesParam := false
			for _, av := range args[1:] {
				if _, isP := av.(*ssa.Parameter); isP {
					usesParam = true
				}
				// a field of a structure parameter ("what to watch")
				switch x := av.(type) {
				case *ssa.Field:
					if _, isP := x.X.(*ssa.Parameter); isP {
						usesParam = true
					}
				case *ssa.UnOp:
					if fa, ok := x.X.(*ssa.FieldAddr); ok {
						if _, isAl := fa.X.(*ssa.Alloc); isAl {
							usesParam = true
						}
					}
				}
			}
			if usesParam {
				for _, site := range ck.P.staticSitesOf(fn) {
					e := map[*ssa.Parameter]ssa.Value{}
					for k, av := range site.Common().Args {
						if k < len(fn.Params) {
							e[fn.Params[k]] = av
						}
					}
					envs = append(envs, e)
				}
			}
			if len(envs) == 0 {
				envs = []map[*ssa.Parameter]ssa.Value{nil}
			}
			for _, e := range envs {
				env = e
				res, okR := constStr(args[1], 0)
				ns, okN := constStr(args[2], 0)
				key := funcID(fn) + "/list-watch:" + res
				if !okR || (res != "pods" && res != "nodes") {
					ck.fail(rule, funcID(fn)+"/list-watch", ck.P.instrPos(ci), funcID(fn), "the informers list and watch \"pods\" and \"nodes\"", args[1].String(), "")
					continue
				}
				seen[res]++
				ck.cond(okN && ns == "", rule, key+"/namespace", ck.P.instrPos(ci), funcID(fn), res+" are listed and watched in all namespaces", args[2].String(), "pods outside the watched namespace are invisible: their requests are not counted and their nodes look empty")
				reqs, okS := selector(args[3], 0)
				if !okS {
					ck.undecided(rule, key+"/selector", ck.P.instrPos(ci), funcID(fn), "the field selector is built from constants (ParseSelector*, OneTerm*Selector, AndSelectors, Everything)", args[3].String())
					continue
				}
				var extra []string
				for _, r := range reqs {
					if res == "pods" && r.k == "status.phase" && r.op == "!=" && (r.v == "Succeeded" || r.v == "Failed") {
						continue
					}
					extra = append(extra, r.k+r.op+r.v)
				}
				want := "every node"
				if res == "pods" {
					want = "every pod except those whose phase is Succeeded or Failed"
				}
				ck.cond(len(extra) == 0, rule, key+"/selector", ck.P.instrPos(ci), funcID(fn), "the informer selects "+want, fmt.Sprint(reqs), "objects are hidden from every scan by the selector: "+strings.Join(extra, ", "))
			}
			env = nil
		}
	}
	ck.cond(seen["pods"] == 1 && seen["nodes"] == 1, rule, "list-watch/census", "", "", "exactly one list-watch each for pods and for nodes", fmt.Sprint(seen), "")
}

// cacheSynced (C01.R12 / C13.R8): the first scan must not run on an empty or half-filled cache — a
// tainted node whose pods have not been listed yet looks empty and is reaped. NewClient hands out a
// client only after both informers reported HasSynced: every nil-error return is reached only when
// the wait (k8s.WaitForSync or cache.WaitForCacheSync) over both informers' HasSynced functions
// returned true, and the wait helper returns true only as the result of cache.WaitForCacheSync on
// the functions it was given.
func (ck *Check) cacheSynced(rule string) {
	fn := ck.A.NewClient
	if fn == nil {
		ck.lost(rule, "NewClient", "not resolved")
		return
	}
	ctx := ck.P.NewCtx(fn)
	isSyncedType := func(t types.Type) bool { return strings.HasSuffix(typeName(t), "cache.InformerSynced") }
	// the informers' HasSynced values: results of type InformerSynced of calls in NewClient, or in a
	// helper NewClient calls to start the informers
	var synced []ssa.Value
	scope := []*ssa.Function{fn}
	for _, ci := range callsIn(fn, nil) {
		if h := ci.Common().StaticCallee(); h != nil && ck.P.inRepo(h) && h.Blocks != nil && pkgPathOfFn(h) == pkgPathOfFn(fn) {
			scope = append(scope, h)
		}
	}
	for _, f := range scope {
		for _, b := range f.Blocks {
			for _, in := range b.Instrs {
				if ex, ok := in.(*ssa.Extract); ok && isSyncedType(ex.Type()) {
					if c, ok := ex.Tuple.(*ssa.Call); ok && c.Common().StaticCallee() != nil && c.Common().StaticCallee().Signature.Results().Len() == 3 {
						synced = append(synced, ex)
					}
				}
			}
		}
	}
	ck.cond(len(synced) == 2, rule, funcID(fn)+"/informers", ck.P.position(fn.Pos()), funcID(fn), "NewClient starts two informers (pods, nodes), each handing back its HasSynced function", fmt.Sprint(len(synced)), "")
	// the wait
	var wait *ssa.Call
	var helper *ssa.Function
	for _, ci := range callsIn(fn, nil) {
		c, ok := ci.(*ssa.Call)
		if !ok || !isBool(c.Type()) {
			continue
		}
		f := c.Common().StaticCallee()
		if f == nil {
			continue
		}
		takesSynced := false
		for i := 0; i < f.Signature.Params().Len(); i++ {
			if sl, ok := f.Signature.Params().At(i).Type().Underlying().(*types.Slice); ok && isSyncedType(sl.Elem()) {
				takesSynced = true
			}
		}
		if !takesSynced {
			continue
		}
		wait = c
		if ck.P.inRepo(f) {
			helper = f
		} else if !(f.Name() == "WaitForCacheSync" && strings.HasSuffix(pkgPathOfFn(f), "client-go/tools/cache")) {
			wait = nil
		}
	}
	if wait == nil {
		ck.fail(rule, funcID(fn)+"/wait", ck.P.position(fn.Pos()), funcID(fn), "NewClient waits for the informer caches to sync", "no call taking the HasSynced functions", "the first scans run on an empty cache: nodes with pods look empty")
		return
	}
	// both informers are waited for
	last := wait.Common().Args[len(wait.Common().Args)-1]
	els, ok := variadicElems(last)
	if !ok {
		// the functions were collected into a field by the helper that started the informers:
		// every slice literal stored into that field, anywhere in scope
		if ld, isLoad := last.(*ssa.UnOp); isLoad && ld.Op == token.MUL {
			if fa, isFA := ld.X.(*ssa.FieldAddr); isFA {
				f := fieldOfAddr(fa)
				for _, g := range scope {
					for _, b := range g.Blocks {
						for _, in := range b.Instrs {
							st, isSt := in.(*ssa.Store)
							if !isSt || fieldOfAddr(st.Addr) != f {
								continue
							}
							if e2, ok2 := variadicElems(st.Val); ok2 {
								els = append(els, e2...)
								ok = true
							}
						}
					}
				}
			}
		}
	}
	covered := 0
	if ok {
		for _, sv := range synced {
			for _, e := range els {
				if e == sv {
					covered++
				}
			}
		}
	}
	ck.cond(ok && covered == len(synced) && covered > 0, rule, ck.P.siteKey(wait)+"/covers", ck.P.instrPos(wait), funcID(fn), "the wait covers the HasSynced function of every informer started", fmt.Sprintf("%d of %d", covered, len(synced)), "one cache may still be empty when the first scan runs")
	// success only after the wait said yes
	okWait := ctx.Formula(wait)
	n := 0
	for _, b := range fn.Blocks {
		r, ok := b.Instrs[len(b.Instrs)-1].(*ssa.Return)
		if !ok || len(r.Results) == 0 {
			continue
		}
		et := ctx.Term(r.Results[len(r.Results)-1])
		if !(et.Kind == "const" && et.Name == "nil") {
			continue
		}
		n++
		ck.entails(rule, fmt.Sprintf("%s/return@block%d", funcID(fn), b.Index), r, And(ctx.BlockPC(b), FTrue), okWait, "NewClient returns a client (nil error) only if the wait for the caches returned true")
	}
	ck.floor(rule, "success returns of NewClient", n, 1)
	// the helper says yes only as cache.WaitForCacheSync's answer on what it was given
	if helper != nil {
		var sp *ssa.Parameter
		for _, p := range helper.Params {
			if sl, ok := p.Type().Underlying().(*types.Slice); ok && isSyncedType(sl.Elem()) {
				sp = p
			}
		}
		okH := sp != nil
		why := ""
		// values are followed through the parameters of a helper the answer comes from and through
		// the variables a closure captured (by reference: the one store into the captured local)
		env := map[*ssa.Parameter]ssa.Value{}
		fenv := map[*ssa.FreeVar]ssa.Value{}
		var resolve func(v ssa.Value, d int) ssa.Value
		resolve = func(v ssa.Value, d int) ssa.Value {
			if d > 6 {
				return v
			}
			switch y := v.(type) {
			case *ssa.Parameter:
				if b, ok := env[y]; ok && b != v {
					return resolve(b, d+1)
				}
			case *ssa.FreeVar:
				if b, ok := fenv[y]; ok {
					return resolve(b, d+1)
				}
			case *ssa.UnOp:
				if y.Op == token.MUL {
					base := resolve(y.X, d+1)
					if al, ok := base.(*ssa.Alloc); ok {
						var only ssa.Value
						n := 0
						for _, r := range *al.Referrers() {
							if st, ok := r.(*ssa.Store); ok && st.Addr == ssa.Value(al) {
								n++
								only = st.Val
							}
						}
						if n == 1 {
							return resolve(only, d+1)
						}
					}
				}
			}
			return v
		}
		var trace func(v ssa.Value, seen map[ssa.Value]bool) bool
		trace = func(v ssa.Value, seen map[ssa.Value]bool) bool {
			if seen[v] {
				return true
			}
			seen[v] = true
			switch x := v.(type) {
			case *ssa.Const:
				return x.Value != nil && x.Value.String() == "false"
			case *ssa.Phi:
				for _, e := range x.Edges {
					if !trace(e, seen) {
						return false
					}
				}
				return true
			case *ssa.Call:
				f := x.Common().StaticCallee()
				if f != nil && f.Name() == "WaitForCacheSync" && strings.HasSuffix(pkgPathOfFn(f), "client-go/tools/cache") && len(x.Common().Args) == 2 {
					return resolve(x.Common().Args[1], 0) == ssa.Value(sp)
				}
				// a retry helper of the repo handed the attempt: every answer it returns is traced with
				// its parameters bound to what it was handed
				if f != nil && ck.P.inRepo(f) && f.Blocks != nil && f != helper && f.Signature.Results().Len() == 1 && len(x.Common().Args) == len(f.Params) {
					for i, p := range f.Params {
						env[p] = resolve(x.Common().Args[i], 0)
					}
					for _, b := range f.Blocks {
						if r, ok := b.Instrs[len(b.Instrs)-1].(*ssa.Return); ok && len(r.Results) == 1 {
							if !trace(r.Results[0], seen) {
								return false
							}
						}
					}
					return true
				}
				// the attempt itself: a call of a function-valued parameter bound to a closure
				if f == nil {
					if mc, ok := resolve(x.Common().Value, 0).(*ssa.MakeClosure); ok {
						cf, _ := mc.Fn.(*ssa.Function)
						if cf == nil || cf.Blocks == nil {
							return false
						}
						for i, fv := range cf.FreeVars {
							if i < len(mc.Bindings) {
								fenv[fv] = mc.Bindings[i]
							}
						}
						for _, b := range cf.Blocks {
							if r, ok := b.Instrs[len(b.Instrs)-1].(*ssa.Return); ok && len(r.Results) == 1 {
								if !trace(r.Results[0], seen) {
									return false
								}
							}
						}
						return true
					}
				}
				return false
			}
			return false
		}
		hctx := ck.P.NewCtx(helper)
		for _, b := range helper.Blocks {
			if r, ok := b.Instrs[len(b.Instrs)-1].(*ssa.Return); ok && len(r.Results) == 1 {
				if trace(r.Results[0], map[ssa.Value]bool{}) {
					continue
				}
				// `if cache.WaitForCacheSync(…) { return true }`: true under the call's own answer
				if k, isConst := r.Results[0].(*ssa.Const); isConst && k.Value != nil && k.Value.String() == "true" {
					pc := hctx.BlockPC(b)
					answered := false
					for _, at := range pc.Atoms() {
						if c, isCall := at.Val.(*ssa.Call); isCall && trace(c, map[ssa.Value]bool{}) {
							if imp, _, _ := Entails(pc, Atom(at)); imp {
								answered = true
							}
						}
					}
					if answered {
						continue
					}
				}
				okH = false
				why = "returns " + r.Results[0].String()
			}
		}
		ck.cond(okH, rule, funcID(helper)+"/answer", ck.P.position(helper.Pos()), funcID(helper), "the wait helper returns true only as cache.WaitForCacheSync's answer for the functions it was given", "", why)
	}
}

// taintIndexSearch: a call in fn of a repo index search (indexSearchSummary) over <node>.Spec.Taints
// for Key == keyLit; returns the call and the node term.
func (ck *Check) taintIndexSearch(ctx *Ctx, fn *ssa.Function, keyLit string) (*ssa.Call, *Term) {
	for _, ci := range callsIn(fn, nil) {
		call, ok := ci.(*ssa.Call)
		if !ok {
			continue
		}
		sum := indexSearchSummary(ck.P, call.Common().StaticCallee())
		if sum == nil || sum.Field != "Key" {
			continue
		}
		args := make([]*Term, len(call.Common().Args))
		for i, av := range call.Common().Args {
			args[i] = ctx.Term(av)
		}
		list, lit := sum.bound(args)
		if !(lit.Kind == "const" && lit.Name == keyLit) {
			continue
		}
		if list.Kind == "field" && list.Name == "Taints" && list.Args[0].Kind == "field" && list.Args[0].Name == "Spec" {
			return call, list.Args[0].Args[0]
		}
	}
	return nil, nil
}

// executorConfirmed: in the executor x every return whose error can be nil is reached only if the
// Update x issued succeeded.
func (ck *Check) executorConfirmed(rule string, x *ssa.Function, upd *ssa.Call) {
	ctx := ck.P.NewCtx(x)
	nilT := &Term{Kind: "const", Name: "nil"}
	ct := ctx.Term(upd)
	updOK := cmpFormula(token.EQL, &Term{Kind: "extract", Name: "1", Args: []*Term{ct}}, nilT)
	for _, b := range x.Blocks {
		for _, at := range ctx.BlockPC(b).Atoms() {
			if at.Kind == "cmp" && at.Name == "==" && hasConstStr(at, "nil") {
				for _, y := range at.Args {
					if isExtractOf(y, 1, func(t *Term) bool { return t.Key() == ct.Key() }) {
						updOK = Atom(at)
					}
				}
			}
		}
	}
	n := 0
	for _, b := range x.Blocks {
		r, ok := b.Instrs[len(b.Instrs)-1].(*ssa.Return)
		if !ok || len(r.Results) == 0 || !isErrorType(r.Results[len(r.Results)-1].Type()) {
			continue
		}
		ev := r.Results[len(r.Results)-1]
		pc := ctx.PC(r)
		if k, isConst := ev.(*ssa.Const); !isConst || !k.IsNil() {
			if errorConstructor(ev) {
				continue
			}
			pc = And(pc, cmpFormula(token.EQL, ctx.Term(ev), nilT))
		}
		if sat, _ := Satisfiable(pc); !sat {
			continue
		}
		n++
		ck.entails(rule, fmt.Sprintf("%s/success-return#%d/written", funcID(x), n-1), r, pc, updOK, "the executor returns a nil error only if its Update succeeded")
	}
	ck.floor(rule, "success returns of "+x.Name(), n, 1)
}

// deleteThroughExecutor: the untaint is split into an index search S(fetched) and an executor
// X(fetched, i, …) that removes the element at i and issues the Update. Decided: i is S's answer for
// the escalator key on the fetched object's taints, X runs only when i ≥ 0, nothing touches the
// taints between the search and the call, and X removes exactly the element at i (one of the
// recognised idioms) before its single Update.
func (ck *Check) deleteThroughExecutor(us *updSite, keyLit string) bool {
	d, dctx, x, xctx, via := us.outer, us.outerCtx, us.fn, us.ctx, us.via
	key := ck.P.siteKey(us.upd)
	// the index parameter: the integer parameter of X used to address Spec.Taints
	var idxParam *ssa.Parameter
	for _, b := range x.Blocks {
		for _, in := range b.Instrs {
			if st, ok := in.(*ssa.Store); ok {
				if path, rooted := rootedAt(xctx, st.Addr, us.fetched); rooted && strings.Join(path, ".") == "Spec.Taints.[]" {
					if ia, ok := st.Addr.(*ssa.IndexAddr); ok {
						if p, ok := ia.Index.(*ssa.Parameter); ok {
							idxParam = p
						}
					}
				}
			}
			if ap, ok := isBuiltinCall(valueOf(in), "append"); ok && idxParam == nil {
				if sx, ok := ap.Common().Args[0].(*ssa.Slice); ok && sx.High != nil {
					if p, ok := sx.High.(*ssa.Parameter); ok {
						idxParam = p
					}
				}
			}
		}
	}
	if idxParam == nil {
		return false
	}
	pi := -1
	for i, p := range x.Params {
		if p == idxParam {
			pi = i
		}
	}
	if pi < 0 || pi >= len(via.Common().Args) {
		return false
	}
	sCall, ok := via.Common().Args[pi].(*ssa.Call)
	if !ok {
		ck.fail("C15.R4", key+"/search", ck.P.instrPos(via), funcID(d), "the index handed to "+x.Name()+" is the answer of an index search over the fetched object's taints", via.Common().Args[pi].String(), "")
		return true
	}
	sum := indexSearchSummary(ck.P, sCall.Common().StaticCallee())
	okSearch := false
	if sum != nil && sum.Field == "Key" {
		args := make([]*Term, len(sCall.Common().Args))
		for i, av := range sCall.Common().Args {
			args[i] = dctx.Term(av)
		}
		list, lit := sum.bound(args)
		okSearch = lit.Kind == "const" && lit.Name == keyLit && list.Kind == "field" && list.Name == "Taints" && list.Args[0].Kind == "field" && list.Args[0].Name == "Spec" && list.Args[0].Args[0].Key() == us.fetched.Key()
	}
	ck.cond(okSearch, "C15.R4", key+"/search", ck.P.instrPos(sCall), funcID(d), "the removal index is the position of the first taint of the fetched object whose Key is "+keyLit, calleeName(sCall), "the decision is taken on another object, another key, or not by a search")
	if !okSearch {
		return true
	}
	// X runs only when the search found the taint
	st := dctx.Term(sCall)
	found := Not(cmpFormula(token.LSS, st, zeroTerm(types.Typ[types.Int])))
	ck.entails("C15.R5", key+"/guard", via, dctx.PC(via), found, "the removal and Update happen only when the search found the escalator taint (index ≥ 0)")
	// nothing rewrites the taints between the search and the executor
	okStable := dominatesInstr(sCall, via)
	if lf, ok := sum.List.Obj.(*types.Var); ok && okStable {
		okStable = dctx.fieldVersion(lf, sCall) == dctx.fieldVersion(lf, via)
	}
	ck.cond(okStable, "C15.R5", key+"/index-fresh", ck.P.instrPos(via), funcID(d), "Spec.Taints is not rewritten between the search and the removal at the index it found", "", "the index may point at another taint")
	// single use: the writer returns after the executor (no loop around it)
	ck.cond(innermostLoop(d, via.Block()) == nil && innermostLoop(x, us.upd.Block()) == nil, "C15.R5", key+"/returns", ck.P.instrPos(via), funcID(d), "the function returns on every path after its single Update (no further iteration over the mutated slice)", "", "more than one taint can be removed")
	// the idiom, in X, at the index parameter
	isIdx := func(v ssa.Value) bool { return v == ssa.Value(idxParam) }
	ck.removalIdiom("C15.R5", key, x, xctx, us.fetched, us.upd, isIdx, func(*ssa.BasicBlock) bool { return true })
	return true
}

// removalIdiom: in fn (blocks accepted by region) exactly one element — the one at an index accepted
// by isIdx — is removed from fetched.Spec.Taints before commit: swap-with-last + truncate-by-one, or
// the splice append(s[:i], s[i+1:]...).
func (ck *Check) removalIdiom(rule, key string, fn *ssa.Function, ctx *Ctx, fetched *Term, commit ssa.Instruction, isIdx func(ssa.Value) bool, region func(*ssa.BasicBlock) bool) {
	var elemStore, hdrStore *ssa.Store
	for _, b := range fn.Blocks {
		if !region(b) {
			continue
		}
		for _, in := range b.Instrs {
			if s, ok := in.(*ssa.Store); ok {
				if path, rooted := rootedAt(ctx, s.Addr, fetched); rooted {
					switch strings.Join(path, ".") {
					case "Spec.Taints.[]":
						elemStore = s
					case "Spec.Taints":
						hdrStore = s
					}
				}
			}
		}
	}
	okv := false
	why := "the removal is not a recognised idiom (swap-with-last + truncate-by-one, or append(s[:i], s[i+1:]...))"
	if hdrStore != nil {
		hv := ctx.Term(hdrStore.Val)
		taints := func(t *Term) bool {
			return t.Kind == "field" && t.Name == "Taints" && t.Args[0].Kind == "field" && t.Args[0].Args[0].Key() == fetched.Key()
		}
		lenMinus1 := func(t *Term) bool {
			return t.Kind == "binop" && t.Name == "-" && t.Args[0].Kind == "len" && taints(t.Args[0].Args[0]) && t.Args[1].Name == "1"
		}
		switch {
		case hv.Kind == "slice" && taints(hv.Args[0]) && hv.Args[1].Name == "0" && lenMinus1(hv.Args[2]) && elemStore != nil:
			ia, _ := elemStore.Addr.(*ssa.IndexAddr)
			src := ctx.Term(elemStore.Val)
			if ia != nil && isIdx(ia.Index) && src.Kind == "index" && taints(src.Args[0]) && lenMinus1(src.Args[1]) && dominatesInstr(elemStore, hdrStore) {
				okv = true
			} else {
				why = "swap-delete: the element at the matched index is not overwritten with the last element before truncating by one"
			}
		case hv.Kind == "call" && hv.Name == "append":
			if ap, ok := hdrStore.Val.(*ssa.Call); ok {
				x, y := ap.Common().Args[0], ap.Common().Args[1]
				sx, okx := x.(*ssa.Slice)
				sy, oky := y.(*ssa.Slice)
				if okx && oky && isIdx(sx.High) && sy.High == nil {
					if bo, ok := sy.Low.(*ssa.BinOp); ok && bo.Op == token.ADD && isIdx(bo.X) {
						if k, ok := bo.Y.(*ssa.Const); ok && k.Int64() == 1 {
							okv = true
						}
					}
				}
			}
		}
	}
	ck.cond(okv && hdrStore != nil && dominatesInstr(hdrStore, commit), rule, key+"/idiom", ck.P.instrPos(commit), funcID(fn), "exactly one element — the matched one — is removed from Spec.Taints before the Update", "", why)
}

// removeAtCall: v is the result of removing exactly the element at an index the caller matched from
// the list it holds: a call h(list, i) of a repo helper summarised by removeAtSummary, or
// slices.Delete(list, i, i+1).
func removeAtCall(ck *Check, v ssa.Value, isIdx func(ssa.Value) bool, isList func(ssa.Value) bool) bool {
	c, ok := v.(*ssa.Call)
	if !ok {
		return false
	}
	g := c.Common().StaticCallee()
	if g == nil {
		return false
	}
	args := c.Common().Args
	if pkgPathOfFn(g) == "slices" && strings.HasPrefix(g.Name(), "Delete") && len(args) == 3 {
		if !isList(args[0]) || !isIdx(args[1]) {
			return false
		}
		bo, ok := args[2].(*ssa.BinOp)
		if !ok || bo.Op != token.ADD || !isIdx(bo.X) {
			return false
		}
		k, ok := bo.Y.(*ssa.Const)
		return ok && k.Value != nil && k.Int64() == 1
	}
	if !ck.P.inRepo(g) || g.Blocks == nil {
		return false
	}
	si, ii, ok := removeAtSummary(g)
	if !ok || si >= len(args) || ii >= len(args) {
		return false
	}
	return isList(args[si]) && isIdx(args[ii])
}

// removeAtSummary: h(…, s []T, …, i int, …) []T returns s without the element at i and nothing
// else happens: `s[i] = s[len(s)-1]; return s[:len(s)-1]` (one store, the swap) or
// `return append(s[:i], s[i+1:]...)`. Returns the parameter positions of s and i.
func removeAtSummary(h *ssa.Function) (int, int, bool) {
	si, ii := -1, -1
	for k, prm := range h.Params {
		if _, isSl := prm.Type().Underlying().(*types.Slice); isSl {
			if si >= 0 {
				return 0, 0, false
			}
			si = k
		}
		if isInteger(prm.Type()) {
			if ii >= 0 {
				return 0, 0, false
			}
			ii = k
		}
	}
	if si < 0 || ii < 0 || h.Signature.Results().Len() != 1 || len(loopsOf(h)) != 0 {
		return 0, 0, false
	}
	S, I := ssa.Value(h.Params[si]), ssa.Value(h.Params[ii])
	isLast := func(v ssa.Value) bool { // len(s) - 1
		bo, ok := v.(*ssa.BinOp)
		if !ok || bo.Op != token.SUB {
			return false
		}
		k, ok := bo.Y.(*ssa.Const)
		if !ok || k.Value == nil || k.Int64() != 1 {
			return false
		}
		lc, ok := isBuiltinCall(bo.X, "len")
		return ok && lc.Common().Args[0] == S
	}
	var stores []*ssa.Store
	var rets []*ssa.Return
	for _, b := range h.Blocks {
		for _, in := range b.Instrs {
			switch x := in.(type) {
			case *ssa.Store:
				stores = append(stores, x)
			case *ssa.Return:
				rets = append(rets, x)
			case *ssa.Call:
				if _, isB := x.Common().Value.(*ssa.Builtin); !isB {
					return 0, 0, false
				}
			case *ssa.MapUpdate, *ssa.Send, *ssa.Go, *ssa.Defer:
				return 0, 0, false
			}
		}
	}
	if len(rets) != 1 {
		return 0, 0, false
	}
	rv := rets[0].Results[0]
	// swap with the last, truncate by one
	if sl, ok := rv.(*ssa.Slice); ok && sl.X == S && sl.Max == nil && isLast(sl.High) {
		if k, isK := sl.Low.(*ssa.Const); sl.Low != nil && !(isK && k.Int64() == 0) {
			return 0, 0, false
		}
		if len(stores) != 1 {
			return 0, 0, false
		}
		st := stores[0]
		ia, ok := st.Addr.(*ssa.IndexAddr)
		if !ok || ia.X != S || ia.Index != I || !dominatesInstr(st, rets[0]) {
			return 0, 0, false
		}
		ld, ok := st.Val.(*ssa.UnOp)
		if !ok || ld.Op != token.MUL {
			return 0, 0, false
		}
		src, ok := ld.X.(*ssa.IndexAddr)
		if !ok || src.X != S || !isLast(src.Index) {
			return 0, 0, false
		}
		return si, ii, true
	}
	// append(s[:i], s[i+1:]...)
	if ap, ok := isBuiltinCall(rv, "append"); ok && len(stores) == 0 {
		x, y := ap.Common().Args[0], ap.Common().Args[1]
		sx, okx := x.(*ssa.Slice)
		sy, oky := y.(*ssa.Slice)
		if okx && oky && sx.X == S && sy.X == S && sx.High == I && sx.Low == nil && sy.High == nil {
			if bo, ok := sy.Low.(*ssa.BinOp); ok && bo.Op == token.ADD && bo.X == I {
				if k, ok := bo.Y.(*ssa.Const); ok && k.Value != nil && k.Int64() == 1 {
					return si, ii, true
				}
			}
		}
	}
	return 0, 0, false
}
