package main

// anchors.go — E1: resolving the symbols and roles the rules talk about, and the effect census
// (§3.1 of DESIGN.md): external write sites W, controller-level action sites A.

import (
	"fmt"
	"go/types"
	"reflect"
	"sort"
	"strings"

	"golang.org/x/tools/go/ssa"
)

const (
	pkgController = repoModule + "/pkg/controller"
	pkgK8s        = repoModule + "/pkg/k8s"
	pkgAWS        = repoModule + "/pkg/cloudprovider/aws"
	pkgCloud      = repoModule + "/pkg/cloudprovider"
	pkgScheduler  = repoModule + "/pkg/k8s/scheduler"
	pkgCmd        = repoModule + "/cmd"
)

// Site is one call instruction with its classification.
type Site struct {
	Call   ssa.CallInstruction
	Fn     *ssa.Function // enclosing function
	Class  string        // W-K8S-UPD … / A-TAINT …
	Method string
}

type Anchors struct {
	p    *Prog
	errs []string

	// controller functions
	Scan, RunOnce, RunForever, Filter, DryMode          *ssa.Function
	ScaleUp, ScaleDown, CloudStep, UntaintStep          *ssa.Function
	TaintLoop, UntaintLoop, TaintClamp                  *ssa.Function
	TryDelete, GraceReaper, ForceReaper                 *ssa.Function
	CloudStepChain                                      []*ssa.Function // CloudStep (what ScaleUp calls) … the function holding IncreaseSize
	TryDeleteInner                                      *ssa.Function   // the function holding the two delete calls (TryDelete itself, or a private helper under it)
	TryDeleteChain                                      []*ssa.Function // TryDelete … TryDeleteInner
	Lock, Unlock, Locked                                *ssa.Function
	CalcDelta, CalcPercent, ClampHelper                 *ssa.Function
	Validate, Unmarshal, SetupNodeGroups, NewController *ssa.Function
	BuildState, NewClient                               *ssa.Function
	SafeFromDeletion                                    *ssa.Function
	ValidLifecycle, ValidEffect, ValidMaxAge, Unwrap    *ssa.Function
	IsStarve, IsMaxAge                                  *ssa.Function
	// k8s
	AddTaint, DelTaint, GetTaint, GetForceTaint, GetTime *ssa.Function
	NodeEmpty, PodsRemaining, CreateInfoMap, DeleteNode  *ssa.Function
	DeleteNodes                                          *ssa.Function
	// aws
	AwsIncrease, AwsDelete, AwsSetSize, AwsOneShot, AwsAttach, AwsTerminateOrphans   *ssa.Function
	GroupStep                                                                        *ssa.Function // the function that calls the scan body: RunOnce, or a per-group helper RunOnce calls once in its group loop
	AwsRefresh                                                                       *ssa.Function
	TAwsNodeGroup                                                                    *types.Named
	AwsFleetReq                                                                      *ssa.Function // the function holding the CreateFleet call: the fleet strategy itself, or a request helper under it
	AwsBelongs, AwsNodes, AwsCreateFleetInput, AwsDecrease, AwsTargetSize            *ssa.Function
	AwsMinSize, AwsMaxSize, AwsGetInstance, AwsProviderIDToInstanceID, AwsInstToProv *ssa.Function

	// types
	TController, TState, TScaleOpts, TOptions, TAWSOptions, TLock, TOpts *types.Named
	IfaceNodeGroup, IfaceCloudProvider                                   *types.Named
	TNotInGroup                                                          *types.Named

	fieldRoles map[string]*types.Var

	W []Site // external writes
	R []Site // external reads on the same interfaces
	A []Site // controller-level action call sites
}

func (a *Anchors) errf(format string, args ...interface{}) {
	a.errs = append(a.errs, fmt.Sprintf(format, args...))
}

func (a *Anchors) named(pkg, name string) *types.Named {
	pk := a.p.ByPath[pkg]
	if pk == nil {
		a.errf("package %s not loaded", pkg)
		return nil
	}
	obj := pk.Types.Scope().Lookup(name)
	if obj == nil {
		a.errf("type %s.%s not found", pkg, name)
		return nil
	}
	n, _ := obj.Type().(*types.Named)
	if n == nil {
		a.errf("%s.%s is not a named type", pkg, name)
	}
	return n
}

// namedLike: the named type pkg.name, or — when an unexported type was renamed — what alt finds.
func (a *Anchors) namedLike(pkg, name string, alt func() *types.Named) *types.Named {
	if pk := a.p.ByPath[pkg]; pk != nil {
		if obj := pk.Types.Scope().Lookup(name); obj != nil {
			if n, ok := obj.Type().(*types.Named); ok {
				return n
			}
		}
	}
	if n := alt(); n != nil {
		return n
	}
	a.errf("type %s.%s not found", pkg, name)
	return nil
}

func (a *Anchors) fn(pkg, name string) *ssa.Function {
	sp := a.p.SSAPkg[pkg]
	if sp == nil {
		a.errf("package %s not loaded", pkg)
		return nil
	}
	f := sp.Func(name)
	if f == nil || f.Blocks == nil {
		a.errf("function %s.%s not found", pkg, name)
		return nil
	}
	return f
}

// fnLike finds pkg.name; when the name is gone (an unexported function was renamed) it falls back
// on the unique function of the package that satisfies like — anchors are roles, not spellings.
func (a *Anchors) fnLike(pkg, name string, like func(*ssa.Function) bool) *ssa.Function {
	sp := a.p.SSAPkg[pkg]
	if sp == nil {
		a.errf("package %s not loaded", pkg)
		return nil
	}
	if f := sp.Func(name); f != nil && f.Blocks != nil {
		return f
	}
	var found *ssa.Function
	for _, f := range a.p.Funcs {
		if f.Pkg != sp || f.Parent() != nil || f.Signature.Recv() != nil || f.Synthetic != "" {
			continue
		}
		if like(f) {
			if found != nil {
				a.errf("function %s.%s not found and its role is ambiguous (%s, %s)", pkg, name, funcID(found), funcID(f))
				return nil
			}
			found = f
		}
	}
	if found == nil {
		a.errf("function %s.%s not found", pkg, name)
	}
	return found
}

// methodLike: as fnLike for a method of t.
func (a *Anchors) methodLike(t *types.Named, name string, like func(*ssa.Function) bool) *ssa.Function {
	if t == nil {
		return nil
	}
	for _, typ := range []types.Type{types.NewPointer(t), t} {
		sel := a.p.SSA.MethodSets.MethodSet(typ).Lookup(t.Obj().Pkg(), name)
		if sel != nil {
			if obj, ok := sel.Obj().(*types.Func); ok {
				if f := a.p.SSA.FuncValue(obj); f != nil && f.Blocks != nil {
					return f
				}
			}
		}
	}
	var found *ssa.Function
	for _, f := range a.p.Funcs {
		if f.Signature.Recv() == nil || f.Parent() != nil || f.Synthetic != "" {
			continue
		}
		rt := f.Signature.Recv().Type()
		if pt, ok := rt.(*types.Pointer); ok {
			rt = pt.Elem()
		}
		if !types.Identical(rt, t) || !like(f) {
			continue
		}
		if found != nil {
			a.errf("method %s.%s not found and its role is ambiguous", t.Obj().Name(), name)
			return nil
		}
		found = f
	}
	if found == nil {
		a.errf("method %s.%s not found", t.Obj().Name(), name)
	}
	return found
}

// sigIs: parameter (without receiver) and result types by their printed type-name suffixes.
func sigIs(f *ssa.Function, params []string, results []string) bool {
	sg := f.Signature
	if sg.Params().Len() != len(params) || sg.Results().Len() != len(results) {
		return false
	}
	for i, p := range params {
		if !strings.HasSuffix(sg.Params().At(i).Type().String(), p) {
			return false
		}
	}
	for i, r := range results {
		if !strings.HasSuffix(sg.Results().At(i).Type().String(), r) {
			return false
		}
	}
	return true
}

func (a *Anchors) callsExternal(f *ssa.Function, pkgPath, name string) bool {
	for _, ci := range callsIn(f, nil) {
		if g := ci.Common().StaticCallee(); g != nil && pkgPathOfFn(g) == pkgPath && g.Name() == name {
			return true
		}
	}
	return false
}

func (a *Anchors) method(t *types.Named, name string) *ssa.Function {
	if t == nil {
		return nil
	}
	for _, typ := range []types.Type{types.NewPointer(t), t} {
		sel := a.p.SSA.MethodSets.MethodSet(typ).Lookup(t.Obj().Pkg(), name)
		if sel != nil {
			if obj, ok := sel.Obj().(*types.Func); ok {
				if f := a.p.SSA.FuncValue(obj); f != nil && f.Blocks != nil {
					return f
				}
			}
		}
	}
	a.errf("method %s.%s not found", t.Obj().Name(), name)
	return nil
}

// field returns the *types.Var of a struct field by name. For the unexported fields of the
// controller's own structures the name is only the preferred spelling: when it is gone (a field was
// renamed) the field is found by its role — its type, or what the code stores into it.
func field(t *types.Named, name string) *types.Var {
	if t == nil {
		return nil
	}
	st, _ := t.Underlying().(*types.Struct)
	if st == nil {
		return nil
	}
	for i := 0; i < st.NumFields(); i++ {
		if st.Field(i).Name() == name {
			return st.Field(i)
		}
	}
	if curAnchors != nil {
		return curAnchors.fieldByRole(t, st, name)
	}
	return nil
}

var curAnchors *Anchors

func (a *Anchors) fieldByRole(t *types.Named, st *types.Struct, name string) *types.Var {
	key := t.Obj().Name() + "." + name
	if f, ok := a.fieldRoles[key]; ok {
		return f
	}
	if a.fieldRoles == nil {
		a.fieldRoles = map[string]*types.Var{}
	}
	a.fieldRoles[key] = nil // guards against recursion
	byType := func(pred func(types.Type) bool, exclude ...*types.Var) *types.Var {
		var found *types.Var
		for i := 0; i < st.NumFields(); i++ {
			f := st.Field(i)
			skip := false
			for _, e := range exclude {
				if e == f {
					skip = true
				}
			}
			if skip || !pred(f.Type()) {
				continue
			}
			if found != nil {
				return nil
			}
			found = f
		}
		return found
	}
	typeStr := func(s string) func(types.Type) bool {
		return func(x types.Type) bool { return x.String() == s || strings.HasSuffix(x.String(), s) }
	}
	// the fields of the given slice / quantity type, distinguished by what is stored into them
	storedFrom := func(pred func(types.Type) bool, valuePred func(fn *ssa.Function, v ssa.Value) bool) *types.Var {
		var found *types.Var
		for i := 0; i < st.NumFields(); i++ {
			f := st.Field(i)
			if !pred(f.Type()) {
				continue
			}
			hit := false
			for _, fn := range a.p.Funcs {
				for _, b := range fn.Blocks {
					for _, in := range b.Instrs {
						if s, ok := in.(*ssa.Store); ok && fieldOfAddr(s.Addr) == f && valuePred(fn, s.Val) {
							hit = true
						}
					}
				}
			}
			if hit {
				if found != nil && found != f {
					return nil
				}
				found = f
			}
		}
		return found
	}
	isStrings := typeStr("[]string")
	isNodes := func(x types.Type) bool { return strings.HasSuffix(x.String(), "[]*k8s.io/api/core/v1.Node") }
	isQty := func(x types.Type) bool { return isQuantity(x) }
	callsFn := func(fn *ssa.Function, target *ssa.Function) bool {
		return target != nil && (fn == target || len(callsTo(fn, target)) > 0 || a.p.reachCut([]*ssa.Function{fn}, nil)[target])
	}
	var f *types.Var
	switch {
	case t == a.TState:
		switch name {
		case "scaleUpLock":
			f = byType(func(x types.Type) bool { return a.TLock != nil && types.Identical(x, a.TLock) })
		case "NodeInfoMap":
			f = byType(func(x types.Type) bool {
				return strings.HasSuffix(x.String(), "k8s.NodeInfo") && strings.HasPrefix(x.String(), "map[")
			})
		case "lastScaleOut":
			f = byType(typeStr("time.Time"))
		case "scaleDelta":
			f = byType(func(x types.Type) bool { return x.String() == "int" })
		case "taintTracker":
			f = storedFrom(isStrings, func(fn *ssa.Function, _ ssa.Value) bool { return callsFn(fn, a.AddTaint) })
		case "forceTaintTracker":
			if tt := field(t, "taintTracker"); tt != nil {
				f = byType(isStrings, tt)
			}
		case "cpuCapacity", "memCapacity":
			want := map[string]string{"cpuCapacity": "ResourceList).Cpu", "memCapacity": "ResourceList).Memory"}[name]
			f = storedFrom(isQty, func(fn *ssa.Function, v ssa.Value) bool {
				if ld, ok := v.(*ssa.UnOp); ok {
					if c, ok := ld.X.(*ssa.Call); ok {
						if g := c.Common().StaticCallee(); g != nil {
							return strings.HasSuffix(g.String(), want)
						}
					}
				}
				return false
			})
		}
	case t == a.TLock:
		switch name {
		case "isLocked":
			f = byType(func(x types.Type) bool { return x.String() == "bool" })
		case "lockTime":
			f = byType(typeStr("time.Time"))
		case "minimumLockDuration":
			f = byType(typeStr("time.Duration"))
		case "requestedNodes":
			f = byType(func(x types.Type) bool { return x.String() == "int" })
		}
	case t == a.TScaleOpts:
		switch name {
		case "nodeGroup":
			f = byType(func(x types.Type) bool { return a.isPtrTo(x, a.TState) })
		case "nodesDelta":
			f = byType(func(x types.Type) bool { return x.String() == "int" })
		case "untaintedNodes", "taintedNodes", "forceTaintedNodes":
			// by what the scan body puts there: result 0 / 1 / 2 of the classifier
			want := map[string]int{"untaintedNodes": 0, "taintedNodes": 1, "forceTaintedNodes": 2}[name]
			f = storedFrom(isNodes, func(fn *ssa.Function, v ssa.Value) bool {
				ex, ok := v.(*ssa.Extract)
				if !ok || ex.Index != want {
					return false
				}
				c, ok := ex.Tuple.(*ssa.Call)
				return ok && a.Filter != nil && c.Common().StaticCallee() == a.Filter
			})
		case "nodes":
			f = storedFrom(isNodes, func(fn *ssa.Function, v ssa.Value) bool {
				ex, ok := v.(*ssa.Extract)
				if !ok || ex.Index != 0 {
					return false
				}
				c, ok := ex.Tuple.(*ssa.Call)
				return ok && c.Common().IsInvoke() && c.Common().Method.Name() == "List"
			})
		}
	case t == a.TController:
		switch name {
		case "nodeGroups":
			f = byType(func(x types.Type) bool {
				return strings.HasPrefix(x.String(), "map[string]*") && strings.HasSuffix(x.String(), "."+a.TState.Obj().Name())
			})
		case "cloudProvider":
			f = byType(func(x types.Type) bool {
				return a.IfaceCloudProvider != nil && types.Identical(x, a.IfaceCloudProvider)
			})
		}
	}
	a.fieldRoles[key] = f
	return f
}

// fieldByJSON returns the field whose json tag name is tag (the documented option name).
func fieldByJSON(t *types.Named, tag string) *types.Var {
	if t == nil {
		return nil
	}
	st, _ := t.Underlying().(*types.Struct)
	if st == nil {
		return nil
	}
	for i := 0; i < st.NumFields(); i++ {
		name := strings.Split(reflect.StructTag(st.Tag(i)).Get("json"), ",")[0]
		if name == tag {
			return st.Field(i)
		}
	}
	// the tag may have been renamed (C16 reports that); other properties still need the option:
	// fall back on the Go identifier derived from the documented key
	var parts []string
	for _, w := range strings.Split(tag, "_") {
		switch w {
		case "aws", "id":
			parts = append(parts, strings.ToUpper(w))
		case "":
		default:
			parts = append(parts, strings.ToUpper(w[:1])+w[1:])
		}
	}
	goName := strings.Join(parts, "")
	for i := 0; i < st.NumFields(); i++ {
		if st.Field(i).Name() == goName {
			return st.Field(i)
		}
	}
	return nil
}

var anchorCache = map[*Prog]*Anchors{}

func resolveAnchors(p *Prog) *Anchors {
	if a, ok := anchorCache[p]; ok {
		curAnchors = a
		return a
	}
	a := &Anchors{p: p}
	anchorCache[p] = a
	curAnchors = a
	a.TController = a.named(pkgController, "Controller")
	a.TState = a.named(pkgController, "NodeGroupState")
	a.TScaleOpts = a.namedLike(pkgController, "scaleOpts", func() *types.Named {
		// the options structure ScaleUp takes
		if f := a.method(a.TController, "ScaleUp"); f != nil && f.Signature.Params().Len() == 1 {
			n, _ := f.Signature.Params().At(0).Type().(*types.Named)
			return n
		}
		return nil
	})
	a.TOptions = a.named(pkgController, "NodeGroupOptions")
	a.TAWSOptions = a.named(pkgController, "AWSNodeGroupOptions")
	a.TLock = a.namedLike(pkgController, "scaleLock", func() *types.Named {
		// the field of the group state that is a struct with a bool, a time.Time and a time.Duration
		st, _ := a.TState.Underlying().(*types.Struct)
		for i := 0; st != nil && i < st.NumFields(); i++ {
			n, ok := st.Field(i).Type().(*types.Named)
			if !ok {
				continue
			}
			ls, ok := n.Underlying().(*types.Struct)
			if !ok {
				continue
			}
			has := map[string]bool{}
			for j := 0; j < ls.NumFields(); j++ {
				has[ls.Field(j).Type().String()] = true
			}
			if has["bool"] && has["time.Time"] && has["time.Duration"] {
				return n
			}
		}
		return nil
	})
	a.TOpts = a.named(pkgController, "Opts")
	a.IfaceNodeGroup = a.named(pkgCloud, "NodeGroup")
	a.IfaceCloudProvider = a.named(pkgCloud, "CloudProvider")
	a.TNotInGroup = a.named(pkgCloud, "NodeNotInNodeGroup")

	a.RunOnce = a.method(a.TController, "RunOnce")
	a.RunForever = a.method(a.TController, "RunForever")
	a.DryMode = a.dryModeMethod()
	a.ScaleUp = a.method(a.TController, "ScaleUp")
	a.ScaleDown = a.method(a.TController, "ScaleDown")
	storesBool := func(f *ssa.Function, val string) bool {
		for _, b := range f.Blocks {
			for _, in := range b.Instrs {
				if st, ok := in.(*ssa.Store); ok {
					if k, ok := st.Val.(*ssa.Const); ok && k.Value != nil && k.Value.String() == val && isBool(k.Type()) {
						return true
					}
				}
			}
		}
		return false
	}
	a.Lock = a.methodLike(a.TLock, "lock", func(f *ssa.Function) bool {
		return f.Signature.Params().Len() == 1 && f.Signature.Results().Len() == 0 && storesBool(f, "true")
	})
	// unlock() may have been merged into locked(): the anchor is optional
	nerr := len(a.errs)
	a.Unlock = a.methodLike(a.TLock, "unlock", func(f *ssa.Function) bool {
		return f.Signature.Params().Len() == 0 && f.Signature.Results().Len() == 0 && storesBool(f, "false")
	})
	if a.Unlock == nil {
		a.errs = a.errs[:nerr]
	}
	a.Locked = a.methodLike(a.TLock, "locked", func(f *ssa.Function) bool {
		return f.Signature.Params().Len() == 0 && f.Signature.Results().Len() == 1 && isBool(f.Signature.Results().At(0).Type())
	})
	a.CalcDelta = a.fnLike(pkgController, "calcScaleUpDelta", func(f *ssa.Function) bool {
		return f.Signature.Results().Len() == 2 && isInteger(f.Signature.Results().At(0).Type()) && isErrorType(f.Signature.Results().At(1).Type()) &&
			len(paramsOfKind(f, isFloat64)) == 2 && len(paramsOfKind(f, isQuantity)) == 2
	})
	a.CalcPercent = a.fnLike(pkgController, "calcPercentUsage", func(f *ssa.Function) bool {
		r := f.Signature.Results()
		return r.Len() == 3 && isFloat64(r.At(0).Type()) && isFloat64(r.At(1).Type()) && isErrorType(r.At(2).Type()) && len(paramsOfKind(f, isQuantity)) == 4
	})
	a.Validate = a.fn(pkgController, "ValidateNodeGroup")
	a.Unmarshal = a.fn(pkgController, "UnmarshalNodeGroupOptions")
	a.NewController = a.fn(pkgController, "NewController")
	a.BuildState = a.fn(pkgController, "BuildNodeGroupsState")
	a.NewClient = a.fn(pkgController, "NewClient")
	a.SetupNodeGroups = a.fnLike(pkgCmd, "setupNodeGroups", func(f *ssa.Function) bool {
		return a.Unmarshal != nil && len(callsTo(f, a.Unmarshal)) > 0
	})
	a.SafeFromDeletion = a.fnLike(pkgController, "safeFromDeletion", func(f *ssa.Function) bool {
		return sigIs(f, []string{"v1.Node"}, []string{"string", "bool"})
	})
	a.ValidEffect = a.fnLike(pkgController, "validTaintEffect", func(f *ssa.Function) bool {
		return sigIs(f, []string{"TaintEffect"}, []string{"bool"})
	})
	a.ValidMaxAge = a.fnLike(pkgController, "validMaxNodeAgeDuration", func(f *ssa.Function) bool {
		return sigIs(f, []string{"string"}, []string{"bool"}) && a.callsExternal(f, "time", "ParseDuration")
	})
	a.ValidLifecycle = a.fnLike(pkgController, "validAWSLifecycle", func(f *ssa.Function) bool {
		return sigIs(f, []string{"string"}, []string{"bool"}) && !a.callsExternal(f, "time", "ParseDuration") && a.Validate != nil && len(callsTo(a.Validate, f)) > 0
	})
	a.Unwrap = a.fnLike(pkgController, "unwrapNodeSelectorTerms", func(f *ssa.Function) bool {
		return sigIs(f, []string{"v1.Pod"}, []string{"[]k8s.io/api/core/v1.NodeSelectorTerm"})
	})
	readsOption := func(f *ssa.Function, tag string) bool {
		fld := fieldByJSON(a.TOptions, tag)
		return fld != nil && a.p.readFields[f][fld]
	}
	// the two override predicates: methods of the controller or plain functions of the package
	boolPred := func(name string, like func(*ssa.Function) bool) *ssa.Function {
		nerr := len(a.errs)
		if f := a.methodLike(a.TController, name, like); f != nil {
			return f
		}
		a.errs = a.errs[:nerr]
		// … or methods of the group state they read
		if a.TState != nil {
			if f := a.methodLike(a.TState, name, like); f != nil {
				return f
			}
			a.errs = a.errs[:nerr]
		}
		return a.fnLike(pkgController, name, like)
	}
	a.IsStarve = boolPred("isScaleOnStarve", func(f *ssa.Function) bool {
		return f.Signature.Results().Len() == 1 && isBool(f.Signature.Results().At(0).Type()) && readsOption(f, "scale_on_starve")
	})
	a.IsMaxAge = boolPred("scaleOnMaxNodeAge", func(f *ssa.Function) bool {
		return f.Signature.Results().Len() == 1 && isBool(f.Signature.Results().At(0).Type()) && readsOption(f, "max_node_age") && !readsOption(f, "scale_on_starve")
	})
	a.AddTaint = a.fn(pkgK8s, "AddToBeRemovedTaint")
	a.DelTaint = a.fn(pkgK8s, "DeleteToBeRemovedTaint")
	a.GetTaint = a.fn(pkgK8s, "GetToBeRemovedTaint")
	a.GetForceTaint = a.fn(pkgK8s, "GetToBeForceRemovedTaint")
	a.GetTime = a.fn(pkgK8s, "GetToBeRemovedTime")
	a.NodeEmpty = a.fn(pkgK8s, "NodeEmpty")
	a.PodsRemaining = a.fn(pkgK8s, "NodePodsRemaining")
	a.CreateInfoMap = a.fn(pkgK8s, "CreateNodeNameToInfoMap")
	a.DeleteNode = a.fn(pkgK8s, "DeleteNode")
	a.DeleteNodes = a.fn(pkgK8s, "DeleteNodes")

	awsNG := a.named(pkgAWS, "NodeGroup")
	awsCP := a.named(pkgAWS, "CloudProvider")
	a.AwsIncrease = a.method(awsNG, "IncreaseSize")
	a.AwsDelete = a.method(awsNG, "DeleteNodes")
	a.AwsDecrease = a.method(awsNG, "DecreaseTargetSize")
	a.AwsBelongs = a.method(awsNG, "Belongs")
	a.AwsNodes = a.method(awsNG, "Nodes")
	a.AwsTargetSize = a.method(awsNG, "TargetSize")
	a.AwsMinSize = a.method(awsNG, "MinSize")
	a.AwsMaxSize = a.method(awsNG, "MaxSize")
	a.AwsGetInstance = a.method(awsCP, "GetInstance")
	a.AwsRefresh = a.method(awsCP, "Refresh")
	a.TAwsNodeGroup = awsNG

	a.census()
	p.noExpand = map[*ssa.Function]bool{}
	for _, f := range []*ssa.Function{a.CalcDelta, a.CalcPercent, a.GetTime, a.GetTaint, a.GetForceTaint, a.PodsRemaining, a.SafeFromDeletion} {
		if f != nil {
			p.noExpand[f] = true
		}
	}

	// structural roles -----------------------------------------------------------------------
	// scan body: the method of *Controller with a *NodeGroupState parameter that lists pods and nodes
	for _, f := range p.Funcs {
		if f.Signature.Recv() == nil || !a.isPtrTo(f.Signature.Recv().Type(), a.TController) {
			continue
		}
		hasState := false
		for _, prm := range f.Params[1:] {
			if a.isPtrTo(prm.Type(), a.TState) {
				hasState = true
			}
		}
		if !hasState {
			continue
		}
		lists := 0
		four := false
		for _, b := range f.Blocks {
			for _, in := range b.Instrs {
				if c, ok := in.(*ssa.Call); ok && c.Common().IsInvoke() && c.Common().Method.Name() == "List" {
					lists++
				}
			}
		}
		if f.Signature.Results().Len() == 4 {
			four = true
			for i := 0; i < 4; i++ {
				if _, ok := f.Signature.Results().At(i).Type().(*types.Slice); !ok {
					four = false
				}
			}
		}
		_ = lists
		// the scan body is the per-group method RunOnce calls (wherever the listing itself lives)
		calledByRunOnce := false
		for _, g := range p.callees[a.RunOnce] {
			if g == f && len(callsTo(a.RunOnce, f)) > 0 {
				calledByRunOnce = true
				a.GroupStep = a.RunOnce
			}
		}
		if calledByRunOnce {
			if a.Scan != nil {
				a.errf("scan body is not unique: %s and %s", funcID(a.Scan), funcID(f))
			}
			a.Scan = f
		}
		if four {
			if a.Filter != nil {
				a.errf("classifier is not unique")
			}
			a.Filter = f
		}
	}
	if a.Scan == nil {
		// the per-group body of RunOnce in a helper of the controller that looks the state up itself
		// (no *NodeGroupState parameter), is called by RunOnce exactly once and by nobody else, and
		// calls the scan body exactly once
		for _, g := range p.callees[a.RunOnce] {
			if g.Signature.Recv() == nil || !a.isPtrTo(g.Signature.Recv().Type(), a.TController) || len(callsTo(a.RunOnce, g)) != 1 || len(p.callers[g]) != 1 {
				continue
			}
			takesState := false
			for _, prm := range g.Params[1:] {
				if a.isPtrTo(prm.Type(), a.TState) {
					takesState = true
				}
			}
			if takesState {
				continue
			}
			for _, f := range p.callees[g] {
				if f.Signature.Recv() == nil || !a.isPtrTo(f.Signature.Recv().Type(), a.TController) || len(callsTo(g, f)) != 1 || len(p.callers[f]) != 1 {
					continue
				}
				hasState := false
				for _, prm := range f.Params[1:] {
					if a.isPtrTo(prm.Type(), a.TState) {
						hasState = true
					}
				}
				if hasState && a.Scan == nil {
					a.Scan, a.GroupStep = f, g
				}
			}
		}
	}
	if a.Scan == nil {
		a.errf("scan body (method of *Controller taking a *NodeGroupState, called by RunOnce) not found")
	}
	if a.Filter == nil {
		a.errf("classifier (method of *Controller returning four node lists) not found")
	}
	// functions containing the action sites
	for _, s := range a.A {
		switch s.Class {
		case "A-TAINT":
			a.TaintLoop = a.uniq(a.TaintLoop, a.liftThinWrapper(s), "taint loop")
		case "A-UNTAINT":
			a.UntaintLoop = a.uniq(a.UntaintLoop, a.liftThinWrapper(s), "untaint loop")
		case "A-CLOUD-INC":
			a.CloudStep = a.uniq(a.CloudStep, s.Fn, "cloud step")
		case "A-CLOUD-DEL":
			a.TryDelete = a.uniq(a.TryDelete, s.Fn, "delete step")
		}
	}
	if a.TryDelete != nil {
		// the delete step is what the reapers call: a private helper around the two delete calls with
		// a single caller that takes no decision on the taint time is part of that step
		a.TryDeleteInner = a.TryDelete
		a.TryDeleteChain = []*ssa.Function{a.TryDelete}
		for steps := 0; steps < 3; steps++ {
			cs := p.callers[a.TryDelete]
			if len(cs) != 1 || cs[0] == a.Scan || !p.inRepo(cs[0]) || len(callsTo(cs[0], a.TryDelete)) != 1 {
				break
			}
			if a.GetTime != nil && p.reachCut([]*ssa.Function{cs[0]}, nil)[a.GetTime] {
				break
			}
			hasList := false
			for _, prm := range cs[0].Params {
				if _, ok := prm.Type().(*types.Slice); ok {
					hasList = true
				}
			}
			if !hasList {
				break
			}
			a.TryDelete = cs[0]
			a.TryDeleteChain = append([]*ssa.Function{cs[0]}, a.TryDeleteChain...)
		}
		for _, c := range p.callers[a.TryDelete] {
			// the grace reaper consults the taint time; the force reaper does not
			// directly or through a helper that takes the decision
			usesTime := a.GetTime != nil && p.reachCut([]*ssa.Function{c}, nil)[a.GetTime]
			if usesTime {
				a.GraceReaper = a.uniq(a.GraceReaper, c, "grace reaper")
			} else {
				a.ForceReaper = a.uniq(a.ForceReaper, c, "force reaper")
			}
		}
	}
	if a.TaintLoop != nil {
		for _, c := range p.callers[a.TaintLoop] {
			a.TaintClamp = a.uniq(a.TaintClamp, c, "taint clamp")
		}
	}
	if a.UntaintLoop != nil {
		for _, c := range p.callers[a.UntaintLoop] {
			a.UntaintStep = a.uniq(a.UntaintStep, c, "untaint step")
		}
	}
	if a.CloudStep != nil {
		// the cloud step is what ScaleUp calls: a private helper around IncreaseSize with a single
		// caller is part of that step
		a.CloudStepChain = []*ssa.Function{a.CloudStep}
		for steps := 0; steps < 3 && a.ScaleUp != nil && a.CloudStep != a.ScaleUp; steps++ {
			cs := p.callers[a.CloudStep]
			if len(cs) != 1 || cs[0] == a.ScaleUp || cs[0] == a.Scan || !p.inRepo(cs[0]) || len(callsTo(cs[0], a.CloudStep)) != 1 {
				break
			}
			if !p.reachCut([]*ssa.Function{a.ScaleUp}, nil)[cs[0]] {
				break
			}
			a.CloudStep = cs[0]
			a.CloudStepChain = append([]*ssa.Function{cs[0]}, a.CloudStepChain...)
		}
		for _, g := range p.callees[a.CloudStep] {
			if g.Signature.Recv() != nil && a.isPtrTo(g.Signature.Recv().Type(), a.TController) && g != a.DryMode && isInteger(resultType(g, 0)) {
				a.ClampHelper = a.uniq(a.ClampHelper, g, "clamp helper")
			}
		}
	}
	// aws internals by the write they contain
	for _, s := range a.W {
		switch s.Class {
		case "W-ASG-SET":
			a.AwsSetSize = a.uniq(a.AwsSetSize, s.Fn, "set-capacity strategy")
		case "W-EC2-FLEET":
			a.AwsOneShot = a.uniq(a.AwsOneShot, s.Fn, "fleet strategy")
			a.AwsFleetReq = a.AwsOneShot
		case "W-ASG-ATT":
			a.AwsAttach = a.uniq(a.AwsAttach, a.liftThinWrapper(s), "attach step")
		case "W-EC2-TERM":
			ot := a.liftThinWrapper(s)
			// the body of a range-over-func loop belongs to the function the loop is written in
			for ot != nil && ot.Synthetic == "range-over-func yield" && ot.Parent() != nil {
				ot = ot.Parent()
			}
			a.AwsTerminateOrphans = a.uniq(a.AwsTerminateOrphans, ot, "orphan terminator")
		}
	}
	a.liftFleetStrategy()
	if sp := p.SSAPkg[pkgAWS]; sp != nil {
		_ = sp
		a.AwsCreateFleetInput = a.fnLike(pkgAWS, "createFleetInput", func(f *ssa.Function) bool {
			r := f.Signature.Results()
			return r.Len() == 2 && strings.HasSuffix(r.At(0).Type().String(), "ec2.CreateFleetInput")
		})
		a.AwsProviderIDToInstanceID = a.fnLike(pkgAWS, "providerIDToInstanceID", func(f *ssa.Function) bool {
			return sigIs(f, []string{"string"}, []string{"string"}) && a.callsExternal(f, "strings", "Split")
		})
		a.AwsInstToProv = a.fnLike(pkgAWS, "instanceToProviderID", func(f *ssa.Function) bool {
			return sigIs(f, []string{"autoscaling.Instance"}, []string{"string"})
		})
	}
	// functions the rules name by their call terms keep those terms; every other one-block,
	// effect-free helper with a numeric or struct result is read as the expression it returns
	p.keepCalls = map[*ssa.Function]bool{}
	if a.TState != nil {
		p.nonNilPtr = types.NewPointer(a.TState)
	}
	av := reflect.ValueOf(a).Elem()
	for i := 0; i < av.NumField(); i++ {
		if !av.Type().Field(i).IsExported() {
			continue
		}
		if f, ok := av.Field(i).Interface().(*ssa.Function); ok && f != nil {
			p.keepCalls[f] = true
		}
	}
	for f := range p.noExpand {
		p.keepCalls[f] = true
	}
	// the accessors of the configuration types are named by the rules (cool-down, grace periods, …)
	for _, f := range p.Funcs {
		if recv := f.Signature.Recv(); recv != nil {
			rt := recv.Type()
			if pt, ok := rt.(*types.Pointer); ok {
				rt = pt.Elem()
			}
			for _, nt := range []*types.Named{a.TOptions, a.TAWSOptions, a.TOpts} {
				if nt != nil && types.Identical(rt, nt) {
					p.keepCalls[f] = true
				}
			}
		}
	}
	return a
}

func resultType(f *ssa.Function, i int) types.Type {
	if f.Signature.Results().Len() > i {
		return f.Signature.Results().At(i).Type()
	}
	return types.Typ[types.Invalid]
}

func (a *Anchors) uniq(cur, f *ssa.Function, what string) *ssa.Function {
	if cur != nil && cur != f {
		a.errf("%s is not unique: %s and %s", what, funcID(cur), funcID(f))
		return cur
	}
	return f
}

func (a *Anchors) isPtrTo(t types.Type, n *types.Named) bool {
	if n == nil {
		return false
	}
	pt, ok := t.(*types.Pointer)
	return ok && types.Identical(pt.Elem(), n)
}

// need reports lost anchors for a rule; returns false if any is nil.
func (ck *Check) need(rule string, anchors map[string]interface{}) bool {
	okv := true
	var names []string
	for n := range anchors {
		names = append(names, n)
	}
	sort.Strings(names)
	for _, n := range names {
		v := anchors[n]
		if v == nil || (reflect.ValueOf(v).Kind() == reflect.Ptr && reflect.ValueOf(v).IsNil()) {
			ck.lost(rule, n, strings.Join(ck.A.errs, "; "))
			okv = false
		}
	}
	return okv
}

// ---- effect census -------------------------------------------------------------------------

func ifacePkgPath(t types.Type) (string, string) {
	if n, ok := t.(*types.Named); ok && n.Obj().Pkg() != nil {
		return n.Obj().Pkg().Path(), n.Obj().Name()
	}
	return "", ""
}

func readPrefix(m string) bool {
	for _, p := range []string{"Describe", "Get", "List", "Watch", "Wait"} {
		if strings.HasPrefix(m, p) {
			return true
		}
	}
	return false
}

// classifyExternal classifies an invoke on an external service interface.
func classifyExternal(recv types.Type, method string) (class string, isService bool) {
	path, name := ifacePkgPath(recv)
	switch {
	case strings.HasSuffix(path, "autoscaling/autoscalingiface") && name == "AutoScalingAPI":
		switch {
		case readPrefix(method):
			return "R-ASG", true
		case strings.HasPrefix(method, "SetDesiredCapacity"):
			return "W-ASG-SET", true
		case strings.HasPrefix(method, "TerminateInstanceInAutoScalingGroup"):
			return "W-ASG-TERM", true
		case strings.HasPrefix(method, "AttachInstances"):
			return "W-ASG-ATT", true
		case strings.HasPrefix(method, "CreateOrUpdateTags"):
			return "W-ASG-TAG", true
		}
		return "W-OTHER", true
	case strings.HasSuffix(path, "ec2/ec2iface") && name == "EC2API":
		switch {
		case readPrefix(method):
			return "R-EC2", true
		case strings.HasPrefix(method, "CreateFleet"):
			return "W-EC2-FLEET", true
		case strings.HasPrefix(method, "TerminateInstances"):
			return "W-EC2-TERM", true
		}
		return "W-OTHER", true
	case strings.HasPrefix(path, "k8s.io/client-go/kubernetes/typed/") && strings.HasSuffix(name, "Interface"):
		if name == "NodeInterface" {
			switch method {
			case "Update", "UpdateStatus", "Patch", "Apply", "ApplyStatus", "Create":
				return "W-K8S-UPD", true
			case "Delete", "DeleteCollection":
				return "W-K8S-DEL", true
			}
		}
		if readPrefix(method) {
			return "R-K8S", true
		}
		// getters of sub-clients (CoreV1().Nodes()) are on other interfaces; any other verb is a write
		switch method {
		case "Update", "UpdateStatus", "Patch", "Apply", "ApplyStatus", "Create", "Delete", "DeleteCollection", "Bind", "Evict", "Finalize", "UpdateEphemeralContainers", "UpdateResize", "CreateToken", "PatchStatus":
			return "W-OTHER", true
		}
		return "R-K8S", true
	}
	return "", false
}

func (a *Anchors) census() {
	p := a.p
	for _, fn := range p.Funcs {
		for _, b := range fn.Blocks {
			for _, in := range b.Instrs {
				ci, ok := in.(ssa.CallInstruction)
				if !ok {
					continue
				}
				c := ci.Common()
				if c.IsInvoke() {
					if class, isSvc := classifyExternal(c.Value.Type(), c.Method.Name()); isSvc {
						s := Site{Call: ci, Fn: fn, Class: class, Method: c.Method.Name()}
						if strings.HasPrefix(class, "W-") {
							a.W = append(a.W, s)
						} else {
							a.R = append(a.R, s)
						}
					}
					// controller-level cloud actions through the cloudprovider.NodeGroup interface
					if a.IfaceNodeGroup != nil && types.Identical(c.Value.Type(), a.IfaceNodeGroup) {
						switch c.Method.Name() {
						case "IncreaseSize":
							a.A = append(a.A, Site{Call: ci, Fn: fn, Class: "A-CLOUD-INC", Method: "IncreaseSize"})
						case "DeleteNodes":
							a.A = append(a.A, Site{Call: ci, Fn: fn, Class: "A-CLOUD-DEL", Method: "DeleteNodes"})
						case "DecreaseTargetSize":
							a.A = append(a.A, Site{Call: ci, Fn: fn, Class: "A-CLOUD-DEC", Method: "DecreaseTargetSize"})
						}
					}
					continue
				}
				if f := c.StaticCallee(); f != nil && pkgPathOfFn(fn) != pkgK8s {
					switch f {
					case a.AddTaint:
						a.A = append(a.A, Site{Call: ci, Fn: fn, Class: "A-TAINT", Method: f.Name()})
					case a.DelTaint:
						a.A = append(a.A, Site{Call: ci, Fn: fn, Class: "A-UNTAINT", Method: f.Name()})
					case a.DeleteNode, a.DeleteNodes:
						if f != nil {
							a.A = append(a.A, Site{Call: ci, Fn: fn, Class: "A-K8S-DEL", Method: f.Name()})
						}
					}
				}
			}
		}
	}
	sortSites := func(s []Site) {
		sort.SliceStable(s, func(i, j int) bool {
			pi, pj := p.instrPos(s[i].Call), p.instrPos(s[j].Call)
			if pi != pj {
				return pi < pj
			}
			return s[i].Class < s[j].Class
		})
	}
	sortSites(a.W)
	sortSites(a.R)
	sortSites(a.A)
}

// siteKey gives a line-independent key for a call site: function / callee # ordinal among the
// function's calls to the same callee.
func (p *Prog) siteKey(call ssa.CallInstruction) string {
	fn := call.Parent()
	name := calleeName(call)
	ord := 0
	for _, b := range fn.Blocks {
		for _, in := range b.Instrs {
			if ci, ok := in.(ssa.CallInstruction); ok {
				if ci == call {
					return fmt.Sprintf("%s/%s#%d", funcID(fn), name, ord)
				}
				if calleeName(ci) == name {
					ord++
				}
			}
		}
	}
	return fmt.Sprintf("%s/%s", funcID(fn), name)
}

func calleeName(call ssa.CallInstruction) string {
	c := call.Common()
	if c.IsInvoke() {
		_, n := ifacePkgPath(c.Value.Type())
		return n + "." + c.Method.Name()
	}
	if f := c.StaticCallee(); f != nil {
		return funcID(f)
	}
	if b, ok := c.Value.(*ssa.Builtin); ok {
		return b.Name()
	}
	return "dynamic"
}

func cmdCensus(args []string) int {
	repo := "/repo"
	if len(args) >= 2 && args[0] == "-repo" {
		repo = args[1]
	}
	p, err := loadProg(repo, "", nil)
	if err != nil {
		fmt.Println(err)
		return 1
	}
	a := resolveAnchors(p)
	fmt.Println("anchor errors:", a.errs)
	for _, s := range a.W {
		fmt.Printf("W %-12s %-40s %s in %s\n", s.Class, s.Method, p.instrPos(s.Call), funcID(s.Fn))
	}
	for _, s := range a.R {
		fmt.Printf("R %-12s %-40s %s in %s\n", s.Class, s.Method, p.instrPos(s.Call), funcID(s.Fn))
	}
	for _, s := range a.A {
		fmt.Printf("A %-12s %-40s %s in %s\n", s.Class, s.Method, p.instrPos(s.Call), funcID(s.Fn))
	}
	v := reflect.ValueOf(a).Elem()
	for i := 0; i < v.NumField(); i++ {
		if !v.Field(i).CanInterface() {
			continue
		}
		if f, ok := v.Field(i).Interface().(*ssa.Function); ok {
			fmt.Printf("role %-28s %s\n", v.Type().Field(i).Name, funcID(f))
		}
	}
	return 0
}

// dryModeMethod finds the dry-mode predicate structurally: the loop-free bool method of
// *Controller with a *NodeGroupState parameter that reads a DryMode field (by name first).
func (a *Anchors) dryModeMethod() *ssa.Function {
	if a.TController == nil {
		return nil
	}
	for _, typ := range []types.Type{types.NewPointer(a.TController)} {
		ms := a.p.SSA.MethodSets.MethodSet(typ)
		var cands []*ssa.Function
		for i := 0; i < ms.Len(); i++ {
			obj, ok := ms.At(i).Obj().(*types.Func)
			if !ok {
				continue
			}
			f := a.p.SSA.FuncValue(obj)
			if f == nil || f.Blocks == nil || f.Signature.Results().Len() != 1 || !isBool(f.Signature.Results().At(0).Type()) || len(f.Params) != 2 || !a.isPtrTo(f.Params[1].Type(), a.TState) || infoOf(f).hasLoop {
				continue
			}
			reads := false
			for _, b := range f.Blocks {
				for _, in := range b.Instrs {
					if fa, ok := in.(*ssa.FieldAddr); ok && fieldOfAddr(fa).Name() == "DryMode" {
						reads = true
					}
				}
			}
			if reads {
				if f.Name() == "dryMode" {
					return f
				}
				cands = append(cands, f)
			}
		}
		if len(cands) == 1 {
			return cands[0]
		}
	}
	return nil
}

// thinWrapper: fn does nothing of interest around the write site it contains — the call is not in a
// loop of fn, it is fn's only external write, and fn has exactly one (static) repo caller. Such a
// function is what "extract method" leaves behind; the structural role (attach step, orphan
// terminator, …) belongs to its caller.
func (a *Anchors) thinWrapper(s Site) (*ssa.Function, bool) {
	fn := s.Fn
	if fn == nil || innermostLoop(fn, s.Call.Block()) != nil {
		return nil, false
	}
	for _, w := range a.W {
		if w.Fn == fn && w.Call != s.Call {
			return nil, false
		}
	}
	var caller *ssa.Function
	for _, c := range a.p.callers[fn] {
		if c == fn {
			return nil, false
		}
		if caller != nil && caller != c {
			return nil, false
		}
		caller = c
	}
	if caller == nil || len(callsTo(caller, fn)) == 0 {
		return nil, false
	}
	return caller, true
}

func (a *Anchors) liftThinWrapper(s Site) *ssa.Function {
	if c, ok := a.thinWrapper(s); ok {
		return c
	}
	return s.Fn
}

// liftFleetStrategy: the fleet strategy is what IncreaseSize calls; when the CreateFleet request
// lives in a helper of its own (it returns the acquired ids) the strategy is that helper's single
// caller, the function that goes on to the attach step.
func (a *Anchors) liftFleetStrategy() {
	p := a.p
	if a.AwsOneShot == nil || a.AwsAttach == nil {
		return
	}
	req := a.AwsOneShot
	if p.reachCut([]*ssa.Function{req}, nil)[a.AwsAttach] {
		return
	}
	cs := p.callers[req]
	if len(cs) != 1 || !p.inRepo(cs[0]) || len(callsTo(cs[0], req)) != 1 {
		return
	}
	if !p.reachCut([]*ssa.Function{cs[0]}, nil)[a.AwsAttach] {
		return
	}
	a.AwsFleetReq = req
	a.AwsOneShot = cs[0]
}
