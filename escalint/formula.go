package main

// formula.go — E3 (second half): propositional formulas over atoms (canonical terms),
// hash-consed, with implication / equivalence decided by truth-table enumeration.

import (
	"fmt"
	"sort"
	"strings"
)

type fkind int

const (
	fTrue fkind = iota
	fFalse
	fAtom
	fNot
	fAnd
	fOr
)

// Formula is an immutable, hash-consed propositional formula.
type Formula struct {
	kind fkind
	atom *Term // fAtom
	args []*Formula
	key  string
}

var fcons = map[string]*Formula{}

func mkF(f *Formula) *Formula {
	if g, ok := fcons[f.key]; ok {
		return g
	}
	fcons[f.key] = f
	return f
}

var (
	FTrue  = mkF(&Formula{kind: fTrue, key: "T"})
	FFalse = mkF(&Formula{kind: fFalse, key: "F"})
)

func Atom(t *Term) *Formula { return mkF(&Formula{kind: fAtom, atom: t, key: "a:" + t.Key()}) }

func Not(f *Formula) *Formula {
	switch f.kind {
	case fTrue:
		return FFalse
	case fFalse:
		return FTrue
	case fNot:
		return f.args[0]
	}
	return mkF(&Formula{kind: fNot, args: []*Formula{f}, key: "!(" + f.key + ")"})
}

func And(fs ...*Formula) *Formula { return nary(fAnd, fs) }
func Or(fs ...*Formula) *Formula  { return nary(fOr, fs) }

func nary(k fkind, fs []*Formula) *Formula {
	unit, zero := FTrue, FFalse
	if k == fOr {
		unit, zero = FFalse, FTrue
	}
	seen := map[string]bool{}
	var args []*Formula
	var add func(f *Formula) bool
	add = func(f *Formula) bool {
		if f == zero {
			return false
		}
		if f == unit || seen[f.key] {
			return true
		}
		if f.kind == k {
			for _, a := range f.args {
				if !add(a) {
					return false
				}
			}
			return true
		}
		seen[f.key] = true
		args = append(args, f)
		return true
	}
	for _, f := range fs {
		if !add(f) {
			return zero
		}
	}
	// x ∧ ¬x
	for _, a := range args {
		if a.kind == fNot && seen[a.args[0].key] {
			return zero
		}
	}
	if len(args) == 0 {
		return unit
	}
	if len(args) == 1 {
		return args[0]
	}
	sort.Slice(args, func(i, j int) bool { return args[i].key < args[j].key })
	keys := make([]string, len(args))
	for i, a := range args {
		keys[i] = a.key
	}
	op := "&"
	if k == fOr {
		op = "|"
	}
	return mkF(&Formula{kind: k, args: args, key: op + "(" + strings.Join(keys, ",") + ")"})
}

func Implies(a, b *Formula) *Formula { return Or(Not(a), b) }
func Iff(a, b *Formula) *Formula     { return And(Implies(a, b), Implies(b, a)) }

// Atoms returns the distinct atoms of f, sorted by key.
func (f *Formula) Atoms() []*Term {
	seen := map[string]*Term{}
	visited := map[*Formula]bool{}
	var walk func(g *Formula)
	walk = func(g *Formula) {
		if visited[g] {
			return
		}
		visited[g] = true
		if g.kind == fAtom {
			seen[g.atom.Key()] = g.atom
		}
		for _, a := range g.args {
			walk(a)
		}
	}
	walk(f)
	var out []*Term
	for _, t := range seen {
		out = append(out, t)
	}
	sort.Slice(out, func(i, j int) bool { return out[i].Key() < out[j].Key() })
	return out
}

func (f *Formula) String() string {
	switch f.kind {
	case fTrue:
		return "⊤"
	case fFalse:
		return "⊥"
	case fAtom:
		return f.atom.String()
	case fNot:
		return "¬" + paren(f.args[0])
	case fAnd, fOr:
		op := " ∧ "
		if f.kind == fOr {
			op = " ∨ "
		}
		parts := make([]string, len(f.args))
		for i, a := range f.args {
			parts[i] = paren(a)
		}
		return strings.Join(parts, op)
	}
	return "?"
}

func paren(f *Formula) string {
	if f.kind == fAnd || f.kind == fOr {
		return "(" + f.String() + ")"
	}
	return f.String()
}

// eval under an assignment (atom key -> bool); memoised per call on the DAG.
func (f *Formula) eval(asg map[string]bool, memo map[*Formula]bool) bool {
	if v, ok := memo[f]; ok {
		return v
	}
	var r bool
	switch f.kind {
	case fTrue:
		r = true
	case fFalse:
		r = false
	case fAtom:
		r = asg[f.atom.Key()]
	case fNot:
		r = !f.args[0].eval(asg, memo)
	case fAnd:
		r = true
		for _, a := range f.args {
			if !a.eval(asg, memo) {
				r = false
				break
			}
		}
	case fOr:
		r = false
		for _, a := range f.args {
			if a.eval(asg, memo) {
				r = true
				break
			}
		}
	}
	memo[f] = r
	return r
}

// Subst replaces atoms by formulas (used for the strictness quotient and role abstraction).
func (f *Formula) Subst(m func(t *Term) *Formula) *Formula {
	memo := map[*Formula]*Formula{}
	var rec func(g *Formula) *Formula
	rec = func(g *Formula) *Formula {
		if r, ok := memo[g]; ok {
			return r
		}
		var r *Formula
		switch g.kind {
		case fTrue, fFalse:
			r = g
		case fAtom:
			r = m(g.atom)
			if r == nil {
				r = g
			}
		case fNot:
			r = Not(rec(g.args[0]))
		case fAnd, fOr:
			as := make([]*Formula, len(g.args))
			for i, a := range g.args {
				as[i] = rec(a)
			}
			r = nary(g.kind, as)
		}
		memo[g] = r
		return r
	}
	return rec(f)
}

const maxAtoms = 64

// theory: pairs of atoms that cannot both be true (a<b with b<a; a<b with a==b), derived
// syntactically from the canonical comparison atoms. Only genuinely inconsistent assignments
// are pruned, so pruning is sound.
type exclusion struct{ i, j int }

func theoryExclusions(atoms []*Term) []exclusion {
	var ex []exclusion
	for i, a := range atoms {
		for j, b := range atoms {
			if j <= i {
				continue
			}
			if a.Kind == "cmp" && b.Kind == "cmp" && len(a.Args) == 2 && len(b.Args) == 2 {
				a0, a1, b0, b1 := a.Args[0].Key(), a.Args[1].Key(), b.Args[0].Key(), b.Args[1].Key()
				switch {
				case a.Name == "<" && b.Name == "<" && a0 == b1 && a1 == b0:
					ex = append(ex, exclusion{i, j})
				case a.Name == "<" && b.Name == "==" && ((a0 == b0 && a1 == b1) || (a0 == b1 && a1 == b0)):
					ex = append(ex, exclusion{i, j})
				case a.Name == "==" && b.Name == "<" && ((a0 == b0 && a1 == b1) || (a0 == b1 && a1 == b0)):
					ex = append(ex, exclusion{i, j})
				}
			}
		}
	}
	return ex
}

// Assignment is one row (or one cube: a partial row whose unassigned atoms are don't-cares)
// of a truth table.
type Assignment map[string]bool

// assign substitutes a truth value for one atom and simplifies.
func (f *Formula) assign(key string, val bool, memo map[*Formula]*Formula) *Formula {
	if r, ok := memo[f]; ok {
		return r
	}
	var r *Formula
	switch f.kind {
	case fTrue, fFalse:
		r = f
	case fAtom:
		if f.atom.Key() == key {
			if val {
				r = FTrue
			} else {
				r = FFalse
			}
		} else {
			r = f
		}
	case fNot:
		r = Not(f.args[0].assign(key, val, memo))
	case fAnd, fOr:
		as := make([]*Formula, len(f.args))
		for i, a := range f.args {
			as[i] = a.assign(key, val, memo)
		}
		r = nary(f.kind, as)
	}
	memo[f] = r
	return r
}

var modelBudget = 400000

// forEachModel enumerates the truth table of f by Shannon expansion: it splits on one atom at a
// time, simplifies, and stops descending as soon as the residual formula is constant. Every
// theory-consistent total assignment satisfying f extends exactly one reported cube, so
// quantifying over the cubes is quantifying over the rows. fn returning false stops.
func forEachModel(f *Formula, extraAtoms []*Term, fn func(asg Assignment) bool) error {
	return forEachModelOver(f, nil, fn)
}

// forEachModelOver is forEachModel restricted to the atoms satisfying relevant (nil = all):
// the other atoms are existentially quantified — a cube over the relevant atoms is reported
// iff the residual formula is satisfiable.
func forEachModelOver(f *Formula, relevant func(*Term) bool, fn func(asg Assignment) bool) error {
	am := map[string]*Term{}
	for _, t := range f.Atoms() {
		am[t.Key()] = t
	}
	var atoms []*Term
	for _, t := range am {
		atoms = append(atoms, t)
	}
	sort.Slice(atoms, func(i, j int) bool { return atoms[i].Key() < atoms[j].Key() })
	if len(atoms) > maxAtoms {
		return fmt.Errorf("too many atoms (%d > %d)", len(atoms), maxAtoms)
	}
	excl := map[string][]string{}
	for _, e := range theoryExclusions(atoms) {
		a, b := atoms[e.i].Key(), atoms[e.j].Key()
		excl[a] = append(excl[a], b)
		excl[b] = append(excl[b], a)
	}
	steps := 0
	stop := false
	var rec func(g *Formula, asg Assignment) error
	rec = func(g *Formula, asg Assignment) error {
		if stop {
			return nil
		}
		steps++
		if steps > modelBudget {
			return fmt.Errorf("truth-table budget exceeded (%d expansion steps, %d atoms)", steps, len(atoms))
		}
		if g == FFalse {
			return nil
		}
		if g == FTrue {
			cp := make(Assignment, len(asg))
			for k, v := range asg {
				cp[k] = v
			}
			if !fn(cp) {
				stop = true
			}
			return nil
		}
		// unit propagation: literals that are top-level conjuncts are forced
		if g.kind == fAnd || g.kind == fAtom || (g.kind == fNot && g.args[0].kind == fAtom) {
			lits := []*Formula{g}
			if g.kind == fAnd {
				lits = g.args
			}
			for _, l := range lits {
				var key string
				var val bool
				switch {
				case l.kind == fAtom:
					key, val = l.atom.Key(), true
				case l.kind == fNot && l.args[0].kind == fAtom:
					key, val = l.args[0].atom.Key(), false
				default:
					continue
				}
				if relevant != nil && !relevant(am[key]) {
					continue // keep irrelevant atoms symbolic; they are handled by the residual check
				}
				h := g.assign(key, val, map[*Formula]*Formula{})
				asg[key] = val
				var forced []string
				if val {
					for _, other := range excl[key] {
						if v, ok := asg[other]; ok {
							if v {
								h = FFalse
							}
							continue
						}
						h = h.assign(other, false, map[*Formula]*Formula{})
						asg[other] = false
						forced = append(forced, other)
					}
				}
				err := rec(h, asg)
				for _, o := range forced {
					delete(asg, o)
				}
				delete(asg, key)
				return err
			}
		}
		// pick the first unassigned (relevant) atom occurring in g
		var pick string
		for _, t := range g.Atoms() {
			if relevant == nil || relevant(t) {
				pick = t.Key()
				break
			}
		}
		if pick == "" {
			// only irrelevant atoms left: report the cube iff the residual is satisfiable
			sat := false
			if err := forEachModelOver(g, nil, func(Assignment) bool { sat = true; return false }); err != nil {
				return err
			}
			if sat {
				cp := make(Assignment, len(asg))
				for k, v := range asg {
					cp[k] = v
				}
				if !fn(cp) {
					stop = true
				}
			}
			return nil
		}
		for _, val := range []bool{true, false} {
			h := g.assign(pick, val, map[*Formula]*Formula{})
			asg[pick] = val
			var forced []string
			if val {
				// theory propagation: partners of a true comparison are false
				for _, other := range excl[pick] {
					if v, ok := asg[other]; ok {
						if v {
							h = FFalse
						}
						continue
					}
					h = h.assign(other, false, map[*Formula]*Formula{})
					asg[other] = false
					forced = append(forced, other)
				}
			}
			if err := rec(h, asg); err != nil {
				return err
			}
			for _, o := range forced {
				delete(asg, o)
			}
			delete(asg, pick)
			if stop {
				return nil
			}
		}
		return nil
	}
	return rec(f, Assignment{})
}

// Entails decides a ⇒ b by truth table. On failure it returns a falsifying assignment
// rendered over the atoms' readable forms.
func Entails(a, b *Formula) (bool, string, error) {
	counter := ""
	ok := true
	err := forEachModel(And(a, Not(b)), nil, func(asg Assignment) bool {
		ok = false
		counter = renderAssignment(And(a, Not(b)), asg)
		return false
	})
	if err != nil {
		return false, "", err
	}
	return ok, counter, nil
}

func Equivalent(a, b *Formula) (bool, string, error) {
	ok, c, err := Entails(a, b)
	if err != nil || !ok {
		return ok, "⇒ fails: " + c, err
	}
	ok, c, err = Entails(b, a)
	if err != nil || !ok {
		return ok, "⇐ fails: " + c, err
	}
	return true, "", nil
}

func renderAssignment(f *Formula, asg Assignment) string {
	var parts []string
	for _, t := range f.Atoms() {
		val, ok := asg[t.Key()]
		if !ok {
			continue
		}
		v := "F"
		if val {
			v = "T"
		}
		parts = append(parts, fmt.Sprintf("%s=%s", t.String(), v))
	}
	return strings.Join(parts, "; ")
}

// Satisfiable reports whether f has a theory-consistent model.
func Satisfiable(f *Formula) (bool, error) {
	sat := false
	err := forEachModel(f, nil, func(Assignment) bool { sat = true; return false })
	return sat, err
}
