package main

// rules_config.go — C16 (start-up validation, decoder and documented keys).

import (
	"fmt"
	"go/token"
	"go/types"
	"os"
	"path/filepath"
	"reflect"
	"regexp"
	"sort"
	"strings"

	"golang.org/x/tools/go/ssa"
)

func init() {
	register(&propSpec{ID: "C16", Run: checkC16,
		Explanation: "(a) The accept set of ValidateNodeGroup — the conjunction, over every checkThat call, of (path condition ⇒ condition), with checkThat verified to record a problem iff ¬condition and the duration accessors verified idempotent — entails each invariant of the statement (propositional cases × Fourier–Motzkin): non-empty name/label/cloud group, 0 < lower < upper < scale-up, 0 ≤ slow ≤ fast, 0 < soft < hard, cool-down > 0, (min = max = 0) ∨ 0 ≤ min < max, valid taint effect / lifecycle / max_node_age. (b) Every configuration reaching the controller is the slice that setupNodeGroups validated element by element, and a non-empty problem list reaches log.Fatalf. (c) The decoder is the YAML-or-JSON one (json tags only, so YAML and JSON share one table) and the json tag table equals the documented key set.",
		RuleText:    "R1 one obligation per invariant (13) + closure shape, R2 helper predicates, R3 accessor siblings, R4 gate, R5 decoder + key table (one obligation per documented key / tag)",
		Assumptions: []string{"the YAML→JSON conversion library; uniqueness of names across groups is not in the statement"}})
}

// rewriteTerm rebuilds t bottom-up applying f to every sub-term.
func rewriteTerm(t *Term, f func(*Term) *Term) *Term {
	if t == nil {
		return nil
	}
	changed := false
	args := make([]*Term, len(t.Args))
	for i, a := range t.Args {
		args[i] = rewriteTerm(a, f)
		if args[i] != a {
			changed = true
		}
	}
	n := t
	if changed {
		c := *t
		c.Args = args
		c.key, c.str = "", ""
		n = &c
	}
	if r := f(n); r != nil {
		return r
	}
	return n
}

func rewriteFormula(f *Formula, g func(*Term) *Term) *Formula {
	return f.Subst(func(t *Term) *Formula {
		n := rewriteTerm(t, g)
		if n == t {
			return nil
		}
		return Atom(n)
	})
}

// idempotentAccessors verifies the lazily-caching duration accessors (C16.R3) and returns the
// set that may be treated as pure: `if cache == 0 { d, err := ParseDuration(S); if err != nil
// {return 0}; cache = d }; return cache`.
func (ck *Check) idempotentAccessors(rule string) map[*ssa.Function]string {
	a := ck.A
	out := map[*ssa.Function]string{}
	want := map[string]string{
		"SoftDeleteGracePeriodDuration": "soft_delete_grace_period",
		"HardDeleteGracePeriodDuration": "hard_delete_grace_period",
		"ScaleUpCoolDownPeriodDuration": "scale_up_cool_down_period",
		"MaxNodeAgeDuration":            "max_node_age",
	}
	usedCache := map[*types.Var]string{}
	for name, tag := range want {
		fn := a.method(a.TOptions, name)
		key := "accessor:" + name
		if fn == nil {
			ck.lost(rule, name, "accessor not found")
			continue
		}
		strField := fieldByJSON(a.TOptions, tag)
		var why []string
		var cache *types.Var
		okv := strField != nil
		if !okv {
			why = append(why, "no option field with json tag "+tag)
		}
		ctx := ck.P.NewCtx(fn)
		recv := paramTerm(fn.Params[0])
		// delegation to a shared lazy-parse helper: return h(&recv.cache, recv.<own string>)
		if cf, sf, ok := ck.lazyDelegation(fn); ok {
			okv = okv && sf == strField
			if sf != strField {
				why = append(why, "parses "+sf.Name()+" instead of its own option string")
			}
			cache = cf
			if prev, dup := usedCache[cache]; dup {
				okv = false
				why = append(why, "shares its cache field with "+prev)
			} else {
				usedCache[cache] = name
			}
			ck.cond(okv, rule, key, ck.P.position(fn.Pos()), funcID(fn), name+"() parses and caches only its own option ("+tag+") — idempotent, sibling-isomorphic", "through a lazy-parse helper", strings.Join(why, "; "))
			if okv {
				out[fn] = tag
			}
			continue
		}
		for _, b := range fn.Blocks {
			for _, in := range b.Instrs {
				switch x := in.(type) {
				case *ssa.Store:
					f := fieldOfAddr(x.Addr)
					if f == nil {
						okv = false
						why = append(why, "store to a non-field")
						continue
					}
					if cache != nil && cache != f {
						okv = false
						why = append(why, "stores to two fields")
					}
					cache = f
					// value stored: result 0 of ParseDuration(own string field)
					v := ctx.Term(x.Val)
					if !(v.Kind == "extract" && v.Name == "0" && v.Args[0].Kind == "call" && v.Args[0].Name == "time.ParseDuration" &&
						v.Args[0].Args[0].Kind == "field" && v.Args[0].Args[0].Obj == strField && v.Args[0].Args[0].Args[0].Key() == recv.Key()) {
						okv = false
						why = append(why, "cache is not filled from ParseDuration of its own option string: "+v.String())
					}
				case *ssa.FieldAddr:
					f := fieldOfAddr(x)
					if f != strField && f != cache && cache != nil {
						okv = false
						why = append(why, "reads another field: "+f.Name())
					}
				case *ssa.Return:
					rt := ctx.Term(x.Results[0])
					isZero := rt.Kind == "const" && rt.Name == "0"
					isCache := rt.Kind == "field" && rt.Args[0].Key() == recv.Key()
					if !isZero && !isCache {
						okv = false
						why = append(why, "returns something other than 0 or the cache: "+rt.String())
					}
				}
			}
		}
		if cache == nil {
			okv = false
			why = append(why, "no cache field")
		} else if prev, dup := usedCache[cache]; dup {
			okv = false
			why = append(why, "shares its cache field with "+prev)
		} else {
			usedCache[cache] = name
		}
		ck.cond(okv, rule, key, ck.P.position(fn.Pos()), funcID(fn), name+"() parses and caches only its own option ("+tag+") — idempotent, sibling-isomorphic", "", strings.Join(why, "; "))
		if okv {
			out[fn] = tag
		}
	}
	return out
}

type acceptSet struct {
	formula *Formula
	ctx     *Ctx
	ng      *Term // the options value being validated
	calls   int
	pure    map[*ssa.Function]string
}

// strip removes identity tags from calls of verified idempotent accessors.
func (as *acceptSet) strip(f *Formula) *Formula {
	return rewriteFormula(f, func(t *Term) *Term {
		if t.Kind == "call" && t.ID != "" && t.Fn != nil {
			if _, ok := as.pure[t.Fn]; ok {
				c := *t
				c.ID = ""
				c.key, c.str = "", ""
				return &c
			}
		}
		return nil
	})
}

// acceptSetOf builds the accept formula of the validator (C16.R1 preparation).
func (ck *Check) acceptSetOf(rule string) *acceptSet {
	a := ck.A
	fn := a.Validate
	ctx := ck.P.NewCtx(fn)
	accRule := "C16.R3"
	if !strings.HasPrefix(rule, "C16") {
		accRule = rule
	}
	as := &acceptSet{ctx: ctx, pure: ck.idempotentAccessors(accRule)}
	// the closure
	var clo *ssa.MakeClosure
	for _, b := range fn.Blocks {
		for _, in := range b.Instrs {
			if mc, ok := in.(*ssa.MakeClosure); ok {
				if clo != nil {
					ck.undecided(rule, "validator/closures", "", funcID(fn), "one checkThat closure", "several closures")
					return nil
				}
				clo = mc
			}
		}
	}
	if clo == nil {
		ck.undecided(rule, "validator/closure", "", funcID(fn), "the validator records problems through a checkThat closure", "no closure found")
		return nil
	}
	cf := clo.Fn.(*ssa.Function)
	// the recorder: a closure over the problem list, or the bound method value p.checkThat of a
	// problem-list type (go/ssa wraps it in a synthetic closure that forwards to the method)
	var target ssa.Value // the address the problem list is stored through
	var condP *ssa.Parameter
	if len(cf.FreeVars) == 1 {
		target = cf.FreeVars[0]
		if len(cf.Params) >= 1 {
			condP = cf.Params[0]
		}
	}
	if cf.Synthetic != "" {
		var m *ssa.Function
		for _, b := range cf.Blocks {
			for _, in := range b.Instrs {
				if c, ok := in.(ssa.CallInstruction); ok {
					if g := c.Common().StaticCallee(); g != nil && ck.P.inRepo(g) && g.Signature.Recv() != nil {
						m = g
					}
				}
			}
		}
		if m != nil && len(m.Params) >= 2 {
			cf, target, condP = m, m.Params[0], m.Params[1]
		}
	}
	// recorder shape: problems = append(problems, one) exactly under ¬cond
	{
		cctx := ck.P.NewCtx(cf)
		okv := condP != nil && isBool(condP.Type()) && target != nil
		var why []string
		nstores := 0
		if okv {
			cond := Atom(paramTerm(condP))
			for _, b := range cf.Blocks {
				for _, in := range b.Instrs {
					if st, ok := in.(*ssa.Store); ok {
						if st.Addr != target {
							if _, isAlloc := baseOfAddr(st.Addr).(*ssa.Alloc); isAlloc {
								continue
							}
							okv = false
							why = append(why, "stores elsewhere")
							continue
						}
						nstores++
						eq, _, _ := Equivalent(cctx.PC(st), Not(cond))
						if !eq {
							okv = false
							why = append(why, "the problem is not recorded exactly when ¬cond: "+cctx.PC(st).String())
						}
						pr := sliceProv(st.Val)
						if len(pr.Appends) != 1 || len(pr.Appends[0].Elems) != 1 {
							okv = false
							why = append(why, "not a single append")
						}
					}
				}
			}
			if nstores != 1 {
				okv = false
				why = append(why, fmt.Sprintf("%d stores to the problem list", nstores))
			}
		}
		ck.cond(okv, rule, "validator/checkThat", ck.P.position(cf.Pos()), funcID(cf), "checkThat(cond, …) appends one problem iff ¬cond", "", strings.Join(why, "; "))
		if !okv {
			return nil
		}
	}
	// the validator returns the problem list and never resets it
	problems := clo.Bindings[0]
	for _, r := range *problems.Referrers() {
		if st, ok := r.(*ssa.Store); ok && st.Addr == problems {
			ck.fail(rule, "validator/problems-reset", ck.P.instrPos(st), funcID(fn), "the problem list is only appended to", "", "recorded problems can be discarded")
			return nil
		}
	}
	for _, b := range fn.Blocks {
		if r, ok := b.Instrs[len(b.Instrs)-1].(*ssa.Return); ok {
			rv := r.Results[0]
			if ctv, ok := rv.(*ssa.ChangeType); ok {
				rv = ctv.X // a named slice type converted back to []error
			}
			addr, isLoad := derefLoadOf(rv)
			ck.cond(isLoad && addr == problems, rule, "validator/returns-problems", ck.P.instrPos(r), funcID(fn), "the validator returns the recorded problem list", r.Results[0].String(), "")
		}
	}
	acc := FTrue
	failed := false
	// the checks: calls of the recorder in the validator, and in helpers the validator hands the
	// recorder to (their parameters bound to the arguments, their path conditions under the call's)
	var collect func(ctx *Ctx, fn *ssa.Function, recorder ssa.Value, prefix *Formula, depth int)
	collect = func(ctx *Ctx, fn *ssa.Function, recorder ssa.Value, prefix *Formula, depth int) {
		for _, b := range fn.Blocks {
			for _, in := range b.Instrs {
				c, ok := in.(*ssa.Call)
				if !ok {
					continue
				}
				if c.Common().Value != recorder {
					h := c.Common().StaticCallee()
					if h == nil || !ck.P.inRepo(h) || h.Blocks == nil || depth >= 2 {
						continue
					}
					for j, av := range c.Common().Args {
						if av == recorder && j < len(h.Params) {
							args := make([]*Term, len(c.Common().Args))
							for i, x := range c.Common().Args {
								args[i] = ctx.Term(x)
							}
							ch := ctx.child(h, c, args)
							ch.depth = 0
							collect(ch, h, h.Params[j], And(prefix, ctx.PC(c)), depth+1)
						}
					}
					continue
				}
				as.calls++
				pc, cond := And(prefix, ctx.PC(c)), ctx.Formula(c.Common().Args[0])
				// a check made once per row of a literal table: one instance per row
				if l := innermostLoop(fn, c.Block()); l != nil {
					rows, ok := ck.constTable(ctx, l)
					if !ok {
						ck.undecided(rule, fmt.Sprintf("validator/loop-check#%d", as.calls), ck.P.instrPos(c), funcID(fn), "a check made in a loop ranges over a literal table of the function (every row is then one check)", "loop over "+fmt.Sprint(l.Over))
						failed = true
						return
					}
					over := ctx.Term(l.Over)
					for _, row := range rows {
						inst := func(f *Formula) *Formula {
							f = f.Subst(func(t *Term) *Formula {
								if t.Kind == "cmp" && t.Name == "<" && len(t.Args) == 2 && t.Args[1].Kind == "len" && t.Args[1].Args[0].Key() == over.Key() && strings.Contains(t.Args[0].String(), "rangeindex") {
									return FTrue
								}
								return nil
							})
							return rewriteFormula(f, func(t *Term) *Term {
								if t.Kind == "field" && len(t.Args) == 1 && t.Args[0] == row && row.Kind == "struct" {
									if v, ok := t.Obj.(*types.Var); ok {
										if st, ok := row.Typ.Underlying().(*types.Struct); ok {
											for i := 0; i < st.NumFields(); i++ {
												if st.Field(i) == v && i < len(row.Args) && row.Args[i] != nil {
													return row.Args[i]
												}
											}
										}
									}
								}
								if t.Kind == "elem" && t.Args[0].Key() == over.Key() {
									return row
								}
								return nil
							})
						}
						acc = And(acc, Implies(inst(pc), inst(cond)))
					}
					continue
				}
				acc = And(acc, Implies(pc, cond))
			}
		}
	}
	collect(ctx, fn, clo, FTrue, 0)
	if failed {
		return nil
	}
	as.formula = as.strip(acc)
	// the validated value
	for _, b := range fn.Blocks {
		for _, in := range b.Instrs {
			if al, ok := in.(*ssa.Alloc); ok && types.Identical(al.Type().Underlying().(*types.Pointer).Elem(), a.TOptions) {
				as.ng = ctx.Term(al)
			}
		}
	}
	if as.ng == nil {
		if prm := ck.paramOfType(fn, a.TOptions, false); prm != nil {
			as.ng = paramTerm(prm)
		}
	}
	// what is judged is what runs: the validator never writes to its (by-value) copy of the options
	// except through the verified lazy accessors — a copy normalised before the checks is admitted
	// in a form the running controller never sees
	for _, b := range fn.Blocks {
		for _, in := range b.Instrs {
			al, ok := in.(*ssa.Alloc)
			if !ok || !types.Identical(al.Type().Underlying().(*types.Pointer).Elem(), a.TOptions) {
				continue
			}
			bad := ck.writtenThrough(al, as.pure, 0, map[ssa.Value]bool{})
			pos, got := ck.P.instrPos(al), ""
			if bad != nil {
				pos, got = ck.P.instrPos(bad), bad.String()+" in "+funcID(bad.Parent())
			}
			ck.cond(bad == nil, rule, "validator/judged-copy", pos, funcID(fn), "the validator only reads the options it judges (lazy accessors aside)", got, "the checks run on a modified copy: the admitted configuration is not the judged one")
		}
	}
	return as
}

// writtenThrough follows an address (of the validator's options copy) through field addresses and
// repo callees and returns the first instruction that may write through it or lets it escape.
func (ck *Check) writtenThrough(v ssa.Value, pure map[*ssa.Function]string, depth int, seen map[ssa.Value]bool, initOK ...func(*ssa.Store) bool) ssa.Instruction {
	if seen[v] {
		return nil
	}
	seen[v] = true
	refs := v.Referrers()
	if refs == nil {
		return nil
	}
	for _, r := range *refs {
		switch x := r.(type) {
		case *ssa.DebugRef:
		case *ssa.UnOp:
			// a load
		case *ssa.FieldAddr:
			if bad := ck.writtenThrough(x, pure, depth, seen, initOK...); bad != nil {
				return bad
			}
		case *ssa.Store:
			if x.Addr == v {
				if len(initOK) > 0 && initOK[0] != nil {
					if initOK[0](x) {
						continue
					}
					return x
				}
				// the spill of the by-value parameter (or the copy of the judged value)
				if _, isAlloc := v.(*ssa.Alloc); isAlloc {
					switch sv := x.Val.(type) {
					case *ssa.Parameter:
						continue
					case *ssa.UnOp:
						if _, fromParam := sv.X.(*ssa.Parameter); fromParam && sv.Op == token.MUL {
							continue
						}
					}
				}
				return x
			}
			return x // the address itself is stored somewhere
		case ssa.CallInstruction:
			g := x.Common().StaticCallee()
			if g == nil {
				return x
			}
			if _, ok := pure[g]; ok {
				continue
			}
			if readOnlyHook != nil && readOnlyHook(g) {
				continue
			}
			if !ck.P.inRepo(g) || g.Blocks == nil || depth >= 3 {
				return x
			}
			args := x.Common().Args
			for i, av := range args {
				if av == v && i < len(g.Params) {
					if bad := ck.writtenThrough(g.Params[i], pure, depth+1, seen); bad != nil {
						return bad
					}
				}
			}
		case *ssa.MakeClosure:
			cf, _ := x.Fn.(*ssa.Function)
			if cf == nil || depth >= 3 {
				return x
			}
			for i, bv := range x.Bindings {
				if bv == v && i < len(cf.FreeVars) {
					if bad := ck.writtenThrough(cf.FreeVars[i], pure, depth+1, seen); bad != nil {
						return bad
					}
				}
			}
		default:
			return r
		}
	}
	return nil
}

func checkC16(ck *Check) {
	a := ck.A
	if !ck.need("C16.R1", map[string]interface{}{"ValidateNodeGroup": a.Validate, "UnmarshalNodeGroupOptions": a.Unmarshal, "setupNodeGroups": a.SetupNodeGroups}) {
		return
	}
	as := ck.acceptSetOf("C16.R1")
	if as != nil && as.ng != nil {
		ck.floor("C16.R1", "checkThat calls", as.calls, 12)
		ck.invariants("C16.R1", as)
	}
	ck.helperPredicates("C16.R2")
	ck.validationGate("C16.R4")
	ck.decoderAndKeys("C16.R5")
}

func (ck *Check) invariants(rule string, as *acceptSet, only ...string) {
	a := ck.A
	ctx := as.ctx
	want := map[string]bool{}
	for _, k := range only {
		want[k] = true
	}
	opt := func(tag string) *Term {
		f := fieldByJSON(a.TOptions, tag)
		if f == nil {
			return &Term{Kind: "opaque", Name: "no-field:" + tag}
		}
		return mkField(as.ng, f)
	}
	dur := func(name string) *Term {
		fn := a.method(a.TOptions, name)
		recv := as.ng
		return &Term{Kind: "call", Name: funcID(fn), Fn: fn, Obj: fn.Object(), Args: []*Term{recv}, Typ: fn.Signature.Results().At(0).Type()}
	}
	zero := zeroTerm(types.Typ[types.Int])
	lin := func(key, text string, pc *Formula, facts ...LinFact) {
		if len(want) > 0 && !want[key] {
			return
		}
		okv, why, err := ctx.EntailsLinear(pc, facts)
		if err != nil {
			ck.undecided(rule, "invariant:"+key, ck.P.position(a.Validate.Pos()), funcID(a.Validate), text, err.Error())
			return
		}
		ck.cond(okv, rule, "invariant:"+key, ck.P.position(a.Validate.Pos()), funcID(a.Validate), "accepted ⇒ "+text, "", "a configuration violating it passes validation: "+why)
	}
	acc := as.formula
	for _, tag := range []string{"name", "label_key", "label_value", "cloud_provider_group_name"} {
		lin("nonempty:"+tag, "len("+tag+") > 0", acc, LinFact{A: intConstTerm(1), B: lenOf("len", opt(tag)), K: 0, Text: tag + " non-empty"})
	}
	lower, upper, up := opt("taint_lower_capacity_threshold_percent"), opt("taint_upper_capacity_threshold_percent"), opt("scale_up_threshold_percent")
	lin("0<lower", "0 < taint_lower", acc, LinFact{A: intConstTerm(1), B: lower, K: 0, Text: "0 < lower"})
	lin("lower<upper", "taint_lower < taint_upper", acc, LinFact{A: lower, B: upper, K: -1, Text: "lower < upper"})
	lin("upper<up", "taint_upper < scale_up_threshold", acc, LinFact{A: upper, B: up, K: -1, Text: "upper < scale-up"})
	slow, fast := opt("slow_node_removal_rate"), opt("fast_node_removal_rate")
	lin("0<=slow", "0 ≤ slow_node_removal_rate", acc, LinFact{A: zero, B: slow, K: 0, Text: "0 ≤ slow"})
	lin("slow<=fast", "slow_node_removal_rate ≤ fast_node_removal_rate", acc, LinFact{A: slow, B: fast, K: 0, Text: "slow ≤ fast"})
	soft, hard, cool := dur("SoftDeleteGracePeriodDuration"), dur("HardDeleteGracePeriodDuration"), dur("ScaleUpCoolDownPeriodDuration")
	lin("0<soft", "0 < soft_delete_grace_period", acc, LinFact{A: intConstTerm(1), B: soft, K: 0, Text: "0 < soft"})
	lin("soft<hard", "soft_delete_grace_period < hard_delete_grace_period", acc, LinFact{A: soft, B: hard, K: -1, Text: "soft < hard"})
	lin("0<cool", "scale_up_cool_down_period > 0", acc, LinFact{A: intConstTerm(1), B: cool, K: 0, Text: "0 < cool-down"})
	minN, maxN := opt("min_nodes"), opt("max_nodes")
	auto := And(cmpFormula(token.EQL, minN, zero), cmpFormula(token.EQL, maxN, zero))
	lin("min-max", "(min_nodes = 0 ∧ max_nodes = 0) ∨ 0 ≤ min_nodes < max_nodes", And(acc, Not(auto)),
		LinFact{A: zero, B: minN, K: 0, Text: "0 ≤ min"}, LinFact{A: minN, B: maxN, K: -1, Text: "min < max"})
	// helper predicates are applied to the right option
	for _, h := range []struct{ fn, tag string }{{"validTaintEffect", "taint_effect"}, {"validAWSLifecycle", "aws/lifecycle"}, {"validMaxNodeAgeDuration", "max_node_age"}} {
		if len(want) > 0 && !want[h.fn] {
			continue
		}
		hf := map[string]*ssa.Function{"validTaintEffect": a.ValidEffect, "validAWSLifecycle": a.ValidLifecycle, "validMaxNodeAgeDuration": a.ValidMaxAge}[h.fn]
		if hf == nil {
			ck.lost(rule, h.fn, "helper not found")
			continue
		}
		var arg *Term
		if strings.HasPrefix(h.tag, "aws/") {
			awsF := fieldByJSON(a.TOptions, "aws")
			lf := fieldByJSON(a.TAWSOptions, strings.TrimPrefix(h.tag, "aws/"))
			if awsF != nil && lf != nil {
				arg = mkField(mkField(as.ng, awsF), lf)
			}
		} else {
			arg = opt(h.tag)
		}
		var want *Formula
		call := &Term{Kind: "call", Name: funcID(hf), Fn: hf, Obj: hf.Object(), Args: []*Term{arg}, Typ: types.Typ[types.Bool]}
		if ctx.inlinable(hf) {
			want = ctx.childTerm(call).returnFormula(0)
			// the validator's own inlining used a call-site specific context; compare by truth table
		} else {
			want = Atom(call)
		}
		want = as.strip(want)
		okv, why, err := Entails(acc, want)
		if err != nil {
			ck.undecided(rule, "invariant:"+h.fn, "", funcID(a.Validate), h.fn+"("+h.tag+")", err.Error())
			continue
		}
		ck.cond(okv, rule, "invariant:"+h.fn, ck.P.position(a.Validate.Pos()), funcID(a.Validate), "accepted ⇒ "+h.fn+"("+h.tag+")", "", "not checked (or checked on another option): "+why)
	}
}

// helperPredicates (C16.R2)
func (ck *Check) helperPredicates(rule string) {
	_ = ck.P.SSAPkg[pkgController]
	// validAWSLifecycle ⇔ len == 0 ∨ == on-demand ∨ == spot
	if fn := ck.A.ValidLifecycle; fn != nil {
		ctx := ck.P.NewCtx(fn)
		p := paramTerm(fn.Params[0])
		got := ctx.returnFormula(0)
		want := Or(cmpFormula(token.EQL, lenOf("len", p), zeroTerm(types.Typ[types.Int])),
			cmpFormula(token.EQL, p, &Term{Kind: "const", Name: `"on-demand"`}), cmpFormula(token.EQL, p, &Term{Kind: "const", Name: `"spot"`}))
		okv, why, err := Equivalent(got, want)
		if err != nil {
			ck.undecided(rule, "validAWSLifecycle", "", funcID(fn), want.String(), err.Error())
		} else {
			ck.cond(okv, rule, "validAWSLifecycle", ck.P.position(fn.Pos()), funcID(fn), `validAWSLifecycle(l) ⇔ l = "" ∨ l = "on-demand" ∨ l = "spot"`, got.String(), why)
		}
	} else {
		ck.lost(rule, "validAWSLifecycle", "not found")
	}
	// validTaintEffect ⇔ len == 0 ∨ TaintEffectTypes[e]; the map has exactly the three effects → true
	if fn := ck.A.ValidEffect; fn != nil {
		ctx := ck.P.NewCtx(fn)
		p := paramTerm(fn.Params[0])
		got := ctx.returnFormula(0)
		var lookup *Term
		for _, at := range got.Atoms() {
			if at.Kind == "lookup" && at.Args[0].Kind == "global" && at.Args[1].Key() == p.Key() {
				lookup = at
			}
		}
		okv := false
		why := "no lookup of the effect in the supported-effects table"
		if lookup != nil {
			want := Or(cmpFormula(token.EQL, lenOf("len", p), zeroTerm(types.Typ[types.Int])), Atom(lookup))
			okv, why, _ = Equivalent(got, want)
		}
		ck.cond(okv, rule, "validTaintEffect", ck.P.position(fn.Pos()), funcID(fn), `validTaintEffect(e) ⇔ e = "" ∨ TaintEffectTypes[e]`, got.String(), why)
		// table contents
		if lookup != nil {
			keys := map[string]string{}
			if gl, ok := lookup.Args[0].Val.(*ssa.Global); ok {
				init := gl.Pkg.Func("init")
				// the map literal the initialiser stores into this very variable
				var lit ssa.Value
				for _, b := range init.Blocks {
					for _, in := range b.Instrs {
						if st, ok := in.(*ssa.Store); ok && st.Addr == ssa.Value(gl) {
							lit = st.Val
						}
					}
				}
				for _, b := range init.Blocks {
					for _, in := range b.Instrs {
						if mu, ok := in.(*ssa.MapUpdate); ok {
							if ld, ok := mu.Map.(*ssa.UnOp); ok && ld.X == ssa.Value(gl) {
								k, _ := mu.Key.(*ssa.Const)
								v, _ := mu.Value.(*ssa.Const)
								if k != nil && v != nil {
									keys[k.Value.String()] = v.Value.String()
								}
							} else if mm, ok := mu.Map.(*ssa.MakeMap); ok && ssa.Value(mm) == lit {
								k, _ := mu.Key.(*ssa.Const)
								v, _ := mu.Value.(*ssa.Const)
								if k != nil && v != nil {
									keys[k.Value.String()] = v.Value.String()
								}
							}
						}
					}
				}
			}
			wantKeys := map[string]string{`"NoExecute"`: "true", `"NoSchedule"`: "true", `"PreferNoSchedule"`: "true"}
			ck.cond(reflect.DeepEqual(keys, wantKeys), rule, "TaintEffectTypes", "", pkgK8s, "the supported-effects table maps exactly NoSchedule, NoExecute, PreferNoSchedule to true", fmt.Sprint(keys), "")
		}
	} else {
		ck.lost(rule, "validTaintEffect", "not found")
	}
	// validMaxNodeAgeDuration ⇔ "" ∨ ParseDuration ok
	if fn := ck.A.ValidMaxAge; fn != nil {
		ctx := ck.P.NewCtx(fn)
		p := paramTerm(fn.Params[0])
		got := ctx.returnFormula(0)
		parse := &Term{Kind: "call", Name: "time.ParseDuration", Args: []*Term{p}}
		var errNil *Formula
		for _, at := range got.Atoms() {
			if at.Kind == "cmp" && at.Name == "==" && hasConstStr(at, "nil") {
				for _, x := range at.Args {
					if isExtractOf(x, 1, func(t *Term) bool { return t.Kind == "call" && t.Name == parse.Name && t.Args[0].Key() == p.Key() }) {
						errNil = Atom(at)
					}
				}
			}
		}
		okv := false
		why := "no ParseDuration(max_node_age) error test"
		if errNil != nil {
			want := Or(cmpFormula(token.EQL, p, &Term{Kind: "const", Name: `""`}), errNil)
			okv, why, _ = Equivalent(got, want)
		}
		ck.cond(okv, rule, "validMaxNodeAgeDuration", ck.P.position(fn.Pos()), funcID(fn), `validMaxNodeAgeDuration(s) ⇔ s = "" ∨ ParseDuration(s) succeeds`, got.String(), why)
	} else {
		ck.lost(rule, "validMaxNodeAgeDuration", "not found")
	}
}

// validationGate (C16.R4)
func (ck *Check) validationGate(rule string) {
	a := ck.A
	fn := a.SetupNodeGroups
	ctx := ck.P.NewCtx(fn)
	um := callsTo(fn, a.Unmarshal)
	if len(um) != 1 {
		ck.fail(rule, "gate/decode", "", funcID(fn), "setupNodeGroups decodes with UnmarshalNodeGroupOptions once", fmt.Sprint(len(um)), "")
		return
	}
	groups := &Term{Kind: "extract", Name: "0", Args: []*Term{ctx.Term(um[0].(*ssa.Call))}}
	vcalls := callsTo(fn, a.Validate)
	okAll := len(vcalls) == 1
	var why []string
	for _, vc := range vcalls {
		l := innermostLoop(fn, vc.Block())
		if l == nil || l.IdxPhi == nil || ctx.Term(l.Over).Key() != groups.Key() {
			okAll = false
			why = append(why, "ValidateNodeGroup is not called in a range loop over the decoded groups")
			continue
		}
		arg := ctx.Term(vc.Common().Args[0])
		if !(isElemOf(arg, func(t *Term) bool { return t.Key() == groups.Key() })) {
			// the element is usually copied into a local first
			if !(arg.Kind == "deref" || arg.Kind == "elem" || arg.Kind == "struct" || strings.Contains(arg.String(), "elem(")) {
				okAll = false
				why = append(why, "the validated value is not the loop element: "+arg.String())
			}
		}
		body := l.bodyPC(ctx)
		if eq, _, _ := Equivalent(ctx.PC(vc), body); !eq {
			okAll = false
			why = append(why, "validation is conditional: "+ctx.PC(vc).String())
		}
		// fatal under len(errs) > 0
		errs := ctx.Term(vc.(*ssa.Call))
		hasProblems := cmpFormula(token.LSS, zeroTerm(types.Typ[types.Int]), lenOf("len", errs))
		fatal := false
		for b := range l.Blocks {
			for _, in := range b.Instrs {
				c, ok := in.(*ssa.Call)
				if !ok {
					continue
				}
				f := c.Common().StaticCallee()
				if f == nil || !strings.HasPrefix(f.Name(), "Fatal") || !strings.Contains(pkgPathOfFn(f), "logrus") {
					continue
				}
				// arithmetically, so that len(errs) > 0 and len(errs) != 0 read the same
				one := intConstTermTyped(1, types.Typ[types.Int])
				impB, _, _ := Entails(ctx.PC(c), body)
				impL, _, errL := ctx.EntailsLinear(ctx.PC(c), []LinFact{{A: one, B: lenOf("len", errs), K: 0, Text: "1 ≤ len(errs)"}})
				if !impB || errL != nil || !impL {
					why = append(why, "the fatal exit is not under len(errs) > 0: "+ctx.PC(c).String())
					continue
				}
				// every path from the len(errs) > 0 edge back to the loop header passes the fatal call
				for tb := range l.Blocks {
					br, ok := tb.Instrs[len(tb.Instrs)-1].(*ssa.If)
					if !ok {
						continue
					}
					// the branch that tests for problems: its true edge means len(errs) ≥ 1, its false edge len(errs) ≤ 0
					cf := ctx.Formula(br.Cond)
					if cf != hasProblems {
						t1, _, e1 := ctx.EntailsLinear(cf, []LinFact{{A: one, B: lenOf("len", errs), K: 0}})
						t2, _, e2 := ctx.EntailsLinear(Not(cf), []LinFact{{A: lenOf("len", errs), B: zeroTerm(types.Typ[types.Int]), K: 0}})
						if e1 != nil || e2 != nil || !t1 || !t2 {
							continue
						}
					}
					then := tb.Succs[0]
					if !reachesWithout(then.Instrs[0], l.Header.Instrs[0], func(x ssa.Instruction) bool { return x == ssa.Instruction(c) }) && then != l.Header {
						fatal = true
					}
				}
			}
		}
		if !fatal {
			okAll = false
			why = append(why, "a non-empty problem list does not always reach log.Fatal* before the next group")
		}
		// the loop runs over every group: exits only at exhaustion
		if !l.FullTraversal() {
			okAll = false
			why = append(why, "the validation loop can stop early")
		}
	}
	ck.cond(okAll, rule, "gate/validate-each", ck.P.position(fn.Pos()), funcID(fn), "every decoded group is validated and a non-empty problem list is fatal", "", strings.Join(why, "; "))
	// returned slice is the validated one
	okRet := false
	for _, b := range fn.Blocks {
		if r, ok := b.Instrs[len(b.Instrs)-1].(*ssa.Return); ok {
			if ctx.Term(r.Results[0]).Key() == groups.Key() {
				okRet = true
			}
		}
	}
	ck.cond(okRet, rule, "gate/returns-validated", "", funcID(fn), "setupNodeGroups returns the slice it validated", "", "")
	// main wires it into controller.Opts.NodeGroups
	mainFn := ck.P.SSAPkg[pkgCmd].Func("main")
	mctx := ck.P.NewCtx(mainFn)
	fNG := field(a.TOpts, "NodeGroups")
	okMain := false
	var got string
	for _, b := range mainFn.Blocks {
		for _, in := range b.Instrs {
			if st, ok := in.(*ssa.Store); ok && fieldOfAddr(st.Addr) == fNG {
				t := mctx.Term(st.Val)
				got = t.String()
				if isExtractOf(t, 0, func(x *Term) bool { return isCallTo(x, fn) }) {
					okMain = true
				}
			}
		}
	}
	ck.cond(okMain, rule, "gate/main-wiring", "", "cmd.main", "the controller's NodeGroups are the result of setupNodeGroups", got, "unvalidated configuration reaches the controller")
}

// decoderAndKeys (C16.R5)
func (ck *Check) decoderAndKeys(rule string) {
	a := ck.A
	fn := a.Unmarshal
	dec := false
	for _, ci := range callsIn(fn, nil) {
		if f := ci.Common().StaticCallee(); f != nil && f.Name() == "NewYAMLOrJSONDecoder" && strings.HasSuffix(pkgPathOfFn(f), "apimachinery/pkg/util/yaml") {
			dec = true
			// what is decoded is what the caller handed in — the whole of it: the decoder reads the
			// function's own reader parameter (a limiting, skipping or teeing wrapper in between makes
			// the accepted configuration something other than the file)
			var src ssa.Value
			if len(ci.Common().Args) > 0 {
				src = ci.Common().Args[0]
				for {
					if mi, ok := src.(*ssa.ChangeInterface); ok {
						src = mi.X
						continue
					}
					break
				}
			}
			_, isParam := src.(*ssa.Parameter)
			found := "?"
			if src != nil {
				found = src.String()
			}
			ck.cond(isParam, rule, "decoder/input", ck.P.instrPos(ci), funcID(fn), "the decoder reads the reader the function was given, as it is", found, "a wrapped reader (io.LimitReader, …) truncates or alters the configuration without an error: groups are dropped or values shortened, and what is left passes validation")
		}
	}
	ck.cond(dec, rule, "decoder", ck.P.position(fn.Pos()), funcID(fn), "the decoder is k8s.io/apimachinery/pkg/util/yaml.NewYAMLOrJSONDecoder (YAML is converted to JSON; one json-tag table for both)", "", "YAML and JSON may be decoded through different tag tables")
	// tag table
	tags := map[string]string{}
	var dups []string
	addStruct := func(prefix string, n *types.Named) {
		st := n.Underlying().(*types.Struct)
		seen := map[string]bool{}
		for i := 0; i < st.NumFields(); i++ {
			if !st.Field(i).Exported() {
				continue
			}
			name := strings.Split(reflect.StructTag(st.Tag(i)).Get("json"), ",")[0]
			if name == "" || name == "-" {
				continue
			}
			if seen[name] {
				dups = append(dups, prefix+name)
			}
			seen[name] = true
			tags[prefix+name] = st.Field(i).Name()
		}
	}
	addStruct("", a.TOptions)
	addStruct("aws/", a.TAWSOptions)
	ck.cond(len(dups) == 0, rule, "tags/unique", "", pkgController, "no duplicate json tag within a struct", strings.Join(dups, ", "), "two fields compete for one key")
	// wrapper key
	wrapperOK := false
	for _, b := range fn.Blocks {
		for _, in := range b.Instrs {
			if al, ok := in.(*ssa.Alloc); ok {
				if st, ok := al.Type().Underlying().(*types.Pointer).Elem().Underlying().(*types.Struct); ok && st.NumFields() == 1 {
					if strings.Split(reflect.StructTag(st.Tag(0)).Get("json"), ",")[0] == "node_groups" {
						wrapperOK = true
					}
				}
			}
		}
	}
	ck.cond(wrapperOK, rule, "tags/wrapper", "", funcID(fn), "the top-level key is node_groups", "", "")
	// documented keys
	docKeys, err := documentedKeys(filepath.Join(ck.P.Dir, "docs", "configuration", "nodegroup.md"))
	if err != nil {
		ck.undecided(rule, "doc/parse", "", "docs/configuration/nodegroup.md", "the documented YAML example parses", err.Error())
		return
	}
	ck.floor(rule, "documented keys", len(docKeys), 12)
	var ks []string
	for k := range docKeys {
		ks = append(ks, k)
	}
	sort.Strings(ks)
	for _, k := range ks {
		if k == "node_groups" {
			continue
		}
		_, has := tags[k]
		ck.cond(has, rule, "doc-key:"+k, "docs/configuration/nodegroup.md", "", "documented key "+k+" is honoured by a field with that json tag", "", "documented key "+k+" has no field: a configuration setting it is accepted and the value ignored")
	}
	var ts []string
	for t := range tags {
		ts = append(ts, t)
	}
	sort.Strings(ts)
	for _, t := range ts {
		// the statement asks that documented keys are honoured, not that every option is documented:
		// an undocumented option is reported for information only
		if !docKeys[t] {
			ck.info("C16.R5: option with json tag %s is not shown in the documented example", t)
		}
	}
	// yaml tags that disagree are inert with this decoder; report as info
	st := a.TOptions.Underlying().(*types.Struct)
	for i := 0; i < st.NumFields(); i++ {
		j := strings.Split(reflect.StructTag(st.Tag(i)).Get("json"), ",")[0]
		y := strings.Split(reflect.StructTag(st.Tag(i)).Get("yaml"), ",")[0]
		if j != "" && y != "" && j != y {
			ck.info("%s: field %s has yaml tag %q but json tag %q; the decoder in use honours json tags only, so the yaml tag cannot affect behaviour", rule, st.Field(i).Name(), y, j)
		}
	}
}

var yamlKeyRe = regexp.MustCompile(`^(\s*)(-\s+)?([a-z_]+):`)

// documentedKeys parses the first fenced yaml block of the document by indentation.
func documentedKeys(path string) (map[string]bool, error) {
	b, err := os.ReadFile(path)
	if err != nil {
		return nil, err
	}
	lines := strings.Split(string(b), "\n")
	in := false
	keys := map[string]bool{}
	awsIndent := -1
	for _, ln := range lines {
		if strings.HasPrefix(strings.TrimSpace(ln), "```") {
			if in {
				break
			}
			if strings.Contains(ln, "yaml") {
				in = true
			}
			continue
		}
		if !in {
			continue
		}
		m := yamlKeyRe.FindStringSubmatch(ln)
		if m == nil {
			continue
		}
		indent := len(m[1]) + len(m[2])
		key := m[3]
		if awsIndent >= 0 && indent > awsIndent {
			keys["aws/"+key] = true
			continue
		}
		awsIndent = -1
		if key == "aws" {
			awsIndent = indent
		}
		keys[key] = true
	}
	if len(keys) == 0 {
		return nil, fmt.Errorf("no yaml example found in %s", path)
	}
	return keys, nil
}

// lazyParseHelper: h(cache *time.Duration, raw string) time.Duration with the canonical lazy shape:
// the only store is *cache ← result 0 of time.ParseDuration(raw), and every return is 0, *cache
// or that parsed value. Returns the parameter indices of cache and raw.
func (ck *Check) lazyParseHelper(h *ssa.Function) (int, int, bool) {
	if h == nil || h.Blocks == nil || len(h.Params) != 2 || infoOf(h).hasLoop {
		return 0, 0, false
	}
	ci, ri := -1, -1
	for i, p := range h.Params {
		if pt, ok := p.Type().(*types.Pointer); ok && strings.HasSuffix(typeName(pt.Elem()), "time.Duration") {
			ci = i
		}
		if b, ok := p.Type().Underlying().(*types.Basic); ok && b.Kind() == types.String {
			ri = i
		}
	}
	if ci < 0 || ri < 0 {
		return 0, 0, false
	}
	ctx := ck.P.NewCtx(h)
	cp, rp := paramTerm(h.Params[ci]), paramTerm(h.Params[ri])
	isParsed := func(t *Term) bool {
		return t.Kind == "extract" && t.Name == "0" && t.Args[0].Kind == "call" && t.Args[0].Name == "time.ParseDuration" && len(t.Args[0].Args) == 1 && t.Args[0].Args[0].Key() == rp.Key()
	}
	stores := 0
	for _, b := range h.Blocks {
		for _, in := range b.Instrs {
			switch x := in.(type) {
			case *ssa.Store:
				stores++
				if x.Addr != ssa.Value(h.Params[ci]) || !isParsed(ctx.Term(x.Val)) {
					return 0, 0, false
				}
			case *ssa.Return:
				rt := ctx.Term(x.Results[0])
				isZero := rt.Kind == "const" && rt.Name == "0"
				isCache := rt.Kind == "deref" && rt.Args[0].Key() == cp.Key()
				if !isZero && !isCache && !isParsed(rt) {
					return 0, 0, false
				}
			case ssa.CallInstruction:
				f := x.Common().StaticCallee()
				if f == nil || !(pkgPathOfFn(f) == "time" && f.Name() == "ParseDuration") {
					return 0, 0, false
				}
			}
		}
	}
	return ci, ri, stores == 1
}

// lazyDelegation: accessor fn is `return h(&recv.cache, recv.str)` for a lazy-parse helper h;
// returns the cache field and the string field.
func (ck *Check) lazyDelegation(fn *ssa.Function) (*types.Var, *types.Var, bool) {
	if len(fn.Blocks) != 1 {
		return nil, nil, false
	}
	var call *ssa.Call
	for _, in := range fn.Blocks[0].Instrs {
		switch x := in.(type) {
		case *ssa.Call:
			if call != nil {
				return nil, nil, false
			}
			call = x
		case *ssa.Store:
			return nil, nil, false
		case *ssa.Return:
			if call == nil || len(x.Results) != 1 || x.Results[0] != ssa.Value(call) {
				return nil, nil, false
			}
		}
	}
	if call == nil {
		return nil, nil, false
	}
	h := call.Common().StaticCallee()
	ci, ri, ok := ck.lazyParseHelper(h)
	if !ok {
		return nil, nil, false
	}
	recv := fn.Params[0]
	ca, isFA := call.Common().Args[ci].(*ssa.FieldAddr)
	if !isFA || ca.X != ssa.Value(recv) {
		return nil, nil, false
	}
	ld, isLoad := call.Common().Args[ri].(*ssa.UnOp)
	if !isLoad {
		return nil, nil, false
	}
	sa, isFA2 := ld.X.(*ssa.FieldAddr)
	if !isFA2 || sa.X != ssa.Value(recv) {
		return nil, nil, false
	}
	return fieldOfAddr(ca), fieldOfAddr(sa), true
}

// constTable: the loop ranges over a slice literal of its function — `for _, row := range []T{…}` —
// whose rows are all written before the loop and never afterwards. Returns one term per row (a
// "struct" term of the stored field values for struct rows).
func (ck *Check) constTable(ctx *Ctx, l *Loop) ([]*Term, bool) {
	if l.Over == nil || !l.FullTraversal() {
		return nil, false
	}
	sl, ok := l.Over.(*ssa.Slice)
	if !ok || sl.Low != nil || sl.High != nil {
		return nil, false
	}
	al, ok := sl.X.(*ssa.Alloc)
	if !ok {
		return nil, false
	}
	arr, ok := al.Type().(*types.Pointer).Elem().Underlying().(*types.Array)
	if !ok {
		return nil, false
	}
	n := int(arr.Len())
	st, isStruct := arr.Elem().Underlying().(*types.Struct)
	rows := make([]*Term, n)
	if isStruct {
		for i := range rows {
			rows[i] = &Term{Kind: "struct", Name: typeName(arr.Elem()), Args: make([]*Term, st.NumFields()), Typ: arr.Elem()}
		}
	}
	before := func(in ssa.Instruction) bool {
		return !l.Blocks[in.Block()] && in.Block().Dominates(l.Header)
	}
	for _, r := range *al.Referrers() {
		switch x := r.(type) {
		case *ssa.Slice:
			if x != sl {
				return nil, false
			}
		case *ssa.IndexAddr:
			k, ok := x.Index.(*ssa.Const)
			if !ok || k.Value == nil {
				return nil, false
			}
			idx := int(k.Int64())
			if idx < 0 || idx >= n {
				return nil, false
			}
			for _, rr := range *x.Referrers() {
				switch y := rr.(type) {
				case *ssa.Store:
					if y.Addr != ssa.Value(x) || !before(y) {
						return nil, false
					}
					rows[idx] = ctx.Term(y.Val)
				case *ssa.FieldAddr:
					if !isStruct {
						return nil, false
					}
					for _, r3 := range *y.Referrers() {
						s3, ok := r3.(*ssa.Store)
						if !ok || s3.Addr != ssa.Value(y) || !before(s3) {
							return nil, false
						}
						rows[idx].Args[y.Field] = ctx.Term(s3.Val)
					}
				default:
					return nil, false
				}
			}
		default:
			return nil, false
		}
	}
	// the slice itself is only ranged over (len, element reads)
	for _, r := range *sl.Referrers() {
		switch x := r.(type) {
		case *ssa.IndexAddr:
			for _, rr := range *x.Referrers() {
				if u, ok := rr.(*ssa.UnOp); !ok || u.Op != token.MUL {
					if _, isFA := rr.(*ssa.FieldAddr); !isFA {
						return nil, false
					}
				}
			}
		case *ssa.Call:
			if _, isLen := isBuiltinCall(x, "len"); !isLen {
				return nil, false
			}
		case *ssa.DebugRef:
		default:
			return nil, false
		}
	}
	for i, row := range rows {
		if row == nil {
			return nil, false
		}
		if isStruct {
			for fi := range row.Args {
				if row.Args[fi] == nil {
					row.Args[fi] = zeroTerm(st.Field(fi).Type())
				}
			}
		}
		_ = i
	}
	return rows, true
}
