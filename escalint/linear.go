package main

// linear.go — E5: linear integer facts. Terms of integer type are linearised (+, −, ×const,
// len of slices / re-slices / appends); φ-values and calls of small loop-free repo helpers are
// split into cases, each with the path-condition guard under which it applies (trace
// partitioning). "PC ⇒ e ≤ c" is decided by enumerating the truth-table models of PC ∧ guards
// and refuting each with Fourier–Motzkin elimination over ℚ (sound for ℤ).

import (
	"fmt"
	"go/token"
	"go/types"
	"math/big"
	"sort"
	"strings"

	"golang.org/x/tools/go/ssa"
)

// Lin is Σ coef·var + konst.
type Lin struct {
	coef  map[string]*big.Rat
	names map[string]string
	konst *big.Rat
}

func newLin() Lin {
	return Lin{coef: map[string]*big.Rat{}, names: map[string]string{}, konst: new(big.Rat)}
}

func linConst(k int64) Lin {
	l := newLin()
	l.konst.SetInt64(k)
	return l
}

// linTermOf remembers the term behind every variable of a linear form (for "held quantity" tests).
var linTermOf = map[string]*Term{}

func linVar(t *Term) Lin {
	l := newLin()
	linTermOf[t.Key()] = t
	l.coef[t.Key()] = big.NewRat(1, 1)
	l.names[t.Key()] = t.String()
	return l
}

func (a Lin) add(b Lin, sign int64) Lin {
	r := newLin()
	r.konst.Set(a.konst)
	for k, v := range a.coef {
		r.coef[k] = new(big.Rat).Set(v)
		r.names[k] = a.names[k]
	}
	s := big.NewRat(sign, 1)
	r.konst.Add(r.konst, new(big.Rat).Mul(b.konst, s))
	for k, v := range b.coef {
		if r.coef[k] == nil {
			r.coef[k] = new(big.Rat)
			r.names[k] = b.names[k]
		}
		r.coef[k].Add(r.coef[k], new(big.Rat).Mul(v, s))
		if r.coef[k].Sign() == 0 {
			delete(r.coef, k)
		}
	}
	return r
}

func (a Lin) scale(k *big.Rat) Lin {
	r := newLin()
	r.konst.Mul(a.konst, k)
	if k.Sign() == 0 {
		return r
	}
	for key, v := range a.coef {
		r.coef[key] = new(big.Rat).Mul(v, k)
		r.names[key] = a.names[key]
	}
	return r
}

func (a Lin) isConst() bool { return len(a.coef) == 0 }

func (a Lin) String() string {
	var ks []string
	for k := range a.coef {
		ks = append(ks, k)
	}
	sort.Strings(ks)
	var parts []string
	for _, k := range ks {
		c := a.coef[k]
		switch {
		case c.Cmp(big.NewRat(1, 1)) == 0:
			parts = append(parts, a.names[k])
		case c.Cmp(big.NewRat(-1, 1)) == 0:
			parts = append(parts, "-"+a.names[k])
		default:
			parts = append(parts, c.RatString()+"·"+a.names[k])
		}
	}
	if a.konst.Sign() != 0 || len(parts) == 0 {
		parts = append(parts, a.konst.RatString())
	}
	return strings.Join(parts, " + ")
}

// Constraint: lin ≤ 0.
type Constraint struct {
	lin Lin
	why string
}

// leq builds a − b ≤ k.
func leq(a, b Lin, k int64, why string) Constraint {
	l := a.add(b, -1)
	l.konst.Sub(l.konst, big.NewRat(k, 1))
	return Constraint{lin: l, why: why}
}

// feasible: Fourier–Motzkin over ℚ.
func feasible(cs []Constraint) bool {
	cur := make([]Lin, 0, len(cs))
	for _, c := range cs {
		cur = append(cur, c.lin)
	}
	for {
		// pick a variable
		var v string
		for _, l := range cur {
			for k := range l.coef {
				if v == "" || k < v {
					v = k
				}
			}
		}
		if v == "" {
			break
		}
		var pos, neg, rest []Lin
		for _, l := range cur {
			c := l.coef[v]
			switch {
			case c == nil || c.Sign() == 0:
				rest = append(rest, l)
			case c.Sign() > 0:
				pos = append(pos, l)
			default:
				neg = append(neg, l)
			}
		}
		for _, p := range pos {
			for _, n := range neg {
				// p: a·v + P ≤ 0 (a>0) ; n: −b·v + N ≤ 0 (b>0)  ⇒  b·P + a·N ≤ 0
				a := p.coef[v]
				b := new(big.Rat).Neg(n.coef[v])
				comb := p.scale(b).add(n.scale(a), 1)
				delete(comb.coef, v)
				rest = append(rest, comb)
			}
		}
		cur = rest
		if len(cur) > 4000 {
			return true // give up conservatively: "may be feasible"
		}
	}
	for _, l := range cur {
		if l.konst.Sign() > 0 {
			return false // 0 < k ≤ 0
		}
	}
	return true
}

// ---- linearisation with case splitting ----------------------------------------------------------

type needChoice struct {
	key   string
	n     int
	guard func(i int) *Formula
}

func (n *needChoice) Error() string { return "need choice " + n.key }

type linEnv struct {
	choices map[string]int
	guards  []*Formula
	root    *Ctx
	anyOf   bool // the facts are alternatives: in every case at least one of them must hold
}

// linTerm linearises an integer term under the current choices.
func (e *linEnv) linTerm(t *Term) (Lin, error) {
	switch t.Kind {
	case "const":
		if k, ok := t.isConstInt(); ok {
			return linConst(k), nil
		}
		return linVar(t), nil
	case "binop":
		switch t.Name {
		case "+", "-":
			a, err := e.linTerm(t.Args[0])
			if err != nil {
				return Lin{}, err
			}
			b, err := e.linTerm(t.Args[1])
			if err != nil {
				return Lin{}, err
			}
			if t.Name == "+" {
				return a.add(b, 1), nil
			}
			return a.add(b, -1), nil
		case "*":
			a, err := e.linTerm(t.Args[0])
			if err != nil {
				return Lin{}, err
			}
			b, err := e.linTerm(t.Args[1])
			if err != nil {
				return Lin{}, err
			}
			if a.isConst() {
				return b.scale(a.konst), nil
			}
			if b.isConst() {
				return a.scale(b.konst), nil
			}
		}
		return linVar(t), nil
	case "unop":
		if t.Name == "-" {
			a, err := e.linTerm(t.Args[0])
			if err != nil {
				return Lin{}, err
			}
			return a.scale(big.NewRat(-1, 1)), nil
		}
		return linVar(t), nil
	case "len":
		x := t.Args[0]
		switch x.Kind {
		case "slice":
			// len(b[lo:hi]) = hi − lo
			lo, err := e.linTerm(x.Args[1])
			if err != nil {
				return Lin{}, err
			}
			var hi Lin
			if x.Args[2].Kind == "const" && x.Args[2].Name == "_" {
				hi, err = e.linTerm(lenOf("len", x.Args[0]))
			} else {
				hi, err = e.linTerm(x.Args[2])
			}
			if err != nil {
				return Lin{}, err
			}
			return hi.add(lo, -1), nil
		case "makeslice":
			return e.linTerm(x.Args[0])
		case "phi":
			// len of a φ of slices: split
			if ph, ok := x.Val.(*ssa.Phi); ok && x.C != nil && !x.C.loopCarried(ph) {
				i, err := e.choosePhi(x.C, ph)
				if err != nil {
					return Lin{}, err
				}
				return e.linTerm(lenOf("len", x.C.Term(ph.Edges[i])))
			}
		}
		return linVar(t), nil
	case "phi":
		ph, ok := t.Val.(*ssa.Phi)
		if ok && t.C != nil && !t.C.loopCarried(ph) {
			i, err := e.choosePhi(t.C, ph)
			if err != nil {
				return Lin{}, err
			}
			return e.linTerm(t.C.Term(ph.Edges[i]))
		}
		return linVar(t), nil
	case "extract":
		// integer result i of a small loop-free repo helper with several results: split over its
		// return sites (the error / ok results of the same call are tied to the same sites through
		// the path conditions, see nilDecided)
		if len(t.Args) == 1 && t.Args[0].Kind == "call" {
			ct := t.Args[0]
			idx := 0
			fmt.Sscan(t.Name, &idx)
			if ct.Fn != nil && e.root != nil && e.root.inlinable(ct.Fn) && idx < ct.Fn.Signature.Results().Len() && isInteger(resultType(ct.Fn, idx)) {
				ch := e.root.childTerm(ct)
				var rets []*ssa.Return
				for _, b := range ct.Fn.Blocks {
					if r, ok := b.Instrs[len(b.Instrs)-1].(*ssa.Return); ok {
						rets = append(rets, r)
					}
				}
				key := "ret:" + ct.Key()
				i, ok := e.choices[key]
				if !ok {
					if len(rets) == 1 {
						i = 0
					} else {
						return Lin{}, &needChoice{key: key, n: len(rets), guard: func(i int) *Formula { return ch.BlockPC(rets[i].Block()) }}
					}
				}
				return e.linTerm(ch.Term(rets[i].Results[idx]))
			}
		}
		return linVar(t), nil
	case "call":
		// builtin min / max of integers: split on which argument wins
		if t.Fn == nil && (t.Name == "min" || t.Name == "max") && len(t.Args) >= 2 && intTerm(t.Args[0]) {
			key := "minmax:" + t.Key()
			args, isMin := t.Args, t.Name == "min"
			i, ok := e.choices[key]
			if !ok {
				return Lin{}, &needChoice{key: key, n: len(args), guard: func(i int) *Formula {
					// argument i is the result: it is ≤ (min) / ≥ (max) every other argument
					var fs []*Formula
					for j, o := range args {
						if j == i {
							continue
						}
						if isMin {
							fs = append(fs, cmpFormula(token.LEQ, args[i], o))
						} else {
							fs = append(fs, cmpFormula(token.GEQ, args[i], o))
						}
					}
					return And(fs...)
				}}
			}
			return e.linTerm(args[i])
		}
		// small loop-free repo helper with an integer result: split over its return sites
		if t.Fn != nil && isInteger(resultType(t.Fn, 0)) && t.Fn.Signature.Results().Len() == 1 && e.root != nil && e.root.inlinable(t.Fn) {
			ch := e.root.childTerm(t)
			var rets []*ssa.Return
			for _, b := range t.Fn.Blocks {
				if r, ok := b.Instrs[len(b.Instrs)-1].(*ssa.Return); ok {
					rets = append(rets, r)
				}
			}
			key := "ret:" + t.Key()
			i, ok := e.choices[key]
			if !ok {
				if len(rets) == 1 {
					i = 0
				} else {
					return Lin{}, &needChoice{key: key, n: len(rets), guard: func(i int) *Formula { return ch.BlockPC(rets[i].Block()) }}
				}
			}
			return e.linTerm(ch.Term(rets[i].Results[0]))
		}
		return linVar(t), nil
	}
	return linVar(t), nil
}

func (e *linEnv) choosePhi(c *Ctx, ph *ssa.Phi) (int, error) {
	key := "phi:" + c.instrID(ph)
	if i, ok := e.choices[key]; ok {
		return i, nil
	}
	b := ph.Block()
	return 0, &needChoice{key: key, n: len(ph.Edges), guard: func(i int) *Formula { return c.edgePC(b.Preds[i], b) }}
}

// loopCarried: phi sits in a loop header and has a back-edge input.
func (c *Ctx) loopCarried(ph *ssa.Phi) bool {
	b := ph.Block()
	for _, p := range b.Preds {
		if c.fi.backEdge[[2]int{p.Index, b.Index}] {
			return true
		}
	}
	return false
}

// childTerm: context for inlining the callee of a call term (arguments already terms).
func (c *Ctx) childTerm(t *Term) *Ctx {
	ch := &Ctx{p: c.p, fn: t.Fn, fi: infoOf(t.Fn), scope: c.scope, bind: map[ssa.Value]*Term{}, depth: c.depth + 1, maxD: c.maxD,
		site: "inl:" + t.Key(), memo: map[ssa.Value]*Term{}, fmemo: map[ssa.Value]*Formula{}, pc: map[int]*Formula{}, memDef: map[string][]memDefn{}, inprg: map[string]bool{}, noInl: c.noInl}
	for i, prm := range t.Fn.Params {
		if i < len(t.Args) {
			ch.bind[prm] = t.Args[i]
		}
	}
	return ch
}

// LinFact is the query a − b ≤ k (all integer terms). With Held set the query is instead
// "a ≤ some linear expression over variables accepted by Held" (B and K are ignored).
type LinFact struct {
	A, B *Term
	K    int64
	Text string
	Held func(*Term) bool
}

// boundedAbove: does cs entail s ≤ E for a linear E over held variables? (Fourier–Motzkin
// projection onto {z} ∪ held with z = s; some surviving constraint must bound z from above.)
func boundedAbove(cs []Constraint, s Lin, held func(*Term) bool) bool {
	const zk = "\x00z"
	z := newLin()
	z.coef[zk] = big.NewRat(1, 1)
	z.names[zk] = "z"
	cur := make([]Lin, 0, len(cs)+2)
	for _, c := range cs {
		cur = append(cur, c.lin)
	}
	cur = append(cur, z.add(s, -1), s.add(z, -1))
	keep := func(k string) bool {
		if k == zk {
			return true
		}
		t := linTermOf[k]
		return t != nil && held(t)
	}
	for {
		var v string
		for _, l := range cur {
			for k := range l.coef {
				if !keep(k) && (v == "" || k < v) {
					v = k
				}
			}
		}
		if v == "" {
			break
		}
		var pos, neg, rest []Lin
		for _, l := range cur {
			c := l.coef[v]
			switch {
			case c == nil || c.Sign() == 0:
				rest = append(rest, l)
			case c.Sign() > 0:
				pos = append(pos, l)
			default:
				neg = append(neg, l)
			}
		}
		for _, p := range pos {
			for _, n := range neg {
				a := p.coef[v]
				b := new(big.Rat).Neg(n.coef[v])
				comb := p.scale(b).add(n.scale(a), 1)
				delete(comb.coef, v)
				rest = append(rest, comb)
			}
		}
		cur = rest
		if len(cur) > 4000 {
			return false
		}
	}
	for _, l := range cur {
		if c := l.coef[zk]; c != nil && c.Sign() > 0 {
			return true
		}
	}
	return false
}

// EntailsLinear decides pc ⇒ (every fact). On failure returns a description of the failing case.
func (c *Ctx) EntailsLinear(pc *Formula, facts []LinFact) (bool, string, error) {
	env := &linEnv{choices: map[string]int{}, root: c}
	return c.entailsLinearRec(env, pc, facts, 0)
}

// EntailsLinearAny: in every case (assignment of the relevant comparison atoms, choice of helper
// return sites and φ edges) at least one of the facts is entailed. Sound for the disjunction;
// incomplete when the disjunction holds over a case without one disjunct holding on all of it.
func (c *Ctx) EntailsLinearAny(pc *Formula, facts []LinFact) (bool, string, error) {
	env := &linEnv{choices: map[string]int{}, root: c, anyOf: true}
	return c.entailsLinearRec(env, pc, facts, 0)
}

func (c *Ctx) entailsLinearRec(env *linEnv, pc *Formula, facts []LinFact, depth int) (bool, string, error) {
	if depth > 12 {
		return false, "", fmt.Errorf("too many case splits")
	}
	full := And(append([]*Formula{pc}, env.guards...)...)
	// linearise every integer comparison atom and the facts; discover needed choices first
	type latom struct {
		key  string
		name string
		a, b Lin
	}
	var latoms []latom
	split := func(nc *needChoice) (bool, string, error) {
		for i := 0; i < nc.n; i++ {
			sub := &linEnv{choices: map[string]int{}, root: env.root, guards: append(append([]*Formula{}, env.guards...), nc.guard(i)), anyOf: env.anyOf}
			for k, v := range env.choices {
				sub.choices[k] = v
			}
			sub.choices[nc.key] = i
			okv, why, err := c.entailsLinearRec(sub, pc, facts, depth+1)
			if err != nil || !okv {
				return okv, why, err
			}
		}
		return true, "", nil
	}
	for _, at := range full.Atoms() {
		if at.Kind != "cmp" || len(at.Args) != 2 || !intTerm(at.Args[0]) || !intTerm(at.Args[1]) {
			continue
		}
		a, err := env.linTerm(at.Args[0])
		if nc, ok := err.(*needChoice); ok {
			return split(nc)
		} else if err != nil {
			return false, "", err
		}
		b, err := env.linTerm(at.Args[1])
		if nc, ok := err.(*needChoice); ok {
			return split(nc)
		} else if err != nil {
			return false, "", err
		}
		latoms = append(latoms, latom{key: at.Key(), name: at.Name, a: a, b: b})
	}
	type lfact struct {
		a, b Lin
		k    int64
		text string
		held func(*Term) bool
	}
	var lfacts []lfact
	for _, f := range facts {
		a, err := env.linTerm(f.A)
		if nc, ok := err.(*needChoice); ok {
			return split(nc)
		} else if err != nil {
			return false, "", err
		}
		b := newLin()
		if f.Held == nil {
			b, err = env.linTerm(f.B)
			if nc, ok := err.(*needChoice); ok {
				return split(nc)
			} else if err != nil {
				return false, "", err
			}
		}
		lfacts = append(lfacts, lfact{a, b, f.K, f.Text, f.Held})
	}
	// background: len(x) ≥ 0
	var background []Constraint
	seenLen := map[string]bool{}
	addLens := func(l Lin) {
		for k, nm := range l.names {
			if strings.HasPrefix(nm, "len(") && !seenLen[k] {
				seenLen[k] = true
				v := newLin()
				v.coef[k] = big.NewRat(-1, 1)
				v.names[k] = nm
				background = append(background, Constraint{lin: v, why: nm + " ≥ 0"})
			}
		}
	}
	for _, la := range latoms {
		addLens(la.a)
		addLens(la.b)
	}
	for _, lf := range lfacts {
		addLens(lf.a)
		addLens(lf.b)
	}
	// library index searches: slices.Index / IndexFunc (and sort.Search*) return −1 ≤ r < len(s)
	// (sort.Search: 0 ≤ r ≤ n)
	seenIdx := map[string]bool{}
	addIdx := func(t *Term) {
		if t.Kind != "call" || len(t.Args) < 1 || seenIdx[t.Key()] {
			return
		}
		if strings.HasPrefix(t.Name, "slices.Index") {
			seenIdx[t.Key()] = true
			v := linVar(t)
			background = append(background, leq(linConst(-1), v, 0, t.String()+" ≥ −1"))
			ln := linVar(lenOf("len", t.Args[0]))
			background = append(background, leq(v, ln, -1, t.String()+" < len"))
			background = append(background, Constraint{lin: ln.scale(big.NewRat(-1, 1)), why: "len ≥ 0"})
		}
	}
	// hand-written index searches of the repository: r < len(list) (r < 0 when nothing matches)
	addIdx2 := func(t *Term) {
		if t.Kind != "call" || t.Fn == nil || seenIdx[t.Key()] {
			return
		}
		if sum := indexSearchSummary(c.p, t.Fn); sum != nil {
			seenIdx[t.Key()] = true
			list, _ := sum.bound(t.Args)
			// the list as it was when the search ran: the memory version of its field at the call
			if call, ok := t.Val.(*ssa.Call); ok && t.C != nil && list.Kind == "field" && len(list.Args) == 1 && call.Parent() == t.C.fn {
				if fv, ok := list.Obj.(*types.Var); ok && t.C.unstable(fv, list.Args[0]) {
					cp := *list
					cp.ID = t.C.fieldVersion(fv, call)
					cp.key, cp.str = "", ""
					list = &cp
				}
			}
			v := linVar(t)
			ln := linVar(lenOf("len", list))
			background = append(background, leq(v, ln, -1, t.String()+" < len"))
			background = append(background, Constraint{lin: ln.scale(big.NewRat(-1, 1)), why: "len ≥ 0"})
		}
	}
	// … and their (index, found) form: the index stays below len(list)
	addIdx3 := func(t *Term) {
		if t.Kind != "extract" || t.Name != "0" || len(t.Args) != 1 || t.Args[0].Kind != "call" || t.Args[0].Fn == nil || seenIdx[t.Key()] {
			return
		}
		ct := t.Args[0]
		if li := tupleIndexSearch(c.p, ct.Fn); li >= 0 && li < len(ct.Args) {
			seenIdx[t.Key()] = true
			v := linVar(t)
			ln := linVar(lenOf("len", ct.Args[li]))
			background = append(background, leq(v, ln, -1, t.String()+" < len"))
			background = append(background, Constraint{lin: ln.scale(big.NewRat(-1, 1)), why: "len ≥ 0"})
		}
	}
	for _, at := range full.Atoms() {
		at.walk(func(x *Term) bool { addIdx(x); addIdx2(x); addIdx3(x); return true })
	}
	for _, f := range facts {
		f.A.walk(func(x *Term) bool { addIdx(x); addIdx2(x); addIdx3(x); return true })
		if f.B != nil {
			f.B.walk(func(x *Term) bool { addIdx(x); addIdx2(x); addIdx3(x); return true })
		}
	}
	// induction variables: φ(c0, φ + k) with k > 0 never drops below c0 (covers range indices)
	seenInd := map[string]bool{}
	var indWalk func(t *Term)
	addInd := func(t *Term) {
		ph, ok := t.Val.(*ssa.Phi)
		if !ok || t.C == nil || !t.C.loopCarried(ph) || seenInd[t.Key()] {
			return
		}
		var c0 *int64
		okStep := true
		for _, ed := range ph.Edges {
			if k, ok := ed.(*ssa.Const); ok && k.Value != nil && isInteger(k.Type()) {
				v := k.Int64()
				if c0 != nil && *c0 != v {
					okStep = false
				}
				c0 = &v
				continue
			}
			bo, ok := ed.(*ssa.BinOp)
			if !ok || bo.Op != token.ADD || bo.X != ssa.Value(ph) {
				okStep = false
				continue
			}
			if k, ok := bo.Y.(*ssa.Const); !ok || k.Int64() <= 0 {
				okStep = false
			}
		}
		if c0 != nil && okStep {
			seenInd[t.Key()] = true
			v := linVar(t)
			background = append(background, leq(linConst(*c0), v, 0, t.String()+" ≥ its initial value"))
			// the counter of a rotated `for i := range n` loop stays below n
			if n, isRot := rotatedCounted(ph); isRot {
				if nl, err := env.linTerm(t.C.Term(n)); err == nil {
					background = append(background, Constraint{lin: v.add(nl, -1).add(linConst(1), 1), why: t.String() + " < the range bound"})
				}
			}
		}
	}
	indWalk = func(t *Term) {
		t.walk(func(x *Term) bool {
			if x.Kind == "phi" {
				addInd(x)
			}
			return true
		})
	}
	for _, at := range full.Atoms() {
		indWalk(at)
	}
	for _, f := range facts {
		indWalk(f.A)
		if f.B != nil {
			indWalk(f.B)
		}
	}
	failure := ""
	// cone of influence: only comparison atoms sharing (transitively) a variable with the facts
	// can matter to the arithmetic; every other atom is existentially quantified.
	relVars := map[string]bool{}
	for _, lf := range lfacts {
		for k := range lf.a.coef {
			relVars[k] = true
		}
		for k := range lf.b.coef {
			relVars[k] = true
		}
	}
	relAtom := map[string]bool{}
	// comparisons that became constant under the current case choices decide themselves
	for _, la := range latoms {
		if la.a.isConst() && la.b.isConst() {
			relAtom[la.key] = true
		}
	}
	for changed := true; changed; {
		changed = false
		// background facts tie variables together as well (r < len(list) for an index search r)
		for _, bc := range background {
			if len(bc.lin.coef) < 2 {
				continue
			}
			touch := false
			for k := range bc.lin.coef {
				if relVars[k] {
					touch = true
				}
			}
			if touch {
				for k := range bc.lin.coef {
					if !relVars[k] {
						relVars[k] = true
						changed = true
					}
				}
			}
		}
		for _, la := range latoms {
			if relAtom[la.key] {
				continue
			}
			touch := false
			for k := range la.a.coef {
				if relVars[k] {
					touch = true
				}
			}
			for k := range la.b.coef {
				if relVars[k] {
					touch = true
				}
			}
			if touch {
				relAtom[la.key] = true
				changed = true
				for k := range la.a.coef {
					relVars[k] = true
				}
				for k := range la.b.coef {
					relVars[k] = true
				}
			}
		}
	}
	err := forEachModelOver(full, func(t *Term) bool { return relAtom[t.Key()] }, func(asg Assignment) bool {
		cs := append([]Constraint{}, background...)
		var diseq [][2]Lin
		for _, la := range latoms {
			v, assigned := asg[la.key]
			if !assigned {
				continue
			}
			switch {
			case la.name == "<" && v:
				cs = append(cs, leq(la.a, la.b, -1, "")) // a ≤ b − 1
			case la.name == "<" && !v:
				cs = append(cs, leq(la.b, la.a, 0, "")) // b ≤ a
			case la.name == "==" && v:
				cs = append(cs, leq(la.a, la.b, 0, ""), leq(la.b, la.a, 0, ""))
			case la.name == "==" && !v:
				if len(diseq) < 4 {
					diseq = append(diseq, [2]Lin{la.a, la.b}) // a ≠ b: a < b or b < a
				}
			}
		}
		// expand the disequalities into their 2^k orderings
		for mask := 0; mask < 1<<uint(len(diseq)); mask++ {
			cc := append([]Constraint{}, cs...)
			for i, d := range diseq {
				if mask&(1<<uint(i)) == 0 {
					cc = append(cc, leq(d[0], d[1], -1, ""))
				} else {
					cc = append(cc, leq(d[1], d[0], -1, ""))
				}
			}
			if !feasible(cc) {
				continue // this case is arithmetically impossible
			}
			if env.anyOf {
				some := false
				var texts []string
				for _, lf := range lfacts {
					neg := leq(lf.b, lf.a, -lf.k-1, "")
					if !feasible(append(append([]Constraint{}, cc...), neg)) {
						some = true
						break
					}
					texts = append(texts, lf.text)
				}
				if !some {
					failure = fmt.Sprintf("none of [%s] is entailed when %s (case choices %v)", strings.Join(texts, " | "), renderAssignment(full, asg), env.choices)
					return false
				}
				continue
			}
			for _, lf := range lfacts {
				if lf.held != nil {
					if !boundedAbove(cc, lf.a, lf.held) {
						failure = fmt.Sprintf("%s is not entailed when %s (case choices %v): no upper bound on %s over held quantities", lf.text, renderAssignment(full, asg), env.choices, lf.a)
						return false
					}
					continue
				}
				// negation of a − b ≤ k is b − a ≤ −k − 1
				neg := leq(lf.b, lf.a, -lf.k-1, "")
				if feasible(append(append([]Constraint{}, cc...), neg)) {
					failure = fmt.Sprintf("%s is not entailed when %s (case choices %v): %s − (%s) ≤ %d can fail", lf.text, renderAssignment(full, asg), env.choices, lf.a, lf.b, lf.k)
					return false
				}
			}
		}
		return true
	})
	if err != nil {
		return false, "", err
	}
	return failure == "", failure, nil
}

func intTerm(t *Term) bool {
	if t == nil {
		return false
	}
	if t.Kind == "len" || t.Kind == "cap" {
		return true
	}
	if t.Typ != nil {
		return isInteger(t.Typ)
	}
	if t.Val != nil {
		return isInteger(t.Val.Type())
	}
	if t.Kind == "binop" {
		return intTerm(t.Args[0]) && intTerm(t.Args[1])
	}
	return false
}

var _ = token.ADD
