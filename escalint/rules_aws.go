package main

// rules_aws.go — C17, C18, C19 (AWS provider) and the shared provider-bound rule.

import (
	"go/constant"
	"go/types"

	"golang.org/x/tools/go/ssa"
)

func constantInt(k int64) constant.Value { return constant.MakeInt64(k) }

func intConstTerm(k int64) *Term {
	return &Term{Kind: "const", Name: constant.MakeInt64(k).ExactString(), Val: ssa.NewConst(constant.MakeInt64(k), types.Typ[types.Int64]), Typ: types.Typ[types.Int64]}
}

// providerBounds (C17.R1, shared with C04.R3): in (*aws.NodeGroup).IncreaseSize(δ) every call
// that can reach an AWS write is behind δ ≥ 1 ∧ TargetSize + δ ≤ MaxSize.
func (ck *Check) providerBounds(rule string) {
	a := ck.A
	if !ck.need(rule, map[string]interface{}{"aws IncreaseSize": a.AwsIncrease, "aws TargetSize": a.AwsTargetSize, "aws MaxSize": a.AwsMaxSize}) {
		return
	}
	fn := a.AwsIncrease
	ctx := ck.P.NewCtx(fn)
	recv := paramTerm(fn.Params[0])
	delta := paramTerm(fn.Params[1])
	wfn := map[*ssa.Function]bool{}
	for _, w := range a.W {
		wfn[w.Fn] = true
	}
	n := 0
	for _, ci := range callsIn(fn, nil) {
		reaches := false
		for _, g := range ck.P.calleesOf(ci) {
			r := ck.P.reachCut([]*ssa.Function{g}, nil)
			for f := range wfn {
				if r[f] {
					reaches = true
				}
			}
		}
		if !reaches {
			continue
		}
		n++
		key := ck.P.siteKey(ci)
		ts := &Term{Kind: "call", Name: funcID(a.AwsTargetSize), Fn: a.AwsTargetSize, Obj: a.AwsTargetSize.Object(), Args: []*Term{recv}, Typ: types.Typ[types.Int64]}
		mx := &Term{Kind: "call", Name: funcID(a.AwsMaxSize), Fn: a.AwsMaxSize, Obj: a.AwsMaxSize.Object(), Args: []*Term{recv}, Typ: types.Typ[types.Int64]}
		pc := ctx.PC(ci)
		facts := []LinFact{
			{A: intConstTerm(1), B: delta, K: 0, Text: "δ ≥ 1"},
			{A: &Term{Kind: "binop", Name: "+", Args: []*Term{ts, delta}}, B: mx, K: 0, Text: "TargetSize + δ ≤ MaxSize"},
		}
		okv, why, err := ctx.EntailsLinear(pc, facts)
		if err != nil {
			ck.undecided(rule, key, ck.P.instrPos(ci), funcID(fn), "δ ≥ 1 ∧ TargetSize + δ ≤ MaxSize before any AWS write", err.Error())
			continue
		}
		ck.cond(okv, rule, key, ck.P.instrPos(ci), funcID(fn), "PC ⇒ δ ≥ 1 ∧ TargetSize + δ ≤ MaxSize at every call of IncreaseSize that can reach an AWS write", pc.String(), why)
	}
	ck.floor(rule, "write-reaching calls in aws IncreaseSize", n, 2)
}
