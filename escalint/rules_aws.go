package main

// rules_aws.go — C17, C18, C19 (AWS provider) and the shared provider-bound rule.

import (
	"fmt"
	"go/constant"
	"go/token"
	"go/types"
	"sort"
	"strings"

	"golang.org/x/tools/go/ssa"
)

func constantInt(k int64) constant.Value { return constant.MakeInt64(k) }

func intConstTerm(k int64) *Term {
	return &Term{Kind: "const", Name: constant.MakeInt64(k).ExactString(), Val: ssa.NewConst(constant.MakeInt64(k), types.Typ[types.Int64]), Typ: types.Typ[types.Int64]}
}

// providerBounds (C17.R1, shared with C04.R3): in (*aws.NodeGroup).IncreaseSize(δ) every call
// that can reach an AWS write is behind δ ≥ 1 ∧ TargetSize + δ ≤ MaxSize.
func (ck *Check) providerBounds(rule string) {
	a := ck.A
	if !ck.need(rule, map[string]interface{}{"aws IncreaseSize": a.AwsIncrease, "aws TargetSize": a.AwsTargetSize, "aws MaxSize": a.AwsMaxSize}) {
		return
	}
	fn := a.AwsIncrease
	ctx := ck.P.NewCtx(fn)
	recv := paramTerm(fn.Params[0])
	delta := paramTerm(fn.Params[1])
	wfn := map[*ssa.Function]bool{}
	for _, w := range a.W {
		wfn[w.Fn] = true
	}
	n := 0
	for _, ci := range callsIn(fn, nil) {
		reaches := false
		for _, g := range ck.P.calleesOf(ci) {
			r := ck.P.reachCut([]*ssa.Function{g}, nil)
			for f := range wfn {
				if r[f] {
					reaches = true
				}
			}
		}
		if !reaches {
			continue
		}
		n++
		key := ck.P.siteKey(ci)
		ts := &Term{Kind: "call", Name: funcID(a.AwsTargetSize), Fn: a.AwsTargetSize, Obj: a.AwsTargetSize.Object(), Args: []*Term{recv}, Typ: types.Typ[types.Int64]}
		mx := &Term{Kind: "call", Name: funcID(a.AwsMaxSize), Fn: a.AwsMaxSize, Obj: a.AwsMaxSize.Object(), Args: []*Term{recv}, Typ: types.Typ[types.Int64]}
		pc := ctx.PC(ci)
		facts := []LinFact{
			{A: intConstTerm(1), B: delta, K: 0, Text: "δ ≥ 1"},
			{A: &Term{Kind: "binop", Name: "+", Args: []*Term{ts, delta}}, B: mx, K: 0, Text: "TargetSize + δ ≤ MaxSize"},
		}
		okv, why, err := ctx.EntailsLinear(pc, facts)
		if err != nil {
			ck.undecided(rule, key, ck.P.instrPos(ci), funcID(fn), "δ ≥ 1 ∧ TargetSize + δ ≤ MaxSize before any AWS write", err.Error())
			continue
		}
		ck.cond(okv, rule, key, ck.P.instrPos(ci), funcID(fn), "PC ⇒ δ ≥ 1 ∧ TargetSize + δ ≤ MaxSize at every call of IncreaseSize that can reach an AWS write", pc.String(), why)
	}
	ck.floor(rule, "write-reaching calls in aws IncreaseSize", n, 2)
}

// ---------------------------------------------------------------------------------------------
// C07.R5 — typestate on the provider's cached desired capacity

type cacheTS struct {
	ck        *Check
	fDesired  *types.Var
	fAsg      *types.Var
	mutCalls  map[ssa.Instruction]string
	retCached map[*ssa.Function]bool
	readSites map[*ssa.Function][]ssa.Instruction
	readsIn   map[*ssa.Function]bool
	dirtyOut  map[*ssa.Function]bool
}

func (ck *Check) newCacheTS() *cacheTS {
	ts := &cacheTS{ck: ck, mutCalls: map[ssa.Instruction]string{}, retCached: map[*ssa.Function]bool{}, readSites: map[*ssa.Function][]ssa.Instruction{}, readsIn: map[*ssa.Function]bool{}, dirtyOut: map[*ssa.Function]bool{}}
	awsNG := ck.A.named(pkgAWS, "NodeGroup")
	ts.fAsg = field(awsNG, "asg")
	if ts.fAsg != nil {
		if st := derefStruct(ts.fAsg.Type()); st != nil {
			for i := 0; i < st.NumFields(); i++ {
				if st.Field(i).Name() == "DesiredCapacity" {
					ts.fDesired = st.Field(i)
				}
			}
		}
	}
	for _, w := range ck.A.W {
		switch w.Class {
		case "W-ASG-TERM", "W-ASG-SET", "W-ASG-ATT":
			ts.mutCalls[w.Call] = w.Class
		}
	}
	return ts
}

func isLogCallee(f *ssa.Function) bool {
	p := pkgPathOfFn(f)
	return strings.HasPrefix(p, "github.com/sirupsen/logrus") || strings.HasPrefix(p, "github.com/prometheus/")
}

// analyse classifies the *read points* of fn: a read point is a load of the cached desired
// capacity, or a call of a function returning a value derived from it. It is a decisive READ if
// the value's forward slice reaches a branch, a non-logging call, a store other than the cache
// update itself; it makes fn "return cached" if the slice reaches a return.
func (ts *cacheTS) analyse(fn *ssa.Function) (reads []ssa.Instruction, returns bool) {
	p := ts.ck.P
	var sources []ssa.Value
	for _, b := range fn.Blocks {
		for _, in := range b.Instrs {
			switch x := in.(type) {
			case *ssa.UnOp:
				if x.Op == token.MUL && fieldOfAddr(x.X) == ts.fDesired {
					sources = append(sources, x)
				}
			case *ssa.Call:
				for _, g := range p.calleesOf(x) {
					if ts.retCached[g] {
						sources = append(sources, x)
						break
					}
				}
			}
		}
	}
	for _, src := range sources {
		decisive, ret := ts.slice(src)
		if ret {
			returns = true
		}
		if decisive {
			reads = append(reads, src.(ssa.Instruction))
		}
	}
	return reads, returns
}

func (ts *cacheTS) slice(src ssa.Value) (decisive, returns bool) {
	p := ts.ck.P
	tainted := map[ssa.Value]bool{src: true}
	work := []ssa.Value{src}
	add := func(v ssa.Value) {
		if v != nil && !tainted[v] {
			tainted[v] = true
			work = append(work, v)
		}
	}
	for len(work) > 0 {
		v := work[len(work)-1]
		work = work[:len(work)-1]
		refs := v.Referrers()
		if refs == nil {
			continue
		}
		for _, r := range *refs {
			switch x := r.(type) {
			case *ssa.BinOp:
				add(x)
			case *ssa.UnOp:
				add(x)
			case *ssa.Convert:
				add(x)
			case *ssa.ChangeType:
				add(x)
			case *ssa.MakeInterface:
				add(x)
			case *ssa.Phi:
				add(x)
			case *ssa.Extract:
				add(x)
			case *ssa.Slice:
				add(x)
			case *ssa.DebugRef:
			case *ssa.Return:
				returns = true
			case *ssa.If:
				decisive = true
			case *ssa.Store:
				if x.Val != v {
					continue
				}
				if fieldOfAddr(x.Addr) == ts.fDesired {
					continue // the cache update itself
				}
				if ia, ok := x.Addr.(*ssa.IndexAddr); ok {
					if al, ok := ia.X.(*ssa.Alloc); ok && al.Comment == "varargs" {
						for _, rr := range *al.Referrers() {
							if sl, ok := rr.(*ssa.Slice); ok {
								add(sl)
							}
						}
						continue
					}
				}
				decisive = true
			case *ssa.Call:
				c := x.Common()
				if _, isB := c.Value.(*ssa.Builtin); isB {
					add(x)
					continue
				}
				if f := c.StaticCallee(); f != nil && !p.inRepo(f) {
					if isLogCallee(f) {
						continue
					}
					if pureExternal(f) {
						add(x)
						continue
					}
				}
				decisive = true
			default:
				decisive = true
			}
		}
	}
	return decisive, returns
}

// successEdge: for a MUT call whose error result is tested in the same block, the successor
// taken when err == nil; nil when the error is not tested there.
func successEdge(call ssa.Instruction) (blk *ssa.BasicBlock, succ *ssa.BasicBlock) {
	cv, ok := call.(*ssa.Call)
	if !ok {
		return nil, nil
	}
	b := cv.Block()
	br, ok := b.Instrs[len(b.Instrs)-1].(*ssa.If)
	if !ok {
		return nil, nil
	}
	cmp, ok := br.Cond.(*ssa.BinOp)
	if !ok || (cmp.Op != token.NEQ && cmp.Op != token.EQL) {
		return nil, nil
	}
	ex, ok := cmp.X.(*ssa.Extract)
	if !ok || ex.Tuple != ssa.Value(cv) {
		return nil, nil
	}
	if k, ok := cmp.Y.(*ssa.Const); !ok || k.Value != nil {
		return nil, nil
	}
	if cmp.Op == token.NEQ {
		return b, b.Succs[1]
	}
	return b, b.Succs[0]
}

type tsViolation struct {
	fn   *ssa.Function
	in   ssa.Instruction
	what string
}

// flow runs the may-be-dirty dataflow over fn; returns dirty-at-return and violations.
func (ts *cacheTS) flow(fn *ssa.Function) (bool, []tsViolation) {
	p := ts.ck.P
	n := len(fn.Blocks)
	in := make([]bool, n)
	reached := make([]bool, n)
	reached[0] = true
	isRead := map[ssa.Instruction]bool{}
	for _, r := range ts.readSites[fn] {
		isRead[r] = true
	}
	var viol []tsViolation
	seenV := map[ssa.Instruction]bool{}
	dirtyRet := false
	for changed := true; changed; {
		changed = false
		dirtyRet = false
		for _, b := range fn.Blocks {
			if !reached[b.Index] {
				continue
			}
			dirty := in[b.Index]
			var splitSucc *ssa.BasicBlock
			for _, ins := range b.Instrs {
				if isRead[ins] && dirty && !seenV[ins] {
					seenV[ins] = true
					viol = append(viol, tsViolation{fn, ins, "the cached desired capacity is read for a decision after an AWS mutation that was not mirrored into the cache"})
				}
				if ci, ok := ins.(ssa.CallInstruction); ok {
					for _, g := range p.calleesOf(ci) {
						if ts.readsIn[g] && dirty && !seenV[ins] {
							seenV[ins] = true
							viol = append(viol, tsViolation{fn, ins, "call to " + funcID(g) + ", which reads the cached desired capacity, after an unmirrored AWS mutation"})
						}
					}
					for _, g := range p.calleesOf(ci) {
						if ts.dirtyOut[g] {
							dirty = true
						}
					}
					if _, isMut := ts.mutCalls[ins]; isMut {
						if _, succ := successEdge(ins); succ != nil {
							splitSucc = succ
						} else {
							dirty = true
						}
					}
				}
				if st, ok := ins.(*ssa.Store); ok {
					f := fieldOfAddr(st.Addr)
					if f != nil && (f == ts.fDesired || f == ts.fAsg) {
						dirty = false
					}
				}
				if _, ok := ins.(*ssa.Return); ok && dirty {
					dirtyRet = true
				}
			}
			for _, s := range b.Succs {
				out := dirty
				if splitSucc != nil && s == splitSucc {
					out = true
				}
				if !reached[s.Index] || (out && !in[s.Index]) {
					reached[s.Index] = true
					if out {
						in[s.Index] = true
					}
					changed = true
				}
			}
		}
	}
	return dirtyRet, viol
}

func (ck *Check) cacheTypestate(rule string) {
	a := ck.A
	ts := ck.newCacheTS()
	if ts.fDesired == nil || ts.fAsg == nil {
		ck.lost(rule, "aws.NodeGroup.asg / autoscaling.Group.DesiredCapacity", "fields not found")
		return
	}
	ck.floor(rule, "AWS mutation sites (terminate / set / attach)", len(ts.mutCalls), 4)
	// fixpoint on retCached / readSites / readsIn / dirtyOut
	for iter := 0; iter < 10; iter++ {
		changed := false
		for _, fn := range ck.P.Funcs {
			reads, ret := ts.analyse(fn)
			if ret && !ts.retCached[fn] {
				ts.retCached[fn] = true
				changed = true
			}
			if len(reads) != len(ts.readSites[fn]) {
				ts.readSites[fn] = reads
				changed = true
			}
			ri := len(reads) > 0
			for _, g := range ck.P.callees[fn] {
				if ts.readsIn[g] {
					ri = true
				}
			}
			if ri && !ts.readsIn[fn] {
				ts.readsIn[fn] = true
				changed = true
			}
			d, _ := ts.flow(fn)
			if d && !ts.dirtyOut[fn] {
				ts.dirtyOut[fn] = true
				changed = true
			}
		}
		if !changed {
			break
		}
	}
	nread := 0
	for _, rs := range ts.readSites {
		nread += len(rs)
	}
	ck.floor(rule, "decisive reads of the cached desired capacity", nread, 4)
	reach := ck.P.reachCut([]*ssa.Function{a.Scan}, nil)
	nv := 0
	var fns []*ssa.Function
	for fn := range reach {
		fns = append(fns, fn)
	}
	sort.Slice(fns, func(i, j int) bool { return funcID(fns[i]) < funcID(fns[j]) })
	for _, fn := range fns {
		_, viol := ts.flow(fn)
		for _, v := range viol {
			nv++
			key := funcID(fn) + "/stale-desired-capacity"
			if ci, ok := v.in.(ssa.CallInstruction); ok {
				key = ck.P.siteKey(ci) + "/stale-desired-capacity"
			}
			ck.fail(rule, key, ck.P.instrPos(v.in), funcID(fn), "within one scan no decision reads the cached ASG desired capacity after a terminate / set / attach that was not mirrored into the cache", v.in.String(), v.what)
		}
	}
	if nv == 0 {
		var dirty []string
		for fn, d := range ts.dirtyOut {
			if d && reach[fn] {
				dirty = append(dirty, funcID(fn))
			}
		}
		sort.Strings(dirty)
		ck.ok(rule, "scan/fresh-base", "", funcID(a.Scan), "within one scan no decision reads the cached ASG desired capacity after an unmirrored AWS mutation", fmt.Sprintf("%d functions analysed; may return with an unmirrored mutation: %s", len(fns), strings.Join(dirty, ", ")))
	}
}

// absoluteSet (C17.R2 / C07.R6): SetDesiredCapacity is called once, outside any loop, with
// DesiredCapacity = Int64(TargetSize + δ) and the group's own name.
func (ck *Check) absoluteSet(rule string) {
	a := ck.A
	if !ck.need(rule, map[string]interface{}{"aws IncreaseSize": a.AwsIncrease, "set-capacity strategy": a.AwsSetSize}) {
		return
	}
	inc := a.AwsIncrease
	ctx := ck.P.NewCtx(inc)
	recv, delta := paramTerm(inc.Params[0]), paramTerm(inc.Params[1])
	ts := &Term{Kind: "call", Name: funcID(a.AwsTargetSize), Fn: a.AwsTargetSize, Obj: a.AwsTargetSize.Object(), Args: []*Term{recv}, Typ: types.Typ[types.Int64]}
	want := &Term{Kind: "binop", Name: "+", Args: []*Term{ts, delta}}
	if want.Args[0].Key() > want.Args[1].Key() {
		want.Args[0], want.Args[1] = want.Args[1], want.Args[0]
	}
	cs := callsTo(inc, a.AwsSetSize)
	for _, ci := range cs {
		arg := ctx.Term(ci.Common().Args[1])
		env := &linEnv{choices: map[string]int{}, root: ctx}
		l1, e1 := env.linTerm(arg)
		l2, e2 := env.linTerm(want)
		same := false
		if e1 == nil && e2 == nil {
			d := l1.add(l2, -1)
			same = d.isConst() && d.konst.Sign() == 0
		}
		ck.cond(same, rule, ck.P.siteKey(ci)+"/absolute", ck.P.instrPos(ci), funcID(inc), "the set-capacity strategy is given TargetSize() + δ", arg.String(), "the new desired capacity is not current + δ")
		okRecv := ctx.Term(ci.Common().Args[0]).Key() == recv.Key()
		ck.cond(okRecv, rule, ck.P.siteKey(ci)+"/receiver", ck.P.instrPos(ci), funcID(inc), "on the same node group", "", "")
	}
	ck.floor(rule, "set-capacity calls in IncreaseSize", len(cs), 1)
	// inside the strategy
	fn := a.AwsSetSize
	sctx := ck.P.NewCtx(fn)
	n := 0
	for _, w := range a.W {
		if w.Class != "W-ASG-SET" {
			continue
		}
		n++
		key := ck.P.siteKey(w.Call)
		if w.Fn != fn {
			ck.fail(rule, key, ck.P.instrPos(w.Call), funcID(w.Fn), "SetDesiredCapacity is issued only by the set-capacity strategy", funcID(w.Fn), "")
			continue
		}
		ck.cond(innermostLoop(fn, w.Call.Block()) == nil, rule, key+"/once", ck.P.instrPos(w.Call), funcID(fn), "exactly one SetDesiredCapacity per request (not in a loop)", "", "")
		in := w.Call.Common().Args[0]
		flds := ck.literalFields(sctx, in)
		dc, nm := flds["DesiredCapacity"], flds["AutoScalingGroupName"]
		okDC := dc != nil && dc.Kind == "call" && strings.HasSuffix(dc.Name, "aws.Int64") && dc.Args[0].Key() == paramTerm(fn.Params[1]).Key()
		ck.cond(okDC, rule, key+"/DesiredCapacity", ck.P.instrPos(w.Call), funcID(fn), "DesiredCapacity ← Int64(newSize)", fmt.Sprint(dc), "the request does not carry the computed size")
		okNM := nm != nil && nm.Kind == "call" && strings.HasSuffix(nm.Name, "aws.String") && nm.Args[0].Kind == "field" && nm.Args[0].Name == "id" && nm.Args[0].Args[0].Key() == paramTerm(fn.Params[0]).Key()
		ck.cond(okNM, rule, key+"/group", ck.P.instrPos(w.Call), funcID(fn), "AutoScalingGroupName ← String(n.id)", fmt.Sprint(nm), "the request targets another group")
	}
	ck.floor(rule, "SetDesiredCapacity sites", n, 1)
}

// literalFields: for a pointer to a freshly allocated struct literal (&T{…}), the terms stored
// into its fields (last store per field, anywhere in the function).
func (ck *Check) literalFields(ctx *Ctx, v ssa.Value) map[string]*Term {
	out := map[string]*Term{}
	al, ok := v.(*ssa.Alloc)
	if !ok {
		return out
	}
	for _, r := range *al.Referrers() {
		fa, ok := r.(*ssa.FieldAddr)
		if !ok {
			continue
		}
		f := fieldOfAddr(fa)
		for _, rr := range *fa.Referrers() {
			if st, ok := rr.(*ssa.Store); ok && st.Addr == ssa.Value(fa) {
				out[f.Name()] = ctx.Term(st.Val)
			}
		}
	}
	return out
}
