package main

// rules_aws.go — C17, C18, C19 (AWS provider) and the shared provider-bound rule.

import (
	"fmt"
	"go/constant"
	"go/token"
	"go/types"
	"sort"
	"strings"

	"golang.org/x/tools/go/ssa"
)

func constantInt(k int64) constant.Value { return constant.MakeInt64(k) }

func intConstTermTyped(k int64, t types.Type) *Term {
	return &Term{Kind: "const", Name: constant.MakeInt64(k).ExactString(), Val: ssa.NewConst(constant.MakeInt64(k), t), Typ: t}
}

func intConstTerm(k int64) *Term {
	return &Term{Kind: "const", Name: constant.MakeInt64(k).ExactString(), Val: ssa.NewConst(constant.MakeInt64(k), types.Typ[types.Int64]), Typ: types.Typ[types.Int64]}
}

// providerBounds (C17.R1, shared with C04.R3): in (*aws.NodeGroup).IncreaseSize(δ) every call
// that can reach an AWS write is behind δ ≥ 1 ∧ TargetSize + δ ≤ MaxSize.
func (ck *Check) providerBounds(rule string) {
	a := ck.A
	if !ck.need(rule, map[string]interface{}{"aws IncreaseSize": a.AwsIncrease, "aws TargetSize": a.AwsTargetSize, "aws MaxSize": a.AwsMaxSize}) {
		return
	}
	fn := a.AwsIncrease
	ctx := ck.P.NewCtx(fn)
	recv := paramTerm(fn.Params[0])
	delta := paramTerm(fn.Params[1])
	wfn := map[*ssa.Function]bool{}
	for _, w := range a.W {
		wfn[w.Fn] = true
	}
	n := 0
	for _, ci := range callsIn(fn, nil) {
		reaches := false
		for _, g := range ck.P.calleesOf(ci) {
			r := ck.P.reachCut([]*ssa.Function{g}, nil)
			for f := range wfn {
				if r[f] {
					reaches = true
				}
			}
		}
		if !reaches {
			continue
		}
		n++
		key := ck.P.siteKey(ci)
		ts := &Term{Kind: "call", Name: funcID(a.AwsTargetSize), Fn: a.AwsTargetSize, Obj: a.AwsTargetSize.Object(), Args: []*Term{recv}, Typ: types.Typ[types.Int64]}
		mx := &Term{Kind: "call", Name: funcID(a.AwsMaxSize), Fn: a.AwsMaxSize, Obj: a.AwsMaxSize.Object(), Args: []*Term{recv}, Typ: types.Typ[types.Int64]}
		pc := ctx.PC(ci)
		facts := []LinFact{
			{A: intConstTerm(1), B: delta, K: 0, Text: "δ ≥ 1"},
			{A: &Term{Kind: "binop", Name: "+", Args: []*Term{ts, delta}}, B: mx, K: 0, Text: "TargetSize + δ ≤ MaxSize"},
		}
		okv, why, err := ctx.EntailsLinear(pc, facts)
		if err != nil {
			ck.undecided(rule, key, ck.P.instrPos(ci), funcID(fn), "δ ≥ 1 ∧ TargetSize + δ ≤ MaxSize before any AWS write", err.Error())
			continue
		}
		ck.cond(okv, rule, key, ck.P.instrPos(ci), funcID(fn), "PC ⇒ δ ≥ 1 ∧ TargetSize + δ ≤ MaxSize at every call of IncreaseSize that can reach an AWS write", pc.String(), why)
	}
	ck.floor(rule, "write-reaching calls in aws IncreaseSize", n, 1)
}

// ---------------------------------------------------------------------------------------------
// C07.R5 — typestate on the provider's cached desired capacity

type cacheTS struct {
	ck        *Check
	fDesired  *types.Var
	fAsg      *types.Var
	mutCalls  map[ssa.Instruction]string
	retCached map[*ssa.Function]bool
	readSites map[*ssa.Function][]ssa.Instruction
	readsIn   map[*ssa.Function]bool
	dirtyOut  map[*ssa.Function]bool
}

func (ck *Check) newCacheTS() *cacheTS {
	ts := &cacheTS{ck: ck, mutCalls: map[ssa.Instruction]string{}, retCached: map[*ssa.Function]bool{}, readSites: map[*ssa.Function][]ssa.Instruction{}, readsIn: map[*ssa.Function]bool{}, dirtyOut: map[*ssa.Function]bool{}}
	awsNG := ck.A.named(pkgAWS, "NodeGroup")
	ts.fAsg = field(awsNG, "asg")
	if ts.fAsg != nil {
		if st := derefStruct(ts.fAsg.Type()); st != nil {
			for i := 0; i < st.NumFields(); i++ {
				if st.Field(i).Name() == "DesiredCapacity" {
					ts.fDesired = st.Field(i)
				}
			}
		}
	}
	for _, w := range ck.A.W {
		switch w.Class {
		case "W-ASG-TERM", "W-ASG-SET", "W-ASG-ATT":
			ts.mutCalls[w.Call] = w.Class
		}
	}
	return ts
}

func isLogCallee(f *ssa.Function) bool {
	p := pkgPathOfFn(f)
	return strings.HasPrefix(p, "github.com/sirupsen/logrus") || strings.HasPrefix(p, "github.com/prometheus/")
}

// analyse classifies the *read points* of fn: a read point is a load of the cached desired
// capacity, or a call of a function returning a value derived from it. It is a decisive READ if
// the value's forward slice reaches a branch, a non-logging call, a store other than the cache
// update itself; it makes fn "return cached" if the slice reaches a return.
func (ts *cacheTS) analyse(fn *ssa.Function) (reads []ssa.Instruction, returns bool) {
	p := ts.ck.P
	var sources []ssa.Value
	for _, b := range fn.Blocks {
		for _, in := range b.Instrs {
			switch x := in.(type) {
			case *ssa.UnOp:
				if x.Op == token.MUL && fieldOfAddr(x.X) == ts.fDesired {
					sources = append(sources, x)
				}
			case *ssa.Call:
				for _, g := range p.calleesOf(x) {
					if ts.retCached[g] {
						sources = append(sources, x)
						break
					}
				}
			}
		}
	}
	for _, src := range sources {
		decisive, ret := ts.slice(src)
		if ret {
			returns = true
		}
		if decisive {
			reads = append(reads, src.(ssa.Instruction))
		}
	}
	return reads, returns
}

func (ts *cacheTS) slice(src ssa.Value) (decisive, returns bool) {
	p := ts.ck.P
	tainted := map[ssa.Value]bool{src: true}
	work := []ssa.Value{src}
	add := func(v ssa.Value) {
		if v != nil && !tainted[v] {
			tainted[v] = true
			work = append(work, v)
		}
	}
	for len(work) > 0 {
		v := work[len(work)-1]
		work = work[:len(work)-1]
		refs := v.Referrers()
		if refs == nil {
			continue
		}
		for _, r := range *refs {
			switch x := r.(type) {
			case *ssa.BinOp:
				add(x)
			case *ssa.UnOp:
				add(x)
			case *ssa.Convert:
				add(x)
			case *ssa.ChangeType:
				add(x)
			case *ssa.MakeInterface:
				add(x)
			case *ssa.Phi:
				add(x)
			case *ssa.Extract:
				add(x)
			case *ssa.Slice:
				add(x)
			case *ssa.DebugRef:
			case *ssa.Return:
				returns = true
			case *ssa.If:
				decisive = true
			case *ssa.Store:
				if x.Val != v {
					continue
				}
				if fieldOfAddr(x.Addr) == ts.fDesired {
					continue // the cache update itself
				}
				if ia, ok := x.Addr.(*ssa.IndexAddr); ok {
					if al, ok := ia.X.(*ssa.Alloc); ok && al.Comment == "varargs" {
						for _, rr := range *al.Referrers() {
							if sl, ok := rr.(*ssa.Slice); ok {
								add(sl)
							}
						}
						continue
					}
				}
				decisive = true
			case *ssa.Call:
				c := x.Common()
				if _, isB := c.Value.(*ssa.Builtin); isB {
					add(x)
					continue
				}
				if f := c.StaticCallee(); f != nil && !p.inRepo(f) {
					if isLogCallee(f) {
						continue
					}
					if pureExternal(f) {
						add(x)
						continue
					}
				}
				decisive = true
			default:
				decisive = true
			}
		}
	}
	return decisive, returns
}

// successEdge: for a MUT call whose error result is tested in the same block, the successor
// taken when err == nil; nil when the error is not tested there.
func successEdge(call ssa.Instruction) (blk *ssa.BasicBlock, succ *ssa.BasicBlock) {
	cv, ok := call.(*ssa.Call)
	if !ok {
		return nil, nil
	}
	b := cv.Block()
	br, ok := b.Instrs[len(b.Instrs)-1].(*ssa.If)
	if !ok {
		return nil, nil
	}
	cmp, ok := br.Cond.(*ssa.BinOp)
	if !ok || (cmp.Op != token.NEQ && cmp.Op != token.EQL) {
		return nil, nil
	}
	ex, ok := cmp.X.(*ssa.Extract)
	if !ok || ex.Tuple != ssa.Value(cv) {
		return nil, nil
	}
	if k, ok := cmp.Y.(*ssa.Const); !ok || k.Value != nil {
		return nil, nil
	}
	if cmp.Op == token.NEQ {
		return b, b.Succs[1]
	}
	return b, b.Succs[0]
}

type tsViolation struct {
	fn   *ssa.Function
	in   ssa.Instruction
	what string
}

// flow runs the may-be-dirty dataflow over fn; returns dirty-at-return and violations.
func (ts *cacheTS) flow(fn *ssa.Function) (bool, []tsViolation) {
	p := ts.ck.P
	n := len(fn.Blocks)
	in := make([]bool, n)
	reached := make([]bool, n)
	reached[0] = true
	isRead := map[ssa.Instruction]bool{}
	for _, r := range ts.readSites[fn] {
		isRead[r] = true
	}
	var viol []tsViolation
	seenV := map[ssa.Instruction]bool{}
	dirtyRet := false
	for changed := true; changed; {
		changed = false
		dirtyRet = false
		for _, b := range fn.Blocks {
			if !reached[b.Index] {
				continue
			}
			dirty := in[b.Index]
			var splitSucc *ssa.BasicBlock
			for _, ins := range b.Instrs {
				if isRead[ins] && dirty && !seenV[ins] {
					seenV[ins] = true
					viol = append(viol, tsViolation{fn, ins, "the cached desired capacity is read for a decision after an AWS mutation that was not mirrored into the cache"})
				}
				if ci, ok := ins.(ssa.CallInstruction); ok {
					for _, g := range p.calleesOf(ci) {
						if ts.readsIn[g] && dirty && !seenV[ins] {
							seenV[ins] = true
							viol = append(viol, tsViolation{fn, ins, "call to " + funcID(g) + ", which reads the cached desired capacity, after an unmirrored AWS mutation"})
						}
					}
					for _, g := range p.calleesOf(ci) {
						if ts.dirtyOut[g] {
							dirty = true
						}
					}
					if _, isMut := ts.mutCalls[ins]; isMut {
						if _, succ := successEdge(ins); succ != nil {
							splitSucc = succ
						} else {
							dirty = true
						}
					}
				}
				if st, ok := ins.(*ssa.Store); ok {
					f := fieldOfAddr(st.Addr)
					if f != nil && (f == ts.fDesired || f == ts.fAsg) {
						dirty = false
					}
				}
				if _, ok := ins.(*ssa.Return); ok && dirty {
					dirtyRet = true
				}
			}
			for _, s := range b.Succs {
				out := dirty
				if splitSucc != nil && s == splitSucc {
					out = true
				}
				if !reached[s.Index] || (out && !in[s.Index]) {
					reached[s.Index] = true
					if out {
						in[s.Index] = true
					}
					changed = true
				}
			}
		}
	}
	return dirtyRet, viol
}

func (ck *Check) cacheTypestate(rule string) {
	a := ck.A
	ts := ck.newCacheTS()
	if ts.fDesired == nil || ts.fAsg == nil {
		ck.lost(rule, "aws.NodeGroup.asg / autoscaling.Group.DesiredCapacity", "fields not found")
		return
	}
	ck.floor(rule, "AWS mutation sites (terminate / set / attach)", len(ts.mutCalls), 3)
	// fixpoint on retCached / readSites / readsIn / dirtyOut
	for iter := 0; iter < 10; iter++ {
		changed := false
		for _, fn := range ck.P.Funcs {
			reads, ret := ts.analyse(fn)
			if ret && !ts.retCached[fn] {
				ts.retCached[fn] = true
				changed = true
			}
			if len(reads) != len(ts.readSites[fn]) {
				ts.readSites[fn] = reads
				changed = true
			}
			ri := len(reads) > 0
			for _, g := range ck.P.callees[fn] {
				if ts.readsIn[g] {
					ri = true
				}
			}
			if ri && !ts.readsIn[fn] {
				ts.readsIn[fn] = true
				changed = true
			}
			d, _ := ts.flow(fn)
			if d && !ts.dirtyOut[fn] {
				ts.dirtyOut[fn] = true
				changed = true
			}
		}
		if !changed {
			break
		}
	}
	nread := 0
	for _, rs := range ts.readSites {
		nread += len(rs)
	}
	ck.floor(rule, "decisive reads of the cached desired capacity", nread, 4)
	reach := ck.P.reachCut([]*ssa.Function{a.Scan}, nil)
	nv := 0
	var fns []*ssa.Function
	for fn := range reach {
		fns = append(fns, fn)
	}
	sort.Slice(fns, func(i, j int) bool { return funcID(fns[i]) < funcID(fns[j]) })
	for _, fn := range fns {
		_, viol := ts.flow(fn)
		for _, v := range viol {
			nv++
			key := funcID(fn) + "/stale-desired-capacity"
			if ci, ok := v.in.(ssa.CallInstruction); ok {
				key = ck.P.siteKey(ci) + "/stale-desired-capacity"
			}
			ck.fail(rule, key, ck.P.instrPos(v.in), funcID(fn), "within one scan no decision reads the cached ASG desired capacity after a terminate / set / attach that was not mirrored into the cache", v.in.String(), v.what)
		}
	}
	if nv == 0 {
		var dirty []string
		for fn, d := range ts.dirtyOut {
			if d && reach[fn] {
				dirty = append(dirty, funcID(fn))
			}
		}
		sort.Strings(dirty)
		ck.ok(rule, "scan/fresh-base", "", funcID(a.Scan), "within one scan no decision reads the cached ASG desired capacity after an unmirrored AWS mutation", fmt.Sprintf("%d functions analysed; may return with an unmirrored mutation: %s", len(fns), strings.Join(dirty, ", ")))
	}
}

// absoluteSet (C17.R2 / C07.R6): SetDesiredCapacity is called once, outside any loop, with
// DesiredCapacity = Int64(TargetSize + δ) and the group's own name.
func (ck *Check) absoluteSet(rule string) {
	a := ck.A
	if !ck.need(rule, map[string]interface{}{"aws IncreaseSize": a.AwsIncrease, "set-capacity strategy": a.AwsSetSize}) {
		return
	}
	inc := a.AwsIncrease
	ctx := ck.P.NewCtx(inc)
	recv, delta := paramTerm(inc.Params[0]), paramTerm(inc.Params[1])
	ts := &Term{Kind: "call", Name: funcID(a.AwsTargetSize), Fn: a.AwsTargetSize, Obj: a.AwsTargetSize.Object(), Args: []*Term{recv}, Typ: types.Typ[types.Int64]}
	want := &Term{Kind: "binop", Name: "+", Args: []*Term{ts, delta}}
	if want.Args[0].Key() > want.Args[1].Key() {
		want.Args[0], want.Args[1] = want.Args[1], want.Args[0]
	}
	cs := callsTo(inc, a.AwsSetSize)
	// the size the request carries, read in the strategy's frame with its parameters bound at the
	// call in IncreaseSize: TargetSize() + δ whether the sum is formed by the caller
	// (`set(TargetSize()+δ)`) or by the strategy (`change(δ)`)
	sentIsSum := func(ci ssa.CallInstruction) bool {
		call, ok := ci.(*ssa.Call)
		if !ok {
			return false
		}
		args := make([]*Term, len(call.Common().Args))
		for i, av := range call.Common().Args {
			args[i] = ctx.Term(av)
		}
		ch := ctx.child(a.AwsSetSize, call, args)
		ch.depth = 0
		n, good := 0, 0
		for _, w := range a.W {
			if w.Class != "W-ASG-SET" || w.Fn != a.AwsSetSize {
				continue
			}
			n++
			dc := ck.literalFields(ch, w.Call.Common().Args[0])["DesiredCapacity"]
			if dc == nil || dc.Kind != "call" || !strings.HasSuffix(dc.Name, "aws.Int64") || len(dc.Args) != 1 {
				continue
			}
			env := &linEnv{choices: map[string]int{}, root: ch}
			l1, e1 := env.linTerm(dc.Args[0])
			l2, e2 := env.linTerm(want)
			if e1 == nil && e2 == nil {
				if d := l1.add(l2, -1); d.isConst() && d.konst.Sign() == 0 {
					good++
				}
			}
		}
		return n > 0 && n == good
	}
	allSum := len(cs) > 0
	for _, ci := range cs {
		allSum = allSum && sentIsSum(ci)
	}
	for _, ci := range cs {
		arg := ctx.Term(ci.Common().Args[1])
		env := &linEnv{choices: map[string]int{}, root: ctx}
		l1, e1 := env.linTerm(arg)
		l2, e2 := env.linTerm(want)
		same := false
		if e1 == nil && e2 == nil {
			d := l1.add(l2, -1)
			same = d.isConst() && d.konst.Sign() == 0
		}
		same = same || sentIsSum(ci)
		ck.cond(same, rule, ck.P.siteKey(ci)+"/absolute", ck.P.instrPos(ci), funcID(inc), "the set-capacity strategy is given TargetSize() + δ", arg.String(), "the new desired capacity is not current + δ")
		okRecv := ctx.Term(ci.Common().Args[0]).Key() == recv.Key()
		ck.cond(okRecv, rule, ck.P.siteKey(ci)+"/receiver", ck.P.instrPos(ci), funcID(inc), "on the same node group", "", "")
	}
	ck.floor(rule, "set-capacity calls in IncreaseSize", len(cs), 1)
	// inside the strategy
	fn := a.AwsSetSize
	sctx := ck.P.NewCtx(fn)
	n := 0
	for _, w := range a.W {
		if w.Class != "W-ASG-SET" {
			continue
		}
		n++
		key := ck.P.siteKey(w.Call)
		if w.Fn != fn {
			ck.fail(rule, key, ck.P.instrPos(w.Call), funcID(w.Fn), "SetDesiredCapacity is issued only by the set-capacity strategy", funcID(w.Fn), "")
			continue
		}
		ck.cond(innermostLoop(fn, w.Call.Block()) == nil, rule, key+"/once", ck.P.instrPos(w.Call), funcID(fn), "exactly one SetDesiredCapacity per request (not in a loop)", "", "")
		in := w.Call.Common().Args[0]
		flds := ck.literalFields(sctx, in)
		dc, nm := flds["DesiredCapacity"], flds["AutoScalingGroupName"]
		okDC := dc != nil && dc.Kind == "call" && strings.HasSuffix(dc.Name, "aws.Int64") && (dc.Args[0].Key() == paramTerm(fn.Params[1]).Key() || allSum)
		ck.cond(okDC, rule, key+"/DesiredCapacity", ck.P.instrPos(w.Call), funcID(fn), "DesiredCapacity ← Int64(newSize)", fmt.Sprint(dc), "the request does not carry the computed size")
		okNM := nm != nil && nm.Kind == "call" && strings.HasSuffix(nm.Name, "aws.String") && nm.Args[0].Kind == "field" && nm.Args[0].Name == "id" && nm.Args[0].Args[0].Key() == paramTerm(fn.Params[0]).Key()
		ck.cond(okNM, rule, key+"/group", ck.P.instrPos(w.Call), funcID(fn), "AutoScalingGroupName ← String(n.id)", fmt.Sprint(nm), "the request targets another group")
	}
	ck.floor(rule, "SetDesiredCapacity sites", n, 1)
}

// literalFields: for a pointer to a freshly allocated struct literal (&T{…}), the terms stored
// into its fields (last store per field, anywhere in the function).
// literalFieldValues: the SSA values stored into the fields of a struct literal.
func literalFieldValues(v ssa.Value) map[string]ssa.Value {
	out := map[string]ssa.Value{}
	al, ok := v.(*ssa.Alloc)
	if !ok {
		return out
	}
	for _, r := range *al.Referrers() {
		fa, ok := r.(*ssa.FieldAddr)
		if !ok {
			continue
		}
		f := fieldOfAddr(fa)
		for _, rr := range *fa.Referrers() {
			if st, ok := rr.(*ssa.Store); ok && st.Addr == ssa.Value(fa) {
				out[f.Name()] = st.Val
			}
		}
	}
	return out
}

func (ck *Check) literalFields(ctx *Ctx, v ssa.Value) map[string]*Term {
	out := map[string]*Term{}
	// the SDK's generated setter chain new(T).SetA(x).SetB(y): each `func (s *T) SetF(v V) *T` is
	// `s.F = &v; return s` (slices and pointers are stored as given) — read as F ← aws.<Kind>(v)
	for {
		c, ok := v.(*ssa.Call)
		if !ok {
			break
		}
		f := c.Common().StaticCallee()
		if f == nil || f.Signature.Recv() == nil || len(c.Common().Args) != 2 || !strings.HasPrefix(f.Name(), "Set") ||
			!strings.HasPrefix(pkgPathOfFn(f), "github.com/aws/aws-sdk-go/service/") || f.Signature.Results().Len() != 1 ||
			!types.Identical(f.Signature.Results().At(0).Type(), f.Signature.Recv().Type()) {
			break
		}
		name := strings.TrimPrefix(f.Name(), "Set")
		if st := derefStruct(f.Signature.Recv().Type()); st != nil {
			for i := 0; i < st.NumFields(); i++ {
				if st.Field(i).Name() != name {
					continue
				}
				if _, done := out[name]; done {
					break
				}
				at := ctx.Term(c.Common().Args[1])
				if b, ok := c.Common().Args[1].Type().Underlying().(*types.Basic); ok {
					kind := map[types.BasicKind]string{types.String: "String", types.Int64: "Int64", types.Bool: "Bool", types.Float64: "Float64", types.Int: "Int"}[b.Kind()]
					if kind != "" {
						at = &Term{Kind: "call", Name: "aws." + kind, Args: []*Term{at}}
					}
				}
				out[name] = at
			}
		}
		v = c.Common().Args[0]
	}
	al, ok := v.(*ssa.Alloc)
	if !ok {
		return out
	}
	for _, r := range *al.Referrers() {
		fa, ok := r.(*ssa.FieldAddr)
		if !ok {
			continue
		}
		f := fieldOfAddr(fa)
		for _, rr := range *fa.Referrers() {
			if st, ok := rr.(*ssa.Store); ok && st.Addr == ssa.Value(fa) {
				if _, set := out[f.Name()]; !set {
					out[f.Name()] = ctx.Term(st.Val)
				}
			}
		}
	}
	return out
}

// ---------------------------------------------------------------------------------------------
// C17 / C18 / C19

func init() {
	register(&propSpec{ID: "C17", Run: checkC17,
		Explanation: "In (*aws.NodeGroup).IncreaseSize every call that can reach an AWS write is behind δ ≥ 1 ∧ TargetSize + δ ≤ MaxSize (so a rejected request performs no write and desired capacity is never lowered); the set-capacity strategy sends exactly one SetDesiredCapacity with DesiredCapacity = TargetSize + δ for the group's own name; the fleet request has TotalTargetCapacity = MinTargetCapacity = δ on the option block selected by the lifecycle, Type instant; the slice handed to the attach step contains every acquired instance id; the attach calls are a head/tail chunking of that slice with chunk size ≤ 20 (each id in exactly one call).",
		RuleText:    "R1 bounds first, R2 absolute set, R3 fleet request fields, R4 acquired set, R5 attach chunking, R6 fresh cached target (typestate of C07.R5), R7 id lists are not written in place while still read, R8 after CreateFleet the strategy leaves without attaching only if the call failed or returned nothing (C18.R3)",
		Assumptions: []string{"that AWS honours MinTargetCapacity (all-or-nothing) and readiness polling are not decided"}})
	register(&propSpec{ID: "C18", Run: checkC18,
		Explanation: "In the attach step every return of a non-nil error is immediately preceded by a call of the injected terminate function whose argument is, by the chunking invariant, exactly the complement of the chunks already attached (whole input on timeout; rest ∪ failed batch inside the loop; the remainder on the final call); the success return calls no terminate; between a successful CreateFleet and the attach step nothing is dropped; the production caller injects terminateOrphanedInstances, which issues TerminateInstances per batch of ≤ 1000 ids built from the current batch only; the error is returned unchanged up to ScaleUp, which arms the lock only on err == nil.",
		RuleText:    "R1 terminate-before-error-exit with complement argument, R2 success exit, R3 nothing dropped, R4 terminate chunking, R5 error chain, R6 no attach / terminate call follows a call that may end the process, R7 id lists are not written in place while still read",
		Assumptions: []string{"failure of the terminate call itself is only logged (statement: \"submitted for termination\")"}})
	register(&propSpec{ID: "C19", Run: checkC19,
		Explanation: "In (*aws.NodeGroup).DeleteNodes the terminate call is behind TargetSize > MinSize ∧ TargetSize − len(nodes) ≥ MinSize and the membership test of that very node, is issued at most once per listed node, with ShouldDecrementDesiredCapacity = true and the InstanceId of the ASG instance whose provider id equals the node's; Belongs and the lookup use the same provider-id mapping; a non-member returns *NodeNotInNodeGroup; the delete step deletes from Kubernetes only after the cloud call returned nil; and that error type is propagated unchanged by every frame up to RunForever, whose result main passes to log.Fatal.",
		RuleText:    "R1 minimum pre-checks, R2 membership, R3 right instance with decrement, R4 same key on both sides, R5 cloud first, R6 type-preserving propagation per frame, R7 a refused terminate call stops the request and is reported",
		Assumptions: []string{"freshness of the cached TargetSize is C07.R5"}})
}

func checkC17(ck *Check) {
	ck.providerBounds("C17.R1")
	ck.absoluteSet("C17.R2")
	ck.fleetRequest("C17.R3")
	ck.acquiredSet("C17.R4")
	ck.attachChunking("C17.R5")
	// R6 "exactly the delta" is relative to the cached desired capacity: it must not be stale when
	// IncreaseSize reads it (decided as C07.R5)
	ck.cacheTypestate("C17.R6")
	// R7 the acquired ids reach the attach calls as they were acquired (decided as C18.R7)
	ck.idListIntegrity("C17.R7")
	// R8 every acquired instance is attached: once instances came back, the only way on is the
	// attach step (decided as C18.R3)
	if a := ck.A; a.AwsOneShot != nil && a.AwsAttach != nil {
		os := a.AwsOneShot
		fleet, reqCall, att0, okShape := ck.fleetAndAttach(a.AwsAttach)
		switch {
		case !okShape:
			ck.fail("C17.R8", funcID(os)+"/shape", "", funcID(os), "one CreateFleet and one attach call", "", "")
		case reqCall != nil:
			ck.nothingDroppedSplit("C17.R8", fleet, reqCall, att0)
		default:
			ck.nothingDropped("C17.R8", os, ck.P.NewCtx(os), fleet, att0)
		}
	}
	// R9 δ units of fleet capacity are δ instances
	ck.capacityInInstances("C17.R9")
}

func isAwsHelper(t *Term, name string) bool {
	return t != nil && t.Kind == "call" && strings.HasSuffix(t.Name, "aws."+name) && len(t.Args) == 1
}

// fleetRequest (C17.R3)
func (ck *Check) fleetRequest(rule string) {
	a := ck.A
	if !ck.need(rule, map[string]interface{}{"createFleetInput": a.AwsCreateFleetInput, "fleet strategy": a.AwsOneShot, "aws IncreaseSize": a.AwsIncrease}) {
		return
	}
	fn := a.AwsCreateFleetInput
	ctx := ck.P.NewCtx(fn)
	var addCount *Term
	for _, prm := range fn.Params {
		if isInteger(prm.Type()) {
			addCount = paramTerm(prm)
		}
	}
	// the CreateFleetInput literal
	var lit *ssa.Alloc
	for _, b := range fn.Blocks {
		for _, in := range b.Instrs {
			if al, ok := in.(*ssa.Alloc); ok && strings.HasSuffix(typeName(al.Type()), "ec2.CreateFleetInput") {
				lit = al
			}
		}
	}
	if lit == nil || addCount == nil {
		ck.fail(rule, "createFleetInput/literal", "", funcID(fn), "a CreateFleetInput literal built from the count parameter", "not found", "")
		return
	}
	pos := ck.P.position(fn.Pos())
	flds := ck.literalFields(ctx, lit)
	ck.cond(isAwsHelper(flds["Type"], "String") && flds["Type"].Args[0].Name == `"instant"`, rule, "fleet/Type", pos, funcID(fn), `Type ← "instant"`, fmt.Sprint(flds["Type"]), "the fleet request is not synchronous all-at-once")
	// nested target capacity spec
	var spec map[string]*Term
	var lifecycleVal ssa.Value
	for _, r := range *lit.Referrers() {
		if fa, ok := r.(*ssa.FieldAddr); ok && fieldOfAddr(fa).Name() == "TargetCapacitySpecification" {
			for _, rr := range *fa.Referrers() {
				if st, ok := rr.(*ssa.Store); ok {
					spec = ck.literalFields(ctx, st.Val)
				}
			}
		}
	}
	okTotal := spec != nil && isAwsHelper(spec["TotalTargetCapacity"], "Int64") && spec["TotalTargetCapacity"].Args[0].Key() == addCount.Key()
	ck.cond(okTotal, rule, "fleet/TotalTargetCapacity", pos, funcID(fn), "TotalTargetCapacity ← Int64(addCount)", fmt.Sprint(spec["TotalTargetCapacity"]), "the fleet asks for a number other than δ")
	var lifecycle *Term
	if spec != nil && isAwsHelper(spec["DefaultTargetCapacityType"], "String") {
		lifecycle = spec["DefaultTargetCapacityType"].Args[0]
		lifecycleVal = lifecycle.Val
	}
	ck.cond(lifecycle != nil, rule, "fleet/DefaultTargetCapacityType", pos, funcID(fn), "DefaultTargetCapacityType ← String(lifecycle)", fmt.Sprint(spec["DefaultTargetCapacityType"]), "")
	_ = lifecycleVal
	// option blocks: each may be stored conditionally as a literal, or unconditionally as a value
	// that is nil or a literal depending on the lifecycle (φ); both read as guarded cases
	type optCase struct {
		guard *Formula
		flds  map[string]*Term
		at    ssa.Instruction
	}
	cases := map[string][]optCase{}
	litT := ctx.Term(lit)
	// stores into the two option fields of the literal, in the function or in a helper it hands the
	// literal to (parameters bound, the call's path condition conjoined)
	ck.bodyInstrsPC(fn, func(c *Ctx, _ *ssa.Function, in ssa.Instruction, prefix *Formula) {
		st, ok := in.(*ssa.Store)
		if !ok {
			return
		}
		fa, ok := st.Addr.(*ssa.FieldAddr)
		if !ok || !strings.HasSuffix(typeName(fa.X.Type()), "ec2.CreateFleetInput") {
			return
		}
		name := fieldOfAddr(fa).Name()
		if name != "OnDemandOptions" && name != "SpotOptions" {
			return
		}
		if c.Term(fa.X).Key() != litT.Key() {
			return
		}
		for _, vc := range ck.valueCases(c, FTrue, st.Val, 0) {
			if vc.term.Kind == "const" && vc.term.Name == "nil" {
				continue
			}
			al, _ := vc.term.Val.(*ssa.Alloc)
			var flds map[string]*Term
			if al != nil {
				flds = ck.literalFields(c, al)
			}
			cases[name] = append(cases[name], optCase{guard: And(prefix, And(vc.guard, c.PC(st))), flds: flds, at: st})
		}
	})
	od, sp := cases["OnDemandOptions"], cases["SpotOptions"]
	if len(od) == 0 || len(sp) == 0 || lifecycle == nil {
		ck.fail(rule, "fleet/options", pos, funcID(fn), "OnDemandOptions and SpotOptions blocks are set according to the lifecycle", "missing", "")
	} else {
		isOD := cmpFormula(token.EQL, lifecycle, &Term{Kind: "const", Name: `"on-demand"`})
		anySet := FFalse
		for _, name := range []string{"OnDemandOptions", "SpotOptions"} {
			for ci, o := range cases[name] {
				sfx := ""
				if ci > 0 {
					sfx = fmt.Sprintf("#%d", ci)
				}
				var m *Term
				if o.flds != nil {
					m = o.flds["MinTargetCapacity"]
				}
				ck.cond(isAwsHelper(m, "Int64") && m.Args[0].Key() == addCount.Key(), rule, "fleet/"+name+"/MinTargetCapacity"+sfx, ck.P.instrPos(o.at), funcID(fn), "MinTargetCapacity ← Int64(addCount) (all-or-nothing)", fmt.Sprint(m), "a partial fleet is accepted")
				if name == "OnDemandOptions" {
					ck.entails(rule, "fleet/OnDemandOptions/guard"+sfx, o.at, o.guard, isOD, "OnDemandOptions is set only when lifecycle == on-demand")
				} else {
					ck.entails(rule, "fleet/SpotOptions/guard"+sfx, o.at, o.guard, Not(isOD), "SpotOptions is set only when lifecycle != on-demand")
				}
				anySet = Or(anySet, o.guard)
			}
		}
		// exactly one of them on every path to the successful return
		for _, b := range fn.Blocks {
			if r, ok := b.Instrs[len(b.Instrs)-1].(*ssa.Return); ok {
				if k, isC := r.Results[0].(*ssa.Const); isC && k.Value == nil {
					continue // error return
				}
				okv, why, err := Entails(ctx.BlockPC(b), anySet)
				if err == nil {
					ck.cond(okv, rule, "fleet/options/total", ck.P.instrPos(r), funcID(fn), "every successful path sets one of the two option blocks", "", why)
				}
			}
		}
	}
	// binding of addCount to δ and the single CreateFleet call
	os := a.AwsFleetReq
	octx := ck.P.NewCtx(os)
	var osCount *Term
	for _, prm := range os.Params {
		if isInteger(prm.Type()) {
			osCount = paramTerm(prm)
		}
	}
	if a.AwsFleetReq != a.AwsOneShot {
		// the request helper is handed the strategy's own count
		sctx := ck.P.NewCtx(a.AwsOneShot)
		var sCount *Term
		for _, prm := range a.AwsOneShot.Params {
			if isInteger(prm.Type()) {
				sCount = paramTerm(prm)
			}
		}
		for _, ci := range callsTo(a.AwsOneShot, a.AwsFleetReq) {
			var got *Term
			for _, av := range ci.Common().Args {
				if isInteger(av.Type()) {
					got = sctx.Term(av)
				}
			}
			ck.cond(got != nil && sCount != nil && got.Key() == sCount.Key(), rule, ck.P.siteKey(ci)+"/count", ck.P.instrPos(ci), funcID(a.AwsOneShot), "the fleet request helper is given the strategy's own count", fmt.Sprint(got), "")
		}
	}
	for _, ci := range callsTo(os, fn) {
		var got *Term
		for _, av := range ci.Common().Args {
			if isInteger(av.Type()) {
				got = octx.Term(av)
			}
		}
		ck.cond(got != nil && osCount != nil && got.Key() == osCount.Key(), rule, ck.P.siteKey(ci)+"/count", ck.P.instrPos(ci), funcID(os), "createFleetInput is given the strategy's own count", fmt.Sprint(got), "")
	}
	ictx := ck.P.NewCtx(a.AwsIncrease)
	for _, ci := range callsTo(a.AwsIncrease, os) {
		got := ictx.Term(ci.Common().Args[1])
		ck.cond(got.Key() == paramTerm(a.AwsIncrease.Params[1]).Key(), rule, ck.P.siteKey(ci)+"/count", ck.P.instrPos(ci), funcID(a.AwsIncrease), "the fleet strategy is given δ", got.String(), "")
	}
	n := 0
	for _, w := range a.W {
		if w.Class == "W-EC2-FLEET" {
			n++
			okv := w.Fn == os && innermostLoop(os, w.Call.Block()) == nil
			arg := octx.Term(w.Call.Common().Args[0])
			okArg := isExtractOf(arg, 0, func(t *Term) bool { return isCallTo(t, fn) })
			ck.cond(okv && okArg, rule, ck.P.siteKey(w.Call), ck.P.instrPos(w.Call), funcID(w.Fn), "exactly one CreateFleet per request, with the input built by createFleetInput", arg.String(), "")
		}
	}
	ck.floor(rule, "CreateFleet sites", n, 1)
}

// acquiredSet (C17.R4): the slice handed to the attach step holds every InstanceIds element of
// every fleet.Instances entry.
func (ck *Check) acquiredSet(rule string) {
	a := ck.A
	os := a.AwsOneShot
	if !ck.need(rule, map[string]interface{}{"fleet strategy": os, "attach step": a.AwsAttach}) {
		return
	}
	ctx := ck.P.NewCtx(os)
	for _, ci := range callsTo(os, a.AwsAttach) {
		key := ck.P.siteKey(ci)
		var arg ssa.Value
		for _, av := range ci.Common().Args[1:] {
			if _, ok := av.Type().(*types.Slice); ok {
				arg = av
			}
		}
		pr := sliceProv(arg)
		okv, why := ck.spreadCollect(os, ctx, arg, 0)
		ck.cond(okv, rule, key+"/ids", ck.P.instrPos(ci), funcID(os), "the attach step receives every instance id of the fleet response (full nested range, no filter)", provString(ck.P, pr), why)
	}
}

// spreadCollect: slice is built by one unconditional `acc = append(acc, x.InstanceIds...)` in a full
// range over <fleet output>.Instances, starting empty — in fn itself or in a repo helper that fn
// calls to build it (the helper's parameters bound to the call's arguments).
func (ck *Check) spreadCollect(fn *ssa.Function, ctx *Ctx, slice ssa.Value, depth int) (bool, string) {
	pr := sliceProv(slice)
	for _, r := range pr.Roots {
		if makeSliceEmpty(r) {
			continue
		}
		// (ids, err) := request(…): the list is what the helper returns next to a nil error
		if ex, isEx := r.(*ssa.Extract); isEx && ex.Index == 0 && depth < 2 && len(pr.Appends) == 0 && len(pr.Roots) == 1 {
			if call, ok := ex.Tuple.(*ssa.Call); ok {
				if h := call.Common().StaticCallee(); h != nil && ck.P.inRepo(h) && h.Blocks != nil && h.Signature.Results().Len() == 2 {
					args := make([]*Term, len(call.Common().Args))
					for i, av := range call.Common().Args {
						args[i] = ctx.Term(av)
					}
					ch := ctx.child(h, call, args)
					ch.depth = 0
					n := 0
					for _, b := range h.Blocks {
						ret, ok := b.Instrs[len(b.Instrs)-1].(*ssa.Return)
						if !ok {
							continue
						}
						if k, isK := ret.Results[0].(*ssa.Const); isK && k.IsNil() {
							continue // no list: an error return (decided by the "nothing dropped" rule)
						}
						n++
						if okv, why := ck.spreadCollect(h, ch, ret.Results[0], depth+1); !okv {
							return false, "in " + funcID(h) + ": " + why
						}
					}
					if n >= 1 {
						return true, ""
					}
					return false, funcID(h) + " never returns a list"
				}
			}
		}
		if call, ok := r.(*ssa.Call); ok && depth < 2 && len(pr.Appends) == 0 && len(pr.Roots) == 1 {
			if h := call.Common().StaticCallee(); h != nil && ck.P.inRepo(h) && h.Blocks != nil && h.Signature.Results().Len() == 1 {
				args := make([]*Term, len(call.Common().Args))
				for i, av := range call.Common().Args {
					args[i] = ctx.Term(av)
				}
				ch := ctx.child(h, call, args)
				ch.depth = 0
				n := 0
				for _, b := range h.Blocks {
					ret, ok := b.Instrs[len(b.Instrs)-1].(*ssa.Return)
					if !ok {
						continue
					}
					n++
					if okv, why := ck.spreadCollect(h, ch, ret.Results[0], depth+1); !okv {
						return false, "in " + funcID(h) + ": " + why
					}
				}
				if n == 1 {
					return true, ""
				}
				return false, funcID(h) + " has several returns"
			}
		}
		return false, "the id list has another origin: " + r.String()
	}
	if len(pr.Appends) != 1 {
		return false, fmt.Sprintf("%d append sites", len(pr.Appends))
	}
	ap := pr.Appends[0]
	l := innermostLoop(fn, ap.Call.Block())
	switch {
	case ap.Spread == nil:
		return false, "ids are not appended as a whole InstanceIds slice"
	case l == nil || !l.FullTraversal():
		return false, "the loop over fleet.Instances can exit early"
	}
	sp := ctx.Term(ap.Spread)
	okSp := sp.Kind == "field" && sp.Name == "InstanceIds" && sp.Args[0].Kind == "elem"
	if okSp {
		over := sp.Args[0].Args[0]
		okSp = over.Kind == "field" && over.Name == "Instances"
	}
	body := l.bodyPC(ctx)
	eq, _, _ := Equivalent(ctx.PC(ap.Call), body)
	if !okSp || !eq {
		return false, "not every InstanceIds of every fleet.Instances entry is appended unconditionally: " + sp.String()
	}
	return true, ""
}

// chunkLoop: head/tail chunking `for k < len(s) { s, b = s[k:], s[0:k:k]; use(b) }; use(s)`.
type chunkLoop struct {
	loop  *Loop
	S     *ssa.Phi // remaining slice
	K     int64
	Rest  *ssa.Slice // s[k:]
	Batch *ssa.Slice // s[0:k]
	Init  ssa.Value
}

func findChunkLoop(fn *ssa.Function) *chunkLoop {
	for _, l := range loopsOf(fn) {
		h := l.Header
		br, ok := h.Instrs[len(h.Instrs)-1].(*ssa.If)
		if !ok {
			continue
		}
		cmp, ok := br.Cond.(*ssa.BinOp)
		if !ok || cmp.Op != token.LSS {
			continue
		}
		k, ok := cmp.X.(*ssa.Const)
		if !ok {
			continue
		}
		lc, ok := isBuiltinCall(cmp.Y, "len")
		if !ok {
			continue
		}
		ph, ok := lc.Common().Args[0].(*ssa.Phi)
		if !ok || ph.Block() != h || !l.Blocks[h.Succs[0]] {
			continue
		}
		cl := &chunkLoop{loop: l, S: ph, K: k.Int64()}
		okShape := true
		for i, e := range ph.Edges {
			if !l.Blocks[h.Preds[i]] {
				cl.Init = e
				continue
			}
			sl, ok := e.(*ssa.Slice)
			if !ok || sl.X != ssa.Value(ph) || sl.High != nil || sl.Low == nil {
				okShape = false
				continue
			}
			lo, ok := sl.Low.(*ssa.Const)
			if !ok || lo.Int64() != cl.K {
				okShape = false
			}
			cl.Rest = sl
		}
		if !okShape || cl.Rest == nil {
			continue
		}
		for b := range l.Blocks {
			for _, in := range b.Instrs {
				sl, ok := in.(*ssa.Slice)
				if !ok || sl.X != ssa.Value(ph) || sl == cl.Rest {
					continue
				}
				hi, okh := sl.High.(*ssa.Const)
				lowZero := sl.Low == nil
				if lo, ok := sl.Low.(*ssa.Const); ok && lo.Int64() == 0 {
					lowZero = true
				}
				if okh && hi.Int64() == cl.K && lowZero {
					cl.Batch = sl
				}
			}
		}
		if cl.Batch != nil {
			return cl
		}
	}
	return nil
}

// attachChunking (C17.R5)
func (ck *Check) attachChunking(rule string) *chunkLoop {
	a := ck.A
	fn := a.AwsAttach
	if !ck.need(rule, map[string]interface{}{"attach step": fn}) {
		return nil
	}
	cl := findChunkLoop(fn)
	if cl == nil {
		ck.fail(rule, funcID(fn)+"/chunk-loop", ck.P.position(fn.Pos()), funcID(fn), "the attach calls form a head/tail chunking loop: for k < len(s) { s, b = s[k:], s[0:k] … }", "not recognised", "ids can be attached twice or not at all")
		return nil
	}
	ck.cond(cl.K <= 20 && cl.K >= 1, rule, funcID(fn)+"/chunk-size", ck.P.instrPos(cl.S), funcID(fn), "chunk size k ≤ 20 (AttachInstances limit); loop continues while k < len(s), advances by exactly k, batch = first k", fmt.Sprintf("k=%d", cl.K), "a batch can exceed the API limit")
	// init is the instances parameter
	_, isParam := cl.Init.(*ssa.Parameter)
	ck.cond(isParam, rule, funcID(fn)+"/chunk-input", ck.P.instrPos(cl.S), funcID(fn), "the chunked slice is the instance list parameter", cl.Init.String(), "")
	ctx := ck.P.NewCtx(fn)
	inLoop, after := 0, 0
	sites, stray := ck.effSites("W-ASG-ATT", fn)
	for _, w := range stray {
		ck.fail(rule, ck.P.siteKey(w.Call), ck.P.instrPos(w.Call), funcID(w.Fn), "AttachInstances is issued only by the attach step", funcID(w.Fn), "")
	}
	seenW := map[*ssa.Function]bool{}
	for _, w := range sites {
		key := ck.P.siteKey(w.Call)
		if w.Wrapper != nil && !seenW[w.Wrapper] {
			seenW[w.Wrapper] = true
			ck.wrapperFaithful(rule, w)
		}
		flds := ck.literalFields(w.Ctx, w.In.Common().Args[0])
		ids := flds["InstanceIds"]
		nm := flds["AutoScalingGroupName"]
		okNM := isAwsHelper(nm, "String") && nm.Args[0].Kind == "field" && nm.Args[0].Name == "id"
		ck.cond(okNM, rule, key+"/group", ck.P.instrPos(w.Call), funcID(fn), "AutoScalingGroupName ← String(n.id)", fmt.Sprint(nm), "")
		if cl.loop.Blocks[w.Call.Block()] {
			inLoop++
			ck.cond(ids != nil && ids.Val == ssa.Value(cl.Batch), rule, key+"/ids", ck.P.instrPos(w.Call), funcID(fn), "inside the loop the call attaches the current batch s[0:k]", fmt.Sprint(ids), "the whole remaining list (or a wrong slice) is attached inside the loop")
		} else {
			after++
			exitPC := And(ctx.BlockPC(cl.loop.Header), Not(ctx.Formula(cl.loop.Header.Instrs[len(cl.loop.Header.Instrs)-1].(*ssa.If).Cond)))
			uncond, _, _ := Equivalent(ctx.PC(w.Call), exitPC)
			okv := ids != nil && ids.Val == ssa.Value(cl.S) && cl.loop.Header.Dominates(w.Call.Block()) && uncond
			ck.cond(okv, rule, key+"/ids", ck.P.instrPos(w.Call), funcID(fn), "after the loop the remainder s (len ≤ k) is attached", fmt.Sprint(ids), "the remainder is dropped or something else is attached")
		}
	}
	ck.cond(inLoop == 1 && after == 1, rule, funcID(fn)+"/attach-calls", "", funcID(fn), "one attach call per loop iteration plus one for the remainder", fmt.Sprintf("%d in loop, %d after", inLoop, after), "")
	return cl
}

// ---------------------------------------------------------------------------------------------
// C18

func checkC18(ck *Check) {
	a := ck.A
	fn := a.AwsAttach
	if !ck.need("C18.R1", map[string]interface{}{"attach step": fn, "orphan terminator": a.AwsTerminateOrphans, "fleet strategy": a.AwsOneShot}) {
		return
	}
	cl := findChunkLoop(fn)
	if cl == nil {
		ck.fail("C18.R1", funcID(fn)+"/chunk-loop", ck.P.position(fn.Pos()), funcID(fn), "the attach calls form a chunking loop (needed to name the not-yet-attached ids)", "not recognised", "")
		return
	}
	ctx := ck.P.NewCtx(fn)
	var termParam *ssa.Parameter
	for _, prm := range fn.Params {
		if _, ok := prm.Type().Underlying().(*types.Signature); ok {
			termParam = prm
		}
	}
	entryFn := fn
	if termParam == nil {
		// the batches may be attached by a helper that hands the unattached ids back with the error,
		// and terminated by the function that called it
		entryFn = ck.attachStepSplit(fn, cl)
		if entryFn == nil {
			ck.fail("C18.R1", funcID(fn)+"/terminate-param", "", funcID(fn), "the attach step takes the terminate function as a parameter (or hands the unattached ids back to a caller that does)", "none", "")
			return
		}
		ck.attachStepTail(entryFn)
		return
	}
	// spillOf: v is the parameter prm, or a load of the cell the compiler moved it to (a captured
	// parameter lives in a cell written once, on entry)
	spillCell := func(al *ssa.Alloc, prm *ssa.Parameter) bool {
		n := 0
		okv := false
		for _, r := range *al.Referrers() {
			if st, ok := r.(*ssa.Store); ok && st.Addr == ssa.Value(al) {
				n++
				okv = st.Val == ssa.Value(prm)
			}
		}
		return n == 1 && okv
	}
	isTermValue := func(v ssa.Value) bool {
		if v == ssa.Value(termParam) {
			return true
		}
		if u, ok := v.(*ssa.UnOp); ok && u.Op == token.MUL {
			if al, ok := u.X.(*ssa.Alloc); ok {
				return spillCell(al, termParam)
			}
		}
		return false
	}
	// termArgs: the ids handed to terminate by a call instruction of fn — directly, or through a
	// local closure / helper that calls terminate unconditionally with one of its own parameters
	termArgs := map[*ssa.Call]ssa.Value{}
	isTermCall := func(in ssa.Instruction) *ssa.Call {
		c, ok := in.(*ssa.Call)
		if !ok {
			return nil
		}
		if _, done := termArgs[c]; done {
			return c
		}
		if isTermValue(c.Common().Value) && len(c.Common().Args) == 2 {
			termArgs[c] = c.Common().Args[1]
			return c
		}
		h := c.Common().StaticCallee()
		if h == nil || !ck.P.inRepo(h) || h.Blocks == nil || h == fn {
			return nil
		}
		mc, _ := c.Common().Value.(*ssa.MakeClosure)
		for _, hb := range h.Blocks {
			for _, hin := range hb.Instrs {
				c2, ok := hin.(*ssa.Call)
				if !ok || len(c2.Common().Args) != 2 {
					continue
				}
				isTerm := false
				switch v := c2.Common().Value.(type) {
				case *ssa.Parameter:
					for j, hp := range h.Params {
						if hp == v && j < len(c.Common().Args) && isTermValue(c.Common().Args[j]) {
							isTerm = true
						}
					}
				case *ssa.UnOp:
					if fv, ok := v.X.(*ssa.FreeVar); ok && mc != nil {
						for j, hf := range h.FreeVars {
							if hf == fv && j < len(mc.Bindings) {
								if al, ok := mc.Bindings[j].(*ssa.Alloc); ok && spillCell(al, termParam) {
									isTerm = true
								}
							}
						}
					}
				case *ssa.FreeVar:
					if mc != nil {
						for j, hf := range h.FreeVars {
							if hf == v && j < len(mc.Bindings) && isTermValue(mc.Bindings[j]) {
								isTerm = true
							}
						}
					}
				}
				if !isTerm {
					continue
				}
				// unconditional in the helper, and the ids are one of the helper's parameters
				for _, rb := range h.Blocks {
					if _, isRet := rb.Instrs[len(rb.Instrs)-1].(*ssa.Return); isRet && !hb.Dominates(rb) {
						return nil
					}
				}
				for k, hp := range h.Params {
					if ssa.Value(hp) == c2.Common().Args[1] && k < len(c.Common().Args) {
						termArgs[c] = c.Common().Args[k]
						return c
					}
				}
				return nil
			}
		}
		return nil
	}
	nerr, nok := 0, 0
	attSites, _ := ck.effSites("W-ASG-ATT", fn)
	{
		seenW := map[*ssa.Function]bool{}
		for _, w := range attSites {
			if w.Wrapper != nil && !seenW[w.Wrapper] {
				seenW[w.Wrapper] = true
				ck.wrapperFaithful("C18.R5", w)
			}
		}
	}
	for _, b := range fn.Blocks {
		r, ok := b.Instrs[len(b.Instrs)-1].(*ssa.Return)
		if !ok || b == fn.Recover {
			continue
		}
		rt := ctx.Term(r.Results[0])
		isNil := rt.Kind == "const" && rt.Name == "nil"
		// terminate call in this block (the error exits call it right before returning)
		var tc *ssa.Call
		for _, in := range b.Instrs {
			if c := isTermCall(in); c != nil {
				tc = c
			}
		}
		key := fmt.Sprintf("%s/return@block%d", funcID(fn), b.Index)
		if isNil {
			nok++
			// R2: no terminate on any path to the success return
			clean := true
			for _, ob := range fn.Blocks {
				for _, in := range ob.Instrs {
					if c := isTermCall(in); c != nil {
						if ob == b || reachesWithout(c, r, func(ssa.Instruction) bool { return false }) {
							clean = false
						}
					}
				}
			}
			ck.cond(clean && tc == nil, "C18.R2", key, ck.P.instrPos(r), funcID(fn), "the success exit calls no terminate (attached ⊕ terminated)", "", "instances are both attached and terminated")
			continue
		}
		nerr++
		if tc == nil {
			ck.fail("C18.R1", key, ck.P.instrPos(r), funcID(fn), "every error exit of the attach step first calls terminate", "no terminate call before this return", "acquired instances are neither attached nor terminated when this step fails")
			continue
		}
		arg := termArgs[tc]
		at := ctx.Term(arg)
		// which attach call failed on this path?
		var failed *ssa.Call
		for _, w := range attSites {
			if c, ok := w.Call.(*ssa.Call); ok {
				if c.Block().Dominates(b) && c.Block() != b {
					if failed == nil || failed.Block().Dominates(c.Block()) {
						failed = c
					}
				}
			}
		}
		var okv bool
		var want string
		switch {
		case failed == nil:
			want = "the whole input (nothing attached yet)"
			okv = arg == cl.Init
		case cl.loop.Blocks[failed.Block()]:
			want = "rest ∪ failed batch = append(s[k:], s[0:k]...) (or s itself)"
			if ap, isAp := isBuiltinCall(arg, "append"); isAp {
				x, y := ap.Common().Args[0], ap.Common().Args[1]
				okv = (x == ssa.Value(cl.Rest) && y == ssa.Value(cl.Batch)) || (x == ssa.Value(cl.Batch) && y == ssa.Value(cl.Rest))
			} else {
				okv = arg == ssa.Value(cl.S)
			}
		default:
			want = "the remainder s"
			okv = arg == ssa.Value(cl.S)
		}
		ck.cond(okv, "C18.R1", key+"/terminated-set", ck.P.instrPos(tc), funcID(fn), "the terminated ids are exactly the ones not attached: "+want, at.String(), "some acquired instances are neither attached nor submitted for termination (or attached ones are terminated)")
		// the returned error is the failing call's error / a fresh error
		ck.cond(!isNil, "C18.R5", key+"/reported", ck.P.instrPos(r), funcID(fn), "the failure is returned to the caller", rt.String(), "")
	}
	ck.floor("C18.R1", "error exits of the attach step", nerr, 2)
	ck.floor("C18.R2", "success exits of the attach step", nok, 1)
	ck.attachStepTail(entryFn)

}

// nothingDropped (C18.R3 / C17.R8): after CreateFleet the strategy returns without attaching only
// if the call failed or returned no instances.
// fleetAndAttach: the CreateFleet call and the attach call of the fleet strategy; when the request
// lives in a helper, reqCall is the strategy's call of that helper.
func (ck *Check) fleetAndAttach(attachFn *ssa.Function) (fleet *ssa.Call, reqCall *ssa.Call, att ssa.CallInstruction, ok bool) {
	a := ck.A
	for _, w := range a.W {
		if w.Class == "W-EC2-FLEET" && w.Fn == a.AwsFleetReq {
			fleet, _ = w.Call.(*ssa.Call)
		}
	}
	atts := callsIn(a.AwsOneShot, func(ci ssa.CallInstruction) bool {
		g := ci.Common().StaticCallee()
		return g != nil && ck.P.inRepo(g) && (g == attachFn || g == a.AwsAttach || ck.P.reachCut([]*ssa.Function{g}, nil)[a.AwsAttach])
	})
	if fleet == nil || len(atts) != 1 {
		return nil, nil, nil, false
	}
	if a.AwsFleetReq != a.AwsOneShot {
		c, isCall := firstCall(callsTo(a.AwsOneShot, a.AwsFleetReq))
		if !isCall {
			return nil, nil, nil, false
		}
		reqCall = c
	}
	return fleet, reqCall, atts[0], true
}

// nothingDroppedSplit: the request helper reports an error only if CreateFleet failed or returned
// nothing, and the strategy leaves without attaching only if the helper reported an error.
func (ck *Check) nothingDroppedSplit(rule string, fleet, reqCall *ssa.Call, att ssa.CallInstruction) {
	a := ck.A
	h, os := a.AwsFleetReq, a.AwsOneShot
	hctx := ck.P.NewCtx(h)
	// in the helper: a return after CreateFleet that hands back no list
	ck.nothingDroppedIn(rule, h, hctx, fleet, nil, func(r *ssa.Return) bool {
		if len(r.Results) == 0 {
			return false
		}
		k, isK := r.Results[len(r.Results)-1].(*ssa.Const)
		return isK && k.IsNil() // a nil error: the list goes on to the attach step
	})
	// in the strategy: leaving without attaching needs the helper's error
	octx := ck.P.NewCtx(os)
	ct := octx.Term(reqCall)
	errT := &Term{Kind: "extract", Name: fmt.Sprint(reqCall.Type().(*types.Tuple).Len() - 1), Args: []*Term{ct}}
	failed := Not(cmpFormula(token.EQL, errT, &Term{Kind: "const", Name: "nil"}))
	for _, b := range os.Blocks {
		r, ok := b.Instrs[len(b.Instrs)-1].(*ssa.Return)
		if !ok || !reqCall.Block().Dominates(b) || b == att.Block() {
			continue
		}
		ck.entails(rule, fmt.Sprintf("%s/return@block%d", funcID(os), b.Index), r, octx.BlockPC(b), failed, "after the fleet request the strategy returns without attaching only if the request reported an error")
	}
}

func (ck *Check) nothingDropped(rule string, os *ssa.Function, octx *Ctx, fleet *ssa.Call, att ssa.CallInstruction) {
	ck.nothingDroppedIn(rule, os, octx, fleet, att, nil)
}

func (ck *Check) nothingDroppedIn(rule string, os *ssa.Function, octx *Ctx, fleet *ssa.Call, att ssa.CallInstruction, exempt func(*ssa.Return) bool) {
	ft := octx.Term(fleet)
	fleetOut := &Term{Kind: "extract", Name: "0", Args: []*Term{ft}}
	for _, b := range os.Blocks {
		r, ok := b.Instrs[len(b.Instrs)-1].(*ssa.Return)
		if !ok || !fleet.Block().Dominates(b) || b == fleet.Block() && false {
			continue
		}
		if att != nil && b == att.Block() {
			continue
		}
		if exempt != nil && exempt(r) {
			continue
		}
		pc := octx.BlockPC(b)
		// allowed: CreateFleet failed, or no instances were returned
		var errAtom, emptyAtom *Formula
		for _, at := range pc.Atoms() {
			if at.Kind == "cmp" && at.Name == "==" {
				if hasConstStr(at, "nil") {
					for _, x := range at.Args {
						if isExtractOf(x, 1, func(t *Term) bool { return t.Key() == ft.Key() }) {
							errAtom = Not(Atom(at))
						}
					}
				}
				if hasConstStr(at, "0") {
					for _, x := range at.Args {
						if x.Kind == "len" && x.Args[0].Kind == "field" && x.Args[0].Name == "Instances" && x.Args[0].Args[0].Key() == fleetOut.Key() {
							emptyAtom = Atom(at)
						}
					}
				}
			}
			// the same test written as an ordering: ¬(0 < len(Instances)), len(Instances) < 1
			if at.Kind == "cmp" && at.Name == "<" && len(at.Args) == 2 {
				isLen := func(x *Term) bool {
					return x.Kind == "len" && x.Args[0].Kind == "field" && x.Args[0].Name == "Instances" && x.Args[0].Args[0].Key() == fleetOut.Key()
				}
				if k, ok := at.Args[0].isConstInt(); ok && k == 0 && isLen(at.Args[1]) {
					emptyAtom = Not(Atom(at))
				}
				if k, ok := at.Args[1].isConstInt(); ok && k == 1 && isLen(at.Args[0]) {
					emptyAtom = Atom(at)
				}
			}
		}
		allowed := FFalse
		if errAtom != nil {
			allowed = Or(allowed, errAtom)
		}
		if emptyAtom != nil {
			allowed = Or(allowed, emptyAtom)
		}
		ck.entails(rule, fmt.Sprintf("%s/return@block%d", funcID(os), b.Index), r, pc, allowed, "after CreateFleet the strategy returns without attaching only if the call failed or returned no instances")
	}
}

// attachStepTail: the rules of C18 beyond the attach step itself (R3 nothing dropped, R4 terminate
// chunking, R5 error chain, R6, R7); fn is the function the fleet strategy calls with the terminate
// function.
func (ck *Check) attachStepTail(fn *ssa.Function) {
	a := ck.A

	// R3 nothing dropped between CreateFleet and attach
	{
		os := a.AwsOneShot
		octx := ck.P.NewCtx(os)
		fleet, reqCall, att0, okShape := ck.fleetAndAttach(fn)
		att := []ssa.CallInstruction{att0}
		if !okShape {
			ck.fail("C18.R3", funcID(os)+"/shape", "", funcID(os), "one CreateFleet and one attach call", "", "")
		} else {
			if reqCall != nil {
				ck.nothingDroppedSplit("C18.R3", fleet, reqCall, att0)
			} else {
				ck.nothingDropped("C18.R3", os, octx, fleet, att[0])
			}
			// production caller injects terminateOrphanedInstances
			var inj ssa.Value
			for _, av := range att[0].Common().Args {
				if _, ok := av.Type().Underlying().(*types.Signature); ok {
					inj = av
				}
			}
			ck.cond(inj == ssa.Value(a.AwsTerminateOrphans), "C18.R3", ck.P.siteKey(att[0])+"/terminate", ck.P.instrPos(att[0]), funcID(os), "the injected terminate function is terminateOrphanedInstances", fmt.Sprint(inj), "")
			// the attach result is returned unchanged (R5)
			ck.returnsCallUnchanged("C18.R5", os, att[0].(*ssa.Call), 0)
		}
	}
	ck.terminateChunking("C18.R4")
	// R8 every id of the fleet response reaches the attach step (decided as C17.R4)
	ck.shareRules(checkC17, "C18.R8", "C17.R4")
	ck.exitAfterDisposition("C18.R6")
	ck.idListIntegrity("C18.R7")
	// R5 (continued): no cool-down lock for capacity that did not arrive — the arming discipline of C02.R2
	ck.armingRule("C18.R5")
	// R5 chain upwards
	for _, ci := range callsTo(a.AwsIncrease, a.AwsOneShot) {
		ck.returnsCallUnchanged("C18.R5", a.AwsIncrease, ci.(*ssa.Call), 0)
	}
	// … in every frame of the cloud step: the frame holding IncreaseSize, then each caller up to
	// what ScaleUp calls, with the helper's call as the outcome
	for i := len(a.CloudStepChain) - 1; i >= 0; i-- {
		cs := a.CloudStepChain[i]
		if i == len(a.CloudStepChain)-1 {
			for _, s := range a.A {
				if s.Class == "A-CLOUD-INC" && s.Fn == cs {
					ck.outcomeReported("C18.R5", cs, s.Call.(*ssa.Call), "IncreaseSize")
				}
			}
			continue
		}
		for _, ci := range callsTo(cs, a.CloudStepChain[i+1]) {
			if call, ok := ci.(*ssa.Call); ok {
				ck.outcomeReported("C18.R5", cs, call, a.CloudStepChain[i+1].Name())
			}
		}
	}
}

// reachesBlock: b is reachable from a (a itself included) along CFG edges.
func reachesBlock(a, b *ssa.BasicBlock) bool {
	seen := map[*ssa.BasicBlock]bool{}
	var walk func(x *ssa.BasicBlock) bool
	walk = func(x *ssa.BasicBlock) bool {
		if x == b {
			return true
		}
		if seen[x] {
			return false
		}
		seen[x] = true
		for _, s := range x.Succs {
			if walk(s) {
				return true
			}
		}
		return false
	}
	return walk(a)
}

// outcomeReported: frame cs reports the outcome of call (IncreaseSize, or the helper around it) as
// its error result: a nil error after the call only if the call's error was nil — or the call's
// error handed on as it is.
func (ck *Check) outcomeReported(rule string, cs *ssa.Function, call *ssa.Call, what string) {
	cctx := ck.P.NewCtx(cs)
	ct := cctx.Term(call)
	if call.Type() != nil {
		if tup, ok := call.Type().(*types.Tuple); ok {
			ct = &Term{Kind: "extract", Name: fmt.Sprint(tup.Len() - 1), Args: []*Term{ct}}
		}
	}
	var errNil *Formula
	for _, b := range cs.Blocks {
		for _, at := range cctx.BlockPC(b).Atoms() {
			if at.Kind == "cmp" && at.Name == "==" && hasConstStr(at, "nil") {
				for _, x := range at.Args {
					if x.Key() == ct.Key() {
						errNil = Atom(at)
					}
				}
			}
		}
	}
	handedOn := func(r *ssa.Return) bool {
		return len(r.Results) > 0 && cctx.Term(r.Results[len(r.Results)-1]).Key() == ct.Key()
	}
	if errNil == nil {
		// never tested: then every return after the call hands the error on
		all, n := true, 0
		for _, b := range cs.Blocks {
			if r, ok := b.Instrs[len(b.Instrs)-1].(*ssa.Return); ok {
				if sat, _ := Satisfiable(And(cctx.BlockPC(b), cctx.PC(call))); sat && (call.Block().Dominates(b) || reachesBlock(call.Block(), b)) {
					n++
					all = all && handedOn(r)
				}
			}
		}
		if !(all && n > 0) {
			ck.fail(rule, ck.P.siteKey(call)+"/error-tested", ck.P.instrPos(call), funcID(cs), "the cloud step tests "+what+"'s error (or returns it as it is)", "not tested", "a failed increase is reported as success and the lock is armed")
		} else {
			ck.ok(rule, ck.P.siteKey(call)+"/error-tested", ck.P.instrPos(call), funcID(cs), "the cloud step tests "+what+"'s error (or returns it as it is)", "returned unchanged")
		}
		return
	}
	for _, b := range cs.Blocks {
		r, ok := b.Instrs[len(b.Instrs)-1].(*ssa.Return)
		if !ok {
			continue
		}
		if len(r.Results) == 0 || !isErrorType(r.Results[len(r.Results)-1].Type()) {
			ck.fail(rule, fmt.Sprintf("%s/return@block%d", funcID(cs), b.Index), ck.P.instrPos(r), funcID(cs), "the cloud step reports the outcome of "+what+" as an error result", "no error result", "a failed increase cannot be told from an accepted one")
			continue
		}
		et := cctx.Term(r.Results[len(r.Results)-1])
		if !(et.Kind == "const" && et.Name == "nil") {
			continue
		}
		pre := And(cctx.BlockPC(b), cctx.PC(call))
		if sat, _ := Satisfiable(pre); !sat {
			continue
		}
		ck.entails(rule, fmt.Sprintf("%s/return@block%d", funcID(cs), b.Index), r, pre, errNil, "the cloud step returns a nil error after calling "+what+" only if "+what+" returned nil")
	}
}

// refreshReplaces (C19.R8, C04.R7): what MinSize(), MaxSize(), TargetSize() and Nodes() answer is
// the described group of the last refresh. In the function that describes the groups (reached from
// Refresh): inside the range over the described groups, a group that is already registered gets the
// described object as a whole — under no condition but "already registered" — and nothing reachable
// from there patches the cached object field by field.
func (ck *Check) refreshReplaces(rule string) {
	a := ck.A
	if a.AwsRefresh == nil || a.TAwsNodeGroup == nil {
		ck.lost(rule, "Refresh", "the provider's Refresh method or node group type was not resolved")
		return
	}
	fAsg := field(a.TAwsNodeGroup, "asg")
	if fAsg == nil {
		// the field by role: the *autoscaling.Group held by the node group
		if st, ok := a.TAwsNodeGroup.Underlying().(*types.Struct); ok {
			for i := 0; i < st.NumFields(); i++ {
				if strings.HasSuffix(st.Field(i).Type().String(), "autoscaling.Group") {
					fAsg = st.Field(i)
				}
			}
		}
	}
	var root *ssa.Function
	var desc *ssa.Call
	for fn := range ck.P.reachCut([]*ssa.Function{a.AwsRefresh}, nil) {
		if !ck.P.inRepo(fn) || fn.Blocks == nil {
			continue
		}
		for _, ci := range callsIn(fn, nil) {
			if c, ok := ci.(*ssa.Call); ok && c.Common().IsInvoke() && c.Common().Method.Name() == "DescribeAutoScalingGroups" {
				root, desc = fn, c
			}
		}
	}
	if root == nil || fAsg == nil {
		ck.fail(rule, "refresh/describe", "", funcID(a.AwsRefresh), "Refresh reaches a DescribeAutoScalingGroups call", "not found", "the cached groups are never brought up to date")
		return
	}
	ctx0 := ck.P.NewCtx(root)
	isDescribed := func(t *Term) bool {
		return t != nil && t.Kind == "field" && t.Name == "AutoScalingGroups" && len(t.Args) == 1 &&
			isExtractOf(t.Args[0], 0, func(x *Term) bool { return x.Key() == ctx0.Term(desc).Key() })
	}
	var loop *Loop
	for _, l := range loopsOf(root) {
		if l.Over != nil && isDescribed(ctx0.Term(l.Over)) {
			loop = l
		}
	}
	if loop == nil {
		ck.fail(rule, funcID(root)+"/range", ck.P.instrPos(desc), funcID(root), "the described groups are ranged over", "no range over the result's AutoScalingGroups", "")
		return
	}
	n := 0
	ck.bodyInstrsPC(root, func(ctx *Ctx, fn *ssa.Function, in ssa.Instruction, prefix *Formula) {
		st, ok := in.(*ssa.Store)
		if !ok {
			return
		}
		fa, ok := st.Addr.(*ssa.FieldAddr)
		if !ok {
			return
		}
		if fieldOfAddr(fa) == fAsg {
			if _, fresh := fa.X.(*ssa.Alloc); fresh {
				return // a node group under construction
			}
			n++
			key := fmt.Sprintf("%s/store:%s", funcID(fn), fAsg.Name())
			v := ctx.Term(st.Val)
			ck.cond(isElemOf(v, isDescribed), rule, key+"/value", ck.P.instrPos(st), funcID(fn), "a registered group's cached scaling group is replaced by the described object", v.String(),
				"the cache is refreshed from something other than the describe result")
			pc := And(prefix, ctx.PC(st))
			want := loop.bodyPC(ctx0)
			for _, at := range pc.Atoms() {
				if at.Kind == "extract" && at.Name == "1" && len(at.Args) == 1 && at.Args[0].Kind == "lookup" {
					want = And(want, Atom(at))
				}
			}
			imp, why, _ := Entails(want, pc)
			ck.cond(imp, rule, key+"/always", ck.P.instrPos(st), funcID(fn), "every described group that is already registered is replaced (no further condition)", pc.String(), why)
			return
		}
		// a field of the cached group written in place
		if ld, ok := fa.X.(*ssa.UnOp); ok && ld.Op == token.MUL && fieldOfAddr(ld.X) == fAsg {
			f := fieldOfAddr(fa)
			name := "?"
			if f != nil {
				name = f.Name()
			}
			ck.fail(rule, fmt.Sprintf("%s/patch:%s", funcID(fn), name), ck.P.instrPos(st), funcID(fn), "a refresh does not patch the cached scaling group field by field", "store into "+name,
				"fields that are not copied (minimum, maximum, …) keep the values they had when the controller started")
		}
	})
	ck.floor(rule, "stores that replace a registered group's cached scaling group", n, 1)
}

// capacityInInstances (C17.R9): δ is a number of instances only if one instance is one unit of
// fleet capacity. No shipped code gives a launch-template override a weight or the target capacity
// another unit: no store to a WeightedCapacity or TargetCapacityUnitType field of an EC2 request type.
func (ck *Check) capacityInInstances(rule string) {
	nLit := 0
	for _, fn := range ck.P.Funcs {
		if !ck.P.inRepo(fn) {
			continue
		}
		for _, b := range fn.Blocks {
			for _, in := range b.Instrs {
				if al, ok := in.(*ssa.Alloc); ok && strings.HasSuffix(typeName(al.Type()), "ec2.FleetLaunchTemplateOverridesRequest") {
					nLit++
				}
				st, ok := in.(*ssa.Store)
				if !ok {
					continue
				}
				fa, ok := st.Addr.(*ssa.FieldAddr)
				if !ok {
					continue
				}
				f := fieldOfAddr(fa)
				if f == nil || f.Pkg() == nil || !strings.HasSuffix(f.Pkg().Path(), "/service/ec2") {
					continue
				}
				if f.Name() == "WeightedCapacity" || f.Name() == "TargetCapacityUnitType" {
					if k, isC := st.Val.(*ssa.Const); isC && k.IsNil() {
						continue
					}
					ck.fail(rule, fmt.Sprintf("%s/store:%s", funcID(fn), f.Name()), ck.P.instrPos(st), funcID(fn), "one instance is one unit of fleet capacity: no weight on an override, no other capacity unit", "store to "+f.Name(),
						"the fleet fills TotalTargetCapacity = δ units with fewer than δ instances and reports the request as fulfilled")
				}
			}
		}
	}
	ck.floor(rule, "launch-template override literals examined", nLit, 1)
}

// registryOnlyGrows (C12.R10): RunOnce ends — for every group — when the provider does not know a
// configured group. The AWS provider's registry is filled at registration and only ever added to
// or updated: nothing reachable from Refresh deletes an entry or replaces the map.
func (ck *Check) registryOnlyGrows(rule string) {
	a := ck.A
	if a.AwsRefresh == nil {
		ck.lost(rule, "Refresh", "the provider's Refresh method was not resolved")
		return
	}
	var fReg *types.Var
	if cp := a.AwsRefresh.Signature.Recv(); cp != nil {
		if st := derefStruct(cp.Type()); st != nil {
			for i := 0; i < st.NumFields(); i++ {
				if mt, ok := st.Field(i).Type().Underlying().(*types.Map); ok && a.TAwsNodeGroup != nil {
					if pt, ok := mt.Elem().(*types.Pointer); ok && types.Identical(pt.Elem(), a.TAwsNodeGroup) {
						fReg = st.Field(i)
					}
				}
			}
		}
	}
	if fReg == nil {
		ck.lost(rule, "registry", "the provider's map of node groups was not found")
		return
	}
	fromReg := func(v ssa.Value) bool {
		ld, ok := v.(*ssa.UnOp)
		return ok && ld.Op == token.MUL && fieldOfAddr(ld.X) == fReg
	}
	n := 0
	var fns []*ssa.Function
	for fn := range ck.P.reachCut([]*ssa.Function{a.AwsRefresh}, nil) {
		if ck.P.inRepo(fn) && fn.Blocks != nil {
			fns = append(fns, fn)
		}
	}
	sort.Slice(fns, func(i, j int) bool { return funcID(fns[i]) < funcID(fns[j]) })
	for _, fn := range fns {
		for _, b := range fn.Blocks {
			for _, in := range b.Instrs {
				switch x := in.(type) {
				case *ssa.MapUpdate:
					if fromReg(x.Map) {
						n++
					}
				case *ssa.Call:
					if bi, ok := x.Common().Value.(*ssa.Builtin); ok && (bi.Name() == "delete" || bi.Name() == "clear") && len(x.Common().Args) > 0 && fromReg(x.Common().Args[0]) {
						ck.fail(rule, funcID(fn)+"/"+bi.Name(), ck.P.instrPos(x), funcID(fn), "a refresh never removes a registered node group", bi.Name()+" on the registry",
							"a group missing from one describe answer makes GetNodeGroup fail: RunOnce returns before the later groups are scanned and the process exits")
					}
				case *ssa.Store:
					if fieldOfAddr(x.Addr) == fReg {
						if fa, ok := x.Addr.(*ssa.FieldAddr); ok {
							if _, fresh := fa.X.(*ssa.Alloc); fresh {
								continue
							}
						}
						ck.fail(rule, funcID(fn)+"/replace", ck.P.instrPos(x), funcID(fn), "a refresh never replaces the registry", "store to the registry field", "groups missing from the new map are no longer known to the provider")
					}
				}
			}
		}
	}
	ck.floor(rule, "registrations into the provider's registry reachable from Refresh", n, 1)
}

// acceptedReported: the converse of outcomeReported. In the frame cs of the cloud step, every return
// reached after call (IncreaseSize, or the next frame's helper) returned a nil error yields a nil
// error itself — an accepted request is never reported as a failure, because the caller arms the
// cool-down lock only on a nil error.
func (ck *Check) acceptedReported(rule string, cs *ssa.Function, call *ssa.Call, what string) {
	cctx := ck.P.NewCtx(cs)
	ct := cctx.Term(call)
	if call.Type() != nil {
		if tup, ok := call.Type().(*types.Tuple); ok {
			ct = &Term{Kind: "extract", Name: fmt.Sprint(tup.Len() - 1), Args: []*Term{ct}}
		}
	}
	var errNil *Formula
	for _, b := range cs.Blocks {
		for _, at := range cctx.BlockPC(b).Atoms() {
			if at.Kind == "cmp" && at.Name == "==" && hasConstStr(at, "nil") {
				for _, x := range at.Args {
					if x.Key() == ct.Key() {
						errNil = Atom(at)
					}
				}
			}
		}
	}
	n := 0
	for _, rc := range ck.returnCases(cctx, FTrue, 0) {
		if !(call.Block().Dominates(rc.Ret.Block()) || reachesBlock(call.Block(), rc.Ret.Block())) && rc.Ctx == cctx {
			continue
		}
		pre := And(rc.PC, cctx.PC(call))
		if errNil != nil {
			pre = And(pre, errNil)
		}
		if sat, err := Satisfiable(pre); err == nil && !sat {
			continue
		}
		key := fmt.Sprintf("%s/return@block%d/accepted", funcID(rc.Ret.Parent()), rc.Ret.Block().Index)
		if len(rc.Res) == 0 {
			continue // no error result: reported by outcomeReported
		}
		et := rc.Res[len(rc.Res)-1]
		n++
		good := (et.Kind == "const" && et.Name == "nil") || et.Key() == ct.Key()
		ck.cond(good, rule, key, ck.P.instrPos(rc.Ret), funcID(cs), "after "+what+" returned a nil error the cloud step returns a nil error (the caller arms the cool-down on nil only)", et.String(),
			"a request the cloud provider accepted is reported as a failure: the cool-down is not armed and the next scan acts on the group again")
	}
	ck.floor(rule, "returns of "+funcID(cs)+" after an accepted "+what, n, 1)
}

// returnsCallUnchanged: result idx of call is returned directly by fn on the path through it.
func (ck *Check) returnsCallUnchanged(rule string, fn *ssa.Function, call *ssa.Call, idx int) {
	ctx := ck.P.NewCtx(fn)
	ct := ctx.Term(call)
	okv := false
	for _, b := range fn.Blocks {
		r, ok := b.Instrs[len(b.Instrs)-1].(*ssa.Return)
		if !ok || !call.Block().Dominates(b) {
			continue
		}
		rt := ctx.Term(r.Results[len(r.Results)-1])
		if rt.Key() == ct.Key() || isExtractOf(rt, len(r.Results)-1, func(t *Term) bool { return t.Key() == ct.Key() }) {
			okv = true
		}
	}
	ck.cond(okv, rule, ck.P.siteKey(call)+"/error-returned", ck.P.instrPos(call), funcID(fn), "the callee's error is returned unchanged", "", "the failure of "+calleeName(call)+" is swallowed")
}

// terminateChunking (C18.R4)
func (ck *Check) terminateChunking(rule string) {
	a := ck.A
	fn := a.AwsTerminateOrphans
	ctx := ck.P.NewCtx(fn)
	sites, stray := ck.effSites("W-EC2-TERM", fn)
	for _, w := range stray {
		ck.fail(rule, ck.P.siteKey(w.Call), ck.P.instrPos(w.Call), funcID(w.Fn), "TerminateInstances is issued only by the orphan terminator", "", "")
	}
	if len(sites) == 0 {
		ck.lost(rule, "TerminateInstances site", "none")
		return
	}
	es := sites[len(sites)-1]
	call, isCall := es.Call.(*ssa.Call)
	if !isCall {
		ck.fail(rule, ck.P.siteKey(es.Call), ck.P.instrPos(es.Call), funcID(fn), "TerminateInstances is an ordinary call", "deferred / go call", "")
		return
	}
	key := ck.P.siteKey(call)
	// idiom E, library chunking: for batch := range slices.Chunk(ids, k) { … } — the loop body is
	// go/ssa's yield closure, the batch its parameter
	if y := call.Parent(); isYieldOf(y, fn) {
		list, k, ok := chunkIterOf(fn, y)
		_, isParam := list.(*ssa.Parameter)
		ck.cond(ok && isParam && len(y.Params) == 1, rule, key+"/batch", ck.P.instrPos(call), funcID(fn), "batch = ids[i : min(i+k, len(ids))]", "range over slices.Chunk", "the batch bounds do not partition the id list")
		if !(ok && isParam && len(y.Params) == 1) {
			return
		}
		ck.cond(k >= 1 && k <= 1000, rule, key+"/chunk-size", ck.P.instrPos(call), funcID(fn), "step k ≤ 1000 (TerminateInstances limit)", fmt.Sprint(k), "")
		yc := es.Ctx
		if es.Wrapper != nil {
			yc = ck.yieldCtx(ctx, y)
		}
		ck.batchIDs(rule, key, fn, es, call, y.Params[0], nil, y, yc)
		return
	}
	outer := innermostLoop(fn, call.Block())
	if outer == nil {
		ck.fail(rule, key+"/loop", ck.P.instrPos(call), funcID(fn), "TerminateInstances sits in an index-stepping loop over the id list", "no loop", "more than 1000 ids can be sent in one call")
		return
	}
	var batch *ssa.Slice
	var peelBatch ssa.Value
	okBatch := false
	// idiom C, peeling: for rem := ids; len(rem) > 0; { k := min(K, len(rem)); batch := rem[:k]; rem = rem[k:] }
	peeled := false
	if pl := peelLoopOf(ck, outer); pl != nil {
		if _, isParam := pl.Init.(*ssa.Parameter); isParam {
			peeled = true
			batch, okBatch = pl.Batch, true
			peelBatch = pl.BatchV
			ck.cond(pl.K >= 1 && pl.K <= 1000, rule, key+"/chunk-size", ck.P.instrPos(pl.Rem), funcID(fn), "step k ≤ 1000 (TerminateInstances limit)", fmt.Sprint(pl.K), "")
		}
	}
	// induction: i = phi(0, i+k); header: i < N
	var iv *ssa.Phi
	var step int64
	for _, in := range outer.Header.Instrs {
		if peeled {
			break
		}
		ph, ok := in.(*ssa.Phi)
		if !ok || !isInteger(ph.Type()) {
			continue
		}
		okInit, okStep := false, true
		for i, e := range ph.Edges {
			if !outer.Blocks[outer.Header.Preds[i]] {
				if k, ok := e.(*ssa.Const); ok && k.Int64() == 0 {
					okInit = true
				}
				continue
			}
			bo, ok := e.(*ssa.BinOp)
			if !ok || bo.Op != token.ADD || bo.X != ssa.Value(ph) {
				okStep = false
				continue
			}
			k, ok := bo.Y.(*ssa.Const)
			if !ok {
				okStep = false
				continue
			}
			step = k.Int64()
		}
		if okInit && okStep && step > 0 {
			iv = ph
		}
	}
	if iv == nil && !peeled {
		ck.fail(rule, key+"/induction", ck.P.instrPos(call), funcID(fn), "loop variable i = 0, k, 2k, … with constant k", "not recognised", "")
		return
	}
	if !peeled {
		ck.cond(step <= 1000, rule, key+"/chunk-size", ck.P.instrPos(iv), funcID(fn), "step k ≤ 1000 (TerminateInstances limit)", fmt.Sprint(step), "")
	}
	// batch = instances[i : min(i+k, N)]
	for b := range outer.Blocks {
		if peeled {
			break
		}
		for _, in := range b.Instrs {
			if sl, ok := in.(*ssa.Slice); ok && sl.Low == ssa.Value(iv) {
				if _, isParam := sl.X.(*ssa.Parameter); isParam {
					batch = sl
				}
			}
		}
	}
	// windowEnd: v = min(i+k, N) through a repo helper or the builtin
	windowEnd := func(v ssa.Value) bool {
		ht := ctx.Term(v)
		if ht.Kind != "call" || len(ht.Args) != 2 || iv == nil {
			return false
		}
		sum := &Term{Kind: "binop", Name: "+", Args: []*Term{ctx.Term(iv), intConstTerm(step)}}
		env := &linEnv{choices: map[string]int{}, root: ctx}
		for i := 0; i < 2; i++ {
			l1, e1 := env.linTerm(ht.Args[i])
			l2, e2 := env.linTerm(sum)
			if e1 == nil && e2 == nil {
				d := l1.add(l2, -1)
				if d.isConst() && d.konst.Sign() == 0 {
					other := ht.Args[1-i]
					if other.Kind == "len" || other.Kind == "param" || other.Kind == "phi" || other.Kind == "call" {
						if ht.Name == "min" || ck.isMinHelper(ht.Fn) {
							return true
						}
					}
				}
			}
		}
		return false
	}
	// idiom D, index window: no batch slice at all —
	//   ids := make([]string, end-i) with end = min(i+k, N); for j := range ids { ids[j] = *list[i+j] }
	windowIDs := false
	if !peeled && batch == nil && iv != nil && es.Wrapper == nil {
		flds := ck.literalFields(ctx, es.In.Common().Args[0])
		if idt := flds["InstanceIds"]; isAwsHelper(idt, "StringSlice") {
			if ms, ok := idt.Args[0].Val.(*ssa.MakeSlice); ok && outer.Blocks[ms.Block()] {
				if ln, ok := ms.Len.(*ssa.BinOp); ok && ln.Op == token.SUB && ln.Y == ssa.Value(iv) && windowEnd(ln.X) && (ms.Cap == ms.Len) {
					stores, good := 0, 0
					for _, r := range *ms.Referrers() {
						ia, ok := r.(*ssa.IndexAddr)
						if !ok {
							continue
						}
						for _, rr := range *ia.Referrers() {
							st, ok := rr.(*ssa.Store)
							if !ok || st.Addr != ssa.Value(ia) {
								continue
							}
							stores++
							l := innermostLoop(fn, st.Block())
							if l == nil || l.Over != ssa.Value(ms) || !l.FullTraversal() || l.Idx == nil || ia.Index != l.Idx {
								continue
							}
							body := l.bodyPC(ctx)
							if eq, _, _ := Equivalent(ctx.PC(st), body); !eq {
								continue
							}
							// the value stored: *list[i+j]
							d1, ok := st.Val.(*ssa.UnOp)
							if !ok || d1.Op != token.MUL {
								continue
							}
							d2, ok := d1.X.(*ssa.UnOp)
							if !ok || d2.Op != token.MUL {
								continue
							}
							src, ok := d2.X.(*ssa.IndexAddr)
							if !ok {
								continue
							}
							if _, isParam := src.X.(*ssa.Parameter); !isParam {
								continue
							}
							if sum, ok := src.Index.(*ssa.BinOp); ok && sum.Op == token.ADD &&
								((sum.X == ssa.Value(iv) && sum.Y == l.Idx) || (sum.Y == ssa.Value(iv) && sum.X == l.Idx)) {
								good++
							}
						}
					}
					windowIDs = stores == 1 && good == 1
				}
			}
		}
		if windowIDs {
			okBatch = true
		}
	}
	if !peeled && batch != nil && batch.High != nil && windowEnd(batch.High) {
		okBatch = true
	}
	ck.cond(okBatch, rule, key+"/batch", ck.P.instrPos(call), funcID(fn), "batch = ids[i : min(i+k, len(ids))]", fmt.Sprint(batch), "the batch bounds do not partition the id list")
	var B ssa.Value
	if batch != nil {
		B = batch
	} else if peelBatch != nil {
		B = peelBatch
	}
	if windowIDs {
		ck.ok(rule, key+"/ids", ck.P.instrPos(call), funcID(fn), "each TerminateInstances call carries exactly the ids of the current batch (≤ k)", "index window")
		return
	}
	ck.batchIDs(rule, key, fn, es, call, B, outer, fn, ctx)
}

// batchIDs: the ids sent are StringSlice(x) with x holding exactly the ids of the current batch B —
// collected by one append per element, or written index by index into a make of the batch's
// length — in the loop body itself (bodyFn, read in bodyCtx; outer is its loop, nil for the body
// of a range-over-func loop) or in the thin wrapper that is handed the batch.
func (ck *Check) batchIDs(rule, key string, fn *ssa.Function, es effSite, call *ssa.Call, B ssa.Value, outer *Loop, bodyFn *ssa.Function, bodyCtx *Ctx) {
	inLoop := func(b *ssa.BasicBlock) bool { return outer == nil || outer.Blocks[b] }
	idsFn, ictx := bodyFn, bodyCtx
	if es.Wrapper != nil {
		handed := B
		idsFn, ictx, B = es.Wrapper, es.Ctx, nil
		for i, av := range call.Common().Args {
			if handed != nil && av == handed && i < len(es.Wrapper.Params) {
				B = es.Wrapper.Params[i]
			}
		}
	}
	// indexedFill: x is made with the length of the current batch, inside the batch loop, and filled
	// by one unconditional store per element of a full range over the batch, at the range's own index
	indexedFill := func(x *ssa.MakeSlice) (*ssa.Store, string) {
		lc, isLen := isBuiltinCall(x.Len, "len")
		sized := isLen && lc.Common().Args[0] == B && (x.Cap == x.Len)
		fresh := es.Wrapper != nil || inLoop(x.Block())
		stores, good := 0, 0
		var the *ssa.Store
		for _, r := range *x.Referrers() {
			ia, ok := r.(*ssa.IndexAddr)
			if !ok {
				continue
			}
			for _, rr := range *ia.Referrers() {
				if st, ok := rr.(*ssa.Store); ok && st.Addr == ssa.Value(ia) {
					stores++
					l := innermostLoop(idsFn, st.Block())
					if l != nil && l.Over == B && l.FullTraversal() && l.Idx != nil && ia.Index == l.Idx {
						body := l.bodyPC(ictx)
						if eq, _, _ := Equivalent(ictx.PC(st), body); eq {
							good++
							the = st
						}
					}
				}
			}
		}
		switch {
		case !sized:
			return nil, "the id slice is not made with the length of the current batch"
		case !fresh:
			return nil, "the id slice is shared across batches"
		case stores != 1 || good != 1:
			return nil, "the id slice is not filled by one unconditional store per element of the current batch"
		}
		return the, ""
	}
	flds := ck.literalFields(ictx, es.In.Common().Args[0])
	ids := flds["InstanceIds"]
	okIDs := false
	why := "InstanceIds is not StringSlice(<ids collected from the current batch>)"
	if B == nil {
		why = "the wrapper around TerminateInstances is not handed the current batch"
	} else if isAwsHelper(ids, "StringSlice") {
		accV := ids.Args[0].Val
		switch x := accV.(type) {
		case *ssa.Phi:
			acc := accumulatorOf(x)
			if acc != nil && len(acc.Other) == 0 && (es.Wrapper != nil || (outer == nil || (acc.Loop != outer && outer.Blocks[acc.Loop.Header]))) {
				// inner loop ranges over the batch, full traversal, one append per element
				full := acc.Loop.FullTraversal() && acc.Loop.Over == B && len(acc.Appends) == 1 && len(acc.Appends[0].Elems) == 1
				// F3: the accumulator must start empty in every outer iteration
				fresh := false
				switch iv := acc.Init.(type) {
				case *ssa.Const:
					fresh = iv.Value == nil
				case *ssa.MakeSlice:
					fresh = makeSliceEmpty(iv) && (es.Wrapper != nil || inLoop(iv.Block()))
				}
				switch {
				case !full:
					why = "the ids are not collected by a full range over the current batch"
				case !fresh:
					why = "the id accumulator is carried across batches (call j would carry batches 1..j)"
				default:
					okIDs = true
				}
			}
		case *ssa.MakeSlice:
			// ids := make([]string, len(batch)); for i := range batch { ids[i] = *batch[i] }
			if _, w := indexedFill(x); w != "" {
				why = w
			} else {
				okIDs = true
			}
		}
	} else if B != nil {
		// the pointer slice written by hand: ptrs := make([]*string, len(batch)), filled index by index
		// with the batch's own elements or with the addresses of a copy filled the same way
		if al, ok := es.In.Common().Args[0].(*ssa.Alloc); ok {
			for _, r := range *al.Referrers() {
				fa, ok := r.(*ssa.FieldAddr)
				if !ok || fieldOfAddr(fa) == nil || fieldOfAddr(fa).Name() != "InstanceIds" {
					continue
				}
				for _, rr := range *fa.Referrers() {
					st, ok := rr.(*ssa.Store)
					if !ok {
						continue
					}
					ms, ok := st.Val.(*ssa.MakeSlice)
					if !ok {
						continue
					}
					fill, w := indexedFill(ms)
					if w != "" {
						why = w
						continue
					}
					switch v := fill.Val.(type) {
					case *ssa.IndexAddr:
						cp, isMake := v.X.(*ssa.MakeSlice)
						if !isMake || v.Index != fill.Addr.(*ssa.IndexAddr).Index {
							why = "the pointers do not address the copy at the element's own index"
						} else if _, w2 := indexedFill(cp); w2 != "" {
							why = "the copied ids: " + w2
						} else {
							okIDs = true
						}
					default:
						isElem := false
						if l := innermostLoop(idsFn, fill.Block()); l != nil {
							if ld, ok := fill.Val.(*ssa.UnOp); ok && ld.Op == token.MUL {
								if ia, ok := ld.X.(*ssa.IndexAddr); ok && ia.X == l.Over && ia.Index == l.Idx {
									isElem = true
								}
							}
						}
						if isElem {
							okIDs = true
						} else {
							why = "the pointer slice is not filled with the current batch's elements"
						}
					}
				}
			}
		}
	}
	ck.cond(okIDs, rule, key+"/ids", ck.P.instrPos(call), funcID(fn), "each TerminateInstances call carries exactly the ids of the current batch (≤ k)", fmt.Sprint(ids), why)
}

func (ck *Check) isMinHelper(f *ssa.Function) bool {
	if f == nil || f.Blocks == nil || len(f.Params) != 2 || infoOf(f).hasLoop {
		return false
	}
	ctx := ck.P.NewCtx(f)
	x, y := paramTerm(f.Params[0]), paramTerm(f.Params[1])
	for _, b := range f.Blocks {
		r, ok := b.Instrs[len(b.Instrs)-1].(*ssa.Return)
		if !ok {
			continue
		}
		rt := ctx.Term(r.Results[0])
		var other *Term
		switch rt.Key() {
		case x.Key():
			other = y
		case y.Key():
			other = x
		default:
			return false
		}
		// PC ⇒ rt ≤ other
		okv, _, err := ctx.EntailsLinear(ctx.BlockPC(b), []LinFact{{A: rt, B: other, K: 0}})
		if err != nil || !okv {
			return false
		}
	}
	return true
}

// ---------------------------------------------------------------------------------------------
// C19

func checkC19(ck *Check) {
	a := ck.A
	fn := a.AwsDelete
	if !ck.need("C19.R1", map[string]interface{}{"aws DeleteNodes": fn, "Belongs": a.AwsBelongs, "Nodes": a.AwsNodes, "delete step": a.TryDelete}) {
		return
	}
	ctx := ck.P.NewCtx(fn)
	recv := paramTerm(fn.Params[0])
	nodes := paramTerm(fn.Params[1])
	var site *Site
	// the terminate call sits in DeleteNodes, or in a per-node executor DeleteNodes calls exactly once
	// (in its loop) and nobody else calls: xfn / xctx are that frame with its parameters bound, via
	// the call in DeleteNodes
	xfn, xctx := fn, ctx
	var via *ssa.Call
	for i := range a.W {
		if a.W[i].Class == "W-ASG-TERM" {
			if a.W[i].Fn != fn {
				x := a.W[i].Fn
				cs := ck.P.callers[x]
				sites := callsTo(fn, x)
				taken := false
				for _, g := range ck.P.addressTaken() {
					if g == x {
						taken = true
					}
				}
				if c, isCall := firstCall(sites); len(cs) == 1 && cs[0] == fn && len(sites) == 1 && isCall && !taken && via == nil {
					args := make([]*Term, len(c.Common().Args))
					for j, av := range c.Common().Args {
						args[j] = ctx.Term(av)
					}
					xfn, via = x, c
					xctx = ctx.child(x, c, args)
					xctx.depth = 0
					site = &a.W[i]
					continue
				}
				ck.fail("C19.R1", ck.P.siteKey(a.W[i].Call), ck.P.instrPos(a.W[i].Call), funcID(a.W[i].Fn), "TerminateInstanceInAutoScalingGroup is issued only by DeleteNodes", "", "")
				continue
			}
			site = &a.W[i]
		}
	}
	if site == nil {
		ck.lost("C19.R1", "terminate site", "none in DeleteNodes")
		return
	}
	call := site.Call.(*ssa.Call)
	key := ck.P.siteKey(call)
	pc := xctx.PC(call)
	loopAt := call
	if via != nil {
		pc = And(ctx.PC(via), pc)
		loopAt = via
	}
	minT := &Term{Kind: "call", Name: funcID(a.AwsMinSize), Fn: a.AwsMinSize, Obj: a.AwsMinSize.Object(), Args: []*Term{recv}, Typ: types.Typ[types.Int64]}
	// candidates for TargetSize() evaluated before the loop
	var tsCands []*Term
	seen := map[string]bool{}
	for _, at := range pc.Atoms() {
		at.walk(func(t *Term) bool {
			if isCallTo(t, a.AwsTargetSize) && len(t.Args) == 1 && t.Args[0].Key() == recv.Key() && !seen[t.Key()] {
				if c, ok := t.Val.(*ssa.Call); ok && innermostLoop(fn, c.Block()) == nil {
					seen[t.Key()] = true
					tsCands = append(tsCands, t)
				}
			}
			return true
		})
	}
	check := func(text string, mk func(ts *Term) LinFact) {
		okv := false
		var lastWhy string
		for _, ts := range tsCands {
			o, why, err := ctx.EntailsLinear(pc, []LinFact{mk(ts)})
			if err == nil && o {
				okv = true
			} else if err != nil {
				lastWhy = err.Error()
			} else {
				lastWhy = why
			}
		}
		if len(tsCands) == 0 {
			lastWhy = "no TargetSize() pre-check evaluated before the loop"
		}
		ck.cond(okv, "C19.R1", key+"/"+text, ck.P.instrPos(call), funcID(fn), "PC(terminate) ⇒ "+text+" (TargetSize read before the first termination)", pc.String(), lastWhy)
	}
	check("TargetSize > MinSize", func(ts *Term) LinFact {
		return LinFact{A: &Term{Kind: "binop", Name: "+", Args: []*Term{minT, intConstTerm(1)}}, B: ts, K: 0, Text: "MinSize + 1 ≤ TargetSize"}
	})
	check("TargetSize − len(nodes) ≥ MinSize", func(ts *Term) LinFact {
		return LinFact{A: &Term{Kind: "binop", Name: "+", Args: []*Term{minT, lenOf("len", nodes)}}, B: ts, K: 0, Text: "MinSize + len(nodes) ≤ TargetSize"}
	})
	// one terminate per listed node
	loop := innermostLoop(fn, loopAt.Block())
	okLoop := loop != nil && loop.IdxPhi != nil && ctx.Term(loop.Over).Key() == nodes.Key() && (via == nil || innermostLoop(xfn, call.Block()) == nil)
	ck.cond(okLoop, "C19.R1", key+"/once-per-node", ck.P.instrPos(call), funcID(fn), "the terminate call sits directly in the range loop over the given nodes (≤ 1 per node)", "", "more terminations than nodes (nested loop) or nodes from another list")
	if !okLoop {
		return
	}
	node := &Term{Kind: "elem", Args: []*Term{nodes}, ID: "L" + ctx.instrID(loop.IdxPhi)}
	if sl, ok := fn.Params[1].Type().Underlying().(*types.Slice); ok {
		node.Typ = sl.Elem()
	}
	// R2 membership
	belongs := boolResultFormula(ctx, a.AwsBelongs, []*Term{recv, node}, 0)
	ck.entails("C19.R2", key+"/member", call, pc, belongs, "PC(terminate) ⇒ Belongs(node) for the node of this iteration")
	foundNG := false
	for b := range loop.Blocks {
		for _, s := range b.Succs {
			_ = s
		}
	}
	if via != nil {
		// the executor's verdict is DeleteNodes' verdict
		ck.returnsCallUnchanged("C19.R2", fn, via, 0)
	}
	for _, b := range xfn.Blocks {
		r, ok := b.Instrs[len(b.Instrs)-1].(*ssa.Return)
		if !ok {
			continue
		}
		if imp, _, _ := Entails(xctx.BlockPC(b), Not(belongs)); imp {
			if sat, _ := Satisfiable(xctx.BlockPC(b)); !sat {
				continue
			}
			mi, isMI := r.Results[0].(*ssa.MakeInterface)
			okT := isMI && ck.A.isPtrTo(mi.X.Type(), a.TNotInGroup)
			if okT {
				foundNG = true
			}
			ck.cond(okT, "C19.R2", fmt.Sprintf("%s/return@block%d/not-in-group", funcID(xfn), b.Index), ck.P.instrPos(r), funcID(xfn), "a non-member node makes DeleteNodes return *cloudprovider.NodeNotInNodeGroup", r.Results[0].String(), "a foreign node is skipped or reported with a generic error, so escalator continues")
		}
	}
	ck.cond(foundNG, "C19.R2", funcID(fn)+"/not-in-group-exit", "", funcID(fn), "there is a return under ¬Belongs(node)", "", "non-members are not rejected")
	// R3 right instance, with decrement
	flds := ck.literalFields(xctx, call.Common().Args[0])
	dec := flds["ShouldDecrementDesiredCapacity"]
	ck.cond(isAwsHelper(dec, "Bool") && dec.Args[0].Name == "true", "C19.R3", key+"/decrement", ck.P.instrPos(call), funcID(fn), "ShouldDecrementDesiredCapacity ← Bool(true)", fmt.Sprint(dec), "the ASG replaces the terminated instance")
	iid := flds["InstanceId"]
	okID := false
	whyID := "InstanceId is not the id of the ASG instance matched by provider id"
	if iidV := literalFieldValues(call.Common().Args[0])["InstanceId"]; iid != nil && iidV != nil {
		// the defining cases of the id: the edges of a φ fed by the search loop, or the return
		// sites of a search helper (parameters bound to this call's arguments)
		cases := ck.valueCases(xctx, FTrue, iidV, 0)
		if len(cases) > 1 {
			okID = true
			nonNil := 0
			for _, vc := range cases {
				et := vc.term
				if et.Kind == "const" && et.Name == "nil" {
					continue
				}
				nonNil++
				// edge value: elem(n.asg.Instances).InstanceId under ProviderID == instanceToProviderID(elem)
				okE := et.Kind == "field" && et.Name == "InstanceId" && et.Args[0].Kind == "elem"
				var inst *Term
				if okE {
					inst = et.Args[0]
					over := inst.Args[0]
					okE = over.Kind == "field" && over.Name == "Instances"
				}
				// library search form: Instances[slices.IndexFunc(Instances, func(c) bool { return
				// instanceToProviderID(c) == node.Spec.ProviderID })].InstanceId
				if !okE && et.Kind == "field" && et.Name == "InstanceId" && et.Args[0].Kind == "index" && len(et.Args[0].Args) == 2 {
					list, ix := et.Args[0].Args[0], et.Args[0].Args[1]
					if list.Kind == "field" && list.Name == "Instances" && ix.Kind == "call" && strings.HasPrefix(ix.Name, "slices.IndexFunc") && len(ix.Args) == 2 && ix.Args[0].Key() == list.Key() {
						if mc := closureOfTerm(xfn, ix.Args[1]); mc != nil {
							probe := &Term{Kind: "elem", Args: []*Term{list}, ID: "probe"}
							want := cmpFormula(token.EQL, ck.nodeField(node, "Spec", "ProviderID"), &Term{Kind: "call", Name: funcID(a.AwsInstToProv), Fn: a.AwsInstToProv, Obj: a.AwsInstToProv.Object(), Args: []*Term{probe}})
							if got := closureResult(xctx, mc, []*Term{probe}); got != nil {
								if eq, _, _ := Equivalent(got, want); eq {
									okE2, _, err := xctx.EntailsLinear(vc.guard, []LinFact{{A: zeroTerm(types.Typ[types.Int]), B: ix, K: 0, Text: "0 ≤ position"}})
									if err == nil && okE2 {
										continue // the candidate is the element the search matched
									}
								}
							}
						}
					}
				}
				if okE {
					match := cmpFormula(token.EQL, ck.nodeField(node, "Spec", "ProviderID"), &Term{Kind: "call", Name: funcID(a.AwsInstToProv), Fn: a.AwsInstToProv, Obj: a.AwsInstToProv.Object(), Args: []*Term{inst}})
					imp, _, _ := Entails(vc.guard, match)
					okE = imp
				}
				if !okE {
					okID = false
					whyID = "an InstanceId candidate is not guarded by node.Spec.ProviderID == instanceToProviderID(instance): " + et.String()
				}
			}
			if nonNil == 0 {
				okID = false
			}
		}
	}
	ck.cond(okID, "C19.R3", key+"/instance", ck.P.instrPos(call), funcID(fn), "InstanceId ← the ASG instance whose provider id equals the node's", fmt.Sprint(iid), whyID)
	// R4 Belongs / Nodes use the same mapping
	ck.belongsShape("C19.R4")
	// R5 cloud first, k8s only on success
	{
		td := a.TryDeleteInner
		tctx := ck.P.NewCtx(td)
		var cloud *ssa.Call
		var k8sDels []*ssa.Call
		for _, s := range a.A {
			if s.Fn == td && s.Class == "A-CLOUD-DEL" {
				cloud = s.Call.(*ssa.Call)
			}
			if s.Fn == td && s.Class == "A-K8S-DEL" {
				k8sDels = append(k8sDels, s.Call.(*ssa.Call))
			}
		}
		// the cloud half in a helper of its own (`terminateInCloudProvider(provider, group, nodes) error`),
		// the Kubernetes half in its caller: read in the caller's frame, the helper's call standing for
		// the cloud delete — the helper returns the cloud delete's error as it is and is handed the list
		if cloud != nil && len(k8sDels) == 0 && len(a.TryDeleteChain) >= 2 && a.TryDeleteChain[len(a.TryDeleteChain)-1] == td {
			up := a.TryDeleteChain[len(a.TryDeleteChain)-2]
			vias := callsTo(up, td)
			var ups []*ssa.Call
			for _, s := range a.A {
				if s.Fn == up && s.Class == "A-K8S-DEL" {
					ups = append(ups, s.Call.(*ssa.Call))
				}
			}
			if via, ok := func() (*ssa.Call, bool) {
				if len(vias) != 1 || len(ups) == 0 {
					return nil, false
				}
				v, ok := vias[0].(*ssa.Call)
				return v, ok
			}(); ok {
				// every return of the helper after the cloud call hands on its error; before it, a built error
				hctx := ck.P.NewCtx(td)
				ct := hctx.Term(cloud)
				faithful := td.Signature.Results().Len() == 1 && isErrorType(td.Signature.Results().At(0).Type())
				for _, b := range td.Blocks {
					r, ok := b.Instrs[len(b.Instrs)-1].(*ssa.Return)
					if !ok || !faithful {
						continue
					}
					if cloud.Block() == b || cloud.Block().Dominates(b) {
						if hctx.Term(r.Results[0]).Key() != ct.Key() {
							faithful = false
						}
					} else if !errorConstructor(r.Results[0]) {
						faithful = false
					}
				}
				// the list the helper hands to the cloud is its own slice parameter
				var listParam *ssa.Parameter
				for _, av := range cloud.Common().Args {
					if p, ok := av.(*ssa.Parameter); ok {
						if _, isSl := p.Type().(*types.Slice); isSl {
							listParam = p
						}
					}
				}
				ck.cond(faithful && listParam != nil, "C19.R5", funcID(td)+"/cloud-half", ck.P.instrPos(cloud), funcID(td), "the helper around the cloud delete returns that call's error as it is and passes its list parameter on", "", "")
				if faithful && listParam != nil {
					td, tctx, cloud, k8sDels = up, ck.P.NewCtx(up), via, ups
				}
			}
		}
		if cloud == nil || len(k8sDels) == 0 {
			ck.fail("C19.R5", funcID(td)+"/sinks", "", funcID(td), "the delete step calls the cloud delete and the Kubernetes delete", "", "")
		}
		for _, k8sDel := range k8sDels {
			if cloud == nil {
				break
			}
			ct := tctx.Term(cloud)
			var errNil *Formula
			for _, at := range tctx.PC(k8sDel).Atoms() {
				if at.Kind == "cmp" && at.Name == "==" && hasConstStr(at, "nil") {
					for _, x := range at.Args {
						if x.Key() == ct.Key() {
							errNil = Atom(at)
						}
					}
				}
			}
			if errNil == nil {
				ck.fail("C19.R5", ck.P.siteKey(k8sDel)+"/after-cloud", ck.P.instrPos(k8sDel), funcID(td), "PC(Kubernetes delete) ⇒ the cloud delete returned nil", tctx.PC(k8sDel).String(), "Node objects are deleted although the cloud did not accept the termination")
			} else {
				ck.entails("C19.R5", ck.P.siteKey(k8sDel)+"/after-cloud", k8sDel, tctx.PC(k8sDel), And(tctx.PC(cloud), errNil), "PC(Kubernetes delete) ⇒ the cloud delete ran and returned nil")
			}
			ck.cond(dominatesInstr(cloud, k8sDel), "C19.R5", ck.P.siteKey(k8sDel)+"/order", ck.P.instrPos(k8sDel), funcID(td), "the cloud delete precedes the Kubernetes delete", "", "")
			// the batch deleted from Kubernetes is the batch the cloud accepted
			sliceArg := func(c *ssa.Call) *Term {
				for _, av := range c.Common().Args {
					if _, ok := av.Type().(*types.Slice); ok {
						return tctx.Term(av)
					}
				}
				return nil
			}
			ca, ka := sliceArg(cloud), sliceArg(k8sDel)
			ck.cond(ca != nil && ka != nil && ca.Key() == ka.Key(), "C19.R5", ck.P.siteKey(k8sDel)+"/same-batch", ck.P.instrPos(k8sDel), funcID(td), "the Kubernetes delete is handed the very list the cloud delete was", fmt.Sprintf("cloud: %v; kubernetes: %v", ca, ka), "Node objects are deleted whose termination the cloud was never asked for (or the reverse)")
		}
	}
	// R1 (continued): the pre-checks read a desired capacity that is fresh within the scan
	ck.cacheTypestate("C19.R1")
	// R7 a refused termination stops the request and is reported: DeleteNodes' nil result is what
	// the delete step (R5) takes as "the cloud accepted the whole batch"
	ck.failStops("C19.R7", key+"/failure-stops", xfn, call, "W-ASG-TERM", "a terminate call the cloud refused")
	if via != nil {
		ck.failStops("C19.R7", ck.P.siteKey(via)+"/failure-stops", fn, via, "W-ASG-TERM", "a per-node termination that failed")
	}
	// R6 propagation
	ck.notInGroupPropagation("C19.R6")
	ck.fatalErrorCreation("C19.R6")
	// R8 the minimum and the target the pre-checks read are those of the last refresh
	ck.refreshReplaces("C19.R8")
}

// belongsShape: Belongs(node) ⇔ ∃ id ∈ Nodes(): id == node.Spec.ProviderID; Nodes() maps
// instanceToProviderID over asg.Instances.
func (ck *Check) belongsShape(rule string) {
	a := ck.A
	{
		fn := a.AwsBelongs
		ctx := ck.P.NewCtx(fn)
		recv, node := paramTerm(fn.Params[0]), paramTerm(fn.Params[1])
		okv := true
		var why []string
		trueRets := 0
		// library form: return slices.Contains(n.Nodes(), node.Spec.ProviderID)
		viaLibrary := false
		if len(fn.Blocks) == 1 {
			if r, ok := fn.Blocks[0].Instrs[len(fn.Blocks[0].Instrs)-1].(*ssa.Return); ok {
				rt := ctx.Term(r.Results[0])
				if rt.Kind == "call" && strings.HasPrefix(rt.Name, "slices.Contains") && len(rt.Args) == 2 &&
					isCallTo(rt.Args[0], a.AwsNodes) && rt.Args[0].Args[0].Key() == recv.Key() && rt.Args[1].Key() == ck.nodeField(node, "Spec", "ProviderID").Key() {
					viaLibrary = true
				}
			}
		}
		for _, b := range fn.Blocks {
			if viaLibrary {
				trueRets = 1
				break
			}
			r, ok := b.Instrs[len(b.Instrs)-1].(*ssa.Return)
			if !ok {
				continue
			}
			k, isC := r.Results[0].(*ssa.Const)
			if !isC {
				okv = false
				why = append(why, "non-constant result")
				continue
			}
			if k.Value.String() != "true" {
				continue
			}
			trueRets++
			pc := ctx.BlockPC(b)
			found := false
			for _, at := range pc.Atoms() {
				if at.Kind == "cmp" && at.Name == "==" {
					var el, pid *Term
					for _, x := range at.Args {
						if x.Kind == "elem" {
							el = x
						}
						if x.Key() == ck.nodeField(node, "Spec", "ProviderID").Key() {
							pid = x
						}
					}
					if el != nil && pid != nil && isCallTo(el.Args[0], a.AwsNodes) && el.Args[0].Args[0].Key() == recv.Key() {
						if imp, _, _ := Entails(pc, Atom(at)); imp {
							found = true
						}
					}
				}
			}
			if !found {
				okv = false
				why = append(why, "true is returned without matching an element of Nodes() against node.Spec.ProviderID")
			}
		}
		if trueRets == 0 {
			okv = false
			why = append(why, "never returns true")
		}
		ck.cond(okv, rule, "Belongs/body", ck.P.position(fn.Pos()), funcID(fn), "Belongs(node) ⇔ ∃ id ∈ Nodes(): id == node.Spec.ProviderID", "", strings.Join(why, "; "))
	}
	{
		fn := a.AwsNodes
		ctx := ck.P.NewCtx(fn)
		okv := false
		why := "Nodes() is not a full-range collect of instanceToProviderID over asg.Instances"
		for _, b := range fn.Blocks {
			r, ok := b.Instrs[len(b.Instrs)-1].(*ssa.Return)
			if !ok {
				continue
			}
			if et, over, ok := ck.mapCollect(fn, ctx, r.Results[0]); ok {
				if isCallTo(et, a.AwsInstToProv) && et.Args[0].Kind == "elem" && et.Args[0].Args[0].Key() == over.Key() && over.Kind == "field" && over.Name == "Instances" {
					okv = true
				}
			}
		}
		ck.cond(okv, rule, "Nodes/body", ck.P.position(fn.Pos()), funcID(fn), "Nodes() = [instanceToProviderID(i) for every i in asg.Instances] — the mapping the instance lookup compares with", "", why)
	}
}

// notInGroupPropagation (C19.R6)
func (ck *Check) notInGroupPropagation(rule string) {
	a := ck.A
	canReturnNG := ck.P.reachCut(nil, nil)
	// functions that can (transitively) reach aws DeleteNodes
	for _, fn := range ck.P.Funcs {
		if ck.P.reachCut([]*ssa.Function{fn}, nil)[a.AwsDelete] {
			canReturnNG[fn] = true
		}
	}
	frames := append(append([]*ssa.Function{}, a.TryDeleteChain...), a.GraceReaper, a.ForceReaper, a.ScaleDown, a.Scan, a.RunOnce, a.RunForever)
	total := 0
	for _, fr := range frames {
		if fr == nil {
			continue
		}
		ctx := ck.P.NewCtx(fr)
		errIdx := fr.Signature.Results().Len() - 1
		for _, ci := range callsIn(fr, nil) {
			call, ok := ci.(*ssa.Call)
			if !ok {
				continue
			}
			reaches := false
			for _, g := range ck.P.calleesOf(ci) {
				if canReturnNG[g] || g == a.AwsDelete {
					reaches = true
				}
			}
			if !reaches {
				continue
			}
			// the error value of the call
			var e ssa.Value
			if tup, ok := call.Type().(*types.Tuple); ok {
				for _, r := range *call.Referrers() {
					if ex, ok := r.(*ssa.Extract); ok && ex.Index == tup.Len()-1 {
						e = ex
					}
				}
			} else {
				e = call
			}
			total++
			key := ck.P.siteKey(ci) + "/not-in-group"
			if e == nil {
				ck.fail(rule, key, ck.P.instrPos(ci), funcID(fr), "the error of a call that can yield *NodeNotInNodeGroup is examined", "error result dropped", "a not-in-group error is ignored and escalator continues")
				continue
			}
			ck.propagates(rule, key, fr, ctx, call, e, errIdx)
		}
	}
	ck.floor(rule, "calls that can yield *NodeNotInNodeGroup across the frames up to RunForever", total, 4)
	// main passes RunForever's result to log.Fatal
	if sp := ck.P.SSAPkg[pkgCmd]; sp != nil {
		mainFn := sp.Func("main")
		okv := false
		for _, ci := range callsTo(mainFn, a.RunForever) {
			c := ci.(*ssa.Call)
			for _, r := range *c.Referrers() {
				// value → MakeInterface → varargs store → slice → logrus.Fatal
				seen := map[ssa.Value]bool{}
				var follow func(v ssa.Value) bool
				follow = func(v ssa.Value) bool {
					if seen[v] {
						return false
					}
					seen[v] = true
					for _, rr := range *v.Referrers() {
						switch x := rr.(type) {
						case *ssa.MakeInterface:
							if follow(x) {
								return true
							}
						case *ssa.ChangeInterface:
							if follow(x) {
								return true
							}
						case *ssa.Store:
							if ia, ok := x.Addr.(*ssa.IndexAddr); ok {
								if al, ok := ia.X.(*ssa.Alloc); ok {
									for _, r3 := range *al.Referrers() {
										if sl, ok := r3.(*ssa.Slice); ok && follow(sl) {
											return true
										}
									}
								}
							}
						case *ssa.Call:
							if f := x.Common().StaticCallee(); f != nil && strings.HasPrefix(f.Name(), "Fatal") && strings.Contains(pkgPathOfFn(f), "logrus") {
								return true
							}
						}
					}
					return false
				}
				_ = r
				if follow(c) {
					okv = true
				}
			}
		}
		ck.cond(okv, rule, "main/fatal", "", "cmd.main", "main passes RunForever's error to log.Fatal (the controller exits)", "", "a not-in-group error does not stop the process")
	}
}

// propagates: in frame fr, on every path after call where its error e is non-nil and passes the
// *NodeNotInNodeGroup type tests, the frame returns e itself and does not continue looping.
func (ck *Check) propagates(rule, key string, fr *ssa.Function, ctx *Ctx, call *ssa.Call, e ssa.Value, errIdx int) {
	a := ck.A
	if sat, err := Satisfiable(ctx.PC(call)); err == nil && !sat {
		ck.ok(rule, key, ck.P.instrPos(call), funcID(fr), "whenever this call yields *NodeNotInNodeGroup the frame returns it unchanged", "unreachable call (path condition unsatisfiable)")
		return
	}
	// carriers: e and φs fed by e
	carriers := []ssa.Value{e}
	onlyPhi := true
	for _, r := range *e.Referrers() {
		switch x := r.(type) {
		case *ssa.Phi:
			carriers = append(carriers, x)
		case *ssa.DebugRef:
		default:
			onlyPhi = false
		}
	}
	if onlyPhi && len(carriers) > 1 {
		carriers = carriers[1:]
	}
	fi := infoOf(fr)
	okAll := true
	var why []string
	for _, cv := range carriers {
		ct := ctx.Term(cv)
		var nilAtom *Formula
		typeOK := FTrue
		for _, b := range fr.Blocks {
			for _, at := range ctx.BlockPC(b).Atoms() {
				if at.Kind == "cmp" && at.Name == "==" && hasConstStr(at, "nil") {
					for _, x := range at.Args {
						if x.Key() == ct.Key() {
							nilAtom = Atom(at)
						}
					}
				}
				if at.Kind == "extract" && at.Name == "1" && at.Args[0].Kind == "typeassert" && at.Args[0].Args[0].Key() == ct.Key() && strings.HasSuffix(at.Args[0].Name, "NodeNotInNodeGroup") {
					typeOK = And(typeOK, Atom(at))
				}
			}
		}
		NG := typeOK
		if nilAtom != nil {
			NG = And(Not(nilAtom), typeOK)
		}
		// without a nil test the error must simply be passed through by every return after the call
		var from *ssa.BasicBlock = call.Block()
		if ph, ok := cv.(*ssa.Phi); ok {
			from = ph.Block()
			// restrict to the edge carrying e
			for i, ed := range ph.Edges {
				if ed == e {
					NG = And(NG, ctx.edgePC(from.Preds[i], from))
				}
			}
		} else {
			NG = And(NG, ctx.PC(call))
		}
		for _, b := range fr.Blocks {
			if !from.Dominates(b) {
				continue
			}
			cond := And(ctx.BlockPC(b), NG)
			sat, err := Satisfiable(cond)
			if err != nil || !sat {
				continue
			}
			switch last := b.Instrs[len(b.Instrs)-1].(type) {
			case *ssa.Return:
				rt := ctx.Term(last.Results[errIdx])
				if rt.Key() != ct.Key() && rt.Key() != ctx.Term(e).Key() {
					okAll = false
					why = append(why, fmt.Sprintf("return at %s yields %s instead of the not-in-group error", ck.P.instrPos(last), rt))
				}
			default:
				for _, s := range b.Succs {
					// only loops that contain the call can bring the frame back to it
					inCallLoop := false
					for _, l := range loopsOf(fr) {
						if l.Header == s && l.Blocks[call.Block()] {
							inCallLoop = true
						}
					}
					if fi.backEdge[[2]int{b.Index, s.Index}] && inCallLoop {
						if sat2, _ := Satisfiable(And(cond, ctx.edgeCond(b, s))); sat2 {
							okAll = false
							why = append(why, "the frame goes on to its next loop iteration with a not-in-group error pending")
						}
					}
				}
			}
		}
		// and some return must exist under NG
		reached := false
		for _, b := range fr.Blocks {
			if _, ok := b.Instrs[len(b.Instrs)-1].(*ssa.Return); ok && from.Dominates(b) {
				if sat, _ := Satisfiable(And(ctx.BlockPC(b), NG)); sat {
					reached = true
				}
			}
		}
		if !reached {
			okAll = false
			why = append(why, "no return is reachable with the not-in-group error")
		}
	}
	_ = a
	ck.cond(okAll, rule, key, ck.P.instrPos(call), funcID(fr), "whenever this call yields a non-nil error of type *NodeNotInNodeGroup the frame returns that error unchanged", "", strings.Join(why, "; "))
}

// fatalErrorCreation: values of dynamic type *NodeNotInNodeGroup enter an error interface only
// in the AWS DeleteNodes membership branch, from a freshly allocated (non-nil) value. A helper
// that converts a possibly-nil *NodeNotInNodeGroup into an error would make every error fatal
// (typed-nil interface) — or none.
func (ck *Check) fatalErrorCreation(rule string) {
	a := ck.A
	n := 0
	for _, fn := range ck.P.Funcs {
		for _, b := range fn.Blocks {
			for _, in := range b.Instrs {
				mi, ok := in.(*ssa.MakeInterface)
				if !ok || !a.isPtrTo(mi.X.Type(), a.TNotInGroup) {
					continue
				}
				n++
				_, fresh := mi.X.(*ssa.Alloc)
				if !fresh {
					// a constructor that hands out a fresh value on every path
					if c, isCall := mi.X.(*ssa.Call); isCall && c.Common().StaticCallee() != nil && ck.P.inRepo(c.Common().StaticCallee()) {
						fresh = ck.alwaysNonNil(mi.X, 0)
					}
				}
				okv := fresh && ck.ownedBy(fn, a.AwsDelete, 0)
				ck.cond(okv, rule, fmt.Sprintf("%s/not-in-group-creation#%d", funcID(fn), n), ck.P.instrPos(mi), funcID(fn), "a *NodeNotInNodeGroup error is created only by the AWS membership test, from a fresh non-nil value", mi.X.String(),
					"a possibly-nil *NodeNotInNodeGroup is converted to an error: the interface is non-nil even when the pointer is nil, so ordinary errors are treated as the fatal not-in-group condition (or vice versa)")
			}
		}
	}
	ck.floor(rule, "creation sites of the not-in-group error", n, 1)
}

// exitAfterDisposition (C18.R6): on the fleet path a call that can end the process (log.Fatal*,
// os.Exit, or a repo function / injected function that reaches one) is never followed — in the
// control flow of the same function — by an attach or terminate call: when the process may exit,
// every acquired instance has already been attached or submitted for termination.
func (ck *Check) exitAfterDisposition(rule string) {
	a := ck.A
	reach := ck.P.reachCut([]*ssa.Function{a.AwsOneShot}, nil)
	var fns []*ssa.Function
	for fn := range reach {
		if ck.P.inRepo(fn) && fn.Blocks != nil {
			fns = append(fns, fn)
		}
	}
	sort.Slice(fns, func(i, j int) bool { return funcID(fns[i]) < funcID(fns[j]) })
	wsite := map[ssa.Instruction]bool{}
	for _, w := range a.W {
		if w.Class == "W-ASG-ATT" || w.Class == "W-EC2-TERM" {
			wsite[w.Call] = true
		}
	}
	mayExit, disposes := map[*ssa.Function]bool{}, map[*ssa.Function]bool{}
	callExits := func(ci ssa.CallInstruction) bool {
		if isExitCallee(ci.Common().StaticCallee()) {
			return true
		}
		for _, g := range ck.P.calleesOf(ci) {
			if mayExit[g] {
				return true
			}
		}
		return false
	}
	callDisposes := func(ci ssa.CallInstruction) bool {
		if wsite[ci] {
			return true
		}
		for _, g := range ck.P.calleesOf(ci) {
			if disposes[g] {
				return true
			}
		}
		return false
	}
	for changed := true; changed; {
		changed = false
		for _, fn := range fns {
			for _, ci := range callsIn(fn, nil) {
				if !mayExit[fn] && callExits(ci) {
					mayExit[fn], changed = true, true
				}
				if !disposes[fn] && callDisposes(ci) {
					disposes[fn], changed = true, true
				}
			}
		}
	}
	var fleet ssa.Instruction
	for _, w := range a.W {
		if w.Class == "W-EC2-FLEET" && w.Fn == a.AwsFleetReq {
			fleet = w.Call
		}
	}
	// seen from the strategy, "the fleet request" is its call of the request helper
	var fleetInStrategy ssa.Instruction = fleet
	if a.AwsFleetReq != a.AwsOneShot {
		if c, isCall := firstCall(callsTo(a.AwsOneShot, a.AwsFleetReq)); isCall {
			fleetInStrategy = c
		}
	}
	nExit, nDisp := 0, 0
	for _, fn := range fns {
		calls := callsIn(fn, nil)
		ord := 0
		for _, e := range calls {
			if !callExits(e) {
				continue
			}
			if fn == a.AwsFleetReq && fleet != nil && e != fleet && !reachesWithout(fleet, e, func(ssa.Instruction) bool { return false }) {
				continue // before the fleet request nothing has been acquired yet
			}
			if fn == a.AwsOneShot && fn != a.AwsFleetReq && fleetInStrategy != nil && e != fleetInStrategy && !reachesWithout(fleetInStrategy, e, func(ssa.Instruction) bool { return false }) {
				continue
			}
			nExit++
			key := fmt.Sprintf("%s/may-exit#%d:%s", funcID(fn), ord, calleeName(e))
			ord++
			var after []string
			for _, d := range calls {
				if !callDisposes(d) {
					continue
				}
				if reachesWithout(e, d, func(ssa.Instruction) bool { return false }) {
					after = append(after, calleeName(d)+" at "+ck.P.instrPos(d))
				}
			}
			ck.cond(len(after) == 0, rule, key, ck.P.instrPos(e), funcID(fn), "no attach / terminate call follows a call that may end the process", "", "the process can exit while acquired instances are still to be submitted: "+strings.Join(after, ", "))
		}
		for _, d := range calls {
			if callDisposes(d) {
				nDisp++
			}
		}
	}
	ck.Stats[rule+" may-exit call sites on the fleet path"] = nExit
	ck.Stats[rule+" disposition call sites on the fleet path"] = nDisp
	ck.floor(rule, "disposition call sites on the fleet path", nDisp, 3)
}

// effSite is a write site as seen from the function that plays the structural role: the write call
// itself, or the call of a thin wrapper around it (then Ctx binds the wrapper's parameters to the
// arguments of that call, so the literal's fields read in the caller's vocabulary).
type effSite struct {
	Call    ssa.CallInstruction // in fn
	Ctx     *Ctx
	In      ssa.CallInstruction // the write call proper
	Wrapper *ssa.Function
}

// effSites lists the write sites of class as seen from fn; sites elsewhere are returned in stray.
func (ck *Check) effSites(class string, fn *ssa.Function) (sites []effSite, stray []Site) {
	ctx := ck.P.NewCtx(fn)
	for _, w := range ck.A.W {
		if w.Class != class {
			continue
		}
		if w.Fn == fn {
			sites = append(sites, effSite{Call: w.Call, Ctx: ctx, In: w.Call})
			continue
		}
		// in the body of a range-over-func loop of fn (go/ssa's yield closure), directly or through a thin wrapper
		if isYieldOf(w.Fn, fn) {
			if yc := ck.yieldCtx(ctx, w.Fn); yc != nil {
				sites = append(sites, effSite{Call: w.Call, Ctx: yc, In: w.Call})
				continue
			}
		}
		if c, ok := ck.A.thinWrapper(w); ok && isYieldOf(c, fn) {
			if yc := ck.yieldCtx(ctx, c); yc != nil {
				for _, ci := range callsTo(c, w.Fn) {
					call, isCall := ci.(*ssa.Call)
					if !isCall {
						continue
					}
					args := make([]*Term, len(call.Common().Args))
					for i, av := range call.Common().Args {
						args[i] = yc.Term(av)
					}
					ch := yc.child(w.Fn, call, args)
					ch.depth = 0
					sites = append(sites, effSite{Call: ci, Ctx: ch, In: w.Call, Wrapper: w.Fn})
				}
				continue
			}
		}
		if c, ok := ck.A.thinWrapper(w); ok && c == fn {
			for _, ci := range callsTo(fn, w.Fn) {
				call, isCall := ci.(*ssa.Call)
				if !isCall {
					continue
				}
				args := make([]*Term, len(call.Common().Args))
				for i, av := range call.Common().Args {
					args[i] = ctx.Term(av)
				}
				ch := ctx.child(w.Fn, call, args)
				ch.depth = 0
				sites = append(sites, effSite{Call: ci, Ctx: ch, In: w.Call, Wrapper: w.Fn})
			}
			continue
		}
		stray = append(stray, w)
	}
	return
}

// yieldCtx: the context of y, the body of a range-over-func loop of ctx's function: captured
// variables the body only reads are bound to their values at the loop, the loop variables stay
// the closure's parameters.
func (ck *Check) yieldCtx(ctx *Ctx, y *ssa.Function) *Ctx {
	var mc *ssa.MakeClosure
	for _, b := range ctx.fn.Blocks {
		for _, in := range b.Instrs {
			if m, ok := in.(*ssa.MakeClosure); ok && m.Fn == ssa.Value(y) {
				mc = m
			}
		}
	}
	if mc == nil {
		return nil
	}
	args := make([]*Term, len(y.Params))
	for i, prm := range y.Params {
		args[i] = paramTerm(prm)
	}
	var site ssa.CallInstruction
	if refs := mc.Referrers(); refs != nil {
		for _, r := range *refs {
			if ci, ok := r.(ssa.CallInstruction); ok {
				site = ci
			}
		}
	}
	if site == nil {
		return nil
	}
	ch := ctx.child(y, site, args)
	ch.depth = 0
	for i, fv := range y.FreeVars {
		if i >= len(mc.Bindings) {
			break
		}
		b := mc.Bindings[i]
		if al, ok := b.(*ssa.Alloc); ok {
			if !readOnlyFreeVar(y, fv) {
				continue
			}
			ch.bind[fv] = &Term{Kind: "unop", Name: "&", Args: []*Term{{Kind: "deref", Args: []*Term{ctx.Term(al)}}}}
			continue
		}
		ch.bind[fv] = ctx.Term(b)
	}
	return ch
}

// chunkIterOf: the body y of a range-over-func loop of fn iterates slices.Chunk(list, k): the
// loop variable takes consecutive sub-slices of at most k elements that partition list. Returns
// the list and k.
func chunkIterOf(fn, y *ssa.Function) (ssa.Value, int64, bool) {
	for _, b := range fn.Blocks {
		for _, in := range b.Instrs {
			c, ok := in.(*ssa.Call)
			if !ok || len(c.Common().Args) != 1 {
				continue
			}
			mc, ok := c.Common().Args[0].(*ssa.MakeClosure)
			if !ok || mc.Fn != ssa.Value(y) {
				continue
			}
			it, ok := c.Common().Value.(*ssa.Call)
			if !ok {
				return nil, 0, false
			}
			g := it.Common().StaticCallee()
			if g == nil || pkgPathOfFn(g) != "slices" || !strings.HasPrefix(g.Name(), "Chunk") || len(it.Common().Args) != 2 {
				return nil, 0, false
			}
			k, ok := it.Common().Args[1].(*ssa.Const)
			if !ok || k.Value == nil {
				return nil, 0, false
			}
			// the closure is used for nothing else
			if refs := mc.Referrers(); refs == nil || len(*refs) != 1 {
				return nil, 0, false
			}
			return it.Common().Args[0], k.Int64(), true
		}
	}
	return nil, 0, false
}

// wrapperFaithful: a thin wrapper with an error result returns the write's error unchanged (so the
// caller's error handling is the write's error handling).
func (ck *Check) wrapperFaithful(rule string, es effSite) {
	if es.Wrapper == nil {
		return
	}
	res := es.Wrapper.Signature.Results()
	if res.Len() == 0 {
		return
	}
	c, ok := es.In.(*ssa.Call)
	if !ok || !isErrorType(res.At(res.Len()-1).Type()) {
		return
	}
	ctx := ck.P.NewCtx(es.Wrapper)
	ct := ctx.Term(c)
	n := 1
	if tup, ok := c.Type().(*types.Tuple); ok {
		n = tup.Len()
	}
	okv := true
	for _, b := range es.Wrapper.Blocks {
		r, isRet := b.Instrs[len(b.Instrs)-1].(*ssa.Return)
		if !isRet || !(c.Block().Dominates(b)) {
			continue
		}
		rt := ctx.Term(r.Results[len(r.Results)-1])
		if !(rt.Key() == ct.Key() && n == 1) && !isExtractOf(rt, n-1, func(t *Term) bool { return t.Key() == ct.Key() }) {
			okv = false
		}
	}
	ck.cond(okv, rule, funcID(es.Wrapper)+"/error-returned", ck.P.instrPos(c), funcID(es.Wrapper), "the wrapper returns the write's error unchanged", "", "the failure of "+calleeName(c)+" is swallowed or replaced inside "+funcID(es.Wrapper))
}

// mapCollect: slice holds e(x) for every element x of a list L, in order, nothing else — built by
// one unconditional append per iteration of a full range over L starting empty, or by one
// unconditional indexed store per iteration into a make of len(L). Returns e(elem(L)) and L.
func (ck *Check) mapCollect(fn *ssa.Function, ctx *Ctx, slice ssa.Value) (*Term, *Term, bool) {
	pr := sliceProv(slice)
	uncond := func(l *Loop, in ssa.Instruction) bool {
		body := l.bodyPC(ctx)
		eq, _, _ := Equivalent(ctx.PC(in), body)
		return eq
	}
	if len(pr.Appends) == 1 && len(pr.Appends[0].Elems) == 1 {
		for _, r := range pr.Roots {
			if !makeSliceEmpty(r) {
				return nil, nil, false
			}
		}
		ap := pr.Appends[0]
		l := innermostLoop(fn, ap.Call.Block())
		if l == nil || !l.FullTraversal() || l.Over == nil || !uncond(l, ap.Call) {
			return nil, nil, false
		}
		return ctx.Term(ap.Elems[0]), ctx.Term(l.Over), true
	}
	if len(pr.Appends) == 0 && len(pr.Roots) == 1 {
		ms, ok := pr.Roots[0].(*ssa.MakeSlice)
		if !ok {
			return nil, nil, false
		}
		lc, isLen := isBuiltinCall(ms.Len, "len")
		if !isLen {
			return nil, nil, false
		}
		var elem *Term
		var over *Term
		stores := 0
		for _, r := range *ms.Referrers() {
			ia, ok := r.(*ssa.IndexAddr)
			if !ok {
				continue
			}
			for _, rr := range *ia.Referrers() {
				st, ok := rr.(*ssa.Store)
				if !ok || st.Addr != ssa.Value(ia) {
					continue
				}
				stores++
				l := innermostLoop(fn, st.Block())
				if l == nil || !l.FullTraversal() || l.Idx == nil || ia.Index != l.Idx || !uncond(l, st) {
					return nil, nil, false
				}
				if ctx.Term(l.Over).Key() != ctx.Term(lc.Common().Args[0]).Key() {
					return nil, nil, false
				}
				elem, over = ctx.Term(st.Val), ctx.Term(l.Over)
			}
		}
		if stores == 1 && elem != nil {
			return elem, over, true
		}
	}
	return nil, nil, false
}

// closureOfTerm: the MakeClosure instruction of fn behind a closure term.
func closureOfTerm(fn *ssa.Function, t *Term) *ssa.MakeClosure {
	if t == nil || t.Kind != "closure" {
		return nil
	}
	for _, b := range fn.Blocks {
		for _, in := range b.Instrs {
			if mc, ok := in.(*ssa.MakeClosure); ok {
				if f, _ := mc.Fn.(*ssa.Function); f != nil && f == t.Fn {
					return mc
				}
			}
		}
	}
	return nil
}

// closureResult: the boolean result of calling the closure made by mc with the given argument
// terms, in ctx's vocabulary: parameters bound to args, captured variables bound to the value they
// hold where the closure is made (read-only captures).
func closureResult(ctx *Ctx, mc *ssa.MakeClosure, args []*Term) *Formula {
	cf, _ := mc.Fn.(*ssa.Function)
	if cf == nil || cf.Blocks == nil || infoOf(cf).hasLoop || cf.Signature.Results().Len() != 1 || !isBool(cf.Signature.Results().At(0).Type()) {
		return nil
	}
	ch := ctx.child(cf, mc, args)
	ch.depth = 0
	pos := infoOf(ctx.fn).pos[mc]
	for i, fv := range cf.FreeVars {
		if i >= len(mc.Bindings) {
			return nil
		}
		b := mc.Bindings[i]
		if al, ok := b.(*ssa.Alloc); ok {
			if !readOnlyFreeVar(cf, fv) {
				return nil
			}
			var val *Term
			if ctx.fi.tracked[al] {
				val = ctx.memAt(al, nil, pos[0], pos[1], al.Type().(*types.Pointer).Elem())
			}
			if val == nil {
				val = &Term{Kind: "deref", Args: []*Term{ctx.Term(al)}}
			}
			ch.bind[fv] = &Term{Kind: "unop", Name: "&", Args: []*Term{val}}
			continue
		}
		ch.bind[fv] = ctx.Term(b)
	}
	return ch.returnFormula(0)
}

// peelLoop: `for rem := S; len(rem) > 0; { k := min(K, len(rem)); batch := rem[:k]; rem = rem[k:] … }`
// — every trip takes a non-empty prefix of at most K elements off the remaining slice; the
// batches partition S in order.
type peelLoop struct {
	Rem    *ssa.Phi
	Init   ssa.Value
	Batch  *ssa.Slice
	BatchV ssa.Value // the batch as a value: Batch, or result 0 of a split helper
	K      int64
}

// splitHelper: h(s, size) returns (s[:c], s[c:]) with c = min(size, len(s)), in one block. Returns
// the indices of the list and size parameters.
func splitHelper(ck *Check, h *ssa.Function) (int, int, bool) {
	if h == nil || h.Blocks == nil || len(h.Blocks) != 1 || h.Signature.Results().Len() != 2 {
		return 0, 0, false
	}
	r, ok := h.Blocks[0].Instrs[len(h.Blocks[0].Instrs)-1].(*ssa.Return)
	if !ok || len(r.Results) != 2 {
		return 0, 0, false
	}
	head, ok1 := r.Results[0].(*ssa.Slice)
	tail, ok2 := r.Results[1].(*ssa.Slice)
	if !ok1 || !ok2 || head.X != tail.X || head.Low != nil || head.High == nil || tail.Low != head.High || tail.High != nil {
		return 0, 0, false
	}
	sp, ok := head.X.(*ssa.Parameter)
	if !ok {
		return 0, 0, false
	}
	cut, ok := head.High.(*ssa.Call)
	if !ok || len(cut.Common().Args) != 2 {
		return 0, 0, false
	}
	isMin := false
	if b, ok := cut.Common().Value.(*ssa.Builtin); ok && b.Name() == "min" {
		isMin = true
	} else if f := cut.Common().StaticCallee(); f != nil && ck.isMinHelper(f) {
		isMin = true
	}
	if !isMin {
		return 0, 0, false
	}
	var kp *ssa.Parameter
	for i := 0; i < 2; i++ {
		p, isP := cut.Common().Args[i].(*ssa.Parameter)
		lc, isLen := isBuiltinCall(cut.Common().Args[1-i], "len")
		if isP && isLen && lc.Common().Args[0] == ssa.Value(sp) {
			kp = p
		}
	}
	if kp == nil {
		return 0, 0, false
	}
	si, ki := -1, -1
	for i, p := range h.Params {
		if p == sp {
			si = i
		}
		if p == kp {
			ki = i
		}
	}
	return si, ki, si >= 0 && ki >= 0
}

func peelLoopOf(ck *Check, l *Loop) *peelLoop {
	h := l.Header
	for _, in := range h.Instrs {
		ph, ok := in.(*ssa.Phi)
		if !ok {
			continue
		}
		if _, isSlice := ph.Type().Underlying().(*types.Slice); !isSlice {
			continue
		}
		pl := &peelLoop{Rem: ph}
		var rest *ssa.Slice
		var viaSplit *ssa.Call
		good := true
		for i, e := range ph.Edges {
			if !l.Blocks[h.Preds[i]] {
				if pl.Init != nil && pl.Init != e {
					good = false
				}
				pl.Init = e
				continue
			}
			// the rest may be result 1 of a split helper applied to the remaining slice
			if ex, ok := e.(*ssa.Extract); ok && ex.Index == 1 {
				if c, ok := ex.Tuple.(*ssa.Call); ok {
					if si, ki, isSplit := splitHelper(ck, c.Common().StaticCallee()); isSplit && si < len(c.Common().Args) && ki < len(c.Common().Args) && c.Common().Args[si] == ssa.Value(ph) {
						if k, isK := c.Common().Args[ki].(*ssa.Const); isK && k.Value != nil && k.Int64() >= 1 && (viaSplit == nil || viaSplit == c) {
							viaSplit = c
							pl.K = k.Int64()
							continue
						}
					}
				}
			}
			sl, ok := e.(*ssa.Slice)
			if !ok || sl.X != ssa.Value(ph) || sl.Low == nil || sl.High != nil || sl.Max != nil || (rest != nil && rest != sl) {
				good = false
				continue
			}
			rest = sl
		}
		if good && viaSplit != nil && rest == nil && pl.Init != nil {
			// header test and dominance as below
			br, ok := h.Instrs[len(h.Instrs)-1].(*ssa.If)
			if !ok {
				continue
			}
			bo, ok := br.Cond.(*ssa.BinOp)
			if !ok {
				continue
			}
			lc, isLen := isBuiltinCall(bo.X, "len")
			k0, isK0 := bo.Y.(*ssa.Const)
			stays := l.Blocks[h.Succs[0]] && !l.Blocks[h.Succs[1]]
			if !(isLen && lc.Common().Args[0] == ssa.Value(ph) && isK0 && k0.Int64() == 0 && stays && (bo.Op == token.GTR || bo.Op == token.NEQ)) {
				continue
			}
			okDom := true
			for _, p := range h.Preds {
				if l.Blocks[p] && !viaSplit.Block().Dominates(p) {
					okDom = false
				}
			}
			for _, r := range *viaSplit.Referrers() {
				if ex, ok := r.(*ssa.Extract); ok && ex.Index == 0 {
					pl.BatchV = ex
				}
			}
			if okDom && pl.BatchV != nil {
				return pl
			}
			continue
		}
		if !good || rest == nil || pl.Init == nil {
			continue
		}
		// the split point: min(K, len(rem)) through the builtin or a repo minimum helper
		split := rest.Low
		sc, ok := split.(*ssa.Call)
		if !ok || len(sc.Common().Args) != 2 {
			continue
		}
		isMin := false
		if b, ok := sc.Common().Value.(*ssa.Builtin); ok && b.Name() == "min" {
			isMin = true
		} else if f := sc.Common().StaticCallee(); f != nil && ck.isMinHelper(f) {
			isMin = true
		}
		if !isMin {
			continue
		}
		okArgs := false
		for i := 0; i < 2; i++ {
			k, isK := sc.Common().Args[i].(*ssa.Const)
			lc, isLen := isBuiltinCall(sc.Common().Args[1-i], "len")
			if isK && k.Value != nil && isLen && lc.Common().Args[0] == ssa.Value(ph) {
				pl.K = k.Int64()
				okArgs = true
			}
		}
		if !okArgs || pl.K < 1 {
			continue
		}
		// the loop goes on exactly while len(rem) > 0, tested in the header
		br, ok := h.Instrs[len(h.Instrs)-1].(*ssa.If)
		if !ok {
			continue
		}
		bo, ok := br.Cond.(*ssa.BinOp)
		if !ok {
			continue
		}
		lc, isLen := isBuiltinCall(bo.X, "len")
		k0, isK0 := bo.Y.(*ssa.Const)
		stays := l.Blocks[h.Succs[0]] && !l.Blocks[h.Succs[1]]
		if !(isLen && lc.Common().Args[0] == ssa.Value(ph) && isK0 && k0.Int64() == 0 && stays && (bo.Op == token.GTR || bo.Op == token.NEQ)) {
			continue
		}
		// batch = rem[:split], in the loop, before anything leaves it
		for b := range l.Blocks {
			for _, in2 := range b.Instrs {
				if sl, ok := in2.(*ssa.Slice); ok && sl.X == ssa.Value(ph) && sl.Low == nil && sl.High == split && sl.Max == nil {
					pl.Batch = sl
					pl.BatchV = sl
				}
			}
		}
		if pl.Batch == nil {
			continue
		}
		// every trip peels: the rest-slice is computed in a block that dominates all latches
		for _, p := range h.Preds {
			if l.Blocks[p] && !rest.Block().Dominates(p) {
				good = false
			}
		}
		if good {
			return pl
		}
	}
	return nil
}

// failStops: the write at call can fail; when it does, fn gives up and says so. On the CFG: the
// call's error is tested before anything else happens, and from the failure edge of that test
// every path reaches a return of a non-nil error — without another write of the class and
// without going round to the call again (the next element of a batch).
func (ck *Check) failStops(rule, key string, fn *ssa.Function, call *ssa.Call, class, what string) {
	required := "when " + what + " fails, " + fn.Name() + " issues no further call of the kind and returns a non-nil error"
	var errV ssa.Value
	if tup, ok := call.Type().(*types.Tuple); ok {
		for _, r := range *call.Referrers() {
			if ex, ok := r.(*ssa.Extract); ok && ex.Index == tup.Len()-1 && isErrorType(ex.Type()) {
				errV = ex
			}
		}
	} else if isErrorType(call.Type()) {
		errV = call
	}
	if errV == nil {
		ck.fail(rule, key, ck.P.instrPos(call), funcID(fn), required, "the error result is discarded", "a refused request is taken for an accepted one")
		return
	}
	// tests of the error
	type test struct {
		blk  *ssa.BasicBlock
		fail *ssa.BasicBlock
	}
	var tests []test
	isTest := map[*ssa.BasicBlock]bool{}
	for _, b := range fn.Blocks {
		br, ok := b.Instrs[len(b.Instrs)-1].(*ssa.If)
		if !ok {
			continue
		}
		bo, ok := br.Cond.(*ssa.BinOp)
		if !ok || (bo.Op != token.NEQ && bo.Op != token.EQL) {
			continue
		}
		var other ssa.Value
		switch {
		case bo.X == errV:
			other = bo.Y
		case bo.Y == errV:
			other = bo.X
		default:
			continue
		}
		if k, ok := other.(*ssa.Const); !ok || !k.IsNil() {
			continue
		}
		ft := b.Succs[0]
		if bo.Op == token.EQL {
			ft = b.Succs[1]
		}
		tests = append(tests, test{b, ft})
		isTest[b] = true
	}
	if len(tests) == 0 {
		ck.fail(rule, key, ck.P.instrPos(call), funcID(fn), required, "the error is never compared with nil", "a refused request is taken for an accepted one")
		return
	}
	isWrite := func(in ssa.Instruction) bool {
		if in == ssa.Instruction(call) {
			return true
		}
		for _, w := range ck.A.W {
			if w.Class == class && w.Call == in {
				return true
			}
		}
		if ci, ok := in.(ssa.CallInstruction); ok && ci.Common().StaticCallee() != nil && ci.Common().StaticCallee() == call.Common().StaticCallee() && ck.P.inRepo(call.Common().StaticCallee()) {
			return true // another call of the same wrapper
		}
		return false
	}
	var why []string
	// (a) nothing between the call and the test of its error: walking on from the call without
	// crossing a test reaches neither an exit nor another write
	{
		seen := map[*ssa.BasicBlock]bool{}
		var walk func(b *ssa.BasicBlock, from int)
		walk = func(b *ssa.BasicBlock, from int) {
			for _, in := range b.Instrs[from:] {
				if isWrite(in) && in != ssa.Instruction(call) {
					why = append(why, "another call is issued before the error is tested ("+ck.P.instrPos(in)+")")
					return
				}
				if in == ssa.Instruction(call) && from == 0 {
					why = append(why, "the call is repeated before its error is tested")
					return
				}
				if _, ok := in.(*ssa.Return); ok {
					why = append(why, "a return is reached before the error is tested ("+ck.P.instrPos(in)+")")
					return
				}
			}
			if isTest[b] {
				return
			}
			for _, s := range b.Succs {
				if !seen[s] {
					seen[s] = true
					walk(s, 0)
				}
			}
		}
		idx := 0
		for i, in := range call.Block().Instrs {
			if in == ssa.Instruction(call) {
				idx = i + 1
			}
		}
		walk(call.Block(), idx)
	}
	// (b) from the failure edge
	for _, t := range tests {
		seen := map[*ssa.BasicBlock]bool{}
		var walk func(b *ssa.BasicBlock)
		walk = func(b *ssa.BasicBlock) {
			if seen[b] {
				return
			}
			seen[b] = true
			for _, in := range b.Instrs {
				if isWrite(in) {
					why = append(why, "after the failure the loop goes on to the next call ("+ck.P.instrPos(in)+")")
					return
				}
				if r, ok := in.(*ssa.Return); ok {
					rv := r.Results[len(r.Results)-1]
					if !(rv == errV || errorConstructor(rv)) {
						why = append(why, "after the failure "+fn.Name()+" returns "+rv.String()+" ("+ck.P.instrPos(r)+")")
					}
					return
				}
			}
			for _, s := range b.Succs {
				walk(s)
			}
		}
		walk(t.fail)
	}
	sort.Strings(why)
	why = dedupStrings(why)
	ck.cond(len(why) == 0, rule, key, ck.P.instrPos(call), funcID(fn), required, fmt.Sprintf("%d test(s) of the error", len(tests)), strings.Join(why, "; "))
}

func dedupStrings(in []string) []string {
	var out []string
	for i, s := range in {
		if i == 0 || s != in[i-1] {
			out = append(out, s)
		}
	}
	return out
}

// idListIntegrity (C18.R7 / C17.R7): the partition argument of the attach step (R1: every id is in
// exactly one attach call or in the terminated complement) is about the list of acquired ids as
// acquired. It fails silently if some code compacts or overwrites that list in place while another
// part of the fleet path still reads it: ids vanish and others appear twice. Decided for every
// function of the AWS provider: an append into a *truncating* re-slice (x[:k], x[:0]) and an
// element store are writes into the backing array of x; they are allowed only when no alias of x
// (φ, re-slice) is read afterwards — in the writing function after the writing loop, and, when x
// is a parameter, in every caller after the call. Appends into x[k:] only write beyond the end and
// are not in-place writes.
func (ck *Check) idListIntegrity(rule string) {
	isIDList := func(t types.Type) bool {
		sl, ok := t.Underlying().(*types.Slice)
		if !ok {
			return false
		}
		et := sl.Elem()
		if pt, ok := et.Underlying().(*types.Pointer); ok {
			et = pt.Elem()
		}
		b, ok := et.Underlying().(*types.Basic)
		return ok && b.Kind() == types.String
	}
	aliasSet := func(v ssa.Value) map[ssa.Value]bool {
		set := map[ssa.Value]bool{}
		var add func(x ssa.Value)
		add = func(x ssa.Value) {
			if x == nil || set[x] {
				return
			}
			if _, isConst := x.(*ssa.Const); isConst {
				return
			}
			set[x] = true
			switch y := x.(type) {
			case *ssa.Phi:
				for _, e := range y.Edges {
					add(e)
				}
			case *ssa.Slice:
				add(y.X)
			}
			if refs := x.Referrers(); refs != nil {
				for _, r := range *refs {
					switch z := r.(type) {
					case *ssa.Phi:
						add(z)
					case *ssa.Slice:
						if z.X == x {
							add(z)
						}
					}
				}
			}
		}
		add(v)
		return set
	}
	// readsAfter: instructions that read an alias of v and can run after `after`, outside `skipLoop`
	readsAfter := func(fn *ssa.Function, set map[ssa.Value]bool, after ssa.Instruction, skipLoop *Loop) []ssa.Instruction {
		reach := map[*ssa.BasicBlock]bool{}
		var walk func(b *ssa.BasicBlock)
		walk = func(b *ssa.BasicBlock) {
			for _, s2 := range b.Succs {
				if !reach[s2] {
					reach[s2] = true
					walk(s2)
				}
			}
		}
		walk(after.Block())
		idxOf := func(in ssa.Instruction) int {
			for i, x := range in.Block().Instrs {
				if x == in {
					return i
				}
			}
			return -1
		}
		var out []ssa.Instruction
		seen := map[ssa.Instruction]bool{}
		for v := range set {
			refs := v.Referrers()
			if refs == nil {
				continue
			}
			for _, u := range *refs {
				if u == after || seen[u] {
					continue
				}
				switch x := u.(type) {
				case *ssa.Phi, *ssa.Slice, *ssa.DebugRef, *ssa.Return:
					continue
				case *ssa.Call:
					if b, ok := x.Common().Value.(*ssa.Builtin); ok && (b.Name() == "len" || b.Name() == "cap") {
						continue
					}
				}
				if skipLoop != nil && skipLoop.Blocks[u.Block()] {
					continue
				}
				if reach[u.Block()] || (u.Block() == after.Block() && idxOf(u) > idxOf(after)) {
					seen[u] = true
					out = append(out, u)
				}
			}
		}
		sort.Slice(out, func(i, j int) bool { return out[i].Pos() < out[j].Pos() })
		return out
	}
	// truncated: base reaches (through φ / re-slices) a re-slice with an upper bound; returns the
	// sliced value
	var truncated func(v ssa.Value, seen map[ssa.Value]bool) ssa.Value
	truncated = func(v ssa.Value, seen map[ssa.Value]bool) ssa.Value {
		if seen[v] {
			return nil
		}
		seen[v] = true
		switch x := v.(type) {
		case *ssa.Slice:
			if _, isAlloc := x.X.(*ssa.Alloc); isAlloc {
				return nil // a fresh array
			}
			if x.High != nil {
				return x.X
			}
			return truncated(x.X, seen)
		case *ssa.Phi:
			for _, e := range x.Edges {
				if r := truncated(e, seen); r != nil {
					return r
				}
			}
		}
		return nil
	}
	paramRoot := func(v ssa.Value) *ssa.Parameter {
		for x := range aliasSet(v) {
			if p, ok := x.(*ssa.Parameter); ok {
				return p
			}
		}
		return nil
	}
	nfn, nwrites, bad := 0, 0, 0
	for _, fn := range ck.P.Funcs {
		if pkgPathOfFn(fn) != pkgAWS {
			continue
		}
		nfn++
		for _, b := range fn.Blocks {
			for _, in := range b.Instrs {
				var target ssa.Value // the list written in place
				what := ""
				switch x := in.(type) {
				case *ssa.Call:
					if ap, ok := isBuiltinCall(x, "append"); ok && isIDList(ap.Type()) {
						if src := truncated(ap.Common().Args[0], map[ssa.Value]bool{}); src != nil {
							target, what = src, "append into a truncated re-slice of "+src.Name()
						}
					}
				case *ssa.Store:
					if ia, ok := x.Addr.(*ssa.IndexAddr); ok && isIDList(ia.X.Type()) {
						if _, fresh := ia.X.(*ssa.MakeSlice); !fresh {
							root := ia.X
							if sl, ok := root.(*ssa.Slice); ok {
								if _, isAlloc := sl.X.(*ssa.Alloc); isAlloc {
									continue
								}
							}
							if paramRoot(root) != nil {
								target, what = root, "element store into "+root.Name()
							}
						}
					}
				}
				if target == nil {
					continue
				}
				nwrites++
				key := fmt.Sprintf("%s/%s", funcID(fn), ck.P.siteKeyInstr(in))
				set := aliasSet(target)
				var offenders []string
				for _, u := range readsAfter(fn, set, in, innermostLoop(fn, in.Block())) {
					offenders = append(offenders, ck.P.instrPos(u))
				}
				if p := paramRoot(target); p != nil {
					idx := -1
					for i, q := range fn.Params {
						if q == p {
							idx = i
						}
					}
					for _, caller := range ck.P.callers[fn] {
						for _, ci := range callsTo(caller, fn) {
							if idx < 0 || idx >= len(ci.Common().Args) {
								continue
							}
							cin, ok := ci.(ssa.Instruction)
							if !ok {
								continue
							}
							for _, u := range readsAfter(caller, aliasSet(ci.Common().Args[idx]), cin, nil) {
								offenders = append(offenders, funcID(caller)+"@"+ck.P.instrPos(u))
							}
						}
					}
				}
				if len(offenders) > 0 {
					bad++
					if len(offenders) > 4 {
						offenders = append(offenders[:4], "…")
					}
					ck.fail(rule, key, ck.P.instrPos(in), funcID(fn), "an id list is written in place only when nothing reads the list (or a re-slice of it) afterwards", what+"; still read at "+strings.Join(offenders, ", "),
						"ids of acquired instances vanish from the list and others appear twice: some instances are neither attached nor submitted for termination, others both")
				}
			}
		}
	}
	ck.Stats[rule+" in-place id-list writes examined"] = nwrites
	if bad == 0 {
		ck.ok(rule, "id-lists/integrity", "", "", "an id list is written in place only when nothing reads the list (or a re-slice of it) afterwards", fmt.Sprintf("%d functions of the AWS provider, %d in-place writes examined", nfn, nwrites))
	}
	ck.floor(rule, "functions of the AWS provider examined", nfn, 20)
}

// attachStepSplit: the attach calls live in chunkFn, which has no terminate parameter: every error
// return of chunkFn hands back exactly the ids that were not attached, and its caller — the
// function the terminate function is passed to — terminates exactly those before it reports the
// error, terminates the whole input when it fails before calling chunkFn, and terminates nothing
// on success. Returns that caller (nil when the shape is not recognised).
func (ck *Check) attachStepSplit(chunkFn *ssa.Function, cl *chunkLoop) *ssa.Function {
	res := chunkFn.Signature.Results()
	ri, ei := -1, -1
	for i := 0; i < res.Len(); i++ {
		if _, ok := res.At(i).Type().Underlying().(*types.Slice); ok {
			ri = i
		}
		if isErrorType(res.At(i).Type()) {
			ei = i
		}
	}
	if ri < 0 || ei < 0 {
		return nil
	}
	var driver *ssa.Function
	var call *ssa.Call
	for _, c := range ck.P.callers[chunkFn] {
		sites := callsTo(c, chunkFn)
		if len(sites) != 1 || driver != nil {
			return nil
		}
		cc, ok := sites[0].(*ssa.Call)
		if !ok {
			return nil
		}
		driver, call = c, cc
	}
	if driver == nil {
		return nil
	}
	var termParam *ssa.Parameter
	for _, prm := range driver.Params {
		if _, ok := prm.Type().Underlying().(*types.Signature); ok {
			termParam = prm
		}
	}
	if termParam == nil {
		return nil
	}
	ctx := ck.P.NewCtx(chunkFn)
	attSites, _ := ck.effSites("W-ASG-ATT", chunkFn)
	// (1) what chunkFn hands back
	nerr, nok := 0, 0
	for _, b := range chunkFn.Blocks {
		r, ok := b.Instrs[len(b.Instrs)-1].(*ssa.Return)
		if !ok || b == chunkFn.Recover {
			continue
		}
		et := ctx.Term(r.Results[ei])
		key := fmt.Sprintf("%s/return@block%d", funcID(chunkFn), b.Index)
		if et.Kind == "const" && et.Name == "nil" {
			nok++
			continue
		}
		nerr++
		arg := r.Results[ri]
		var failed *ssa.Call
		for _, w := range attSites {
			if c, ok := w.Call.(*ssa.Call); ok && c.Block().Dominates(b) && c.Block() != b {
				if failed == nil || failed.Block().Dominates(c.Block()) {
					failed = c
				}
			}
		}
		var okv bool
		var want string
		switch {
		case failed == nil:
			want, okv = "the whole input (nothing attached yet)", arg == cl.Init
		case cl.loop.Blocks[failed.Block()]:
			want = "rest ∪ failed batch = append(s[k:], s[0:k]...) (or s itself)"
			if ap, isAp := isBuiltinCall(arg, "append"); isAp {
				x, y := ap.Common().Args[0], ap.Common().Args[1]
				okv = (x == ssa.Value(cl.Rest) && y == ssa.Value(cl.Batch)) || (x == ssa.Value(cl.Batch) && y == ssa.Value(cl.Rest))
			} else {
				okv = arg == ssa.Value(cl.S)
			}
		default:
			want, okv = "the remainder s", arg == ssa.Value(cl.S)
		}
		ck.cond(okv, "C18.R1", key+"/terminated-set", ck.P.instrPos(r), funcID(chunkFn), "the ids handed back with the error are exactly the ones not attached: "+want, ctx.Term(arg).String(), "some acquired instances are neither attached nor submitted for termination (or attached ones are terminated)")
	}
	ck.floor("C18.R1", "error exits of the attach step", nerr, 2)
	ck.floor("C18.R2", "success exits of the attach step", nok, 1)
	// (2) what the driver does with them
	spillCell := func(al *ssa.Alloc) bool {
		n, okv := 0, false
		for _, r := range *al.Referrers() {
			if st, ok := r.(*ssa.Store); ok && st.Addr == ssa.Value(al) {
				n++
				okv = st.Val == ssa.Value(termParam)
			}
		}
		return n == 1 && okv
	}
	isTerm := func(in ssa.Instruction) *ssa.Call {
		c, ok := in.(*ssa.Call)
		if !ok || len(c.Common().Args) != 2 {
			return nil
		}
		v := c.Common().Value
		if v == ssa.Value(termParam) {
			return c
		}
		if u, ok := v.(*ssa.UnOp); ok && u.Op == token.MUL {
			if al, ok := u.X.(*ssa.Alloc); ok && spillCell(al) {
				return c
			}
		}
		return nil
	}
	var errV, orphV ssa.Value
	for _, r := range *call.Referrers() {
		if ex, ok := r.(*ssa.Extract); ok {
			if ex.Index == ei {
				errV = ex
			}
			if ex.Index == ri {
				orphV = ex
			}
		}
	}
	dkey := funcID(driver)
	if errV == nil || orphV == nil {
		ck.fail("C18.R1", dkey+"/uses-results", ck.P.instrPos(call), funcID(driver), "the caller of "+chunkFn.Name()+" takes both the unattached ids and the error", "a result is dropped", "")
		return driver
	}
	// the list parameter of chunkFn is the driver's own input, unchanged
	var input ssa.Value
	for i, p := range chunkFn.Params {
		if ssa.Value(p) == cl.Init && i < len(call.Common().Args) {
			input = call.Common().Args[i]
		}
	}
	_, inputIsParam := input.(*ssa.Parameter)
	ck.cond(inputIsParam, "C18.R1", dkey+"/input", ck.P.instrPos(call), funcID(driver), chunkFn.Name()+" is handed the caller's own id list parameter", fmt.Sprint(input), "")
	dctx := ck.P.NewCtx(driver)
	nilT := &Term{Kind: "const", Name: "nil"}
	failedF := Not(cmpFormula(token.EQL, dctx.Term(errV), nilT))
	for _, b := range driver.Blocks {
		for _, at := range dctx.BlockPC(b).Atoms() {
			if at.Kind == "cmp" && at.Name == "==" && hasConstStr(at, "nil") {
				for _, x := range at.Args {
					if x.Key() == dctx.Term(errV).Key() {
						failedF = Not(Atom(at))
					}
				}
			}
		}
	}
	for _, b := range driver.Blocks {
		r, ok := b.Instrs[len(b.Instrs)-1].(*ssa.Return)
		if !ok || b == driver.Recover || len(r.Results) == 0 {
			continue
		}
		rt := dctx.Term(r.Results[len(r.Results)-1])
		isNil := rt.Kind == "const" && rt.Name == "nil"
		key := fmt.Sprintf("%s/return@block%d", dkey, b.Index)
		var tc *ssa.Call
		for _, in := range b.Instrs {
			if c := isTerm(in); c != nil {
				tc = c
			}
		}
		if isNil {
			clean := tc == nil
			for _, ob := range driver.Blocks {
				for _, in := range ob.Instrs {
					if c := isTerm(in); c != nil && reachesWithout(c, r, func(ssa.Instruction) bool { return false }) {
						clean = false
					}
				}
			}
			ck.cond(clean, "C18.R2", key, ck.P.instrPos(r), funcID(driver), "the success exit calls no terminate (attached ⊕ terminated)", "", "instances are both attached and terminated")
			// success only if the batches were attached
			if call.Block().Dominates(b) {
				ck.entails("C18.R5", key+"/reported", r, dctx.BlockPC(b), Not(failedF), "a nil error is returned only if "+chunkFn.Name()+" returned nil")
			}
			continue
		}
		if tc == nil {
			ck.fail("C18.R1", key, ck.P.instrPos(r), funcID(driver), "every error exit of the attach step first calls terminate", "no terminate call before this return", "acquired instances are neither attached nor terminated when this step fails")
			continue
		}
		arg := tc.Common().Args[1]
		if call.Block().Dominates(b) && call.Block() != b {
			okv := arg == orphV
			if imp, _, _ := Entails(dctx.BlockPC(b), failedF); !imp {
				okv = false
			}
			ck.cond(okv, "C18.R1", key+"/terminated-set", ck.P.instrPos(tc), funcID(driver), "after a failed "+chunkFn.Name()+" exactly the ids it handed back are terminated", dctx.Term(arg).String(), "some acquired instances are neither attached nor submitted for termination (or attached ones are terminated)")
		} else {
			ck.cond(arg == input, "C18.R1", key+"/terminated-set", ck.P.instrPos(tc), funcID(driver), "before anything was attached the whole input is terminated", dctx.Term(arg).String(), "some acquired instances are neither attached nor submitted for termination")
		}
	}
	return driver
}

// firstCall: the only element of sites as an ordinary call.
func firstCall(sites []ssa.CallInstruction) (*ssa.Call, bool) {
	if len(sites) != 1 {
		return nil, false
	}
	c, ok := sites[0].(*ssa.Call)
	return c, ok
}
