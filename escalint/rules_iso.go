package main

// rules_iso.go — C12 (node groups are isolated from each other).

import (
	"fmt"
	"go/token"
	"go/types"
	"sort"
	"strings"

	"golang.org/x/tools/go/ssa"
)

func init() {
	register(&propSpec{ID: "C12", Run: checkC12,
		Explanation: "State partition and wiring: in the group loop of RunOnce the state handed to the scan is the map entry under the same loop element's name; every cloud-group lookup uses the current group's own cloud_provider_group_name; each group's listers are built from that group's own options (label key/value; the default filter iff the name is \"default\") and stored under its own name; the NodeGroupState literal takes its lister from the entry of its own name; no function reachable from the scan body stores into a package variable, a Controller field or another group's state (store census: every store is rooted in a local, in the scanned group / its options / its provider object, or in a freshly fetched object); inside the group loop RunOnce returns only when the cloud group is missing or on *NodeNotInNodeGroup and never breaks; acted-on nodes come from the group's own lister (C09.R2).",
		RuleText:    "R1 loop wiring, R2 cloud lookups (4 sites), R3 lister wiring, R4 store census over scan-reachable functions, R5 containment, R6 targets, R7 the group filters' boolean functions (a pod / node is counted for the group iff it selects / carries the group's own label; the default group iff it selects nothing), R8 node emptiness is judged from the group's own pods",
		Assumptions: []string{"configuration aliasing (two groups with the same label or cloud group), metrics labels and the shared informer cache are not decided; the metamorphic 'same actions' reading follows from the partition only under determinism of the shared inputs"}})
}

func checkC12(ck *Check) {
	a := ck.A
	if !ck.need("C12.R1", map[string]interface{}{"RunOnce": a.RunOnce, "scan": a.Scan, "NewClient": a.NewClient, "NewController": a.NewController, "BuildNodeGroupsState": a.BuildState}) {
		return
	}
	fName := fieldByJSON(a.TOptions, "name")
	fCloud := fieldByJSON(a.TOptions, "cloud_provider_group_name")
	fGroups := field(a.TController, "nodeGroups")
	// R1 loop wiring
	{
		fn := a.RunOnce
		ctx := ck.P.NewCtx(fn)
		cs := callsTo(fn, a.Scan)
		loopAt := map[ssa.CallInstruction]ssa.CallInstruction{}
		if a.GroupStep != nil && a.GroupStep != a.RunOnce {
			// the per-group body in a helper: its parameters bound to what RunOnce hands it in the loop
			if via, ok := firstCall(callsTo(a.RunOnce, a.GroupStep)); ok {
				vargs := make([]*Term, len(via.Common().Args))
				for i, av := range via.Common().Args {
					vargs[i] = ctx.Term(av)
				}
				ctx = ctx.child(a.GroupStep, via, vargs)
				ctx.depth = 0
				cs = callsTo(a.GroupStep, a.Scan)
				for _, ci := range cs {
					loopAt[ci] = via
				}
			}
		}
		for _, ci := range cs {
			args := ci.Common().Args
			var nameT, stateT *Term
			for _, av := range args[1:] {
				t := ctx.Term(av)
				if a.isPtrTo(av.Type(), a.TState) {
					stateT = t
				} else {
					nameT = t
				}
			}
			okv := false
			why := ""
			if nameT != nil && stateT != nil && nameT.Kind == "field" && nameT.Obj == fName && stateT.Kind == "lookup" {
				m, k := stateT.Args[0], stateT.Args[1]
				okMap := m.Kind == "field" && m.Obj == fGroups
				okKey := k.Key() == nameT.Key()
				okLoop := false
				// the options value is the range element of c.Opts.NodeGroups
				at := ssa.CallInstruction(ci)
				if v, ok := loopAt[ci]; ok {
					at = v
				}
				l := innermostLoop(fn, at.Block())
				if l != nil && l.IdxPhi != nil {
					over := ck.P.NewCtx(fn).Term(l.Over)
					okLoop = over.Kind == "field" && over.Name == "NodeGroups"
					// the options the helper works on are the loop element itself
					if _, viaHelper := loopAt[ci]; viaHelper && okLoop {
						okLoop = nameT.Args[0].Kind == "elem" || (nameT.Args[0].Kind == "deref" || nameT.Args[0].Kind == "unop")
						if el := nameT.Args[0]; el.Kind == "elem" {
							okLoop = el.Args[0].Key() == over.Key()
						}
					}
				}
				okv = okMap && okKey && okLoop
				if !okv {
					why = fmt.Sprintf("state=%s name=%s (map ok %v, same key %v, loop over configured groups %v)", stateT, nameT, okMap, okKey, okLoop)
				}
			} else {
				why = fmt.Sprintf("state=%v name=%v", stateT, nameT)
			}
			ck.cond(okv, "C12.R1", ck.P.siteKey(ci)+"/wiring", ck.P.instrPos(ci), funcID(fn), "the scan gets c.nodeGroups[o.Name] and o.Name for the same loop element o of the configured groups", fmt.Sprint(stateT), why)
		}
		ck.floor("C12.R1", "scan calls in RunOnce", len(cs), 1)
		// nodeGroups map is read only here and written nowhere after construction
		for _, f2 := range ck.P.Funcs {
			for _, b := range f2.Blocks {
				for _, in := range b.Instrs {
					if mu, ok := in.(*ssa.MapUpdate); ok {
						if ld, ok := mu.Map.(*ssa.UnOp); ok && fieldOfAddr(ld.X) == fGroups {
							ck.fail("C12.R4", funcID(f2)+"/nodeGroups-update", ck.P.instrPos(mu), funcID(f2), "the per-group state map is not modified after construction", "", "group state can be replaced or aliased at run time")
						}
					}
				}
			}
		}
	}
	// R2 cloud lookups
	{
		n := 0
		for _, fn := range ck.P.Funcs {
			var ctx *Ctx
			for _, ci := range callsIn(fn, func(ci ssa.CallInstruction) bool {
				c := ci.Common()
				return c.IsInvoke() && c.Method.Name() == "GetNodeGroup" && a.IfaceCloudProvider != nil && types.Identical(c.Value.Type(), a.IfaceCloudProvider)
			}) {
				n++
				if ctx == nil {
					ctx = ck.P.NewCtx(fn)
				}
				arg := ctx.Term(ci.Common().Args[0])
				var judge func(fn *ssa.Function, blk *ssa.BasicBlock, arg *Term, depth int) (bool, string)
				judge = func(fn *ssa.Function, blk *ssa.BasicBlock, arg *Term, depth int) (bool, string) {
					// a name handed in by the callers: judged at every call site
					if prm, isParam := arg.Val.(*ssa.Parameter); isParam && arg.Kind == "param" && depth < 3 && prm.Parent() == fn {
						idx := -1
						for i, q := range fn.Params {
							if q == prm {
								idx = i
							}
						}
						sites := 0
						for _, cf := range ck.P.callers[fn] {
							cs := callsTo(cf, fn)
							if len(cs) == 0 {
								return false, "the name is a parameter of a function that is also entered dynamically"
							}
							cctx := ck.P.NewCtx(cf)
							for _, c := range cs {
								sites++
								if idx < 0 || idx >= len(c.Common().Args) {
									return false, "the looked-up name is not a cloud_provider_group_name option"
								}
								if okv, why := judge(cf, c.Block(), cctx.Term(c.Common().Args[idx]), depth+1); !okv {
									return false, why
								}
							}
						}
						if sites > 0 {
							return true, ""
						}
					}
					if !(arg.Kind == "field" && arg.Obj == fCloud) {
						return false, "the looked-up name is not a cloud_provider_group_name option"
					}
					// the option of an options value handed in by value (the per-group step of RunOnce):
					// judged where the value comes from
					if bp, isParam := arg.Args[0].Val.(*ssa.Parameter); isParam && arg.Args[0].Kind == "param" && bp.Parent() == fn && depth < 3 && ck.groupTerm(fn) == nil {
						idx := -1
						for i, q := range fn.Params {
							if q == bp {
								idx = i
							}
						}
						sites := 0
						for _, cf := range ck.P.callers[fn] {
							cs := callsTo(cf, fn)
							if len(cs) == 0 {
								return false, "the options are a parameter of a function that is also entered dynamically"
							}
							cctx := ck.P.NewCtx(cf)
							for _, c := range cs {
								sites++
								if idx < 0 || idx >= len(c.Common().Args) {
									return false, "the looked-up name is not a cloud_provider_group_name option"
								}
								ot := cctx.Term(c.Common().Args[idx])
								l := innermostLoop(cf, c.Block())
								if l == nil || l.IdxPhi == nil || ot.Kind != "elem" || ot.Args[0].Key() != cctx.Term(l.Over).Key() {
									return false, "the options handed in are not the loop element of the configured groups: " + ot.String()
								}
							}
						}
						if sites > 0 {
							return true, ""
						}
					}
					base := arg.Args[0]
					if g := ck.groupTerm(fn); g != nil && fn != a.RunOnce && fn != a.NewController {
						want := ck.optTerm(g, "cloud_provider_group_name")
						if want == nil || arg.Key() != want.Key() {
							return false, "not the scanned group's own options: " + base.String()
						}
						return true, ""
					}
					// loop element of the configured groups
					if l := innermostLoop(fn, blk); l == nil || l.IdxPhi == nil {
						return false, "lookup outside a loop over the configured groups"
					}
					return true, ""
				}
				okv, why := judge(fn, ci.Block(), arg, 0)
				ck.cond(okv, "C12.R2", ck.P.siteKey(ci), ck.P.instrPos(ci), funcID(fn), "the cloud group is looked up by the current group's own cloud_provider_group_name", arg.String(), why)
			}
		}
		ck.floor("C12.R2", "GetNodeGroup call sites", n, 2)
	}
	// R3 listers
	ck.listerWiring("C12.R3")
	// R4 store census
	ck.storeCensus("C12.R4")
	// R5 containment
	ck.loopContainment("C12.R5")
	ck.fatalErrorCreation("C12.R5")
	// a panic in one group's scan unwinds RunOnce: no later group is processed. The panic sites of
	// the scan-reachable code (decided as C20.R1/R2/R7/R8) are obligations of containment too.
	ck.relabel = func(r string) string {
		if strings.HasPrefix(r, "C20.") {
			return "C12.R5"
		}
		return r
	}
	ck.panicSites(func(int) string { return "C12.R5" }, ck.scanFunctions())
	ck.relabel = nil
	// R6
	ck.actionTargets("C12.R6")
	// R7 the per-group filters select exactly the group's own pods and nodes (decided as C14)
	ck.filterPredicates(func(int) string { return "C12.R7" })
	// R8 node emptiness (what the reapers act on) is judged from the scanned group's own pods only
	// (decided as C01.R6)
	ck.emptinessShape("C12.R8")
	// R9 the one condition that stops the scan for every group — a node that is not in its cloud
	// group — is judged against the group's whole instance list (decided as C19.R4): a member left out
	// of Nodes() turns an ordinary failure on it into the fatal one
	if a.AwsBelongs != nil && a.AwsNodes != nil {
		ck.belongsShape("C12.R9")
	}
	// R10 the other condition that ends RunOnce for every group — a configured group the provider
	// does not know — cannot arise from a refresh
	ck.registryOnlyGrows("C12.R10")
}

func (ck *Check) listerWiring(rule string) {
	a := ck.A
	sp := ck.P.SSAPkg[pkgController]
	fName := fieldByJSON(a.TOptions, "name")
	fKey, fVal := fieldByJSON(a.TOptions, "label_key"), fieldByJSON(a.TOptions, "label_value")
	newLister, newDefault := sp.Func("NewNodeGroupLister"), sp.Func("NewDefaultNodeGroupLister")
	if newLister == nil || newDefault == nil {
		ck.lost(rule, "lister constructors", "NewNodeGroupLister / NewDefaultNodeGroupLister")
		return
	}
	// NewClient
	{
		fn := a.NewClient
		n := 0
		for _, ctor := range []*ssa.Function{newLister, newDefault} {
			want := ctor
			// NewClient's extended body: the map may be filled by a helper NewClient calls; the
			// constructor may be called directly or picked first as a function value (a φ of the two)
			pickGuard := map[ssa.CallInstruction]*Formula{}
			sites := ck.bodyCalls(fn, func(ci ssa.CallInstruction) bool {
				if ci.Common().StaticCallee() == want {
					return true
				}
				if ci.Common().IsInvoke() || ci.Common().StaticCallee() != nil {
					return false
				}
				_, isPhi := ci.Common().Value.(*ssa.Phi)
				return isPhi
			})
			for _, bc := range sites {
				ci, ctx := bc.Call, bc.Ctx
				c, isCall := ci.(*ssa.Call)
				if !isCall {
					continue
				}
				if ci.Common().StaticCallee() != want {
					// a call through a picked constructor value: the cases under which it is this one
					g := FFalse
					for _, vc := range ck.valueCases(ctx, FTrue, ci.Common().Value, 0) {
						if vc.term.Kind == "func" && vc.term.Fn == want {
							g = Or(g, vc.guard)
						}
					}
					if g == FFalse {
						// the value can still be this constructor (e.g. a choice carried around the loop
						// from an earlier group): then nothing ties the choice to the group being built
						for _, fv := range ck.P.funcValuesOf(ci.Common().Value) {
							if fv == want {
								n++
								ck.fail(rule, ck.P.siteKey(ci)+"/"+want.Name()+"/default-choice", ck.P.instrPos(ci), funcID(bc.Fn), "the default filter is used iff the group is named \"default\"", "the constructor called is "+ci.Common().Value.String()+", which can be "+want.Name()+" under a condition that is not a test of this group's name",
									"a group is wired with the pod filter chosen for another group")
							}
						}
						continue
					}
					pickGuard[ci] = g
					bc.PC = And(bc.PC, g)
				}
				n++
				var optsT *Term
				for _, av := range c.Common().Args {
					if types.Identical(av.Type(), a.TOptions) {
						optsT = ctx.Term(av)
					}
				}
				key := ck.P.siteKey(ci)
				if pickGuard[ci] != nil {
					key += "/" + want.Name()
				}
				// stored under the same element's name
				stored := false
				var gotKey string
				noteStore := func(mu *ssa.MapUpdate) {
					kt := ctx.Term(mu.Key)
					gotKey = kt.String()
					if optsT != nil && kt.Kind == "field" && kt.Obj == fName && kt.Args[0].Key() == optsT.Key() {
						stored = true
					}
				}
				for _, r := range *c.Referrers() {
					if mu, ok := r.(*ssa.MapUpdate); ok && mu.Value == ssa.Value(c) {
						noteStore(mu)
					}
					// the store hoisted below the if / else that picks the constructor: the merged value
					if ph, ok := r.(*ssa.Phi); ok {
						for _, rr := range *ph.Referrers() {
							if mu, ok := rr.(*ssa.MapUpdate); ok && mu.Value == ssa.Value(ph) {
								noteStore(mu)
							}
						}
					}
				}
				okElem := optsT != nil && optsT.Kind == "elem"
				ck.cond(stored && okElem, rule, key+"/keyed", ck.P.instrPos(ci), funcID(fn), "Listers[o.Name] is built from o itself (loop element of the configured groups)", fmt.Sprintf("options %v stored under %s", optsT, gotKey), "a group's listers are built from another group's options")
				// choice by name == default
				if optsT != nil {
					isDef := cmpFormula(token.EQL, mkField(optsT, fName), &Term{Kind: "const", Name: `"default"`})
					want := isDef
					if ctor == newLister {
						want = Not(isDef)
					}
					ck.entails(rule, key+"/default-choice", ci, bc.PC, want, "the default filter is used iff the group is named \"default\"")
				}
			}
		}
		ck.floor(rule, "lister constructor calls in NewClient", n, 2)
	}
	// constructors: filters built from the group's own label
	for _, ctor := range []*ssa.Function{newLister, newDefault} {
		ctx := ck.P.NewCtx(ctor)
		var ng *ssa.Parameter
		for _, p := range ctor.Params {
			if types.Identical(p.Type(), a.TOptions) {
				ng = p
			}
		}
		if ng == nil {
			ck.lost(rule, funcID(ctor)+" options parameter", "none")
			continue
		}
		k, v := mkField(paramTerm(ng), fKey), mkField(paramTerm(ng), fVal)
		// the filters that end up in the listers — NewFilteredPodsLister(all, podFilter),
		// NewFilteredNodesLister(all, nodeFilter) in the constructor or a helper it shares with its
		// sibling (parameters bound) — are built from the group's own label pair
		nodeOK, podOK := false, false
		wired := 0
		_ = ctx
		for _, bc := range ck.bodyCalls(ctor, func(ci ssa.CallInstruction) bool {
			f := ci.Common().StaticCallee()
			return f != nil && (f.Name() == "NewFilteredPodsLister" || f.Name() == "NewFilteredNodesLister") && len(ci.Common().Args) == 2
		}) {
			f := bc.Call.Common().StaticCallee()
			arg := bc.Ctx.Term(bc.Call.Common().Args[1])
			if arg.Kind != "call" {
				continue
			}
			ownPair := len(arg.Args) == 2 && arg.Args[0].Key() == k.Key() && arg.Args[1].Key() == v.Key()
			switch {
			case f.Name() == "NewFilteredNodesLister" && strings.HasSuffix(arg.Name, "NewNodeLabelFilterFunc"):
				wired++
				nodeOK = nodeOK || ownPair
			case f.Name() == "NewFilteredPodsLister" && strings.HasSuffix(arg.Name, "NewPodAffinityFilterFunc"):
				wired++
				podOK = podOK || (ctor == newLister && ownPair)
			case f.Name() == "NewFilteredPodsLister" && strings.HasSuffix(arg.Name, "NewPodDefaultFilterFunc"):
				wired++
				podOK = podOK || ctor == newDefault
			}
		}
		ck.cond(nodeOK && podOK && wired == 2, rule, funcID(ctor)+"/filters", ck.P.position(ctor.Pos()), funcID(ctor), "node filter = label filter on the group's own (label_key, label_value); pod filter = affinity filter on the same pair (or the default filter)", fmt.Sprintf("node %v pod %v wired %d", nodeOK, podOK, wired), "a group lists another group's nodes or pods")
	}
	// NodeGroupState literals: NodeGroupLister ← client.Listers[o.Name], Opts ← o
	fLister := field(a.TState, "NodeGroupLister")
	fOpts := field(a.TState, "Opts")
	n := 0
	for _, root := range []*ssa.Function{a.NewController, a.BuildState} {
		{
			ck.bodyInstrs(root, func(ctx *Ctx, fn *ssa.Function, in ssa.Instruction) {
				st, ok := in.(*ssa.Store)
				if !ok || fieldOfAddr(st.Addr) != fLister {
					return
				}
				n++
				lt := ctx.Term(st.Val)
				// sibling Opts store on the same literal
				var optsT *Term
				base := st.Addr.(*ssa.FieldAddr).X
				for _, r := range *base.Referrers() {
					if fa, ok := r.(*ssa.FieldAddr); ok && fieldOfAddr(fa) == fOpts {
						for _, rr := range *fa.Referrers() {
							if s2, ok := rr.(*ssa.Store); ok && s2.Addr == ssa.Value(fa) {
								optsT = ctx.Term(s2.Val)
							}
						}
					}
				}
				optsT = spilledParamOrigin(ctx, optsT)
				okv := false
				if lt.Kind == "lookup" && optsT != nil {
					k := lt.Args[1]
					// the key is the Name component of the very value stored as Opts
					if optsT.Kind == "struct" {
						if st, ok := a.TOptions.Underlying().(*types.Struct); ok {
							for i := 0; i < st.NumFields() && i < len(optsT.Args); i++ {
								if st.Field(i) == fName && optsT.Args[i] != nil && optsT.Args[i].Key() == k.Key() {
									okv = true
								}
							}
						}
					} else if mkField(optsT, fName).Key() == k.Key() {
						okv = true
					}
				}
				if !okv && lt.Kind == "lookup" && optsT != nil {
					k := lt.Args[1]
					// key = <same options>.Name ; options may be deref(alloc) vs alloc
					if k.Kind == "field" && k.Obj == fName {
						kb := k.Args[0]
						ob := optsT
						if ob.Kind == "deref" {
							ob = ob.Args[0]
						}
						if kb.Kind == "unop" && kb.Name == "&" {
							kb = kb.Args[0]
						}
						okv = kb.Key() == ob.Key() || kb.Key() == optsT.Key()
					}
				}
				ck.cond(okv, rule, funcID(root)+"/state-lister", ck.P.instrPos(st), funcID(fn), "NodeGroupState{Opts: o, NodeGroupLister: client.Listers[o.Name]} with the same o", fmt.Sprintf("lister %s, opts %v", lt, optsT), "a group's state carries another group's listers")
			})
		}
	}
	ck.floor(rule, "NodeGroupState construction sites", n, 1)
}

// storeCensus (C12.R4)
func (ck *Check) storeCensus(rule string) {
	a := ck.A
	reach := ck.P.reachCut([]*ssa.Function{a.Scan}, nil)
	var fns []*ssa.Function
	for fn := range reach {
		fns = append(fns, fn)
	}
	sort.Slice(fns, func(i, j int) bool { return funcID(fns[i]) < funcID(fns[j]) })
	total, bad := 0, 0
	for _, fn := range fns {
		for _, b := range fn.Blocks {
			for _, in := range b.Instrs {
				var addr ssa.Value
				switch x := in.(type) {
				case *ssa.Store:
					addr = x.Addr
				case *ssa.MapUpdate:
					addr = x.Map
				default:
					continue
				}
				total++
				root, how := storeRoot(addr)
				okv := true
				why := ""
				switch r := root.(type) {
				case *ssa.Global:
					okv = false
					why = "store into package variable " + r.Name()
					if strings.HasSuffix(pkgPathOfFn(fn), "/pkg/metrics") {
						okv = true
					}
				case *ssa.Parameter:
					if a.isPtrTo(r.Type(), a.TController) {
						okv = false
						why = "store through the Controller (shared by all groups): " + how
					}
				case *ssa.FreeVar:
					// closures writing captured locals of their parent (checkThat-style): local
				}
				// … nor into an object all groups share that a group's own object points to: the cloud
				// provider behind every cloud node group (n.provider.<field>)
				if okv {
					for v, steps := addr, 0; steps < 50; steps++ {
						var base ssa.Value
						switch x := v.(type) {
						case *ssa.FieldAddr:
							base = x.X
						case *ssa.IndexAddr:
							base = x.X
						case *ssa.UnOp:
							if x.Op == token.MUL {
								base = x.X
							}
						}
						if base == nil {
							break
						}
						if fa, isFA := v.(*ssa.FieldAddr); isFA && a.IfaceCloudProvider != nil {
							if pt, isPtr := fa.X.Type().Underlying().(*types.Pointer); isPtr {
								if types.Implements(fa.X.Type(), a.IfaceCloudProvider.Underlying().(*types.Interface)) {
									okv = false
									why = "store into the cloud provider object shared by all groups (" + typeName(pt.Elem()) + "." + fieldOfAddr(fa).Name() + ")"
								}
							}
						}
						v = base
					}
				}
				if !okv {
					bad++
					ck.fail(rule, fmt.Sprintf("%s/%s", funcID(fn), ck.P.siteKeyInstr(in)), ck.P.instrPos(in), funcID(fn), "code reachable from the scan body stores only into locals, the scanned group's state / options / provider object, or freshly fetched objects", how, why)
				}
			}
		}
	}
	ck.Stats[rule+" stores examined"] = total
	if bad == 0 {
		ck.ok(rule, "scan/store-census", "", funcID(a.Scan), "no store reachable from the scan body targets a package variable or a Controller field", fmt.Sprintf("%d stores in %d functions examined", total, len(fns)))
	}
	ck.floor(rule, "stores examined", total, 40)
	// the scan body itself stores group state only through its own group parameter
	{
		fn := a.Scan
		ctx := ck.P.NewCtx(fn)
		g := ck.groupTerm(fn)
		for _, b := range fn.Blocks {
			for _, in := range b.Instrs {
				st, ok := in.(*ssa.Store)
				if !ok {
					continue
				}
				f := fieldOfAddr(st.Addr)
				if f == nil {
					continue
				}
				stT := a.TState.Underlying().(*types.Struct)
				isStateField := false
				for i := 0; i < stT.NumFields(); i++ {
					if stT.Field(i) == f {
						isStateField = true
					}
				}
				if !isStateField {
					continue
				}
				base := ctx.Term(st.Addr.(*ssa.FieldAddr).X)
				ck.cond(g != nil && base.Key() == g.Key(), rule, fmt.Sprintf("%s/state-store:%s", funcID(fn), f.Name()), ck.P.instrPos(st), funcID(fn), "group state is written through the scanned group only", base.String(), "")
			}
		}
	}
}

// storeRoot walks an address back to what it is rooted in.
func storeRoot(addr ssa.Value) (ssa.Value, string) {
	var path []string
	for i := 0; i < 50; i++ {
		switch x := addr.(type) {
		case *ssa.FieldAddr:
			path = append([]string{fieldOfAddr(x).Name()}, path...)
			addr = x.X
		case *ssa.IndexAddr:
			path = append([]string{"[]"}, path...)
			addr = x.X
		case *ssa.UnOp:
			if x.Op == token.MUL {
				addr = x.X
				continue
			}
			return x, strings.Join(path, ".")
		case *ssa.Field:
			path = append([]string{x.X.Type().Underlying().(*types.Struct).Field(x.Field).Name()}, path...)
			addr = x.X
		default:
			return addr, fmt.Sprintf("%s.%s", addr.Name(), strings.Join(path, "."))
		}
	}
	return addr, strings.Join(path, ".")
}

// loopContainment (C12.R5 / C20.R6)
func (ck *Check) loopContainment(rule string) {
	a := ck.A
	fn := a.RunOnce
	ctx := ck.P.NewCtx(fn)
	if a.GroupStep != nil && a.GroupStep != a.RunOnce {
		ck.loopContainmentSplit(rule)
		return
	}
	cs := callsTo(fn, a.Scan)
	if len(cs) != 1 {
		ck.fail(rule, funcID(fn)+"/scan-call", "", funcID(fn), "one scan call in the group loop", fmt.Sprint(len(cs)), "")
		return
	}
	loop := innermostLoop(fn, cs[0].Block())
	if loop == nil {
		ck.fail(rule, funcID(fn)+"/group-loop", "", funcID(fn), "the scan is called in a loop over the configured groups", "", "")
		return
	}
	scanT := ctx.Term(cs[0].(*ssa.Call))
	scanErr := &Term{Kind: "extract", Name: "1", Args: []*Term{scanT}}
	for _, e := range loop.Exits {
		if loop.exhaustionExit(e[0]) {
			continue
		}
		key := fmt.Sprintf("%s/loop-exit@block%d", funcID(fn), e[0].Index)
		pc := And(ctx.BlockPC(e[0]), ctx.edgeCond(e[0], e[1]))
		// allowed: ¬ok of the cloud-group lookup, or the scan error's dynamic type is *NodeNotInNodeGroup
		allowed := FFalse
		for _, at := range pc.Atoms() {
			if at.Kind == "extract" && at.Name == "1" && at.Args[0].Kind == "invoke" && at.Args[0].Name == "GetNodeGroup" {
				allowed = Or(allowed, Not(Atom(at)))
			}
			if at.Kind == "extract" && at.Name == "1" && at.Args[0].Kind == "typeassert" && strings.HasSuffix(at.Args[0].Name, "NodeNotInNodeGroup") && at.Args[0].Args[0].Key() == scanErr.Key() {
				allowed = Or(allowed, Atom(at))
			}
		}
		_, isRet := e[1].Instrs[len(e[1].Instrs)-1].(*ssa.Return)
		okv := false
		why := "the loop over the groups is left by something other than a return"
		if isRet || len(e[1].Succs) == 0 {
			var err error
			okv, why, err = Entails(pc, allowed)
			if err != nil {
				okv, why = false, err.Error()
			}
		} else {
			// a break
			okv = false
		}
		ck.cond(okv, rule, key, ck.P.instrPos(e[0].Instrs[len(e[0].Instrs)-1]), funcID(fn), "inside the group loop RunOnce stops only when the cloud group is missing or on *NodeNotInNodeGroup; any other error goes on to the next group", pc.String(), "a failure in one group stops the processing of later groups: "+why)
	}
}

// loopContainmentSplit: the per-group body lives in a helper h that RunOnce calls in its group loop.
// In RunOnce the loop is left (by a return) only when h reported an error; h reports an error only
// when the cloud group is missing or the scan's error is *NodeNotInNodeGroup.
func (ck *Check) loopContainmentSplit(rule string) {
	a := ck.A
	fn, h := a.RunOnce, a.GroupStep
	ctx := ck.P.NewCtx(fn)
	via, ok := firstCall(callsTo(fn, h))
	if !ok {
		ck.fail(rule, funcID(fn)+"/scan-call", "", funcID(fn), "one call of the per-group step in the group loop", "", "")
		return
	}
	loop := innermostLoop(fn, via.Block())
	if loop == nil {
		ck.fail(rule, funcID(fn)+"/group-loop", "", funcID(fn), "the scan is called in a loop over the configured groups", "", "")
		return
	}
	vt := ctx.Term(via)
	herr := vt
	if tup, isTup := via.Type().(*types.Tuple); isTup {
		herr = &Term{Kind: "extract", Name: fmt.Sprint(tup.Len() - 1), Args: []*Term{vt}}
	}
	failed := Not(cmpFormula(token.EQL, herr, &Term{Kind: "const", Name: "nil"}))
	for _, e := range loop.Exits {
		if loop.exhaustionExit(e[0]) {
			continue
		}
		key := fmt.Sprintf("%s/loop-exit@block%d", funcID(fn), e[0].Index)
		pc := And(ctx.BlockPC(e[0]), ctx.edgeCond(e[0], e[1]))
		_, isRet := e[1].Instrs[len(e[1].Instrs)-1].(*ssa.Return)
		okv, why := false, "the loop over the groups is left by something other than a return"
		if isRet || len(e[1].Succs) == 0 {
			var err error
			okv, why, err = Entails(pc, failed)
			if err != nil {
				okv, why = false, err.Error()
			}
		}
		ck.cond(okv, rule, key, ck.P.instrPos(e[0].Instrs[len(e[0].Instrs)-1]), funcID(fn), "inside the group loop RunOnce stops only when the per-group step reports an error", pc.String(), "a failure in one group stops the processing of later groups: "+why)
	}
	// the per-group step reports an error only for the two documented conditions
	hctx := ck.P.NewCtx(h)
	cs := callsTo(h, a.Scan)
	if len(cs) != 1 {
		ck.fail(rule, funcID(h)+"/scan-call", "", funcID(h), "one scan call in the per-group step", fmt.Sprint(len(cs)), "")
		return
	}
	scanT := hctx.Term(cs[0].(*ssa.Call))
	scanErr := &Term{Kind: "extract", Name: "1", Args: []*Term{scanT}}
	for _, b := range h.Blocks {
		r, isRet := b.Instrs[len(b.Instrs)-1].(*ssa.Return)
		if !isRet || len(r.Results) == 0 {
			continue
		}
		if k, isK := r.Results[len(r.Results)-1].(*ssa.Const); isK && k.IsNil() {
			continue
		}
		pc := hctx.BlockPC(b)
		allowed := FFalse
		for _, at := range pc.Atoms() {
			if at.Kind == "extract" && at.Name == "1" && at.Args[0].Kind == "invoke" && at.Args[0].Name == "GetNodeGroup" {
				allowed = Or(allowed, Not(Atom(at)))
			}
			if at.Kind == "extract" && at.Name == "1" && at.Args[0].Kind == "typeassert" && strings.HasSuffix(at.Args[0].Name, "NodeNotInNodeGroup") && at.Args[0].Args[0].Key() == scanErr.Key() {
				allowed = Or(allowed, Atom(at))
			}
		}
		okv, why, err := Entails(pc, allowed)
		if err != nil {
			okv, why = false, err.Error()
		}
		ck.cond(okv, rule, fmt.Sprintf("%s/return@block%d", funcID(h), b.Index), ck.P.instrPos(r), funcID(h), "the per-group step reports an error only when the cloud group is missing or on *NodeNotInNodeGroup; any other error goes on to the next group", pc.String(), "a failure in one group stops the processing of later groups: "+why)
	}
	if len(loopsOf(h)) != 0 {
		ck.fail(rule, funcID(h)+"/loops", "", funcID(h), "the per-group step handles one group (no loop of its own around the scan)", "", "")
	}
}

// spilledParamOrigin: a load of a local that only ever holds a by-value parameter (the compiler's
// spill of a parameter whose address is taken) stands for the argument the parameter is bound to.
func spilledParamOrigin(ctx *Ctx, t *Term) *Term {
	for i := 0; i < 4 && t != nil && t.Kind == "deref" && len(t.Args) == 1 && t.Args[0].Kind == "alloc"; i++ {
		al, ok := t.Args[0].Val.(*ssa.Alloc)
		if !ok {
			break
		}
		var src ssa.Value
		n := 0
		for _, r := range *al.Referrers() {
			if st, ok := r.(*ssa.Store); ok && st.Addr == ssa.Value(al) {
				n++
				src = st.Val
			}
		}
		prm, isParam := src.(*ssa.Parameter)
		if n != 1 || !isParam {
			break
		}
		b, bound := ctx.bind[prm]
		if !bound {
			break
		}
		t = b
	}
	return t
}
