package main

// term.go — E4: canonical symbolic terms for SSA values, a demand-driven memory model for
// non-escaping local structs (parameter copies, composite literals), stability of heap field
// loads (identity tags when the enclosing scope may mutate the field), inlining of small
// repo helpers, and E3 (first half): path conditions of blocks / instructions as Formulas.

import (
	"fmt"
	"go/constant"
	"go/token"
	"go/types"
	"sort"
	"strconv"
	"strings"

	"golang.org/x/tools/go/ssa"
)

// Term is a canonical symbolic value.
type Term struct {
	Kind string // const zero param freevar global call invoke field deref elem index key val cmp binop unop len cap phi extract slice struct conv lookup closure opaque builtin typeassert func memphi alloc
	Name string
	Args []*Term
	Obj  types.Object  // callee / field / global
	Fn   *ssa.Function // repo callee / closure body
	Val  ssa.Value     // originating value (outermost), may be nil
	Typ  types.Type
	ID   string // identity tag: distinguishes otherwise equal-looking but possibly different values
	C    *Ctx   // owning context (φ terms), for case splitting
	key  string
	str  string
}

func (t *Term) Key() string {
	if t.key == "" {
		t.render()
	}
	return t.key
}

func (t *Term) String() string {
	if t.str == "" {
		t.render()
	}
	return t.str
}

func (t *Term) render() {
	args := make([]string, len(t.Args))
	kargs := make([]string, len(t.Args))
	for i, a := range t.Args {
		if a == nil {
			args[i], kargs[i] = "_", "_"
			continue
		}
		args[i], kargs[i] = a.String(), a.Key()
	}
	var s, k string
	mk := func(f func(a []string) string) { s, k = f(args), f(kargs) }
	switch t.Kind {
	case "const", "zero", "param", "freevar", "global", "func", "builtin", "opaque", "alloc":
		s = t.Name
		k = t.Kind + ":" + t.Name
	case "field":
		mk(func(a []string) string { return a[0] + "." + t.Name })
	case "deref":
		mk(func(a []string) string { return "*" + a[0] })
	case "call":
		mk(func(a []string) string { return t.Name + "(" + strings.Join(a, ", ") + ")" })
	case "invoke":
		mk(func(a []string) string { return a[0] + "." + t.Name + "(" + strings.Join(a[1:], ", ") + ")" })
	case "elem", "key", "val":
		mk(func(a []string) string { return t.Kind + "(" + a[0] + ")" })
	case "index", "lookup":
		mk(func(a []string) string { return a[0] + "[" + a[1] + "]" })
	case "cmp", "binop":
		mk(func(a []string) string { return "(" + a[0] + " " + t.Name + " " + a[1] + ")" })
	case "unop":
		mk(func(a []string) string { return t.Name + a[0] })
	case "len", "cap":
		mk(func(a []string) string { return t.Kind + "(" + a[0] + ")" })
	case "extract":
		mk(func(a []string) string { return a[0] + ".#" + t.Name })
	case "slice":
		mk(func(a []string) string { return a[0] + "[" + a[1] + ":" + a[2] + ":" + a[3] + "]" })
	case "conv":
		mk(func(a []string) string { return t.Name + "(" + a[0] + ")" })
	case "typeassert":
		mk(func(a []string) string { return a[0] + ".(" + t.Name + ")" })
	case "struct":
		mk(func(a []string) string { return t.Name + "{" + strings.Join(a, ", ") + "}" })
	case "phi", "memphi", "closure":
		s = t.Kind + "<" + t.Name + ">"
		k = s
	default:
		mk(func(a []string) string { return t.Kind + ":" + t.Name + "(" + strings.Join(a, ", ") + ")" })
	}
	if t.ID != "" {
		k += "@" + t.ID
		s += "@" + shortID(t.ID)
	}
	t.str, t.key = s, k
}

func shortID(id string) string {
	if i := strings.LastIndex(id, "/"); i >= 0 {
		id = id[i+1:]
	}
	if i := strings.LastIndex(id, "."); i >= 0 && strings.Contains(id, ":") {
		return id[strings.LastIndex(id, ":")+1:]
	}
	return id
}

// isConstInt returns the integer value of a const term.
func (t *Term) isConstInt() (int64, bool) {
	if t.Kind == "const" {
		if c, ok := t.Val.(*ssa.Const); ok && c.Value != nil && c.Value.Kind() == constant.Int {
			v, exact := constant.Int64Val(c.Value)
			return v, exact
		}
		// synthetic integer constants (the implicit 0 of s[:k], intConstTerm)
		if t.Val == nil {
			if v, err := strconv.ParseInt(t.Name, 10, 64); err == nil {
				return v, true
			}
		}
	}
	return 0, false
}

// ---- per-function structure -------------------------------------------------------------

type funcInfo struct {
	fn       *ssa.Function
	backEdge map[[2]int]bool // pred index -> succ index
	headers  map[int]bool
	hasLoop  bool
	tracked  map[*ssa.Alloc]bool
	escPaths map[*ssa.Alloc][][]int     // field paths of a tracked alloc whose address escapes (callee may write them)
	pos      map[ssa.Instruction][2]int // block index, instr index
	ninstr   int
}

var finfoCache = map[*ssa.Function]*funcInfo{}

func infoOf(fn *ssa.Function) *funcInfo {
	if fi, ok := finfoCache[fn]; ok {
		return fi
	}
	fi := &funcInfo{fn: fn, backEdge: map[[2]int]bool{}, headers: map[int]bool{}, tracked: map[*ssa.Alloc]bool{}, escPaths: map[*ssa.Alloc][][]int{}, pos: map[ssa.Instruction][2]int{}}
	for _, b := range fn.Blocks {
		for i, in := range b.Instrs {
			fi.pos[in] = [2]int{b.Index, i}
			fi.ninstr++
		}
		for _, s := range b.Succs {
			if s.Dominates(b) {
				fi.backEdge[[2]int{b.Index, s.Index}] = true
				fi.headers[s.Index] = true
				fi.hasLoop = true
			}
		}
	}
	for _, b := range fn.Blocks {
		for _, in := range b.Instrs {
			if a, ok := in.(*ssa.Alloc); ok {
				if addrConfined(a, a) {
					fi.tracked[a] = true
				} else if esc, okRoot := escapePaths(a, a, nil); okRoot && len(esc) > 0 {
					// only addresses of some fields escape (&x.f handed to a callee): the other fields
					// of the local stay under the function's own control
					fi.tracked[a] = true
					fi.escPaths[a] = esc
				}
			}
		}
	}
	finfoCache[fn] = fi
	return fi
}

// readOnlyHook: set once the effect summaries exist: f stores nothing non-local, directly or
// through its callees, so handing it an address does not change what the address points to.
var readOnlyHook func(f *ssa.Function) bool

// handedToReadOnly: instruction r passes v to a statically known read-only repo function only.
func handedToReadOnly(r ssa.Instruction, v ssa.Value) bool {
	ci, ok := r.(ssa.CallInstruction)
	if !ok || readOnlyHook == nil {
		return false
	}
	if _, isGo := r.(*ssa.Go); isGo {
		return false
	}
	if _, isDefer := r.(*ssa.Defer); isDefer {
		return false
	}
	f := ci.Common().StaticCallee()
	if f == nil || ci.Common().Value == v {
		return false
	}
	return readOnlyHook(f)
}

// addrConfined: the address v (rooted at alloc) is only used for field addressing, loads and
// stores *to* it — it never escapes as a value.
func addrConfined(v ssa.Value, root *ssa.Alloc) bool {
	refs := v.Referrers()
	if refs == nil {
		return false
	}
	for _, r := range *refs {
		switch x := r.(type) {
		case *ssa.FieldAddr:
			if !addrConfined(x, root) {
				return false
			}
		case *ssa.UnOp:
			if x.Op != token.MUL {
				return false
			}
		case *ssa.Store:
			if x.Val == v {
				return false
			}
		case *ssa.DebugRef:
		case *ssa.MakeClosure:
			// captured by a closure that only reads it: still confined
			cf, _ := x.Fn.(*ssa.Function)
			if cf == nil || v != ssa.Value(root) {
				return false
			}
			for i, bnd := range x.Bindings {
				if bnd == v && i < len(cf.FreeVars) && !readOnlyFreeVar(cf, cf.FreeVars[i]) {
					return false
				}
			}
		default:
			if handedToReadOnly(r, v) {
				continue
			}
			return false
		}
	}
	return true
}

// escapePaths: like addrConfined, but collecting the field paths (from root) at which the address
// escapes instead of giving up; ok is false when the root address itself escapes.
func escapePaths(v ssa.Value, root *ssa.Alloc, path []int) ([][]int, bool) {
	refs := v.Referrers()
	if refs == nil {
		return nil, false
	}
	var out [][]int
	escapeHere := func() bool {
		if len(path) == 0 {
			return false
		}
		out = append(out, append([]int{}, path...))
		return true
	}
	for _, r := range *refs {
		switch x := r.(type) {
		case *ssa.FieldAddr:
			sub, ok := escapePaths(x, root, append(append([]int{}, path...), x.Field))
			if !ok {
				return nil, false
			}
			out = append(out, sub...)
		case *ssa.UnOp:
			if x.Op != token.MUL {
				if !escapeHere() {
					return nil, false
				}
			}
		case *ssa.Store:
			if x.Val == v {
				if !escapeHere() {
					return nil, false
				}
			}
		case *ssa.DebugRef:
		default:
			if handedToReadOnly(r, v) {
				continue
			}
			// handed to a repo method that writes some of its fields and nothing else (a collector's
			// `add`): only those fields become opaque, the others keep what was stored into them
			if fields, ok := handedToFieldWriter(r, v); ok {
				for _, f := range fields {
					out = append(out, append(append([]int{}, path...), f))
				}
				continue
			}
			if !escapeHere() {
				return nil, false
			}
		}
	}
	return out, true
}

// handedToFieldWriter: instruction r is a static call of a repo function that receives the
// address v as one argument and uses the corresponding parameter only to read fields and to store
// into some of them (the parameter is not passed on, stored, or written as a whole). Returns the
// indices of the fields it may store into.
func handedToFieldWriter(r ssa.Instruction, v ssa.Value) ([]int, bool) {
	call, ok := r.(*ssa.Call)
	if !ok {
		return nil, false
	}
	g := call.Common().StaticCallee()
	if g == nil || g.Blocks == nil || call.Common().Value == v || g.Pkg == nil {
		return nil, false
	}
	idx := -1
	for i, av := range call.Common().Args {
		if av == v {
			if idx >= 0 {
				return nil, false
			}
			idx = i
		}
	}
	if idx < 0 || idx >= len(g.Params) {
		return nil, false
	}
	prm := g.Params[idx]
	refs := prm.Referrers()
	if refs == nil {
		return nil, true
	}
	written := map[int]bool{}
	for _, u := range *refs {
		switch x := u.(type) {
		case *ssa.DebugRef:
		case *ssa.FieldAddr:
			frefs := x.Referrers()
			if frefs == nil {
				continue
			}
			for _, fu := range *frefs {
				switch y := fu.(type) {
				case *ssa.DebugRef:
				case *ssa.UnOp:
					if y.Op != token.MUL {
						return nil, false
					}
				case *ssa.Store:
					if y.Addr != ssa.Value(x) {
						return nil, false
					}
					// a collector: what it writes is a list it appends to (a lazily filled cache field is
					// left to the rules that verify the accessors)
					if _, isSlice := y.Val.Type().Underlying().(*types.Slice); !isSlice {
						return nil, false
					}
					written[x.Field] = true
				default:
					return nil, false
				}
			}
		default:
			return nil, false
		}
	}
	var out []int
	for f := range written {
		out = append(out, f)
	}
	sort.Ints(out)
	return out, true
}

// readOnlyFreeVar: the closure never stores through the captured variable and does not pass its
// address on.
func readOnlyFreeVar(cf *ssa.Function, fv *ssa.FreeVar) bool {
	var ok func(v ssa.Value) bool
	ok = func(v ssa.Value) bool {
		refs := v.Referrers()
		if refs == nil {
			return true
		}
		for _, r := range *refs {
			switch x := r.(type) {
			case *ssa.FieldAddr:
				if !ok(x) {
					return false
				}
			case *ssa.IndexAddr:
				// indexing the loaded slice happens on the loaded value, not on the address
				return false
			case *ssa.UnOp:
				if x.Op != token.MUL {
					return false
				}
			case *ssa.Store:
				return false
			case *ssa.DebugRef:
			default:
				return false
			}
		}
		return true
	}
	return ok(fv)
}

// allocPath decomposes an address into (tracked alloc, field index path).
func (fi *funcInfo) allocPath(addr ssa.Value) (*ssa.Alloc, []int, bool) {
	var path []int
	for {
		switch x := addr.(type) {
		case *ssa.FieldAddr:
			path = append([]int{x.Field}, path...)
			addr = x.X
		case *ssa.Alloc:
			if fi.tracked[x] && !fi.escapes(x, path) {
				return x, path, true
			}
			return nil, nil, false
		default:
			return nil, nil, false
		}
	}
}

// escapes: the location (alloc, path) overlaps a field whose address is handed out.
func (fi *funcInfo) escapes(a *ssa.Alloc, path []int) bool {
	for _, e := range fi.escPaths[a] {
		if hasPrefix(path, e) || hasPrefix(e, path) {
			return true
		}
	}
	return false
}

func hasPrefix(p, q []int) bool { // q is a prefix of p
	if len(q) > len(p) {
		return false
	}
	for i := range q {
		if p[i] != q[i] {
			return false
		}
	}
	return true
}

// ---- translation context ---------------------------------------------------------------

// Ctx translates the values of one function (possibly an inlined callee) into terms.
type Ctx struct {
	p      *Prog
	fn     *ssa.Function
	fi     *funcInfo
	scope  *ssa.Function       // outermost function: mutation scope for load stability
	bind   map[ssa.Value]*Term // parameters / free variables of an inlined callee
	site   string              // identity prefix (call-site chain) for inlined contexts
	depth  int
	maxD   int
	memo   map[ssa.Value]*Term
	fmemo  map[ssa.Value]*Formula
	pc     map[int]*Formula
	memDef map[string][]memDefn
	inprg  map[string]bool
	fver   map[string][]string
	noInl  map[*ssa.Function]bool
	parent *Ctx            // the context this one was inlined from (nil for a root)
	via    ssa.Instruction // the instruction of parent.fn at which this context is entered
}

var inlineDepth = 3

func (p *Prog) NewCtx(fn *ssa.Function) *Ctx {
	return &Ctx{p: p, fn: fn, fi: infoOf(fn), scope: fn, bind: map[ssa.Value]*Term{}, maxD: inlineDepth,
		memo: map[ssa.Value]*Term{}, fmemo: map[ssa.Value]*Formula{}, pc: map[int]*Formula{}, memDef: map[string][]memDefn{}, inprg: map[string]bool{}, noInl: map[*ssa.Function]bool{}}
}

func (c *Ctx) child(callee *ssa.Function, call ssa.Instruction, args []*Term) *Ctx {
	ch := &Ctx{p: c.p, fn: callee, fi: infoOf(callee), scope: c.scope, bind: map[ssa.Value]*Term{}, depth: c.depth + 1, maxD: c.maxD,
		site: c.instrID(call), memo: map[ssa.Value]*Term{}, fmemo: map[ssa.Value]*Formula{}, pc: map[int]*Formula{}, memDef: map[string][]memDefn{}, inprg: map[string]bool{}, noInl: c.noInl}
	if call != nil && call.Block() != nil && call.Parent() == c.fn {
		ch.parent, ch.via = c, call
	}
	for i, prm := range callee.Params {
		if i < len(args) {
			ch.bind[prm] = args[i]
		}
	}
	return ch
}

func (c *Ctx) instrID(in ssa.Instruction) string {
	fi := infoOf(in.Parent())
	ps := fi.pos[in]
	id := fmt.Sprintf("%s:%d.%d", funcID(in.Parent()), ps[0], ps[1])
	if c.site != "" {
		return c.site + ">" + id
	}
	return id
}

func typeName(t types.Type) string {
	return types.TypeString(t, func(p *types.Package) string { return p.Name() })
}

func zeroTerm(t types.Type) *Term {
	switch u := t.Underlying().(type) {
	case *types.Basic:
		switch {
		case u.Info()&types.IsInteger != 0:
			return &Term{Kind: "const", Name: "0", Typ: t, Val: ssa.NewConst(constant.MakeInt64(0), t)}
		case u.Info()&types.IsBoolean != 0:
			return &Term{Kind: "const", Name: "false", Typ: t, Val: ssa.NewConst(constant.MakeBool(false), t)}
		case u.Info()&types.IsString != 0:
			return &Term{Kind: "const", Name: `""`, Typ: t, Val: ssa.NewConst(constant.MakeString(""), t)}
		}
	case *types.Pointer, *types.Slice, *types.Map, *types.Interface, *types.Signature, *types.Chan:
		return &Term{Kind: "const", Name: "nil", Typ: t}
	}
	return &Term{Kind: "zero", Name: "zero(" + typeName(t) + ")", Typ: t}
}

func constTerm(c *ssa.Const) *Term {
	name := "nil"
	if c.Value != nil {
		name = c.Value.ExactString()
		if c.Value.Kind() == constant.Float {
			name = c.Value.String()
		}
	} else if _, ok := c.Type().Underlying().(*types.Basic); ok {
		name = "nil"
	} else if st, ok := c.Type().Underlying().(*types.Struct); ok && st != nil {
		return zeroTerm(c.Type())
	}
	return &Term{Kind: "const", Name: name, Typ: c.Type(), Val: c}
}

// Term returns the canonical term of v in this context.
func (c *Ctx) Term(v ssa.Value) *Term {
	if v == nil {
		return &Term{Kind: "opaque", Name: "<nil>"}
	}
	if t, ok := c.bind[v]; ok {
		return t
	}
	if t, ok := c.memo[v]; ok {
		return t
	}
	t := c.term(v)
	if t.Val == nil {
		t.Val = v
	}
	if t.Typ == nil {
		t.Typ = v.Type()
	}
	c.memo[v] = t
	return t
}

func (c *Ctx) term(v ssa.Value) *Term {
	switch x := v.(type) {
	case *ssa.Const:
		return constTerm(x)
	case *ssa.Parameter:
		return &Term{Kind: "param", Name: x.Name(), Val: x, Typ: x.Type()}
	case *ssa.FreeVar:
		return &Term{Kind: "freevar", Name: x.Name(), Val: x, Typ: x.Type(), ID: funcID(x.Parent())}
	case *ssa.Global:
		return &Term{Kind: "global", Name: x.Pkg.Pkg.Name() + "." + x.Name(), Obj: x.Object(), Val: x}
	case *ssa.Function:
		return &Term{Kind: "func", Name: funcID(x), Fn: x, Val: x}
	case *ssa.Builtin:
		return &Term{Kind: "builtin", Name: x.Name(), Val: x}
	case *ssa.Alloc:
		// the compiler's spill of a by-value parameter that an inlined context binds: &(argument)
		if len(c.bind) > 0 && x.Referrers() != nil {
			n := 0
			var src ssa.Value
			for _, r := range *x.Referrers() {
				if st, ok := r.(*ssa.Store); ok && st.Addr == ssa.Value(x) {
					n++
					src = st.Val
				}
			}
			if prm, ok := src.(*ssa.Parameter); ok && n == 1 {
				if bt, ok := c.bind[prm]; ok {
					return &Term{Kind: "unop", Name: "&", Args: []*Term{bt}}
				}
			}
		}
		// a local copy written once whose address is only handed to read-only callees (the receiver
		// of `allocatable.Cpu()` after `allocatable := node.Status.Allocatable`): &(the copied value)
		if src := localCopySource(x); src != nil {
			return &Term{Kind: "unop", Name: "&", Args: []*Term{c.Term(src)}}
		}
		return &Term{Kind: "alloc", Name: "&" + x.Comment + "#" + c.instrID(x), Val: x}
	case *ssa.Phi:
		return &Term{Kind: "phi", Name: x.Comment + "#" + c.instrID(x), Val: x, C: c}
	case *ssa.UnOp:
		switch x.Op {
		case token.MUL:
			return c.load(x)
		case token.ARROW:
			return &Term{Kind: "opaque", Name: "<-chan", ID: c.instrID(x)}
		default:
			return &Term{Kind: "unop", Name: x.Op.String(), Args: []*Term{c.Term(x.X)}}
		}
	case *ssa.BinOp:
		a, b := c.Term(x.X), c.Term(x.Y)
		switch x.Op {
		case token.ADD, token.MUL, token.AND, token.OR, token.XOR:
			if isNumeric(x.Type()) && a.Key() > b.Key() {
				a, b = b, a
			}
		}
		return &Term{Kind: "binop", Name: x.Op.String(), Args: []*Term{a, b}}
	case *ssa.FieldAddr:
		// address term; only meaningful under a load, but may be passed as a pointer (&x.f)
		f := derefStruct(x.X.Type()).Field(x.Field)
		fbase := c.Term(x.X)
		if fbase.Kind == "unop" && fbase.Name == "&" {
			fbase = fbase.Args[0]
		}
		return &Term{Kind: "unop", Name: "&", Args: []*Term{{Kind: "field", Name: f.Name(), Obj: f, Args: []*Term{fbase}, Typ: f.Type()}}}
	case *ssa.Field:
		st := x.X.Type().Underlying().(*types.Struct)
		f := st.Field(x.Field)
		if pv := c.planValue(x); pv != nil {
			return projectField(pv, x.Field, f)
		}
		base := c.Term(x.X)
		return projectField(base, x.Field, f)
	case *ssa.IndexAddr:
		return &Term{Kind: "unop", Name: "&", Args: []*Term{c.indexTerm(x.X, x.Index)}}
	case *ssa.Index:
		return c.indexTerm(x.X, x.Index)
	case *ssa.Lookup:
		return &Term{Kind: "lookup", Args: []*Term{c.Term(x.X), c.Term(x.Index)}}
	case *ssa.Extract:
		// the structure half of `plan, err := h(…)` spilled into a local and read only behind err == nil
		if x.Index == 0 {
			if _, isStruct := x.Type().Underlying().(*types.Struct); isStruct {
				if uses, ok := planUses(x); ok {
					if pv := c.planValueOf(x, uses); pv != nil {
						return pv
					}
				}
			}
		}
		tup := c.Term(x.Tuple)
		if tup.Kind == "tuple" && x.Index < len(tup.Args) {
			return tup.Args[x.Index]
		}
		// a float result of a one-block, effect-free repo function with several results that no rule
		// names (`cpu, mem := usage.percent()`): the expression it returns over the arguments
		if call, ok := x.Tuple.(*ssa.Call); ok && isFloat64(x.Type()) {
			if f := call.Common().StaticCallee(); f != nil && c.p.keepCalls != nil && !c.p.keepCalls[f] && c.p.inRepo(f) && f.Blocks != nil && len(f.Blocks) == 1 && len(f.FreeVars) == 0 && c.depth < c.maxD && f != c.fn {
				if r, ok := f.Blocks[0].Instrs[len(f.Blocks[0].Instrs)-1].(*ssa.Return); ok && x.Index < len(r.Results) {
					pure := true
					for _, in := range f.Blocks[0].Instrs {
						switch y := in.(type) {
						case *ssa.Store:
							if _, isAlloc := baseOfAddr(y.Addr).(*ssa.Alloc); !isAlloc {
								pure = false
							}
						case *ssa.Defer, *ssa.Go, *ssa.Panic, *ssa.MapUpdate, *ssa.Send:
							pure = false
						case *ssa.Call:
							if _, isB := y.Common().Value.(*ssa.Builtin); !isB {
								pure = false
							}
						}
					}
					if pure {
						args := make([]*Term, len(call.Common().Args))
						for i, a := range call.Common().Args {
							args[i] = c.Term(a)
						}
						return c.child(f, call, args).Term(r.Results[x.Index])
					}
				}
			}
		}
		// range-over-map iteration: next(range m) → ok, key, val
		if nx, ok := x.Tuple.(*ssa.Next); ok && !nx.IsString {
			if rg, ok := nx.Iter.(*ssa.Range); ok {
				kind := []string{"ok", "key", "val"}[x.Index]
				return &Term{Kind: kind, Args: []*Term{c.Term(rg.X)}, ID: "L" + c.instrID(rg)}
			}
		}
		return &Term{Kind: "extract", Name: fmt.Sprint(x.Index), Args: []*Term{tup}}
	case *ssa.Call:
		return c.callTerm(x)
	case *ssa.Convert:
		if isInteger(x.Type()) && isInteger(x.X.Type()) {
			return c.Term(x.X)
		}
		return &Term{Kind: "conv", Name: typeName(x.Type()), Args: []*Term{c.Term(x.X)}}
	case *ssa.ChangeType:
		return c.Term(x.X)
	case *ssa.ChangeInterface:
		return c.Term(x.X)
	case *ssa.MakeInterface:
		return c.Term(x.X)
	case *ssa.Slice:
		arg := func(v ssa.Value, def string) *Term {
			if v == nil {
				return &Term{Kind: "const", Name: def}
			}
			return c.Term(v)
		}
		return &Term{Kind: "slice", Args: []*Term{c.sliceBase(x.X), arg(x.Low, "0"), arg(x.High, "_"), arg(x.Max, "_")}}
	case *ssa.TypeAssert:
		return &Term{Kind: "typeassert", Name: typeName(x.AssertedType), Args: []*Term{c.Term(x.X)}}
	case *ssa.MakeClosure:
		f, _ := x.Fn.(*ssa.Function)
		return &Term{Kind: "closure", Name: funcID(f), Fn: f, ID: c.instrID(x), C: c}
	case *ssa.MakeSlice:
		return &Term{Kind: "makeslice", Name: "make", Args: []*Term{c.Term(x.Len)}, ID: c.instrID(x)}
	case *ssa.MakeMap, *ssa.MakeChan:
		return &Term{Kind: "opaque", Name: "make", ID: c.instrID(x.(ssa.Instruction))}
	case *ssa.Range:
		return &Term{Kind: "opaque", Name: "range", Args: []*Term{c.Term(x.X)}, ID: c.instrID(x)}
	case *ssa.Next:
		return &Term{Kind: "opaque", Name: "next", ID: c.instrID(x)}
	case *ssa.Select:
		return &Term{Kind: "opaque", Name: "select", ID: c.instrID(x)}
	}
	if in, ok := v.(ssa.Instruction); ok {
		return &Term{Kind: "opaque", Name: fmt.Sprintf("%T", v), ID: c.instrID(in)}
	}
	return &Term{Kind: "opaque", Name: v.Name()}
}

func (c *Ctx) sliceBase(v ssa.Value) *Term {
	// slicing a local array through its address: s[:] of new [k]T
	return c.Term(v)
}

func isInteger(t types.Type) bool {
	b, ok := t.Underlying().(*types.Basic)
	return ok && b.Info()&types.IsInteger != 0
}

func isNumeric(t types.Type) bool {
	b, ok := t.Underlying().(*types.Basic)
	return ok && b.Info()&types.IsNumeric != 0
}

func isBool(t types.Type) bool {
	b, ok := t.Underlying().(*types.Basic)
	return ok && b.Info()&types.IsBoolean != 0
}

func projectField(base *Term, idx int, f *types.Var) *Term {
	if base.Kind == "struct" && idx < len(base.Args) && base.Args[idx] != nil {
		return base.Args[idx]
	}
	if base.Kind == "zero" || (base.Kind == "const" && base.Name == "nil") {
		return zeroTerm(f.Type())
	}
	return &Term{Kind: "field", Name: f.Name(), Obj: f, Args: []*Term{base}, Typ: f.Type()}
}

// rangeLoopOf recognises the index value of go/ssa's lowering of `for i, x := range slice`:
// idx = phi(-1, idx) + 1. It returns the phi.
// countedIndex: ph is the counter of `for i := 0; i < len(x) [&& …]; i++`: φ(0, φ+1) in a block
// that branches on φ < len(x). Returns x.
func countedIndex(ph *ssa.Phi) ssa.Value {
	// the rotated form go/ssa gives `for i := range len(x)`
	if n, ok := rotatedCounted(ph); ok {
		if c, isCall := n.(*ssa.Call); isCall {
			if bi, isB := c.Common().Value.(*ssa.Builtin); isB && bi.Name() == "len" {
				return c.Common().Args[0]
			}
		}
		return nil
	}
	zeros, incs := 0, 0
	for _, e := range ph.Edges {
		if k, ok := e.(*ssa.Const); ok && k.Value != nil && k.Value.ExactString() == "0" {
			zeros++
			continue
		}
		bo, ok := e.(*ssa.BinOp)
		if !ok || bo.Op != token.ADD || bo.X != ssa.Value(ph) {
			return nil
		}
		if one, ok := bo.Y.(*ssa.Const); !ok || one.Value == nil || one.Value.ExactString() != "1" {
			return nil
		}
		incs++
	}
	if zeros != 1 || incs < 1 {
		return nil
	}
	b := ph.Block()
	br, ok := b.Instrs[len(b.Instrs)-1].(*ssa.If)
	if !ok {
		return nil
	}
	cmp, ok := br.Cond.(*ssa.BinOp)
	if !ok || cmp.X != ssa.Value(ph) {
		return nil
	}
	bound := cmp.Y
	switch cmp.Op {
	case token.LSS:
	case token.LEQ:
		// i <= len(x) - 1
		sub, ok := bound.(*ssa.BinOp)
		if !ok || sub.Op != token.SUB {
			return nil
		}
		if one, ok := sub.Y.(*ssa.Const); !ok || one.Value == nil || one.Value.ExactString() != "1" {
			return nil
		}
		bound = sub.X
	default:
		return nil
	}
	c, ok := bound.(*ssa.Call)
	if !ok {
		return nil
	}
	if bi, ok := c.Common().Value.(*ssa.Builtin); !ok || bi.Name() != "len" {
		return nil
	}
	return c.Common().Args[0]
}

// rotatedCounted: ph is the counter of go/ssa's lowering of `for i := range n` — φ(0, φ+1) at the
// top of the body, entered only under `0 < n` and repeated only under `φ+1 < n`, the same n, which
// is computed before the loop. Inside the loop 0 ≤ φ < n. Returns n.
func rotatedCounted(ph *ssa.Phi) (ssa.Value, bool) {
	h := ph.Block()
	if h == nil || len(ph.Edges) != len(h.Preds) || len(h.Preds) < 2 {
		return nil, false
	}
	var bound ssa.Value
	entries, backs := 0, 0
	for i, e := range ph.Edges {
		p := h.Preds[i]
		br, ok := p.Instrs[len(p.Instrs)-1].(*ssa.If)
		if !ok || len(p.Succs) != 2 || p.Succs[0] != h {
			return nil, false
		}
		cmp, ok := br.Cond.(*ssa.BinOp)
		if !ok || cmp.Op != token.LSS {
			return nil, false
		}
		if bound != nil && cmp.Y != bound {
			return nil, false
		}
		bound = cmp.Y
		if k, isK := e.(*ssa.Const); isK {
			if k.Value == nil || k.Value.ExactString() != "0" {
				return nil, false
			}
			k2, isK2 := cmp.X.(*ssa.Const)
			if !isK2 || k2.Value == nil || k2.Value.ExactString() != "0" {
				return nil, false
			}
			entries++
			continue
		}
		bo, ok := e.(*ssa.BinOp)
		if !ok || bo.Op != token.ADD || bo.X != ssa.Value(ph) || cmp.X != ssa.Value(bo) {
			return nil, false
		}
		if one, ok := bo.Y.(*ssa.Const); !ok || one.Value == nil || one.Value.ExactString() != "1" {
			return nil, false
		}
		if !h.Dominates(p) {
			return nil, false
		}
		backs++
	}
	if entries != 1 || backs < 1 || bound == nil {
		return nil, false
	}
	// n is computed before the loop
	if in, ok := bound.(ssa.Instruction); ok && in.Block() != nil && h.Dominates(in.Block()) {
		return nil, false
	}
	return bound, true
}

func rangeLoopOf(idx ssa.Value) *ssa.Phi {
	if ph, ok := idx.(*ssa.Phi); ok && countedIndex(ph) != nil {
		return ph
	}
	bo, ok := idx.(*ssa.BinOp)
	if !ok || bo.Op != token.ADD {
		return nil
	}
	ph, ok := bo.X.(*ssa.Phi)
	if !ok {
		return nil
	}
	one, ok := bo.Y.(*ssa.Const)
	if !ok || one.Value == nil || one.Value.ExactString() != "1" {
		return nil
	}
	inits, incs := 0, 0
	for _, e := range ph.Edges {
		if k, ok := e.(*ssa.Const); ok && k.Value != nil && k.Value.ExactString() == "-1" {
			inits++
		} else if e == ssa.Value(bo) {
			incs++
		} else {
			return nil
		}
	}
	if inits == 1 && incs >= 1 {
		return ph
	}
	return nil
}

// closureCtx: the context of a call of the closure made by mc (an instruction of c's function):
// parameters bound to args, captured variables bound to the value they hold where the closure is
// made (read-only captures). nil when a capture cannot be resolved.
func (c *Ctx) closureCtx(mc *ssa.MakeClosure, call ssa.Instruction, args []*Term) *Ctx {
	cf, _ := mc.Fn.(*ssa.Function)
	if cf == nil || cf.Blocks == nil {
		return nil
	}
	ch := c.child(cf, call, args)
	pos, okp := c.fi.pos[mc]
	for i, fv := range cf.FreeVars {
		if i >= len(mc.Bindings) {
			return nil
		}
		b := mc.Bindings[i]
		if al, ok := b.(*ssa.Alloc); ok {
			if !readOnlyFreeVar(cf, fv) || !okp {
				return nil
			}
			var val *Term
			if c.fi.tracked[al] {
				val = c.memAt(al, nil, pos[0], pos[1], al.Type().(*types.Pointer).Elem())
			}
			if val == nil {
				val = &Term{Kind: "deref", Args: []*Term{c.Term(al)}}
			}
			ch.bind[fv] = &Term{Kind: "unop", Name: "&", Args: []*Term{val}}
			continue
		}
		ch.bind[fv] = c.Term(b)
	}
	return ch
}

func (c *Ctx) indexTerm(x, idx ssa.Value) *Term {
	base := c.Term(x)
	// &slice[i] where x is itself a loaded slice; or array pointer
	if ph := rangeLoopOf(idx); ph != nil {
		return &Term{Kind: "elem", Args: []*Term{base}, ID: "L" + c.instrID(ph)}
	}
	return &Term{Kind: "index", Args: []*Term{base, c.Term(idx)}}
}

// load translates *addr.
func (c *Ctx) load(u *ssa.UnOp) *Term {
	addr := u.X
	if a, path, ok := c.fi.allocPath(addr); ok {
		return c.memAt(a, path, c.fi.pos[u][0], c.fi.pos[u][1], u.Type())
	}
	switch x := addr.(type) {
	case *ssa.FieldAddr:
		f := derefStruct(x.X.Type()).Field(x.Field)
		var base *Term
		if _, isAddr := x.X.Type().Underlying().(*types.Pointer); isAddr {
			// pointer to struct: the base term is the pointer value; if the pointer is itself an
			// address computation (&y.g), fold to y.g
			base = c.Term(x.X)
			if base.Kind == "unop" && base.Name == "&" {
				base = base.Args[0]
			}
		} else {
			base = c.Term(x.X)
		}
		t := projectField(base, x.Field, f)
		if t.Kind == "field" && c.unstable(f, base) {
			t = &Term{Kind: "field", Name: t.Name, Obj: f, Args: t.Args, Typ: t.Typ, ID: c.fieldVersion(f, u)}
		}
		return t
	case *ssa.IndexAddr:
		t := c.indexTerm(x.X, x.Index)
		return t
	case *ssa.Global:
		return &Term{Kind: "global", Name: x.Pkg.Pkg.Name() + "." + x.Name(), Obj: x.Object(), Val: x}
	case *ssa.Alloc:
		// untracked local (escapes): opaque per load
		raw := &Term{Kind: "alloc", Name: "&" + x.Comment + "#" + c.instrID(x), Val: x, Typ: x.Type()}
		return &Term{Kind: "deref", Args: []*Term{raw}, ID: c.instrID(u)}
	}
	base := c.Term(addr)
	if base.Kind == "unop" && base.Name == "&" {
		return base.Args[0]
	}
	return &Term{Kind: "deref", Args: []*Term{base}}
}

// unstable: may the scope function (or what it calls) store into field f? Then two loads of the
// same path are not known to agree and each gets its own identity.
func (c *Ctx) unstable(f *types.Var, base *Term) bool {
	if c.p.mayMutate(c.scope, f) {
		return true
	}
	// whole-struct overwrite of the struct type containing f
	if len(c.p.wholeStore[c.scope]) > 0 && base != nil && base.Typ != nil {
		t := base.Typ
		if pt, ok := t.Underlying().(*types.Pointer); ok {
			t = pt.Elem()
		}
		if c.p.wholeStore[c.scope][types.TypeString(t, nil)] {
			return true
		}
	}
	return false
}

// fieldVersion names the memory version of heap field f observed by load u: two loads of the
// same path with the same version see the same value. Versions change at stores to f (any
// base — no alias analysis), at calls of repo functions that may store f, and at control-flow
// merges of different versions.
func (c *Ctx) fieldVersion(f *types.Var, u ssa.Instruction) string {
	key := fmt.Sprintf("%p", f)
	in, ok := c.fver[key]
	mutates := func(ins ssa.Instruction) bool {
		switch x := ins.(type) {
		case *ssa.Store:
			if fieldOfAddr(x.Addr) == f {
				return true
			}
			// whole-struct store through a pointer to the struct containing f
			if pt, ok := x.Addr.Type().Underlying().(*types.Pointer); ok {
				if st, ok := pt.Elem().Underlying().(*types.Struct); ok {
					for i := 0; i < st.NumFields(); i++ {
						if st.Field(i) == f {
							if _, isAlloc := baseOfAddr(x.Addr).(*ssa.Alloc); !isAlloc {
								return true
							}
						}
					}
				}
			}
		case ssa.CallInstruction:
			for _, g := range c.p.calleesOf(x) {
				if c.p.mayMutate(g, f) || len(c.p.wholeStore[g]) > 0 {
					return true
				}
			}
		}
		return false
	}
	if !ok {
		// minimal SSA for the pseudo-variable "memory of field f": definitions are the entry and the
		// mutating instructions; merge versions sit exactly on the iterated dominance frontier of the
		// defining blocks; everywhere else a block inherits the version leaving its immediate dominator
		n := len(c.fn.Blocks)
		last := make([]string, n)
		var defBlocks []*ssa.BasicBlock
		for _, b := range c.fn.Blocks {
			for _, ins := range b.Instrs {
				if mutates(ins) {
					last[b.Index] = "m" + c.instrID(ins)
				}
			}
			if last[b.Index] != "" || b.Index == 0 {
				defBlocks = append(defBlocks, b)
			}
		}
		df := make([][]*ssa.BasicBlock, n)
		for _, b := range c.fn.Blocks {
			if len(b.Preds) < 2 {
				continue
			}
			for _, p := range b.Preds {
				for r := p; r != nil && r != b.Idom(); r = r.Idom() {
					dup := false
					for _, x := range df[r.Index] {
						if x == b {
							dup = true
						}
					}
					if !dup {
						df[r.Index] = append(df[r.Index], b)
					}
				}
			}
		}
		merge := make([]bool, n)
		work := append([]*ssa.BasicBlock{}, defBlocks...)
		onWork := map[*ssa.BasicBlock]bool{}
		for _, b := range work {
			onWork[b] = true
		}
		for len(work) > 0 {
			x := work[len(work)-1]
			work = work[:len(work)-1]
			for _, y := range df[x.Index] {
				if !merge[y.Index] {
					merge[y.Index] = true
					if !onWork[y] {
						onWork[y] = true
						work = append(work, y)
					}
				}
			}
		}
		in = make([]string, n)
		var assign func(b *ssa.BasicBlock, inherited string)
		assign = func(b *ssa.BasicBlock, inherited string) {
			switch {
			case b.Index == 0:
				in[b.Index] = "entry"
			case merge[b.Index]:
				in[b.Index] = fmt.Sprintf("merge%d", b.Index)
			default:
				in[b.Index] = inherited
			}
			out := in[b.Index]
			if last[b.Index] != "" {
				out = last[b.Index]
			}
			for _, d := range b.Dominees() {
				assign(d, out)
			}
		}
		if n > 0 {
			assign(c.fn.Blocks[0], "entry")
		}
		if c.fver == nil {
			c.fver = map[string][]string{}
		}
		c.fver[key] = in
	}
	b := u.Block()
	ver := in[b.Index]
	for _, ins := range b.Instrs {
		if ins == u {
			break
		}
		if mutates(ins) {
			ver = "m" + c.instrID(ins)
		}
	}
	if ver == "" {
		ver = "unreached"
	}
	// the memory an inlined callee starts from is the caller's memory at the call
	if ver == "entry" && c.parent != nil && c.via != nil {
		return c.parent.fieldVersion(f, c.via)
	}
	return c.site + "v:" + f.Name() + ":" + ver
}

// memAt resolves the value of (alloc, path) just before instruction (blk, idx) by a backward
// search for the last covering store.
func (c *Ctx) memAt(a *ssa.Alloc, path []int, blk, idx int, typ types.Type) *Term {
	// a struct-typed location with stores to its parts is resolved field by field
	if st, ok := typ.Underlying().(*types.Struct); ok && (c.hasDeeperStore(a, path) || (len(c.fi.escPaths[a]) > 0 && c.fi.escapes(a, path))) {
		args := make([]*Term, st.NumFields())
		for i := 0; i < st.NumFields(); i++ {
			args[i] = c.memAt(a, append(append([]int{}, path...), i), blk, idx, st.Field(i).Type())
		}
		return &Term{Kind: "struct", Name: typeName(typ), Args: args, Typ: typ}
	}
	if len(c.fi.escPaths[a]) > 0 && c.fi.escapes(a, path) {
		// a field whose address was handed out: whatever the callee left there
		raw := &Term{Kind: "alloc", Name: "&" + a.Comment + "#" + c.instrID(a), Val: a, Typ: a.Type()}
		return &Term{Kind: "deref", Name: fmt.Sprint(path), Args: []*Term{raw}, ID: fmt.Sprintf("%s@%d.%d%v", c.site, blk, idx, path), Typ: typ}
	}
	b := c.fn.Blocks[blk]
	for i := idx - 1; i >= 0; i-- {
		if t := c.defAt(b.Instrs[i], a, path, typ); t != nil {
			return t
		}
	}
	return c.memAtEntry(a, path, b, typ)
}

func (c *Ctx) hasDeeperStore(a *ssa.Alloc, path []int) bool {
	for _, b := range c.fn.Blocks {
		for _, in := range b.Instrs {
			if s, ok := in.(*ssa.Store); ok {
				if a2, p2, ok := c.fi.allocPath(s.Addr); ok && a2 == a && len(p2) > len(path) && hasPrefix(p2, path) {
					return true
				}
			}
		}
	}
	return false
}

// defAt: if instruction in defines (alloc, path), the defined term.
func (c *Ctx) defAt(in ssa.Instruction, a *ssa.Alloc, path []int, typ types.Type) *Term {
	switch x := in.(type) {
	case *ssa.Store:
		a2, p2, ok := c.fi.allocPath(x.Addr)
		if !ok || a2 != a {
			return nil
		}
		if hasPrefix(path, p2) {
			t := c.Term(x.Val)
			// project the remaining path
			cur := x.Val.Type()
			for _, fi := range path[len(p2):] {
				st := cur.Underlying().(*types.Struct)
				t = projectField(t, fi, st.Field(fi))
				cur = st.Field(fi).Type()
			}
			return t
		}
	case *ssa.Alloc:
		if x == a {
			return zeroTerm(typ)
		}
	}
	return nil
}

func pathKey(a *ssa.Alloc, path []int) string {
	return fmt.Sprintf("%p/%v", a, path)
}

// memAtEntry: value of (alloc, path) on entry to block b, by forward dataflow over reaching
// definitions (store instructions / the alloc itself); ⊥ = none yet, ⊤ = several.
func (c *Ctx) memAtEntry(a *ssa.Alloc, path []int, b *ssa.BasicBlock, typ types.Type) *Term {
	k := pathKey(a, path)
	in, ok := c.memDef[k]
	if !ok {
		n := len(c.fn.Blocks)
		last := make([]memDefn, n)
		for _, blk := range c.fn.Blocks {
			for i := len(blk.Instrs) - 1; i >= 0; i-- {
				if c.isDef(blk.Instrs[i], a, path) {
					last[blk.Index] = memDefn{in: blk.Instrs[i]}
					break
				}
			}
		}
		in = make([]memDefn, n)
		for changed := true; changed; {
			changed = false
			for _, blk := range c.fn.Blocks {
				if in[blk.Index].top {
					continue
				}
				var res memDefn
				for _, p := range blk.Preds {
					out := last[p.Index]
					if out.empty() {
						out = in[p.Index]
					}
					if out.empty() {
						continue
					}
					if res.empty() {
						res = out
					} else if res != out {
						res = memDefn{top: true, blk: blk.Index}
						break
					}
				}
				if !res.empty() && in[blk.Index] != res {
					in[blk.Index] = res
					changed = true
				}
			}
		}
		c.memDef[k] = in
	}
	d := in[b.Index]
	switch {
	case d.empty():
		return zeroTerm(typ)
	case d.top:
		t := &Term{Kind: "memphi", Name: fmt.Sprintf("%s%v@%d", a.Comment, path, d.blk), ID: c.site + funcID(c.fn), Typ: typ, C: c}
		memphiInfo[t.Key()] = memphiSite{c, a, append([]int{}, path...), d.blk, typ}
		return t
	}
	if t := c.defAt(d.in, a, path, typ); t != nil {
		return t
	}
	return zeroTerm(typ)
}

// memphiSite: where a memory merge term was formed, so that rules can expand it into cases.
type memphiSite struct {
	c    *Ctx
	a    *ssa.Alloc
	path []int
	blk  int
	typ  types.Type
}

var memphiInfo = map[string]memphiSite{}

// memCases: the values a memory merge term can stand for, each with the path condition of the edge
// it arrives on (merges on the way are expanded; loop-carried merges are left as they are).
func memCases(t *Term, depth int) ([]*Formula, []*Term) {
	ms, ok := memphiInfo[t.Key()]
	if !ok || depth > 4 {
		return []*Formula{FTrue}, []*Term{t}
	}
	b := ms.c.fn.Blocks[ms.blk]
	var gs []*Formula
	var ts []*Term
	for _, p := range b.Preds {
		if ms.c.fi.backEdge[[2]int{p.Index, b.Index}] {
			return []*Formula{FTrue}, []*Term{t}
		}
		v := ms.c.memAt(ms.a, ms.path, p.Index, len(p.Instrs), ms.typ)
		g := ms.c.edgePC(p, b)
		if v.Kind == "memphi" && v.Key() != t.Key() {
			ig, it := memCases(v, depth+1)
			for i := range it {
				gs = append(gs, And(g, ig[i]))
				ts = append(ts, it[i])
			}
			continue
		}
		gs = append(gs, g)
		ts = append(ts, v)
	}
	return gs, ts
}

// memDefn is an element of the reaching-definition lattice.
type memDefn struct {
	in  ssa.Instruction
	top bool
	blk int
}

func (d memDefn) empty() bool { return d.in == nil && !d.top }

// isDef: does instruction in define (alloc, path)?
func (c *Ctx) isDef(in ssa.Instruction, a *ssa.Alloc, path []int) bool {
	switch x := in.(type) {
	case *ssa.Store:
		a2, p2, ok := c.fi.allocPath(x.Addr)
		return ok && a2 == a && hasPrefix(path, p2)
	case *ssa.Alloc:
		return x == a
	}
	return false
}

// ---- calls -------------------------------------------------------------------------------

// pureExternal: library callees whose result is a function of their arguments only.
// localCopySource: the value a local was initialised with when the local is written exactly once,
// by a store in its own block (`x := v`), and afterwards only loaded or handed to read-only
// callees of the API types (pure accessors of v1 / resource / meta types).
func localCopySource(x *ssa.Alloc) ssa.Value {
	if x.Referrers() == nil {
		return nil
	}
	var src ssa.Value
	n, handed := 0, 0
	for _, r := range *x.Referrers() {
		switch y := r.(type) {
		case *ssa.DebugRef:
		case *ssa.UnOp:
			if y.Op != token.MUL {
				return nil
			}
		case *ssa.Store:
			if y.Addr != ssa.Value(x) || y.Block() != x.Block() {
				return nil
			}
			n++
			src = y.Val
		case *ssa.Call:
			g := y.Common().StaticCallee()
			if g == nil || !pureExternal(g) || !strings.HasPrefix(pkgPathOfFn(g), "k8s.io/") {
				return nil
			}
			handed++
		default:
			return nil
		}
	}
	if n != 1 || handed == 0 {
		return nil
	}
	// the source must itself be a stable read (a field / element path), not another local's load
	switch src.(type) {
	case *ssa.UnOp:
		return src
	}
	return nil
}

func pureExternal(f *ssa.Function) bool {
	path := pkgPathOfFn(f)
	name := f.Name()
	switch path {
	case "math", "strings", "strconv", "unicode", "unicode/utf8", "errors", "slices", "maps", "bytes":
		return true
	case "fmt":
		return strings.HasPrefix(name, "Sprint") || name == "Errorf"
	case "time":
		switch name {
		case "Now", "Since", "Until", "Sleep", "NewTimer", "NewTicker", "After", "Tick", "AfterFunc":
			return false
		}
		return true
	case "github.com/pkg/errors":
		return true
	case "github.com/aws/aws-sdk-go/aws":
		return true
	case "k8s.io/apimachinery/pkg/api/resource":
		switch name {
		case "MilliValue", "Value", "IsZero", "String", "Cmp", "Sign", "NewQuantity", "NewMilliQuantity", "ScaledValue", "AsApproximateFloat64":
			return true
		}
		return false
	case "k8s.io/api/core/v1":
		switch name {
		case "Cpu", "Memory", "Pods", "StorageEphemeral", "Storage":
			return true
		}
		return false
	case "k8s.io/apimachinery/pkg/apis/meta/v1":
		switch name {
		case "Before", "Equal", "IsZero", "Unix", "Now":
			return name != "Now"
		}
		return false
	case "k8s.io/apimachinery/pkg/labels":
		return name == "Everything"
	case "github.com/stephanos/clock":
		return false
	}
	return false
}

func (c *Ctx) callTerm(call *ssa.Call) *Term {
	cc := call.Common()
	args := make([]*Term, len(cc.Args))
	for i, a := range cc.Args {
		args[i] = c.Term(a)
	}
	if cc.IsInvoke() {
		recv := c.Term(cc.Value)
		t := &Term{Kind: "invoke", Name: cc.Method.Name(), Obj: cc.Method, Args: append([]*Term{recv}, args...), Typ: call.Type()}
		impls := c.p.implementers(cc.Value.Type(), cc.Method)
		stable := len(impls) > 0
		for _, f := range impls {
			if !c.stableCallee(f) {
				stable = false
			}
		}
		if !stable {
			t.ID = c.instrID(call)
		}
		return t
	}
	if b, ok := cc.Value.(*ssa.Builtin); ok {
		switch b.Name() {
		case "len", "cap":
			x := args[0]
			return lenOf(b.Name(), x)
		case "append":
			return &Term{Kind: "call", Name: "append", Args: args, ID: c.instrID(call)}
		}
		return &Term{Kind: "call", Name: b.Name(), Args: args, ID: c.instrID(call)}
	}
	// a floating-point expression written as a helper or a local closure: one block, one result,
	// no effects — the call is its returned expression over the arguments
	if isFloat64(call.Type()) {
		var ch *Ctx
		if f := cc.StaticCallee(); f != nil {
			if _, isMC := cc.Value.(*ssa.MakeClosure); !isMC && c.inlinable(f) && len(f.Blocks) == 1 && len(f.FreeVars) == 0 {
				ch = c.child(f, call, args)
			}
		}
		if mc, ok := cc.Value.(*ssa.MakeClosure); ok {
			if f, _ := mc.Fn.(*ssa.Function); f != nil && f.Blocks != nil && len(f.Blocks) == 1 && c.depth < c.maxD {
				ch = c.closureCtx(mc, call, args)
			}
		}
		if ch != nil {
			if r, ok := ch.fn.Blocks[0].Instrs[len(ch.fn.Blocks[0].Instrs)-1].(*ssa.Return); ok && len(r.Results) == 1 {
				pure := true
				for _, in := range ch.fn.Blocks[0].Instrs {
					switch y := in.(type) {
					case *ssa.Store:
						if _, isAlloc := baseOfAddr(y.Addr).(*ssa.Alloc); !isAlloc {
							pure = false
						}
					case *ssa.Defer, *ssa.Go, *ssa.Panic, *ssa.MapUpdate, *ssa.Send:
						pure = false
					}
				}
				if pure {
					return ch.Term(r.Results[0])
				}
			}
		}
	}
	// a one-block, effect-free repo helper with an integer or struct result that no rule names —
	// `func (l limits) after(d int64) int64 { return l.target + d }`, `func (n *G) limits() limits {
	// return limits{min: n.MinSize(), …} }` — is the expression it returns
	if f := cc.StaticCallee(); f != nil && c.p.keepCalls != nil && !c.p.keepCalls[f] && c.p.inRepo(f) && f.Blocks != nil && len(f.Blocks) == 1 && len(f.FreeVars) == 0 && c.depth < c.maxD && f != c.fn {
		rt := call.Type()
		_, isStruct := rt.Underlying().(*types.Struct)
		if (isInteger(rt) || isStruct) && c.p.readOnly(f) {
			if r, ok := f.Blocks[0].Instrs[len(f.Blocks[0].Instrs)-1].(*ssa.Return); ok && len(r.Results) == 1 {
				pure := true
				for _, in := range f.Blocks[0].Instrs {
					switch y := in.(type) {
					case *ssa.Store:
						if _, isAlloc := baseOfAddr(y.Addr).(*ssa.Alloc); !isAlloc {
							pure = false
						}
					case *ssa.Defer, *ssa.Go, *ssa.Panic, *ssa.MapUpdate, *ssa.Send:
						pure = false
					}
				}
				if pure {
					return c.child(f, call, args).Term(r.Results[0])
				}
			}
		}
	}
	if f := cc.StaticCallee(); f != nil {
		name := funcID(f)
		if !c.p.inRepo(f) {
			name = shortFuncName(f)
		}
		t := &Term{Kind: "call", Name: name, Obj: f.Object(), Fn: f, Args: args, Typ: call.Type()}
		if c.p.inRepo(f) && f.Blocks != nil && (isBool(call.Type()) || (isInteger(call.Type()) && indexSearchSummary(c.p, f) != nil)) {
			t.C = c
		}
		if c.p.inRepo(f) && f.Blocks != nil {
			if !c.stableCallee(f) {
				t.ID = c.instrID(call)
			}
		} else if !pureExternal(f) {
			t.ID = c.instrID(call)
		}
		return t
	}
	// call of a function value
	fv := c.Term(cc.Value)
	// … that an inlined context binds to a function without captured variables whose body is one
	// effect-free expression (`func(a, b int64) int64 { return a + b }` handed to a helper as "the
	// operation"): the expression over the arguments
	if f := fv.Fn; fv.Kind == "func" && f != nil && f.Blocks != nil && len(f.Blocks) == 1 && len(f.FreeVars) == 0 && c.depth < c.maxD && f != c.fn && (isInteger(call.Type()) || isFloat64(call.Type())) {
		if r, ok := f.Blocks[0].Instrs[len(f.Blocks[0].Instrs)-1].(*ssa.Return); ok && len(r.Results) == 1 {
			pure := true
			for _, in := range f.Blocks[0].Instrs {
				switch y := in.(type) {
				case *ssa.Store:
					if _, isAlloc := baseOfAddr(y.Addr).(*ssa.Alloc); !isAlloc {
						pure = false
					}
				case *ssa.Defer, *ssa.Go, *ssa.Panic, *ssa.MapUpdate, *ssa.Send:
					pure = false
				case *ssa.Call:
					if _, isB := y.Common().Value.(*ssa.Builtin); !isB {
						pure = false
					}
				}
			}
			if pure {
				return c.child(f, call, args).Term(r.Results[0])
			}
		}
	}
	return &Term{Kind: "call", Name: "(" + fv.String() + ")", Fn: fv.Fn, Args: args, ID: c.instrID(call), Typ: call.Type(), Val: call}
}

// planValue: fld reads a field of `plan, err := h(…)` — h a loop-free repo helper with results
// (structure, error) exactly one return of which has a nil error, all others a freshly built one —
// at a point dominated by the `err == nil` edge of a test of that very error: the structure is the
// one that return builds, read with h's parameters bound at the call (the decide half of a
// decide / apply split).
func (c *Ctx) planValue(fld *ssa.Field) *Term {
	ex, ok := fld.X.(*ssa.Extract)
	if !ok || ex.Index != 0 {
		return nil
	}
	return c.planValueOf(ex, []*ssa.BasicBlock{fld.Block()})
}

// planUses: the blocks in which the structure ex (result 0 of a call) is read when it was spilled
// into a local: every load through the local or one of its field addresses. ok is false when the
// local escapes or is written from elsewhere.
func planUses(ex *ssa.Extract) ([]*ssa.BasicBlock, bool) {
	var al *ssa.Alloc
	for _, r := range *ex.Referrers() {
		switch y := r.(type) {
		case *ssa.DebugRef:
		case *ssa.Store:
			a, ok := y.Addr.(*ssa.Alloc)
			if !ok || y.Val != ssa.Value(ex) || al != nil {
				return nil, false
			}
			al = a
		case *ssa.Field:
		default:
			return nil, false
		}
	}
	if al == nil {
		return nil, false
	}
	var blocks []*ssa.BasicBlock
	for _, r := range *al.Referrers() {
		switch y := r.(type) {
		case *ssa.DebugRef:
		case *ssa.Store:
			if y.Val != ssa.Value(ex) {
				return nil, false
			}
		case *ssa.UnOp:
			blocks = append(blocks, y.Block())
		case *ssa.FieldAddr:
			for _, rr := range *y.Referrers() {
				switch z := rr.(type) {
				case *ssa.DebugRef:
				case *ssa.UnOp:
					blocks = append(blocks, z.Block())
				default:
					return nil, false
				}
			}
		default:
			return nil, false
		}
	}
	return blocks, true
}

func (c *Ctx) planValueOf(ex *ssa.Extract, uses []*ssa.BasicBlock) *Term {
	call, ok := ex.Tuple.(*ssa.Call)
	if !ok || c.depth >= c.maxD {
		return nil
	}
	h := call.Common().StaticCallee()
	if h == nil || !c.p.inRepo(h) || h.Blocks == nil || h == c.fn || infoOf(h).hasLoop || h.Signature.Results().Len() != 2 || !isErrorType(h.Signature.Results().At(1).Type()) {
		return nil
	}
	if c.p.keepCalls != nil && c.p.keepCalls[h] {
		return nil
	}
	// the use sits behind err == nil
	guarded := false
	for _, r := range *call.Referrers() {
		e1, ok := r.(*ssa.Extract)
		if !ok || e1.Index != 1 {
			continue
		}
		for _, rr := range *e1.Referrers() {
			bo, ok := rr.(*ssa.BinOp)
			if !ok || (bo.Op != token.NEQ && bo.Op != token.EQL) {
				continue
			}
			for _, r3 := range *bo.Referrers() {
				iff, ok := r3.(*ssa.If)
				if !ok {
					continue
				}
				okEdge := iff.Block().Succs[1]
				if bo.Op == token.EQL {
					okEdge = iff.Block().Succs[0]
				}
				if len(okEdge.Preds) == 1 {
					all := len(uses) > 0
					for _, ub := range uses {
						if !okEdge.Dominates(ub) {
							all = false
						}
					}
					if all {
						guarded = true
					}
				}
			}
		}
	}
	if !guarded {
		return nil
	}
	var good *ssa.Return
	for _, b := range h.Blocks {
		r, ok := b.Instrs[len(b.Instrs)-1].(*ssa.Return)
		if !ok || len(r.Results) != 2 {
			continue
		}
		if k, isC := r.Results[1].(*ssa.Const); isC && k.IsNil() {
			if good != nil {
				return nil
			}
			good = r
			continue
		}
		if !errorConstructor(r.Results[1]) {
			return nil
		}
	}
	if good == nil {
		return nil
	}
	args := make([]*Term, len(call.Common().Args))
	for i, a := range call.Common().Args {
		args[i] = c.Term(a)
	}
	t := c.child(h, call, args).Term(good.Results[0])
	if t.Kind != "struct" {
		return nil
	}
	return t
}

func lenOf(kind string, x *Term) *Term {
	return &Term{Kind: kind, Args: []*Term{x}}
}

func shortFuncName(f *ssa.Function) string {
	s := f.String()
	// (*k8s.io/apimachinery/pkg/apis/meta/v1.Time).Before → (*metav1.Time).Before
	if i := strings.LastIndex(s, "/"); i >= 0 {
		j := strings.LastIndexAny(s[:i], "(* ")
		s = s[:j+1] + s[i+1:]
	}
	return s
}

// stableCallee: two calls with equal arguments inside the current scope return equal results:
// the callee stores nothing non-local, calls no impure external, and reads no field the scope
// may mutate.
func (c *Ctx) stableCallee(f *ssa.Function) bool {
	if !c.p.readOnly(f) {
		return false
	}
	for fld := range c.p.readFields[f] {
		if c.p.mayMutate(c.scope, fld) {
			return false
		}
	}
	return true
}

// ---- formulas ------------------------------------------------------------------------------

// inlinable: a repo function whose boolean / integer result can be expressed over its
// arguments: body present, loop-free, small, stores only to its own locals.
func (c *Ctx) inlinable(f *ssa.Function) bool {
	if f == nil || f.Blocks == nil || !c.p.inRepo(f) || c.depth >= c.maxD || c.noInl[f] {
		return false
	}
	fi := infoOf(f)
	if fi.hasLoop || fi.ninstr > 120 {
		return false
	}
	if f == c.fn || f == c.scope {
		return false
	}
	if f.Recover != nil {
		return false
	}
	// no side effects, directly or through callees: the call can be replaced by its value
	if !c.p.readOnly(f) {
		return false
	}
	for _, b := range f.Blocks {
		for _, in := range b.Instrs {
			switch x := in.(type) {
			case *ssa.Store:
				if _, isAlloc := baseOfAddr(x.Addr).(*ssa.Alloc); !isAlloc {
					return false
				}
			case *ssa.Defer, *ssa.Go, *ssa.Panic, *ssa.MapUpdate, *ssa.Send:
				return false
			}
		}
	}
	return true
}

// Formula returns the propositional reading of a boolean value.
func (c *Ctx) Formula(v ssa.Value) *Formula {
	if f, ok := c.fmemo[v]; ok {
		return f
	}
	f := c.formula(v)
	c.fmemo[v] = f
	return f
}

func (c *Ctx) formula(v ssa.Value) *Formula {
	if t, ok := c.bind[v]; ok {
		return termFormula(t)
	}
	switch x := v.(type) {
	case *ssa.Const:
		if x.Value != nil && x.Value.Kind() == constant.Bool {
			if constant.BoolVal(x.Value) {
				return FTrue
			}
			return FFalse
		}
	case *ssa.UnOp:
		if x.Op == token.NOT {
			return Not(c.Formula(x.X))
		}
		if x.Op == token.MUL {
			return termFormula(c.Term(x))
		}
	case *ssa.BinOp:
		switch x.Op {
		case token.LSS, token.GTR, token.LEQ, token.GEQ, token.EQL, token.NEQ:
			if isBool(x.X.Type()) && (x.Op == token.EQL || x.Op == token.NEQ) {
				a, b := c.Formula(x.X), c.Formula(x.Y)
				if x.Op == token.EQL {
					return Iff(a, b)
				}
				return Not(Iff(a, b))
			}
			if x.Op == token.EQL || x.Op == token.NEQ {
				var other ssa.Value
				if k, ok := x.Y.(*ssa.Const); ok && k.IsNil() {
					other = x.X
				} else if k, ok := x.X.(*ssa.Const); ok && k.IsNil() {
					other = x.Y
				}
				// the scanned group's state is never nil (reviewed: the controller's map holds an entry
				// for every configured group, see the <group-step>/lookup entry of the dereference
				// table): a defensive nil test of a parameter or scaleOpts field of that type is
				// decided — a lookup result, a merge or a call result keeps its atom
				if other != nil && c.p.nonNilPtr != nil && types.Identical(other.Type(), c.p.nonNilPtr) {
					decided := false
					switch y := other.(type) {
					case *ssa.Parameter, *ssa.Field:
						decided = true
					case *ssa.UnOp:
						_, isFA := y.X.(*ssa.FieldAddr)
						decided = y.Op == token.MUL && isFA
					}
					if decided {
						if x.Op == token.NEQ {
							return FTrue
						}
						return FFalse
					}
				}
				// an injection seam nothing fills: a function-typed field of a repo structure that no
				// shipped code stores to (composite literals included) is nil
				if other != nil {
					if _, isSig := other.Type().Underlying().(*types.Signature); isSig {
						var fld *types.Var
						switch y := other.(type) {
						case *ssa.UnOp:
							if y.Op == token.MUL {
								fld = fieldOfAddr(y.X)
							}
						case *ssa.Field:
							if st, ok := y.X.Type().Underlying().(*types.Struct); ok {
								fld = st.Field(y.Field)
							}
						}
						if fld != nil && c.p.neverStoredFuncField(fld) {
							if x.Op == token.NEQ {
								return FFalse
							}
							return FTrue
						}
					}
				}
				// only for error values: pointer-typed optional results keep their atoms, which the
				// rules name explicitly (taint time, instance, …)
				if other != nil && isErrorType(other.Type()) {
					if f, ok := c.nilDecided(other, 0); ok {
						if x.Op == token.NEQ {
							return Not(f)
						}
						return f
					}
				}
			}
			if x.Op == token.EQL || x.Op == token.NEQ {
				// a decision function with an enumerated result: `switch classify(n) { case k: … }` — the
				// comparison with k is the disjunction of the paths on which the function returns k
				if f := c.enumDecided(x.X, x.Y); f != nil {
					if x.Op == token.NEQ {
						return Not(f)
					}
					return f
				}
			}
			return cmpFormula(x.Op, c.Term(x.X), c.Term(x.Y))
		case token.AND, token.OR:
			if isBool(x.Type()) {
				if x.Op == token.AND {
					return And(c.Formula(x.X), c.Formula(x.Y))
				}
				return Or(c.Formula(x.X), c.Formula(x.Y))
			}
		}
	case *ssa.Phi:
		if isBool(x.Type()) {
			b := x.Block()
			var alts []*Formula
			for i, e := range x.Edges {
				p := b.Preds[i]
				if c.fi.backEdge[[2]int{p.Index, b.Index}] {
					return Atom(c.Term(x)) // loop-carried flag: opaque
				}
				alts = append(alts, And(c.edgePC(p, b), c.Formula(e)))
			}
			return Or(alts...)
		}
	case *ssa.Call:
		if f := x.Common().StaticCallee(); f != nil && c.inlinable(f) && isBool(x.Type()) && !c.p.noExpand[f] {
			args := make([]*Term, len(x.Common().Args))
			for i, a := range x.Common().Args {
				args[i] = c.Term(a)
			}
			ch := c.child(f, x, args)
			return ch.returnFormula(0)
		}
		// a predicate handed in as a function value that an inlined context binds to a repo function
		// (`countWhere(pods, podIsSacred)`): read as that function
		if x.Common().StaticCallee() == nil && !x.Common().IsInvoke() && isBool(x.Type()) {
			if fv, bound := c.bind[x.Common().Value]; bound && fv.Kind == "func" && fv.Fn != nil && len(fv.Fn.FreeVars) == 0 && c.inlinable(fv.Fn) && !c.p.noExpand[fv.Fn] {
				args := make([]*Term, len(x.Common().Args))
				for i, a := range x.Common().Args {
					args[i] = c.Term(a)
				}
				return c.child(fv.Fn, x, args).returnFormula(0)
			}
		}
		return Atom(c.Term(v)) // not expanded here: the call is its own atom
	case *ssa.Extract:
		// `i, found := indexOf(list, x)`: found ⇔ 0 ≤ i for a search that returns (index, true) from
		// inside its loop and (negative constant, false) after it
		if call, ok := x.Tuple.(*ssa.Call); ok && x.Index == 1 {
			if h := call.Common().StaticCallee(); h != nil && tupleIndexSearch(c.p, h) >= 0 {
				idx := &Term{Kind: "extract", Name: "0", Args: []*Term{c.Term(call)}, Typ: types.Typ[types.Int]}
				return Not(cmpFormula(token.LSS, idx, zeroTerm(types.Typ[types.Int])))
			}
		}
		if call, ok := x.Tuple.(*ssa.Call); ok && isBool(x.Type()) {
			if f := call.Common().StaticCallee(); f != nil && c.inlinable(f) && !c.p.noExpand[f] {
				args := make([]*Term, len(call.Common().Args))
				for i, a := range call.Common().Args {
					args[i] = c.Term(a)
				}
				return c.child(f, call, args).returnFormula(x.Index)
			}
		}
	}
	return termFormula(c.Term(v))
}

// nilDecided: the formula of "v == nil" when v's nil-ness is decided by control flow alone — v is
// a constant nil, a value that is never nil (a freshly built error, an address, a value boxed into
// an interface), a φ of such values, or the result of an inlinable repo helper all of whose
// returns are such values. This is what makes `if err := check(...); err != nil { return }`
// transparent: the comparison becomes the disjunction of the helper's nil-returning paths.
func (c *Ctx) nilDecided(v ssa.Value, depth int) (*Formula, bool) {
	if depth > 4 {
		return nil, false
	}
	if t, ok := c.bind[v]; ok {
		if t.Kind == "const" && t.Name == "nil" {
			return FTrue, true
		}
		return nil, false
	}
	switch x := v.(type) {
	case *ssa.Const:
		if x.IsNil() {
			return FTrue, true
		}
		return nil, false
	case *ssa.MakeInterface, *ssa.Alloc, *ssa.FieldAddr, *ssa.IndexAddr, *ssa.MakeMap, *ssa.MakeSlice, *ssa.MakeClosure, *ssa.Function, *ssa.MakeChan:
		return FFalse, true
	case *ssa.ChangeInterface:
		return c.nilDecided(x.X, depth)
	case *ssa.ChangeType:
		return c.nilDecided(x.X, depth)
	case *ssa.Phi:
		b := x.Block()
		var alts []*Formula
		for i, e := range x.Edges {
			p := b.Preds[i]
			if c.fi.backEdge[[2]int{p.Index, b.Index}] {
				return nil, false
			}
			f, ok := c.nilDecided(e, depth+1)
			if !ok {
				return nil, false
			}
			alts = append(alts, And(c.edgePC(p, b), f))
		}
		return Or(alts...), true
	case *ssa.Call:
		if errorConstructor(x) {
			return FFalse, true
		}
		return c.nilDecidedCall(x, 0, depth)
	case *ssa.Extract:
		// (value, error) helpers: expanded too, except for the functions the rules name by their
		// call atoms (the calculators, the taint-time reader, …), whose expansion would only
		// inflate the path conditions the rules enumerate
		if call, ok := x.Tuple.(*ssa.Call); ok {
			if f := call.Common().StaticCallee(); f != nil && !c.p.noExpand[f] {
				return c.nilDecidedCall(call, x.Index, depth)
			}
		}
	}
	return nil, false
}

func (c *Ctx) nilDecidedCall(call *ssa.Call, idx, depth int) (*Formula, bool) {
	f := call.Common().StaticCallee()
	// the helper may loop (e.g. to log): only the path conditions of its return sites and the
	// nil-ness of what they return are used, never a value computed in the loop
	if f == nil || !(c.inlinable(f) || (c.p.inRepo(f) && f.Blocks != nil && f != c.fn && f != c.scope && f.Recover == nil && c.depth < c.maxD && !c.noInl[f] && infoOf(f).ninstr <= 120 && c.p.readOnly(f))) {
		return nil, false
	}
	args := make([]*Term, len(call.Common().Args))
	for i, a := range call.Common().Args {
		args[i] = c.Term(a)
	}
	ch := c.child(f, call, args)
	var alts []*Formula
	for _, b := range f.Blocks {
		if len(b.Instrs) == 0 {
			continue
		}
		r, ok := b.Instrs[len(b.Instrs)-1].(*ssa.Return)
		if !ok {
			continue
		}
		if idx >= len(r.Results) {
			return nil, false
		}
		g, ok := ch.nilDecided(r.Results[idx], depth+1)
		if !ok {
			return nil, false
		}
		alts = append(alts, And(ch.BlockPC(b), g))
	}
	if len(alts) == 0 {
		return nil, false
	}
	return Or(alts...), true
}

// termFormula turns a bool-typed term back into a formula (used for bound parameters).
func termFormula(t *Term) *Formula {
	switch t.Kind {
	case "const":
		if t.Name == "true" {
			return FTrue
		}
		if t.Name == "false" {
			return FFalse
		}
	case "boolf":
		return t.formula()
	case "binop":
		// a comparison kept as a value (stored in a structure field, returned inside a literal)
		if len(t.Args) == 2 {
			for _, op := range []token.Token{token.LSS, token.GTR, token.LEQ, token.GEQ, token.EQL, token.NEQ} {
				if t.Name == op.String() {
					return cmpFormula(op, t.Args[0], t.Args[1])
				}
			}
		}
	case "unop":
		if t.Name == "!" && len(t.Args) == 1 {
			return Not(termFormula(t.Args[0]))
		}
	case "call":
		// a boolean call passed on as an argument (hoisted out of a loop, handed to a helper): its
		// propositional reading is that of the call where it was made
		if t.C != nil {
			if call, ok := t.Val.(*ssa.Call); ok && isBool(call.Type()) {
				return t.C.Formula(call)
			}
		}
	}
	return Atom(t)
}

// boolf terms wrap a formula so that boolean arguments of inlined calls keep their structure.
var boolfStore = map[string]*Formula{}

func formulaTerm(f *Formula) *Term {
	switch f {
	case FTrue:
		return &Term{Kind: "const", Name: "true"}
	case FFalse:
		return &Term{Kind: "const", Name: "false"}
	}
	if f.kind == fAtom {
		return f.atom
	}
	boolfStore[f.key] = f
	return &Term{Kind: "boolf", Name: f.key, str: "⟨" + f.String() + "⟩", key: "boolf:" + f.key}
}

func (t *Term) formula() *Formula { return boolfStore[t.Name] }

// cmpFormula normalises a comparison to the atoms `a < b` and `a == b` (operands of == sorted).
func cmpFormula(op token.Token, a, b *Term) *Formula {
	lt := func(x, y *Term) *Formula { return Atom(&Term{Kind: "cmp", Name: "<", Args: []*Term{x, y}}) }
	eq := func(x, y *Term) *Formula {
		// nil compared with nil (a nil field of a zero structure bound into a helper's frame)
		if x.Kind == "const" && y.Kind == "const" && x.Name == "nil" && y.Name == "nil" {
			return FTrue
		}
		if x.Key() > y.Key() {
			x, y = y, x
		}
		return Atom(&Term{Kind: "cmp", Name: "==", Args: []*Term{x, y}})
	}
	switch op {
	case token.LSS:
		return lt(a, b)
	case token.GTR:
		return lt(b, a)
	case token.LEQ:
		return Not(lt(b, a))
	case token.GEQ:
		return Not(lt(a, b))
	case token.EQL:
		return eq(a, b)
	case token.NEQ:
		return Not(eq(a, b))
	}
	panic("cmpFormula: " + op.String())
}

// edgeCond is the branch condition under which control moves from p to b.
func (c *Ctx) edgeCond(p, b *ssa.BasicBlock) *Formula {
	if len(p.Instrs) == 0 {
		return FTrue
	}
	if br, ok := p.Instrs[len(p.Instrs)-1].(*ssa.If); ok {
		// leaving a range loop through its header ("the traversal is over") always happens: it is not a
		// condition on the state the code after the loop runs in
		for _, l := range loopsOf(p.Parent()) {
			if l.IsRange() && !l.Blocks[b] && l.exhaustionExit(p) && (l.Header == p || l.Rotated) {
				return FTrue
			}
			// … and so is entering or skipping a rotated integer range (`0 < n` before the loop)
			if l.Rotated && l.IsRange() && !l.Blocks[p] && p.Succs[0] == l.Header && len(p.Succs) == 2 && b == p.Succs[1] {
				return FTrue
			}
		}
		t, f := p.Succs[0] == b, p.Succs[1] == b
		switch {
		case t && f:
			return FTrue
		case t:
			return c.Formula(br.Cond)
		case f:
			return Not(c.Formula(br.Cond))
		}
	}
	return FTrue
}

func (c *Ctx) edgePC(p, b *ssa.BasicBlock) *Formula {
	return And(c.BlockPC(p), c.edgeCond(p, b))
}

// BlockPC: disjunction over the acyclic paths entry→b (back edges cut) of the branch conditions.
func (c *Ctx) BlockPC(b *ssa.BasicBlock) *Formula {
	if f, ok := c.pc[b.Index]; ok {
		return f
	}
	c.pc[b.Index] = FFalse // guards against irreducible recursion
	var f *Formula
	if b.Index == 0 {
		f = FTrue
	} else {
		var alts []*Formula
		for _, p := range b.Preds {
			if c.fi.backEdge[[2]int{p.Index, b.Index}] {
				continue
			}
			alts = append(alts, c.edgePC(p, b))
		}
		f = Or(alts...)
	}
	c.pc[b.Index] = f
	return f
}

// PC of an instruction = PC of its block (instructions that may not return — panics, Fatal —
// are not modelled; they only make the real condition stronger).
func (c *Ctx) PC(in ssa.Instruction) *Formula { return c.BlockPC(in.Block()) }

// returnFormula: the boolean value of result i of the (loop-free) function of this context.
func (c *Ctx) returnFormula(i int) *Formula {
	var alts []*Formula
	for _, b := range c.fn.Blocks {
		if len(b.Instrs) == 0 {
			continue
		}
		if r, ok := b.Instrs[len(b.Instrs)-1].(*ssa.Return); ok && i < len(r.Results) {
			alts = append(alts, And(c.BlockPC(b), c.Formula(r.Results[i])))
		}
	}
	return Or(alts...)
}

// ---- helpers for rules -----------------------------------------------------------------------

// walk visits t and its sub-terms.
func (t *Term) walk(f func(*Term) bool) {
	if t == nil || !f(t) {
		return
	}
	for _, a := range t.Args {
		a.walk(f)
	}
	if t.Kind == "boolf" {
		for _, a := range t.formula().Atoms() {
			a.walk(f)
		}
	}
}

func (t *Term) contains(pred func(*Term) bool) bool {
	found := false
	t.walk(func(x *Term) bool {
		if pred(x) {
			found = true
		}
		return !found
	})
	return found
}

// fieldPath renders the chain of field names from the root: opts.nodeGroup.Opts.MinNodes →
// (root term, ["nodeGroup","Opts","MinNodes"]).
func (t *Term) fieldPath() (*Term, []string) {
	var names []string
	for t.Kind == "field" {
		names = append([]string{t.Name}, names...)
		t = t.Args[0]
	}
	return t, names
}

func sortedKeys[M ~map[string]V, V any](m M) []string {
	var ks []string
	for k := range m {
		ks = append(ks, k)
	}
	sort.Strings(ks)
	return ks
}

// subst rebuilds t with parameters (matched by SSA value) replaced; field projections of
// struct terms are re-simplified, so binding a scaleOpts parameter to a struct literal resolves
// opts.taintedNodes to the literal's component.
func (t *Term) subst(m map[ssa.Value]*Term) *Term {
	if t == nil {
		return nil
	}
	if t.Kind == "param" {
		if r, ok := m[t.Val]; ok {
			return r
		}
		return t
	}
	if len(t.Args) == 0 {
		return t
	}
	changed := false
	args := make([]*Term, len(t.Args))
	for i, a := range t.Args {
		args[i] = a.subst(m)
		if args[i] != a {
			changed = true
		}
	}
	if !changed {
		return t
	}
	if t.Kind == "field" {
		if f, ok := t.Obj.(*types.Var); ok && args[0].Kind == "struct" {
			if st, ok := args[0].Typ.Underlying().(*types.Struct); ok {
				for i := 0; i < st.NumFields(); i++ {
					if st.Field(i) == f && i < len(args[0].Args) {
						return args[0].Args[i]
					}
				}
			}
		}
	}
	n := *t
	n.Args = args
	n.key, n.str = "", ""
	return &n
}

func isCallTo(t *Term, fn *ssa.Function) bool {
	return t != nil && t.Kind == "call" && fn != nil && t.Fn == fn
}

func isExtractOf(t *Term, idx int, inner func(*Term) bool) bool {
	return t != nil && t.Kind == "extract" && t.Name == fmt.Sprint(idx) && len(t.Args) == 1 && inner(t.Args[0])
}

// boolFieldExit computes, for a loop-free function, the value of the boolean field f of the
// object denoted by recv at function exit, as a formula over the field's value on entry (pre)
// and the branch atoms. Loads of the field are resolved to the value reaching them.
func (c *Ctx) boolFieldExit(recv *Term, f *types.Var) (post *Formula, pre *Term, err error) {
	if c.fi.hasLoop {
		return nil, nil, fmt.Errorf("%s has a loop", funcID(c.fn))
	}
	pre = &Term{Kind: "field", Name: f.Name(), Obj: f, Args: []*Term{recv}, ID: "pre", Typ: f.Type()}
	isLoc := func(addr ssa.Value) bool {
		fa, ok := addr.(*ssa.FieldAddr)
		if !ok || fieldOfAddr(fa) != f {
			return false
		}
		b := c.Term(fa.X)
		if b.Kind == "unop" && b.Name == "&" {
			b = b.Args[0]
		}
		return b.Key() == recv.Key()
	}
	n := len(c.fn.Blocks)
	valIn := make([]*Formula, n)
	valOut := make([]*Formula, n)
	loadVal := map[string]*Formula{}
	for _, b := range topoBlocks(c.fn) {
		for _, p := range b.Preds {
			if valOut[p.Index] == nil {
				return nil, nil, fmt.Errorf("blocks of %s are not topologically ordered", funcID(c.fn))
			}
		}
		var cur *Formula
		if b.Index == 0 {
			cur = Atom(pre)
		} else {
			var alts []*Formula
			for _, p := range b.Preds {
				alts = append(alts, And(c.edgePC(p, b), valOut[p.Index]))
			}
			cur = Or(alts...)
		}
		valIn[b.Index] = cur
		for _, in := range b.Instrs {
			switch x := in.(type) {
			case *ssa.Store:
				if isLoc(x.Addr) {
					cur = c.Formula(x.Val)
				}
			case *ssa.UnOp:
				if x.Op == token.MUL && isLoc(x.X) {
					loadVal[c.Term(x).Key()] = cur
				}
			case ssa.CallInstruction:
				for _, g := range c.p.calleesOf(x) {
					if c.p.mayMutate(g, f) {
						return nil, nil, fmt.Errorf("%s calls %s which may write %s", funcID(c.fn), funcID(g), f.Name())
					}
				}
			}
		}
		valOut[b.Index] = cur
	}
	var alts []*Formula
	for _, b := range c.fn.Blocks {
		if _, ok := b.Instrs[len(b.Instrs)-1].(*ssa.Return); ok {
			alts = append(alts, And(c.BlockPC(b), valOut[b.Index]))
		}
	}
	post = Or(alts...)
	for i := 0; i < 8; i++ {
		next := post.Subst(func(t *Term) *Formula { return loadVal[t.Key()] })
		if next == post {
			break
		}
		post = next
	}
	return post, pre, nil
}

// topoBlocks: blocks of a loop-free function in a topological order of the CFG.
func topoBlocks(fn *ssa.Function) []*ssa.BasicBlock {
	seen := map[*ssa.BasicBlock]bool{}
	var post []*ssa.BasicBlock
	var dfs func(b *ssa.BasicBlock)
	dfs = func(b *ssa.BasicBlock) {
		if seen[b] {
			return
		}
		seen[b] = true
		for _, s := range b.Succs {
			dfs(s)
		}
		post = append(post, b)
	}
	dfs(fn.Blocks[0])
	for i, j := 0, len(post)-1; i < j; i, j = i+1, j-1 {
		post[i], post[j] = post[j], post[i]
	}
	return post
}

func isErrorType(t types.Type) bool {
	n, ok := t.(*types.Named)
	return ok && n.Obj().Pkg() == nil && n.Obj().Name() == "error"
}

// enumDecided: one of a, b is an integer constant k and the other the result of an inlinable repo
// function every return of which is an integer constant of a named type (an enumeration); returns
// the formula of "the function returns k" with the call's arguments bound, or nil.
func (c *Ctx) enumDecided(a, b ssa.Value) *Formula {
	k, ok := a.(*ssa.Const)
	call, ok2 := b.(*ssa.Call)
	if !ok || !ok2 {
		k, ok = b.(*ssa.Const)
		call, ok2 = a.(*ssa.Call)
	}
	if !ok || !ok2 || k.Value == nil || k.Value.Kind() != constant.Int || call.Common().IsInvoke() {
		return nil
	}
	f := call.Common().StaticCallee()
	if f == nil || !c.inlinable(f) || c.p.noExpand[f] || f.Signature.Results().Len() != 1 || !isInteger(f.Signature.Results().At(0).Type()) {
		return nil
	}
	if _, isNamed := f.Signature.Results().At(0).Type().(*types.Named); !isNamed {
		return nil // plain integers are arithmetic, not tags
	}
	args := make([]*Term, len(call.Common().Args))
	for i, av := range call.Common().Args {
		args[i] = c.Term(av)
	}
	ch := c.child(f, call, args)
	out := FFalse
	for _, blk := range f.Blocks {
		r, ok := blk.Instrs[len(blk.Instrs)-1].(*ssa.Return)
		if !ok {
			continue
		}
		rk, isConst := r.Results[0].(*ssa.Const)
		if !isConst || rk.Value == nil || rk.Value.Kind() != constant.Int {
			return nil
		}
		if constant.Compare(rk.Value, token.EQL, k.Value) {
			out = Or(out, ch.BlockPC(blk))
		}
	}
	return out
}

// seeThrough: t is the call of a one-block, effect-free repo helper with one result (an accessor
// or expression helper such as `func (l *lock) heldFor() time.Duration { return time.Since(l.t) }`):
// the returned expression over the call's arguments; otherwise t itself.
func (c *Ctx) seeThrough(t *Term) *Term {
	for i := 0; i < 3; i++ {
		if t == nil || t.Kind != "call" || t.Fn == nil || !c.p.inRepo(t.Fn) || t.Fn.Blocks == nil || len(t.Fn.Blocks) != 1 || t.Fn.Signature.Results().Len() != 1 {
			return t
		}
		blk := t.Fn.Blocks[0]
		r, ok := blk.Instrs[len(blk.Instrs)-1].(*ssa.Return)
		if !ok {
			return t
		}
		for _, in := range blk.Instrs {
			switch y := in.(type) {
			case *ssa.Store:
				if _, isAlloc := baseOfAddr(y.Addr).(*ssa.Alloc); !isAlloc {
					return t
				}
			case *ssa.Defer, *ssa.Go, *ssa.Panic, *ssa.MapUpdate, *ssa.Send:
				return t
			}
		}
		ch := c.childTerm(t)
		ch.depth = 0
		t = ch.Term(r.Results[0])
	}
	return t
}
