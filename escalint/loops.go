package main

// loops.go — E7: natural loops of the SSA CFG and the loop-shape recognisers.

import (
	"go/token"
	"go/types"
	"sort"

	"golang.org/x/tools/go/ssa"
)

// Loop is a natural loop (all back edges to one header merged).
type Loop struct {
	Fn      *ssa.Function
	Header  *ssa.BasicBlock
	Blocks  map[*ssa.BasicBlock]bool
	Latches []*ssa.BasicBlock
	// Exits: edges leaving the loop
	Exits [][2]*ssa.BasicBlock
	// Range info (slice range lowering): index phi, incremented index, ranged slice value
	IdxPhi *ssa.Phi
	Idx    ssa.Value
	Over   ssa.Value // the slice (or map for MapRange) being ranged
	MapIt  *ssa.Range
	// Rotated: the loop is go/ssa's lowering of `for i := range n`: the header is the top of the
	// body, the exhaustion test sits before the loop and at the end of every trip
	Rotated bool
}

// bodyPC: the path condition of the loop body's first statement.
func (l *Loop) bodyPC(ctx *Ctx) *Formula {
	if l.Rotated {
		return ctx.BlockPC(l.Header)
	}
	return And(ctx.BlockPC(l.Header), ctx.edgeCond(l.Header, l.Header.Succs[0]))
}

// exhaustionExit: the edge out of the loop from block b is the loop's own "no more elements" exit.
func (l *Loop) exhaustionExit(b *ssa.BasicBlock) bool {
	if b == l.Header && !l.Rotated {
		return true
	}
	if l.Rotated {
		for _, lt := range l.Latches {
			if lt == b {
				return true
			}
		}
	}
	return false
}

var loopCache = map[*ssa.Function][]*Loop{}

func loopsOf(fn *ssa.Function) []*Loop {
	if l, ok := loopCache[fn]; ok {
		return l
	}
	byHeader := map[*ssa.BasicBlock]*Loop{}
	for _, b := range fn.Blocks {
		for _, s := range b.Succs {
			if s.Dominates(b) {
				l := byHeader[s]
				if l == nil {
					l = &Loop{Fn: fn, Header: s, Blocks: map[*ssa.BasicBlock]bool{s: true}}
					byHeader[s] = l
				}
				l.Latches = append(l.Latches, b)
				// body: nodes reaching b without passing the header
				stack := []*ssa.BasicBlock{b}
				for len(stack) > 0 {
					x := stack[len(stack)-1]
					stack = stack[:len(stack)-1]
					if l.Blocks[x] {
						continue
					}
					l.Blocks[x] = true
					for _, p := range x.Preds {
						stack = append(stack, p)
					}
				}
			}
		}
	}
	var out []*Loop
	for _, l := range byHeader {
		for b := range l.Blocks {
			for _, s := range b.Succs {
				if !l.Blocks[s] {
					l.Exits = append(l.Exits, [2]*ssa.BasicBlock{b, s})
				}
			}
		}
		sort.Slice(l.Exits, func(i, j int) bool {
			if l.Exits[i][0].Index != l.Exits[j][0].Index {
				return l.Exits[i][0].Index < l.Exits[j][0].Index
			}
			return l.Exits[i][1].Index < l.Exits[j][1].Index
		})
		l.detectRange()
		out = append(out, l)
	}
	sort.Slice(out, func(i, j int) bool { return out[i].Header.Index < out[j].Header.Index })
	loopCache[fn] = out
	return out
}

func (l *Loop) detectRange() {
	h := l.Header
	// slice range: phi(-1, idx) ; idx = phi+1 ; if idx < len(x)
	for _, in := range h.Instrs {
		bo, ok := in.(*ssa.BinOp)
		if !ok || bo.Op != token.ADD {
			continue
		}
		if ph := rangeLoopOf(bo); ph != nil && ph.Block() == h {
			if br, ok := h.Instrs[len(h.Instrs)-1].(*ssa.If); ok {
				if cmp, ok := br.Cond.(*ssa.BinOp); ok && cmp.Op == token.LSS && cmp.X == ssa.Value(bo) {
					if lc, ok := isBuiltinCall(cmp.Y, "len"); ok {
						l.IdxPhi, l.Idx, l.Over = ph, bo, lc.Common().Args[0]
						return
					}
					// range over an array (or a pointer to one): the bound is the constant length, the
					// elements are read through &arr[idx]
					if k, ok := cmp.Y.(*ssa.Const); ok && k.Value != nil {
						for _, r := range *bo.Referrers() {
							if ix, ok := r.(*ssa.Index); ok && ix.Index == ssa.Value(bo) {
								if arr, ok := ix.X.Type().Underlying().(*types.Array); ok && arr.Len() == k.Int64() {
									l.IdxPhi, l.Idx, l.Over = ph, bo, ix.X
									return
								}
							}
							ia, ok := r.(*ssa.IndexAddr)
							if !ok || ia.Index != ssa.Value(bo) {
								continue
							}
							if pt, ok := ia.X.Type().Underlying().(*types.Pointer); ok {
								if arr, ok := pt.Elem().Underlying().(*types.Array); ok && arr.Len() == k.Int64() {
									l.IdxPhi, l.Idx, l.Over = ph, bo, ia.X
									return
								}
							}
						}
					}
				}
			}
		}
	}
	// counted index loop: for i := 0; i < len(x) [&& …]; i++ — the element index is the φ itself
	for _, in := range h.Instrs {
		if ph, ok := in.(*ssa.Phi); ok {
			if x := countedIndex(ph); x != nil {
				// len(x) is re-evaluated in the header: the ranged slice must not be reassigned in the loop
				if xi, ok := x.(ssa.Instruction); ok && l.Blocks[xi.Block()] {
					continue
				}
				l.IdxPhi, l.Idx, l.Over = ph, ph, x
				_, l.Rotated = rotatedCounted(ph)
				return
			}
		}
	}
	// map / string range: t = next(it); if ok goto body else done
	for _, in := range h.Instrs {
		if nx, ok := in.(*ssa.Next); ok {
			if rg, ok := nx.Iter.(*ssa.Range); ok {
				l.MapIt = rg
				l.Over = rg.X
				return
			}
		}
	}
}

// IsRange: a `for … := range x` loop.
func (l *Loop) IsRange() bool { return l.IdxPhi != nil || l.MapIt != nil }

// FullTraversal: the only way out of the loop is the header's exhaustion test — no break,
// return, panic or goto out of the body.
func (l *Loop) FullTraversal() bool {
	if !l.IsRange() {
		return false
	}
	for _, e := range l.Exits {
		if !l.exhaustionExit(e[0]) {
			return false
		}
	}
	// no return / panic inside the body
	for b := range l.Blocks {
		if len(b.Instrs) == 0 {
			continue
		}
		switch b.Instrs[len(b.Instrs)-1].(type) {
		case *ssa.Return, *ssa.Panic:
			return false
		}
	}
	return true
}

// innermostLoop containing block b.
func innermostLoop(fn *ssa.Function, b *ssa.BasicBlock) *Loop {
	var best *Loop
	for _, l := range loopsOf(fn) {
		if l.Blocks[b] && (best == nil || len(l.Blocks) < len(best.Blocks)) {
			best = l
		}
	}
	return best
}

// loopOfHeaderPhi: the loop whose header holds phi.
func loopOfHeaderPhi(ph *ssa.Phi) *Loop {
	for _, l := range loopsOf(ph.Parent()) {
		if l.Header == ph.Block() {
			return l
		}
	}
	return nil
}

// elemLoop: for a term produced by indexTerm (Kind "elem") find the loop by its index phi.
func elemValueLoop(v ssa.Value) *Loop {
	// v is *addr with addr = IndexAddr(x, idx) or Index
	var idx ssa.Value
	if a, ok := derefLoadOf(v); ok {
		if ia, ok := a.(*ssa.IndexAddr); ok {
			idx = ia.Index
		}
	}
	if ix, ok := v.(*ssa.Index); ok {
		idx = ix.Index
	}
	if idx == nil {
		return nil
	}
	if ph := rangeLoopOf(idx); ph != nil {
		return loopOfHeaderPhi(ph)
	}
	return nil
}

// Accumulator describes a header phi of slice type that grows by appends in the loop.
type Accumulator struct {
	Loop    *Loop
	Phi     *ssa.Phi
	Init    ssa.Value
	Appends []AppendSite // appends whose result flows back into the phi
	Other   []ssa.Value  // non-append loop-carried inputs other than the phi itself
}

// accumulatorOf analyses a header phi: every loop-carried incoming edge must be the phi itself
// or an append chain on the phi.
func accumulatorOf(ph *ssa.Phi) *Accumulator {
	l := loopOfHeaderPhi(ph)
	if l == nil {
		return nil
	}
	acc := &Accumulator{Loop: l, Phi: ph}
	for i, e := range ph.Edges {
		pred := ph.Block().Preds[i]
		if !l.Blocks[pred] {
			acc.Init = e
			continue
		}
		// walk the chain e → … → ph through appends and inner phis
		seen := map[ssa.Value]bool{}
		var rec func(v ssa.Value)
		rec = func(v ssa.Value) {
			if seen[v] {
				return
			}
			seen[v] = true
			if v == ssa.Value(ph) {
				return
			}
			switch x := v.(type) {
			case *ssa.Phi:
				for _, ee := range x.Edges {
					rec(ee)
				}
			case *ssa.Call:
				if c, ok := isBuiltinCall(x, "append"); ok {
					site := AppendSite{Call: c}
					args := c.Common().Args
					if el, ok := variadicElems(args[1]); ok {
						site.Elems = el
					} else {
						site.Spread = args[1]
					}
					acc.Appends = append(acc.Appends, site)
					rec(args[0])
					return
				}
				acc.Other = append(acc.Other, v)
			default:
				acc.Other = append(acc.Other, v)
			}
		}
		rec(e)
	}
	// dedup appends
	seenC := map[*ssa.Call]bool{}
	var ap []AppendSite
	for _, s := range acc.Appends {
		if !seenC[s.Call] {
			seenC[s.Call] = true
			ap = append(ap, s)
		}
	}
	acc.Appends = ap
	return acc
}

// BoundedAccumulator (E7b): a range loop with a second exit `len(acc) >= n` (n loop-invariant)
// tested before any effect of the iteration; acc grows by at most one element per iteration.
// Returns the bound value n.
type BoundedAcc struct {
	Loop  *Loop
	Acc   *Accumulator
	Bound ssa.Value
	Test  *ssa.If // the `len(acc) >= n` test
}

func boundedAccumulators(fn *ssa.Function) []*BoundedAcc {
	var out []*BoundedAcc
	for _, l := range loopsOf(fn) {
		if l.IdxPhi == nil {
			continue
		}
		for _, e := range l.Exits {
			if l.exhaustionExit(e[0]) {
				continue
			}
			br, ok := e[0].Instrs[len(e[0].Instrs)-1].(*ssa.If)
			if !ok {
				continue
			}
			cmp, ok := br.Cond.(*ssa.BinOp)
			if !ok {
				continue
			}
			// len(acc) >= n  exits on true edge
			var lenSide, bound ssa.Value
			exitOnTrue := e[0].Succs[0] == e[1]
			switch {
			case cmp.Op == token.GEQ && exitOnTrue:
				lenSide, bound = cmp.X, cmp.Y
			case cmp.Op == token.LEQ && exitOnTrue:
				lenSide, bound = cmp.Y, cmp.X
			case cmp.Op == token.LSS && !exitOnTrue:
				lenSide, bound = cmp.X, cmp.Y
			case cmp.Op == token.GTR && !exitOnTrue:
				lenSide, bound = cmp.Y, cmp.X
			default:
				continue
			}
			lc, ok := isBuiltinCall(lenSide, "len")
			if !ok {
				continue
			}
			ph, ok := lc.Common().Args[0].(*ssa.Phi)
			if !ok || ph.Block() != l.Header {
				continue
			}
			acc := accumulatorOf(ph)
			if acc == nil || len(acc.Other) > 0 {
				continue
			}
			// bound must be loop invariant: defined outside the loop
			if in, ok := bound.(ssa.Instruction); ok && l.Blocks[in.Block()] {
				continue
			}
			// the test block must be the first body block (reached directly from the header)
			first := false
			for _, p := range e[0].Preds {
				if p == l.Header {
					first = true
				}
			}
			if !first {
				continue
			}
			// at most one element per append, appends in distinct (mutually exclusive) blocks
			one := true
			for _, s := range acc.Appends {
				if s.Spread != nil || len(s.Elems) != 1 {
					one = false
				}
			}
			for i := range acc.Appends {
				for j := range acc.Appends {
					if i < j {
						bi, bj := acc.Appends[i].Call.Block(), acc.Appends[j].Call.Block()
						if bi == bj || bi.Dominates(bj) || bj.Dominates(bi) {
							one = false
						}
					}
				}
			}
			if !one {
				continue
			}
			out = append(out, &BoundedAcc{Loop: l, Acc: acc, Bound: bound, Test: br})
		}
	}
	return out
}
