package main

// roles.go — §3.2 of DESIGN.md: the role terms / atoms rules are phrased in, and the shared
// structural facts several properties rely on (deletion flow, layering L0, group binding).

import (
	"fmt"
	"go/token"
	"go/types"
	"sort"
	"strings"

	"golang.org/x/tools/go/ssa"
)

func paramTerm(p *ssa.Parameter) *Term {
	return &Term{Kind: "param", Name: p.Name(), Val: p, Typ: p.Type()}
}

func mkField(base *Term, f *types.Var) *Term {
	return &Term{Kind: "field", Name: f.Name(), Obj: f, Args: []*Term{base}, Typ: f.Type()}
}

func (ck *Check) paramOfType(fn *ssa.Function, named *types.Named, ptr bool) *ssa.Parameter {
	var found *ssa.Parameter
	for _, prm := range fn.Params {
		t := prm.Type()
		if ptr {
			if ck.A.isPtrTo(t, named) {
				if found != nil {
					return nil
				}
				found = prm
			}
		} else if types.Identical(t, named) {
			if found != nil {
				return nil
			}
			found = prm
		}
	}
	return found
}

// groupTerm: the term denoting "the node group this function works on": a *NodeGroupState
// parameter, or the *NodeGroupState field of a scaleOpts parameter.
func (ck *Check) groupTerm(fn *ssa.Function) *Term {
	if prm := ck.paramOfType(fn, ck.A.TState, true); prm != nil {
		return paramTerm(prm)
	}
	if prm := ck.paramOfType(fn, ck.A.TScaleOpts, false); prm != nil {
		st := ck.A.TScaleOpts.Underlying().(*types.Struct)
		for i := 0; i < st.NumFields(); i++ {
			if ck.A.isPtrTo(st.Field(i).Type(), ck.A.TState) {
				return mkField(paramTerm(prm), st.Field(i))
			}
		}
	}
	return nil
}

func (ck *Check) ctrlTerm(fn *ssa.Function) *Term {
	if prm := ck.paramOfType(fn, ck.A.TController, true); prm != nil {
		return paramTerm(prm)
	}
	return nil
}

// optTerm: g.Opts.<field with json tag>
func (ck *Check) optTerm(g *Term, jsonTag string) *Term {
	opts := field(ck.A.TState, "Opts")
	f := fieldByJSON(ck.A.TOptions, jsonTag)
	if opts == nil || f == nil || g == nil {
		// never nil: an unresolved option becomes an opaque term that matches nothing
		return &Term{Kind: "opaque", Name: "unresolved-option:" + jsonTag}
	}
	return mkField(mkField(g, opts), f)
}

// dryAtoms: the two atoms of the dry-mode predicate for fn: c.Opts.DryMode and g.Opts.DryMode.
func (ck *Check) dryAtoms(fn *ssa.Function) (global, group *Term, err error) {
	c, g := ck.ctrlTerm(fn), ck.groupTerm(fn)
	if c == nil || g == nil {
		return nil, nil, fmt.Errorf("function %s has no unique *Controller / node-group role parameter", funcID(fn))
	}
	fo := field(ck.A.TController, "Opts")
	fd := field(ck.A.TOpts, "DryMode")
	gd := ck.optTerm(g, "dry_mode")
	if fo == nil || fd == nil || gd == nil || gd.Kind == "opaque" {
		return nil, nil, fmt.Errorf("dry-mode fields (Controller.Opts.DryMode, NodeGroupOptions dry_mode) not found")
	}
	return mkField(mkField(c, fo), fd), gd, nil
}

// notDry: ¬(c.Opts.DryMode ∨ g.Opts.DryMode) for fn.
func (ck *Check) notDry(fn *ssa.Function) (*Formula, error) {
	gl, gr, err := ck.dryAtoms(fn)
	if err != nil {
		return nil, err
	}
	return And(Not(Atom(gl)), Not(Atom(gr))), nil
}

// ---- instruction-level reachability -------------------------------------------------------

// reachCut: functions reachable from roots when the given call instructions are removed.
func (p *Prog) reachCut(roots []*ssa.Function, cut map[ssa.Instruction]bool) map[*ssa.Function]bool {
	seen := map[*ssa.Function]bool{}
	stack := append([]*ssa.Function{}, roots...)
	for len(stack) > 0 {
		f := stack[len(stack)-1]
		stack = stack[:len(stack)-1]
		if f == nil || seen[f] {
			continue
		}
		seen[f] = true
		for _, b := range f.Blocks {
			for _, in := range b.Instrs {
				if cut[in] {
					continue
				}
				if ci, ok := in.(ssa.CallInstruction); ok {
					for _, g := range p.calleesOf(ci) {
						if !seen[g] {
							stack = append(stack, g)
						}
					}
				}
				if mc, ok := in.(*ssa.MakeClosure); ok {
					if g, ok := mc.Fn.(*ssa.Function); ok && !seen[g] {
						stack = append(stack, g)
					}
				}
			}
		}
	}
	return seen
}

// layeringL0 (§3.1): from RunOnce, every external write is reached only through an action
// site; the registration tagging path is the named exemption. Emits obligations under `rule`.
func (ck *Check) layeringL0(rule string, classes map[string]bool) {
	a := ck.A
	if !ck.need(rule, map[string]interface{}{"RunOnce": a.RunOnce}) {
		return
	}
	cut := map[ssa.Instruction]bool{}
	for _, s := range a.A {
		if s.Class != "A-CLOUD-DEC" {
			cut[s.Call] = true
		}
	}
	full := ck.P.reachCut([]*ssa.Function{a.RunOnce}, nil)
	without := ck.P.reachCut([]*ssa.Function{a.RunOnce}, cut)
	n := 0
	for _, w := range a.W {
		if classes != nil && !classes[w.Class] {
			continue
		}
		n++
		key := ck.P.siteKey(w.Call)
		pos := ck.P.instrPos(w.Call)
		if w.Class == "W-OTHER" {
			ck.fail(rule, key, pos, funcID(w.Fn), "only the censused write methods are used on the service interfaces", w.Method,
				"an unclassified write method of a Kubernetes / AWS client interface is called")
			continue
		}
		if w.Class == "W-ASG-TAG" {
			ck.info("%s: %s at %s (registration-time ASG tagging) is not one of the statement's write classes; exempt by name", rule, w.Method, pos)
			continue
		}
		if !full[w.Fn] {
			ck.ok(rule, key, pos, funcID(w.Fn), "write site unreachable from RunOnce or behind an action site", "not reachable from RunOnce at all")
			continue
		}
		if without[w.Fn] {
			ck.fail(rule, key, pos, funcID(w.Fn), "every path from RunOnce to this write passes through a censused action site (A-TAINT, A-UNTAINT, A-CLOUD-INC, A-CLOUD-DEL, A-K8S-DEL)",
				"reachable with all action sites removed", "call chain avoiding every action site: "+strings.Join(ck.chainCut(a.RunOnce, w.Fn, cut), " → "))
		} else {
			ck.ok(rule, key, pos, funcID(w.Fn), "every path from RunOnce to this write passes through a censused action site", "unreachable once the action call sites are cut")
		}
	}
	ck.Stats[rule+" W sites"] = n
}

func (ck *Check) chainCut(from, to *ssa.Function, cut map[ssa.Instruction]bool) []string {
	prev := map[*ssa.Function]*ssa.Function{from: nil}
	q := []*ssa.Function{from}
	for len(q) > 0 {
		f := q[0]
		q = q[1:]
		if f == to {
			var out []string
			for x := to; x != nil; x = prev[x] {
				out = append([]string{funcID(x)}, out...)
			}
			return out
		}
		for _, b := range f.Blocks {
			for _, in := range b.Instrs {
				if cut[in] {
					continue
				}
				if ci, ok := in.(ssa.CallInstruction); ok {
					for _, g := range ck.P.calleesOf(ci) {
						if _, ok := prev[g]; !ok {
							prev[g] = f
							q = append(q, g)
						}
					}
				}
			}
		}
	}
	return nil
}

// ---- deletion flow (C01.R1/R2, shared by C09 C10 C11 C19) ----------------------------------

// ReaperAppend is an append site inside a reaper that feeds the delete step.
type ReaperAppend struct {
	Reaper *ssa.Function
	Ctx    *Ctx
	Site   AppendSite
	Elem   *Term  // the appended node term
	Key    string // obligation key
	Force  bool
	// Extra: for a node handed to a collector method (`list.add(node)`), the condition under which
	// the method really appends it (read in the method with its receiver bound)
	Extra *Formula
}

// PC: the condition under which the node is put on the deletion list.
func (ra ReaperAppend) PC() *Formula {
	pc := ra.Ctx.PC(ra.Site.Call)
	if ra.Extra != nil {
		pc = And(pc, ra.Extra)
	}
	return pc
}

// deletionFlow establishes (emitting obligations under rule): the cloud/k8s delete calls sit in
// one function whose node-slice parameter is their only argument source; that function is
// called only by the two reapers; the slice each reaper passes is built exclusively by appends
// inside the reaper. It returns those append sites.
func (ck *Check) deletionFlow(rule string) []ReaperAppend {
	a := ck.A
	if !ck.need(rule, map[string]interface{}{"delete step": a.TryDelete, "grace reaper": a.GraceReaper, "force reaper": a.ForceReaper}) {
		return nil
	}
	// the slice parameter of the delete step
	var sliceParam *ssa.Parameter
	for _, prm := range a.TryDelete.Params {
		if _, ok := prm.Type().(*types.Slice); ok {
			if sliceParam != nil {
				ck.undecided(rule, "delete-step/params", "", funcID(a.TryDelete), "one node-slice parameter", "several slice parameters")
				return nil
			}
			sliceParam = prm
		}
	}
	if sliceParam == nil {
		ck.undecided(rule, "delete-step/params", "", funcID(a.TryDelete), "one node-slice parameter", "no slice parameter")
		return nil
	}
	nsinks := 0
	for _, s := range a.A {
		if s.Class != "A-CLOUD-DEL" && s.Class != "A-K8S-DEL" {
			continue
		}
		nsinks++
		key := ck.P.siteKey(s.Call)
		inChain := false
		for _, f := range a.TryDeleteChain {
			if s.Fn == f {
				inChain = true
			}
		}
		if !inChain {
			// k8s.DeleteNodes → k8s.DeleteNode inside pkg/k8s is excluded by the census; anything else is a second deleter
			ck.fail(rule, key, ck.P.instrPos(s.Call), funcID(s.Fn), "node deletion calls occur only in the delete step "+funcID(a.TryDelete), "call in "+funcID(s.Fn),
				"a second function issues cloud / Kubernetes node deletions")
			continue
		}
		// the node list argument
		var arg ssa.Value
		for _, av := range s.Call.Common().Args {
			if _, ok := av.Type().(*types.Slice); ok {
				arg = av
			}
		}
		pr := sliceProv(arg)
		okv := arg != nil && len(pr.Appends) == 0 && len(pr.Roots) == 1 && pr.Roots[0] == ssa.Value(sliceParam)
		if s.Fn != a.TryDelete && arg != nil {
			// in a private helper of the delete step: the helper's own parameter, bound at its call to the step's
			okv = false
			if ictx := ck.fnChainCtx(a.TryDeleteChain, s.Fn); ictx != nil {
				okv = ictx.Term(arg).Key() == paramTerm(sliceParam).Key()
			}
		}
		ck.cond(okv, rule, key+"/arg", ck.P.instrPos(s.Call), funcID(s.Fn), "the deleted node list is exactly the delete step's slice parameter", provString(ck.P, pr),
			"the list handed to the delete call is not (only) the list the reapers selected")
	}
	ck.floor(rule, "deletion sinks (cloud + kubernetes)", nsinks, 2)
	// callers
	callers := ck.P.callers[a.TryDelete]
	for _, c := range callers {
		if c != a.GraceReaper && c != a.ForceReaper {
			ck.fail(rule, "delete-step/caller:"+funcID(c), "", funcID(c), "the delete step is called only by the grace reaper and the force reaper", funcID(c),
				"another function can hand nodes to the delete step")
		}
	}
	var out []ReaperAppend
	for _, reaper := range []*ssa.Function{a.GraceReaper, a.ForceReaper} {
		ctx := ck.P.NewCtx(reaper)
		for _, call := range callsTo(reaper, a.TryDelete) {
			idx := -1
			for i, prm := range a.TryDelete.Params {
				if prm == sliceParam {
					idx = i
				}
			}
			arg := call.Common().Args[idx]
			pr := sliceProv(arg)
			key := ck.P.siteKey(call)
			// the list kept in a field of a local collector (`toBeDeleted := reapList{…}; toBeDeleted.add(n);
			// TryDeleteNodes(…, toBeDeleted.nodes)`): the appends are the collector's method calls
			if ras, ok := ck.collectorAppends(reaper, ctx, arg); ok {
				ck.ok(rule, key+"/sources", ck.P.instrPos(call), funcID(reaper), "the list passed to the delete step is built only by appends inside the reaper", fmt.Sprintf("%d calls of the collector's method", len(ras)))
				for i := range ras {
					ras[i].Force = reaper == a.ForceReaper
					ras[i].Key = fmt.Sprintf("%s/append#%d", funcID(reaper), i)
				}
				out = append(out, ras...)
				continue
			}
			if len(pr.Roots) > 0 {
				ck.fail(rule, key+"/sources", ck.P.instrPos(call), funcID(reaper), "the list passed to the delete step is built only by appends inside the reaper", provString(ck.P, pr),
					"nodes reach the delete step without passing the reaper's per-node guard")
				continue
			}
			ck.ok(rule, key+"/sources", ck.P.instrPos(call), funcID(reaper), "the list passed to the delete step is built only by appends inside the reaper", provString(ck.P, pr))
			for i, ap := range pr.Appends {
				ra := ReaperAppend{Reaper: reaper, Ctx: ctx, Site: ap, Force: reaper == a.ForceReaper, Key: fmt.Sprintf("%s/append#%d", funcID(reaper), i)}
				if ap.Spread != nil || len(ap.Elems) != 1 {
					ck.undecided(rule, ra.Key, ck.P.instrPos(ap.Call), funcID(reaper), "one node appended per append", "append of a whole slice or several elements")
					continue
				}
				ra.Elem = ctx.Term(ap.Elems[0])
				out = append(out, ra)
			}
		}
	}
	sort.Slice(out, func(i, j int) bool { return out[i].Key < out[j].Key })
	return out
}

func provString(p *Prog, pr SliceProv) string {
	var parts []string
	for _, ap := range pr.Appends {
		parts = append(parts, "append@"+p.instrPos(ap.Call))
	}
	for _, r := range pr.Roots {
		parts = append(parts, "root:"+r.Name()+"="+r.String())
	}
	if len(parts) == 0 {
		return "nil"
	}
	return strings.Join(parts, ", ")
}

// scanLists: the four results of the classifier call in the scan body, as SSA values.
func (ck *Check) scanLists() (call *ssa.Call, lists [4]ssa.Value, ok bool) {
	a := ck.A
	if a.Scan == nil || a.Filter == nil {
		return nil, lists, false
	}
	cs := callsTo(a.Scan, a.Filter)
	if len(cs) != 1 {
		return nil, lists, false
	}
	call, _ = cs[0].(*ssa.Call)
	if call == nil {
		return nil, lists, false
	}
	for _, r := range *call.Referrers() {
		if ex, ok := r.(*ssa.Extract); ok && ex.Index < 4 {
			lists[ex.Index] = ex
		}
	}
	return call, lists, true
}

// isElemOf: term t is the range element of a slice whose term satisfies pred.
func isElemOf(t *Term, pred func(*Term) bool) bool {
	return t != nil && t.Kind == "elem" && len(t.Args) == 1 && pred(t.Args[0])
}

// isScaleOptsField: term is <scaleOpts param>.<field name>
func (ck *Check) isScaleOptsField(t *Term, name string) bool {
	if t == nil || t.Kind != "field" || len(t.Args) != 1 {
		return false
	}
	f := field(ck.A.TScaleOpts, name)
	return f != nil && t.Obj == f && t.Args[0].Kind == "param"
}

// fnChainCtx: the context of `upto`, a member of a chain of functions each calling the next exactly
// once, with its parameters bound (transitively) to the arguments given by the chain's head.
func (ck *Check) fnChainCtx(chain []*ssa.Function, upto *ssa.Function) *Ctx {
	ctx, _ := ck.fnChainCtxPC(chain, upto)
	return ctx
}

// fnChainCtxPC: as fnChainCtx, also the conjunction of the path conditions of the chain's calls.
func (ck *Check) fnChainCtxPC(chain []*ssa.Function, upto *ssa.Function) (*Ctx, *Formula) {
	if len(chain) == 0 {
		return nil, nil
	}
	ctx := ck.P.NewCtx(chain[0])
	prefix := FTrue
	for i := 0; i+1 < len(chain) && chain[i] != upto; i++ {
		sites := callsTo(chain[i], chain[i+1])
		if len(sites) != 1 {
			return nil, nil
		}
		call, ok := sites[0].(*ssa.Call)
		if !ok {
			return nil, nil
		}
		prefix = And(prefix, ctx.PC(call))
		args := make([]*Term, len(call.Common().Args))
		for j, av := range call.Common().Args {
			args[j] = ctx.Term(av)
		}
		ctx = ctx.child(chain[i+1], call, args)
		ctx.depth = 0
	}
	if ctx.fn != upto {
		return nil, nil
	}
	return ctx, prefix
}

// findInvokeChain: findInvoke over the frames of a chain (outermost first), each read in its bound context.
func (ck *Check) findInvokeChain(chain []*ssa.Function, recv *Term, method string) *Term {
	for _, f := range chain {
		if fctx := ck.fnChainCtx(chain, f); fctx != nil {
			if t := ck.findInvoke(fctx, f, recv, method); t != nil {
				return t
			}
		}
	}
	// … or in a sizing helper a frame of the chain calls with the receiver among its arguments
	// (`planNodesToAdd(group, delta, max)`), read with its parameters bound at that call
	for _, f := range chain {
		fctx := ck.fnChainCtx(chain, f)
		if fctx == nil {
			continue
		}
		for _, ci := range callsIn(f, nil) {
			c, ok := ci.(*ssa.Call)
			if !ok {
				continue
			}
			h := c.Common().StaticCallee()
			if h == nil || !ck.P.inRepo(h) || h.Blocks == nil || h == f {
				continue
			}
			inChain := false
			for _, g := range chain {
				if g == h {
					inChain = true
				}
			}
			if inChain {
				continue
			}
			args := make([]*Term, len(c.Common().Args))
			handed := false
			for i, av := range c.Common().Args {
				args[i] = fctx.Term(av)
				if args[i].Key() == recv.Key() {
					handed = true
				}
			}
			if !handed {
				continue
			}
			ch := fctx.child(h, c, args)
			ch.depth = 0
			if t := ck.findInvoke(ch, h, recv, method); t != nil {
				return t
			}
		}
	}
	return nil
}

// collectorAppends: arg is the load of a slice field of a local structure of the reaper whose only
// writers are (a) the literal the local is initialised with, which leaves the field nil, and (b)
// calls of a repo method with the local's address as receiver that does
// `r.f = append(r.f, <its node parameter>)` and writes nothing else. Each such call is an append
// site: the node is the call's argument, the condition the call's path condition together with
// the method's own condition on the append.
func (ck *Check) collectorAppends(reaper *ssa.Function, ctx *Ctx, arg ssa.Value) ([]ReaperAppend, bool) {
	ld, ok := arg.(*ssa.UnOp)
	if !ok || ld.Op != token.MUL {
		return nil, false
	}
	fa, ok := ld.X.(*ssa.FieldAddr)
	if !ok {
		return nil, false
	}
	local, ok := fa.X.(*ssa.Alloc)
	if !ok || local.Referrers() == nil {
		return nil, false
	}
	var out []ReaperAppend
	for _, r := range *local.Referrers() {
		switch x := r.(type) {
		case *ssa.DebugRef:
		case *ssa.FieldAddr:
			for _, rr := range *x.Referrers() {
				switch y := rr.(type) {
				case *ssa.DebugRef:
				case *ssa.UnOp:
					if y.Op != token.MUL {
						return nil, false
					}
				case *ssa.Store:
					if y.Addr != ssa.Value(x) {
						return nil, false
					}
					if x.Field == fa.Field {
						if k, isK := y.Val.(*ssa.Const); !isK || !k.IsNil() {
							return nil, false // the list is written directly: not a pure collector
						}
					}
				default:
					return nil, false
				}
			}
		case *ssa.Store:
			// a whole-value initialisation with the zero value only
			if x.Addr != ssa.Value(local) {
				return nil, false
			}
			if k, isK := x.Val.(*ssa.Const); !isK || k.Value != nil {
				return nil, false
			}
		case *ssa.Call:
			m := x.Common().StaticCallee()
			if m == nil || !ck.P.inRepo(m) || m.Blocks == nil || len(x.Common().Args) == 0 || x.Common().Args[0] != ssa.Value(local) || len(loopsOf(m)) != 0 {
				return nil, false
			}
			fields, okW := handedToFieldWriter(x, local)
			if !okW {
				return nil, false
			}
			writesList := false
			for _, f := range fields {
				if f != fa.Field {
					return nil, false
				}
				writesList = true
			}
			if !writesList {
				continue // a reader
			}
			args := make([]*Term, len(x.Common().Args))
			for i, av := range x.Common().Args {
				args[i] = ctx.Term(av)
			}
			ch := ctx.child(m, x, args)
			ch.depth = 0
			// in the method: every store to the field is append(old, <one parameter>)
			extra := FFalse
			var elemArg ssa.Value
			for _, b := range m.Blocks {
				for _, in := range b.Instrs {
					st, isSt := in.(*ssa.Store)
					if !isSt {
						continue
					}
					mfa, isFA := st.Addr.(*ssa.FieldAddr)
					if !isFA || mfa.X != ssa.Value(m.Params[0]) || mfa.Field != fa.Field {
						continue
					}
					pr := sliceProv(st.Val)
					if len(pr.Appends) != 1 || pr.Appends[0].Spread != nil || len(pr.Appends[0].Elems) != 1 || len(pr.Roots) != 1 {
						return nil, false
					}
					old, isLoad := pr.Roots[0].(*ssa.UnOp)
					if !isLoad || !sameFieldAddr(old.X, st.Addr) {
						return nil, false
					}
					prm, isPrm := pr.Appends[0].Elems[0].(*ssa.Parameter)
					if !isPrm {
						return nil, false
					}
					for i, q := range m.Params {
						if q == prm && i < len(x.Common().Args) {
							elemArg = x.Common().Args[i]
						}
					}
					extra = Or(extra, ch.PC(st))
				}
			}
			if elemArg == nil {
				return nil, false
			}
			// what the method reads of the collector's other fields is what the reaper stored there
			lt := ctx.Term(local)
			if pos, okp := ctx.fi.pos[x]; okp {
				extra = extra.Subst(func(at *Term) *Formula {
					if at.Kind == "field" && len(at.Args) == 1 && at.Args[0].Key() == lt.Key() {
						if st := derefStruct(local.Type()); st != nil {
							for i := 0; i < st.NumFields(); i++ {
								if st.Field(i) == at.Obj && i != fa.Field {
									if mv := ctx.memAt(local, []int{i}, pos[0], pos[1], st.Field(i).Type()); mv != nil {
										return termFormula(mv)
									}
								}
							}
						}
					}
					return nil
				})
			}
			out = append(out, ReaperAppend{Reaper: reaper, Ctx: ctx, Site: AppendSite{Call: x, Elems: []ssa.Value{elemArg}}, Elem: ctx.Term(elemArg), Extra: extra})
		default:
			return nil, false
		}
	}
	return out, len(out) > 0
}
