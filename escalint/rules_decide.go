package main

// rules_decide.go — C06 (bands / dispatch), C07 (untaint before buy, fresh base), C08 (oldest first).

import (
	"fmt"
	"go/token"
	"go/types"
	"strings"

	"golang.org/x/tools/go/ssa"
)

func init() {
	register(&propSpec{ID: "C06", Run: checkC06,
		Explanation: "The decision table of the scan body: the delta before overrides is a φ whose incoming values are −fast_rate, −slow_rate, calcScaleUpDelta(untainted,…) and 0, selected — as equivalences relative to reaching the dispatch, modulo strictness at the band edges — by u below lower / between lower and upper / above scale-up / otherwise, with u = max(cpu%, mem%) of calcPercentUsage; every later definition is max(d,1) guarded by isScaleOnStarve / scaleOnMaxNodeAge; ScaleDown runs iff d<0 with count −d, ScaleUp iff d>0 with count d, otherwise only the reaper; ScaleUp cannot reach a taint, ScaleDown cannot reach an untaint or cloud increase; the taint count is min(rate, |U| − min_nodes) (both upper bounds entailed, value equal to one of them).",
		RuleText:    "R1 band table (4 equivalences), R2 overrides, R3 dispatch (3 guards + completeness + counts), R4 reachability of action classes per arm, R5 exact count, R6 definition of u, R7 the taint loop performs exactly that many successful writes unless the list runs out (bounded accumulator over the whole sorted list), R8 validation admits only ordered thresholds and rates (shared with C16.R1), R9 the taint candidates are all untainted nodes, oldest first, R10 every candidate the loop reaches is attempted, R11 the starve trigger compares like with like, R12 the requests u is taken of: per-pod composition and the total over every listed pod (C13.R2 / R3)",
		Assumptions: []string{"floating-point rounding of u and behaviour exactly at a threshold are not decided (the statement leaves the edges open)"}})
	register(&propSpec{ID: "C07", Run: checkC07,
		Explanation: "In ScaleUp the untaint step dominates the cloud step, which runs only when the untaint step returned no error; the cloud step is asked for exactly N − (#untainted) and only if that is ≥ 1; the untaint loop is a bounded accumulator over every tainted node in newest-first order (comparator cross-checked against the oldest-first one); and no function reachable from the scan body reads the cached ASG desired capacity for a decision after an AWS mutation that was not mirrored into the cache (typestate over MUT / SYNC / READ with per-function summaries).",
		RuleText:    "R1 order, R2 remainder, R3 loop, R4 comparator, R5 typestate on the provider cache, R6 absolute set (shared with C17.R2), R7 write confirmed, R8 every tainted node the loop reaches is attempted, R9 the untaint candidates are uncordoned tainted nodes (classifier guard, C01.R5)",
		Assumptions: []string{"failed-but-applied writes and AWS eventual consistency are not decided"}})
	register(&propSpec{ID: "C08", Run: checkC08,
		Explanation: "The taint loop walks a complete copy of the untainted list (one bundle per element, unconditional), sorted by a Less that reduces to CreationTimestamp(i).Before(CreationTimestamp(j)) before the loop starts, in index order, tainting the current element's node, leaving only by exhaustion or when n writes succeeded, and continuing after a failed write.",
		RuleText:    "R1 comparator, R2 complete copy, R3 sort dominates loop, R4 in-order / skip only on failure, R5 node passed is the current element's; the classifier withholds no untainted node from the candidates (classification completeness)",
		Assumptions: []string{"sort.Sort sorts; tie order is irrelevant to the statement (\"strictly older\")"}})
}

// ---------------------------------------------------------------------------------------------
// C06

type decision struct {
	ctx      *Ctx
	g        *Term
	D        *ssa.Phi    // final delta (dispatched on)
	D0       ssa.Value   // band value: a φ of the scan body, or the result of a decision helper
	chain    []ssa.Value // D, …, D0
	sd, su   ssa.CallInstruction
	noop     ssa.CallInstruction
	sdA, suA *ActCall // the same calls with the context they are made in (the scan body or a helper of it)
	noopA    *ActCall
	override []overrideDef
}

type overrideDef struct {
	phi   *ssa.Phi
	edge  int
	guard *Formula
	cond  ssa.Value // the branch condition that enables the override
}

// isMaxOne: v ≡ max(prev, 1) as int(math.Max(float64(prev), 1)).
func isMaxOne(v ssa.Value, prev ssa.Value) bool {
	// builtin max(prev, 1)
	if c, ok := isBuiltinCall(v, "max"); ok && len(c.Common().Args) == 2 {
		a0, a1 := c.Common().Args[0], c.Common().Args[1]
		one := func(x ssa.Value) bool {
			k, ok := x.(*ssa.Const)
			return ok && k.Value != nil && k.Value.String() == "1"
		}
		return (a0 == prev && one(a1)) || (a1 == prev && one(a0))
	}
	// a one-line repo helper `func atLeastOne(d int) int { return max(d, 1) }` applied to prev
	if c, ok := v.(*ssa.Call); ok && len(c.Common().Args) == 1 && c.Common().Args[0] == prev {
		if h := c.Common().StaticCallee(); h != nil && h.Blocks != nil && len(h.Blocks) == 1 && len(h.Params) == 1 && h.Pkg != nil && prev != nil {
			if r, ok := h.Blocks[0].Instrs[len(h.Blocks[0].Instrs)-1].(*ssa.Return); ok && len(r.Results) == 1 {
				return isMaxOne(r.Results[0], h.Params[0])
			}
		}
	}
	cv, ok := v.(*ssa.Convert)
	if !ok {
		return false
	}
	call, ok := cv.X.(*ssa.Call)
	if !ok {
		return false
	}
	f := call.Common().StaticCallee()
	if f == nil || pkgPathOfFn(f) != "math" || f.Name() != "Max" {
		return false
	}
	args := call.Common().Args
	isPrev := func(x ssa.Value) bool {
		c2, ok := x.(*ssa.Convert)
		return ok && c2.X == prev
	}
	isOne := func(x ssa.Value) bool {
		k, ok := x.(*ssa.Const)
		return ok && k.Value != nil && k.Value.String() == "1"
	}
	return (isPrev(args[0]) && isOne(args[1])) || (isPrev(args[1]) && isOne(args[0]))
}

func (ck *Check) findDecision(rule string) *decision {
	a := ck.A
	d := &decision{ctx: ck.P.NewCtx(a.Scan), g: ck.groupTerm(a.Scan)}
	st := a.TScaleOpts.Underlying().(*types.Struct)
	deltaIdx := -1
	for i := 0; i < st.NumFields(); i++ {
		if st.Field(i) == field(a.TScaleOpts, "nodesDelta") {
			deltaIdx = i
		}
	}
	deltaOf := func(ac *ActCall) *Term {
		for _, av := range ac.Call.Common().Args {
			if types.Identical(av.Type(), a.TScaleOpts) {
				t := ac.Ctx.Term(av)
				if t.Kind == "struct" && deltaIdx >= 0 {
					return t.Args[deltaIdx]
				}
			}
		}
		return nil
	}
	// the dispatch may sit in the scan body or in a helper the scan body calls (its extended body)
	callsOf := func(f *ssa.Function) []ActCall {
		return ck.bodyCalls(a.Scan, func(ci ssa.CallInstruction) bool { return f != nil && ci.Common().StaticCallee() == f })
	}
	for _, ac := range callsOf(a.ScaleDown) {
		ac := ac
		d.sd, d.sdA = ac.Call, &ac
	}
	if d.sd == nil {
		ck.fail(rule, "scan/ScaleDown-call", "", funcID(a.Scan), "the scan body dispatches to ScaleDown", "no call", "")
		return nil
	}
	dt := deltaOf(d.sdA)
	if dt == nil || dt.Kind != "unop" || dt.Name != "-" || dt.Args[0].Kind != "phi" {
		ck.fail(rule, ck.P.siteKey(d.sd)+"/count", ck.P.instrPos(d.sd), funcID(a.Scan), "ScaleDown is given nodesDelta = −d for the decided delta d", fmt.Sprint(dt), "the number of nodes to taint is not the negated decision")
		return nil
	}
	d.D = dt.Args[0].Val.(*ssa.Phi)
	for _, ac := range callsOf(a.ScaleUp) {
		ac := ac
		if t := deltaOf(&ac); t != nil && t.Kind == "phi" && t.Val == ssa.Value(d.D) {
			d.su, d.suA = ac.Call, &ac
		}
	}
	for _, ac := range callsOf(a.GraceReaper) {
		ac := ac
		if ac.Fn == d.sdA.Fn {
			d.noop, d.noopA = ac.Call, &ac
		} else if g, _ := ck.delegate(ac.Fn); g == a.GraceReaper && d.noop == nil {
			// reached through a one-line wrapper that hands the reaper its dependencies
			d.noop, d.noopA = ac.Call, &ac
		}
	}
	// peel overrides: cur = φ whose edges are all `prev` or "raise prev to at least 1"
	// (int(math.Max(float64(prev), 1)) or the constant 1 under prev < 1), possibly through a nested φ
	cur := d.D
	d.chain = []ssa.Value{cur}
	for {
		peeled := false
		var cands []ssa.Value
		var collect func(ph *ssa.Phi, depth int)
		seenC := map[ssa.Value]bool{}
		collect = func(ph *ssa.Phi, depth int) {
			for _, e := range ph.Edges {
				if seenC[e] {
					continue
				}
				switch x := e.(type) {
				case *ssa.Phi:
					seenC[e] = true
					cands = append(cands, e)
					if depth < 2 {
						collect(x, depth+1)
					}
				case *ssa.Extract, *ssa.Call:
					// the decided delta may be the result of a decision helper
					seenC[e] = true
					cands = append(cands, e)
				}
			}
		}
		collect(cur, 0)
		for _, prev := range cands {
			var raises []*ssa.BasicBlock
			var okShape func(ph *ssa.Phi, depth int) bool
			okShape = func(ph *ssa.Phi, depth int) bool {
				b := ph.Block()
				for i, e := range ph.Edges {
					switch {
					case e == ssa.Value(prev):
					case isMaxOne(e, prev):
						raises = append(raises, b.Preds[i])
					default:
						if k, ok := e.(*ssa.Const); ok && k.Value != nil && k.Value.String() == "1" {
							lt := cmpFormula(token.LSS, d.ctx.Term(prev), intConstTermTyped(1, prev.Type()))
							if imp, _, _ := Entails(d.ctx.edgePC(b.Preds[i], b), lt); imp {
								raises = append(raises, b.Preds[i])
								continue
							}
							return false
						}
						if p2, ok := e.(*ssa.Phi); ok && depth < 2 && ssa.Value(p2) != prev {
							if !okShape(p2, depth+1) {
								return false
							}
							continue
						}
						return false
					}
				}
				return true
			}
			if !okShape(cur, 0) || len(raises) == 0 {
				continue
			}
			for _, rb := range raises {
				var cond ssa.Value
				for dom := rb; dom != nil; dom = dom.Idom() {
					if br, ok := dom.Instrs[len(dom.Instrs)-1].(*ssa.If); ok {
						if _, isCall := br.Cond.(*ssa.Call); isCall && (dom.Succs[0] == rb || dom.Succs[0].Dominates(rb)) {
							cond = br.Cond
							break
						}
					}
					if pi, ok := prev.(ssa.Instruction); ok && dom == pi.Block() {
						break
					}
				}
				d.override = append(d.override, overrideDef{phi: cur, guard: d.ctx.BlockPC(rb), cond: cond})
			}
			d.chain = append(d.chain, prev)
			peeled = true
			if pp, ok := prev.(*ssa.Phi); ok {
				cur = pp
			} else {
				d.D0 = prev
			}
			break
		}
		if !peeled || d.D0 != nil {
			break
		}
	}
	if d.D0 == nil {
		d.D0 = cur
	}
	return d
}

// valueCase is one way a value can be defined: under guard (a full path condition in the scan
// body's vocabulary) it equals term.
type valueCase struct {
	guard *Formula
	term  *Term
	pos   ssa.Instruction
}

// valueCases expands a value into its defining cases: the incoming edges of a (non loop-carried)
// φ, and the return sites of a loop-free repo helper whose result it is (the helper's parameters
// bound to the call's arguments, its path conditions conjoined with the call site's).
func (ck *Check) valueCases(ctx *Ctx, prefix *Formula, v ssa.Value, depth int) []valueCase {
	in, _ := v.(ssa.Instruction)
	single := func() []valueCase {
		pc := prefix
		if in != nil && in.Block() != nil {
			pc = And(prefix, ctx.PC(in))
		}
		return []valueCase{{guard: pc, term: ctx.Term(v), pos: in}}
	}
	if depth > 3 {
		return single()
	}
	switch x := v.(type) {
	case *ssa.Phi:
		if ctx.loopCarried(x) {
			return single()
		}
		var out []valueCase
		b := x.Block()
		for i, e := range x.Edges {
			eg := And(prefix, ctx.edgePC(b.Preds[i], b))
			switch e.(type) {
			case *ssa.Phi:
				// a nested φ is already guarded by its own block; refine through it
				for _, c := range ck.valueCases(ctx, prefix, e, depth+1) {
					out = append(out, valueCase{guard: And(c.guard, eg), term: c.term, pos: c.pos})
				}
			default:
				out = append(out, valueCase{guard: eg, term: ctx.Term(e), pos: x})
			}
		}
		return out
	case *ssa.Extract:
		if call, ok := x.Tuple.(*ssa.Call); ok {
			if cs := ck.helperReturnCases(ctx, prefix, call, x.Index, depth); cs != nil {
				return cs
			}
		}
	case *ssa.Call:
		if cs := ck.helperReturnCases(ctx, prefix, x, 0, depth); cs != nil {
			return cs
		}
	}
	return single()
}

func (ck *Check) helperReturnCases(ctx *Ctx, prefix *Formula, call *ssa.Call, idx, depth int) []valueCase {
	h := call.Common().StaticCallee()
	_, anchors := ck.actionAnchors()
	if h == nil || !ck.P.inRepo(h) || h.Blocks == nil || anchors[h] || h == ck.A.CalcDelta || h == ck.A.CalcPercent || !ck.P.readOnly(h) {
		return nil
	}
	args := make([]*Term, len(call.Common().Args))
	for i, av := range call.Common().Args {
		args[i] = ctx.Term(av)
	}
	ch := ctx.child(h, call, args)
	ch.depth = 0
	pc := And(prefix, ctx.PC(call))
	var out []valueCase
	for _, b := range h.Blocks {
		r, ok := b.Instrs[len(b.Instrs)-1].(*ssa.Return)
		if !ok || idx >= len(r.Results) {
			continue
		}
		rpc := And(pc, ch.BlockPC(b))
		for _, c := range ck.valueCases(ch, pc, r.Results[idx], depth+1) {
			if c.pos == nil {
				c.pos = r
			}
			out = append(out, valueCase{guard: And(c.guard, rpc), term: c.term, pos: c.pos})
		}
	}
	return out
}

func checkC06(ck *Check) {
	a := ck.A
	if !ck.need("C06.R1", map[string]interface{}{"scan": a.Scan, "ScaleUp": a.ScaleUp, "ScaleDown": a.ScaleDown, "calcScaleUpDelta": a.CalcDelta, "calcPercentUsage": a.CalcPercent, "grace reaper": a.GraceReaper}) {
		return
	}
	d := ck.findDecision("C06.R3")
	if d == nil {
		return
	}
	ctx := d.ctx
	g := d.g
	fn := a.Scan
	// R6: u
	var u *Term
	var pctCall *Term
	for _, ci := range callsTo(fn, a.CalcPercent) {
		pctCall = ctx.Term(ci.(*ssa.Call))
	}
	if pctCall != nil {
		e0 := &Term{Kind: "extract", Name: "0", Args: []*Term{pctCall}}
		e1 := &Term{Kind: "extract", Name: "1", Args: []*Term{pctCall}}
		// the scan body, extended by the helpers it hands the two percentages to
		for _, bc := range ck.bodyCalls(fn, func(ci ssa.CallInstruction) bool {
			f := ci.Common().StaticCallee()
			return f != nil && pkgPathOfFn(f) == "math" && f.Name() == "Max"
		}) {
			if c, ok := bc.Call.(*ssa.Call); ok {
				t := bc.Ctx.Term(c)
				if t.Kind == "call" && t.Name == "math.Max" && len(t.Args) == 2 {
					ks := map[string]bool{t.Args[0].Key(): true, t.Args[1].Key(): true}
					if ks[e0.Key()] && ks[e1.Key()] {
						u = t
					}
				}
			}
		}
	}
	ck.cond(u != nil, "C06.R6", "scan/u", "", funcID(fn), "u = math.Max(cpu%, mem%) of the two results of calcPercentUsage", fmt.Sprint(u), "the bands are not evaluated on the larger of the two utilisations")
	// … and those two results are the exact quotients (no rounding / scaling before the band test)
	ck.percentFormula("C06.R6")
	if u == nil {
		return
	}
	thr := func(tag string) *Term {
		return &Term{Kind: "conv", Name: "float64", Args: []*Term{ck.optTerm(g, tag)}}
	}
	lower, upper, up := thr("taint_lower_capacity_threshold_percent"), thr("taint_upper_capacity_threshold_percent"), thr("scale_up_threshold_percent")
	below := func(t *Term) *Formula { return Atom(&Term{Kind: "cmp", Name: "<", Args: []*Term{u, t}}) }
	thrKeys := map[string]bool{lower.Key(): true, upper.Key(): true, up.Key(): true}
	// strictness quotient: (T < u) ↦ ¬(u < T) for threshold comparisons
	quot := func(f *Formula) *Formula {
		return f.Subst(func(t *Term) *Formula {
			if t.Kind == "cmp" && t.Name == "<" && thrKeys[t.Args[0].Key()] && t.Args[1].Key() == u.Key() {
				return Not(Atom(&Term{Kind: "cmp", Name: "<", Args: []*Term{u, t.Args[0]}}))
			}
			return nil
		})
	}

	// R1 band table
	{
		ph := d.D0.(ssa.Instruction)
		M := quot(ctx.PC(ph))
		fast := &Term{Kind: "unop", Name: "-", Args: []*Term{ck.optTerm(g, "fast_node_removal_rate")}}
		slow := &Term{Kind: "unop", Name: "-", Args: []*Term{ck.optTerm(g, "slow_node_removal_rate")}}
		conds := map[string]*Formula{"fast": FFalse, "slow": FFalse, "calc": FFalse, "zero": FFalse}
		okShape := true
		cases := ck.valueCases(ctx, FTrue, d.D0, 0)
		ck.Stats["C06.R1 delta cases"] = len(cases)
		for i, vc := range cases {
			t := vc.term
			E := quot(vc.guard)
			switch {
			case t.Key() == fast.Key():
				conds["fast"] = Or(conds["fast"], E)
			case t.Key() == slow.Key():
				conds["slow"] = Or(conds["slow"], E)
			case isExtractOf(t, 0, func(x *Term) bool { return isCallTo(x, a.CalcDelta) }):
				conds["calc"] = Or(conds["calc"], E)
				// R4 of C05 / C09: the node list is U — checked in C09.R3
			case t.Kind == "const" && t.Name == "0":
				conds["zero"] = Or(conds["zero"], E)
			default:
				okShape = false
				ck.fail("C06.R1", fmt.Sprintf("scan/delta-phi/edge%d", i), ck.P.instrPos(ph), funcID(fn), "the delta is one of −fast_rate, −slow_rate, calcScaleUpDelta(…), 0", t.String(), "an undocumented delta value can be chosen")
			}
		}
		if okShape {
			want := map[string]*Formula{
				"fast": below(lower),
				"slow": And(Not(below(lower)), below(upper)),
				"calc": And(Not(below(lower)), Not(below(upper)), Not(below(up))),
				"zero": And(Not(below(lower)), Not(below(upper)), below(up)),
			}
			text := map[string]string{
				"fast": "d₀ = −fast_node_removal_rate ⇔ u below taint_lower",
				"slow": "d₀ = −slow_node_removal_rate ⇔ u between taint_lower and taint_upper",
				"calc": "d₀ = calcScaleUpDelta(…) ⇔ u above scale_up_threshold (and not below taint_upper)",
				"zero": "d₀ = 0 ⇔ u between taint_upper and scale_up_threshold",
			}
			for _, k := range []string{"fast", "slow", "calc", "zero"} {
				okv, why, err := Equivalent(And(M, conds[k]), And(M, want[k]))
				if err != nil {
					ck.undecided("C06.R1", "scan/band:"+k, ck.P.instrPos(ph), funcID(fn), text[k], err.Error())
					continue
				}
				ck.cond(okv, "C06.R1", "scan/band:"+k, ck.P.instrPos(ph), funcID(fn), text[k]+" (relative to reaching the dispatch, modulo edge strictness)", conds[k].String(), "the band → delta table differs from the documented one: "+why)
			}
		}
	}

	// R2 overrides
	{
		starve := a.IsStarve
		maxAge := a.IsMaxAge
		for i, ov := range d.override {
			okGuard := false
			if c, ok := ov.cond.(*ssa.Call); ok {
				if f := c.Common().StaticCallee(); f != nil && (f == starve || f == maxAge) {
					okGuard = true
				}
			}
			ck.cond(okGuard, "C06.R2", fmt.Sprintf("scan/override#%d", i), ck.P.instrPos(ov.phi), funcID(fn), "every redefinition of the delta is max(d,1) under the scale_on_starve or max_node_age predicate", ov.guard.String(), "an undocumented trigger can turn the decision into a scale-up")
		}
		ck.floor("C06.R2", "monotone overrides recognised", len(d.override), 2)
		// D0 must be the only other definition: the chain ends at the band phi, which must have ≥ 4 edges
		nCases := len(ck.valueCases(ctx, FTrue, d.D0, 0))
		ck.cond(nCases >= 4, "C06.R2", "scan/delta-chain", ck.P.instrPos(d.D0.(ssa.Instruction)), funcID(fn), "below the overrides the delta is the band value (a φ or a decision helper's result with the four band cases; no other definition)", fmt.Sprintf("%d defining cases", nCases), "the delta is redefined by something that is neither a band nor a max(d,1) override")
	}

	// R3 dispatch
	{
		D := ctx.Term(d.D)
		zero := zeroTerm(types.Typ[types.Int])
		neg := cmpFormula(token.LSS, D, zero)
		pos := cmpFormula(token.LSS, zero, D)
		ck.entails("C06.R3", ck.P.siteKey(d.sd)+"/guard", d.sd, d.sdA.PC, neg, "PC(ScaleDown) ⇒ d < 0")
		if d.su == nil {
			ck.fail("C06.R3", "scan/ScaleUp-dispatch", "", funcID(fn), "the scan body dispatches to ScaleUp with nodesDelta = d", "no such call", "")
		} else {
			ck.entails("C06.R3", ck.P.siteKey(d.su)+"/guard", d.su, d.suA.PC, pos, "PC(ScaleUp with count d) ⇒ d > 0")
		}
		if d.noop == nil {
			ck.fail("C06.R3", "scan/noop-reaper", "", funcID(fn), "the no-op arm runs the grace reaper", "no direct call", "")
		} else {
			ck.entails("C06.R3", ck.P.siteKey(d.noop)+"/guard", d.noop, d.noopA.PC, And(Not(neg), Not(pos)), "PC(no-op reaper) ⇒ d = 0")
		}
		if d.su != nil && d.noop != nil && d.suA.Fn == d.sdA.Fn && d.noopA.Fn == d.sdA.Fn {
			// completeness: whenever the dispatch point is reached exactly the arm of the sign runs
			dom := d.sd.Block()
			for dom != nil && !(dom.Dominates(d.su.Block()) && dom.Dominates(d.noop.Block()) && dom.Dominates(d.sd.Block())) {
				dom = dom.Idom()
			}
			if dom != nil {
				R := Or(d.sdA.PC, d.suA.PC, d.noopA.PC)
				okv, why, err := Equivalent(R, And(d.sdA.Pre, d.sdA.Ctx.BlockPC(dom)))
				if err != nil {
					ck.undecided("C06.R3", "scan/dispatch-complete", "", funcID(fn), "dispatch completeness", err.Error())
				} else {
					ck.cond(okv, "C06.R3", "scan/dispatch-complete", ck.P.instrPos(d.sd), funcID(fn), "whenever the dispatch is reached exactly one of ScaleDown (d<0), ScaleUp (d>0), reaper (d=0) runs", "", why)
				}
			}
		}
	}

	// R4 what each arm can reach
	{
		type arm struct {
			name string
			fn   *ssa.Function
			deny []string
		}
		arms := []arm{{"ScaleUp", a.ScaleUp, []string{"A-TAINT"}}, {"ScaleDown", a.ScaleDown, []string{"A-UNTAINT", "A-CLOUD-INC"}}, {"no-op reaper", a.GraceReaper, []string{"A-TAINT", "A-UNTAINT", "A-CLOUD-INC"}}}
		for _, ar := range arms {
			r := ck.P.reachCut([]*ssa.Function{ar.fn}, nil)
			for _, cls := range ar.deny {
				bad := ""
				for _, s := range a.A {
					if s.Class == cls && r[s.Fn] {
						bad = strings.Join(ck.P.chain(ar.fn, s.Fn), " → ")
					}
				}
				ck.cond(bad == "", "C06.R4", ar.name+"/no-"+cls, "", funcID(ar.fn), ar.name+" cannot reach "+cls, bad, "the arm can perform an action the statement excludes: "+bad)
			}
		}
	}

	// R5 exact taint count
	ck.exactTaintCount("C06.R5")
	// the loop achieves that count: it goes on past failed writes until n succeeded or the list ends
	ck.boundedEffectLoop("C06.R7", a.TaintLoop, "A-TAINT")
	// R9 the loop draws from every untainted node: the candidate list holds one entry per element of
	// the list the clamp and the band were computed over (decided as C08.R1)
	ck.sortBeforeLoop("C06.R9", a.TaintLoop, "A-TAINT", 1, "CreationTimestamp(i).Before(CreationTimestamp(j)) (oldest first)")
	// R10 every candidate the loop reaches is attempted
	ck.everyCandidateAttempted("C06.R10", a.TaintLoop, "A-TAINT")
	// R11 the starve trigger is what the documentation says: a pending pod that fits on no node
	ck.starvePredicate("C06.R11")
	// R12 the numerator of u: a pod's request is max(Σ containers, max init containers) + overhead
	// whatever its phase, and the totals are sums over every listed pod / node (decided as C13.R2 / R3)
	if sched := ck.P.SSAPkg[pkgScheduler]; sched != nil {
		ck.podComposition("C06.R12", sched)
	}
	if kp := ck.P.SSAPkg[pkgK8s]; kp != nil {
		ck.commutativeFold("C06.R12", kp.Func("CalculatePodsRequestedUsage"), "Total")
		// … and its denominator: the allocatable resources of every untainted node
		ck.commutativeFold("C06.R12", kp.Func("CalculateNodesCapacity"), "Total")
	}
	// R13 exactly that many: a taint the server accepted is counted (decided as C03.R6)
	ck.writeConfirmed("C06.R13", a.AddTaint)
	// R8 the statement quantifies over the triples and rate pairs validation accepts: the band switch
	// (first true case wins) is the documented table only if 0 < lower < upper < scale-up, 0 ≤ slow ≤ fast
	if a.Validate != nil {
		if as := ck.acceptSetOf("C06.R8"); as != nil && as.ng != nil {
			ck.invariants("C06.R8", as, "0<lower", "lower<upper", "upper<up", "0<=slow", "slow<=fast")
		}
	}
}

// exactTaintCount: in the taint clamp, n ≤ nodesDelta, n ≤ len(U) − min, and n equals one of them.
func (ck *Check) exactTaintCount(rule string) {
	a := ck.A
	fn := a.TaintClamp
	ctx := ck.P.NewCtx(fn)
	g := ck.groupTerm(fn)
	st := a.TScaleOpts.Underlying().(*types.Struct)
	var prm *ssa.Parameter = ck.paramOfType(fn, a.TScaleOpts, false)
	if prm == nil || g == nil {
		ck.undecided(rule, funcID(fn)+"/shape", "", funcID(fn), "taint clamp takes scaleOpts", "")
		return
	}
	var deltaT, untT *Term
	for i := 0; i < st.NumFields(); i++ {
		switch st.Field(i) {
		case field(a.TScaleOpts, "nodesDelta"):
			deltaT = mkField(paramTerm(prm), st.Field(i))
		case field(a.TScaleOpts, "untaintedNodes"):
			untT = mkField(paramTerm(prm), st.Field(i))
		}
	}
	minT := ck.optTerm(g, "min_nodes")
	for _, ci := range callsTo(fn, a.TaintLoop) {
		var nArg ssa.Value
		for _, av := range ci.Common().Args {
			if isInteger(av.Type()) {
				nArg = av
			}
		}
		key := ck.P.siteKey(ci)
		nT := ctx.Term(nArg)
		pc := ctx.PC(ci)
		okv, why, err := ctx.EntailsLinear(pc, []LinFact{{A: nT, B: deltaT, K: 0, Text: "n ≤ requested rate"}})
		if err != nil {
			ck.undecided(rule, key+"/le-rate", ck.P.instrPos(ci), funcID(fn), "n ≤ nodesDelta", err.Error())
		} else {
			ck.cond(okv, rule, key+"/le-rate", ck.P.instrPos(ci), funcID(fn), "PC ⇒ n ≤ opts.nodesDelta (never more than the band's rate)", pc.String(), why)
		}
		// n is one of the two candidates on every path
		env := &linEnv{choices: map[string]int{}, root: ctx}
		cands := []*Term{deltaT, {Kind: "binop", Name: "-", Args: []*Term{lenOf("len", untT), minT}}}
		// the defining cases of n: φ edges, or the return sites of a clamp helper
		var edges []*Term
		for _, vc := range ck.valueCases(ctx, FTrue, nArg, 0) {
			// a return of a clamp helper that also hands back a fresh error cannot be the case in
			// which the taint loop is reached when the call site goes on only under err == nil
			if r, isRet := vc.pos.(*ssa.Return); isRet && r.Parent() != fn && len(r.Results) >= 2 && errorConstructor(r.Results[len(r.Results)-1]) {
				if ex, isEx := nArg.(*ssa.Extract); isEx {
					errT := &Term{Kind: "extract", Name: fmt.Sprint(len(r.Results) - 1), Args: []*Term{ctx.Term(ex.Tuple)}}
					if imp, _, _ := Entails(pc, cmpFormula(token.EQL, errT, &Term{Kind: "const", Name: "nil"})); imp {
						continue
					}
				}
			}
			// … or whose own condition contradicts the path to the call
			if sat, err := Satisfiable(And(pc, vc.guard)); err == nil && !sat {
				continue
			}
			edges = append(edges, vc.term)
		}
		allOK := true
		for _, e := range edges {
			le, err1 := env.linTerm(e)
			match := false
			for _, c := range cands {
				lc, err2 := env.linTerm(c)
				if err1 == nil && err2 == nil {
					diff := le.add(lc, -1)
					if diff.isConst() && diff.konst.Sign() == 0 {
						match = true
					}
				}
			}
			if !match {
				allOK = false
			}
		}
		ck.cond(allOK, rule, key+"/is-min", ck.P.instrPos(ci), funcID(fn), "n is opts.nodesDelta or len(untainted) − min_nodes on every path (with the two upper bounds: n = min of the two)", nT.String(), "the taint count is neither the rate nor the headroom above min_nodes")
	}
	// ScaleDown passes its opts through unchanged
	sd := a.ScaleDown
	sctx := ck.P.NewCtx(sd)
	for _, ci := range callsTo(sd, fn) {
		for _, av := range ci.Common().Args {
			if types.Identical(av.Type(), a.TScaleOpts) {
				t := sctx.Term(av)
				ck.cond(ck.isParamStruct(t), rule, ck.P.siteKey(ci)+"/opts", ck.P.instrPos(ci), funcID(sd), "ScaleDown hands its options to the taint clamp unchanged", t.String(), "")
			}
		}
	}
}

// ---------------------------------------------------------------------------------------------
// C08 / C07 shared: comparator of the sort feeding a loop

// lessShape: for the Less method of the sorted slice type: +1 oldest-first
// (ts(i) before ts(j)), −1 newest-first, 0 unrecognised.
func (ck *Check) lessShape(t types.Type) (int, string, *ssa.Function) {
	var less *ssa.Function
	ms := ck.P.SSA.MethodSets.MethodSet(t)
	for i := 0; i < ms.Len(); i++ {
		if ms.At(i).Obj().Name() == "Less" {
			if obj, ok := ms.At(i).Obj().(*types.Func); ok {
				less = ck.P.SSA.FuncValue(obj)
			}
		}
	}
	if less == nil || less.Blocks == nil {
		return 0, "no Less method", nil
	}
	dir, how := ck.lessShapeOf(less, paramTerm(less.Params[0]), paramTerm(less.Params[1]), paramTerm(less.Params[2]))
	return dir, how, less
}

// lessShapeOf: recv == nil means "a slice captured by the closure" (any captured variable).
func (ck *Check) lessShapeOf(less *ssa.Function, recv, pi, pj *Term) (int, string) {
	ctx := ck.P.NewCtx(less)
	f := ctx.returnFormula(0)
	if f.kind != fAtom {
		return 0, "Less is not a single comparison: " + f.String()
	}
	at := f.atom
	tsOf := func(x *Term) (string, bool) {
		// &n[k].node.ObjectMeta.CreationTimestamp  or  n[k].node.…CreationTimestamp
		if x.Kind == "unop" && x.Name == "&" {
			x = x.Args[0]
		}
		root, path := x.fieldPath()
		if len(path) == 0 || path[len(path)-1] != "CreationTimestamp" {
			return "", false
		}
		if root.Kind != "index" {
			return "", false
		}
		if recv != nil && root.Args[0].Key() != recv.Key() {
			return "", false
		}
		if recv == nil && !(root.Args[0].Kind == "deref" && root.Args[0].Args[0].Kind == "freevar") {
			return "", false
		}
		switch root.Args[1].Key() {
		case pi.Key():
			return "i", true
		case pj.Key():
			return "j", true
		}
		return "", false
	}
	if at.Kind == "call" && len(at.Args) == 2 {
		x, okx := tsOf(at.Args[0])
		y, oky := tsOf(at.Args[1])
		if okx && oky && x != y {
			switch {
			case strings.HasSuffix(at.Name, "Time).Before"):
				if x == "i" {
					return 1, at.String()
				}
				return -1, at.String()
			case strings.HasSuffix(at.Name, "Time).After"):
				if x == "i" {
					return -1, at.String()
				}
				return 1, at.String()
			}
		}
	}
	return 0, "unrecognised comparison: " + at.String()
}

// sortedLoop describes "sorted := collect(nodes); sort.Sort(sorted); for range sorted {effect}".
func (ck *Check) sortBeforeLoop(rule string, fn *ssa.Function, cls string, wantDir int, dirText string) {
	ea := ck.effActionSite(cls, fn)
	if ea == nil {
		ck.lost(rule, cls, "no action site")
		return
	}
	call := ea.Call
	loop := innermostLoop(fn, call.Block())
	key := ck.P.siteKey(ea.Inner)
	if loop == nil || loop.IdxPhi == nil {
		ck.fail(rule, key+"/loop", ck.P.instrPos(call), funcID(fn), "the write sits in an index-order range loop", "no range loop", "nodes are not visited in sorted order")
		return
	}
	// the ranged slice value and the sort call on it
	over := loop.Over
	var sortCall *ssa.Call
	var sortedType types.Type
	var lessClosure *ssa.Function
	sbCtx := ck.P.NewCtx(fn)
	for _, b := range fn.Blocks {
		for _, in := range b.Instrs {
			c, ok := in.(*ssa.Call)
			if !ok {
				continue
			}
			f := c.Common().StaticCallee()
			if f == nil || pkgPathOfFn(f) != "sort" {
				continue
			}
			switch f.Name() {
			case "Sort", "Stable":
				if mi, ok := c.Common().Args[0].(*ssa.MakeInterface); ok && (mi.X == over || sbCtx.Term(mi.X).Key() == sbCtx.Term(over).Key()) {
					sortCall = c
					sortedType = mi.X.Type()
				}
			case "Slice", "SliceStable":
				if mi, ok := c.Common().Args[0].(*ssa.MakeInterface); ok && (mi.X == over || sbCtx.Term(mi.X).Key() == sbCtx.Term(over).Key()) {
					if mc, ok := c.Common().Args[1].(*ssa.MakeClosure); ok {
						sortCall = c
						lessClosure, _ = mc.Fn.(*ssa.Function)
					}
				}
			}
		}
	}
	if sortCall == nil {
		ck.fail(rule, key+"/sorted", ck.P.instrPos(call), funcID(fn), "the slice the loop ranges over is sorted with sort.Sort/sort.Stable before the loop", "no sort call on the ranged slice", "the visiting order is the cache's list order")
		return
	}
	ck.cond(sortCall.Block().Dominates(loop.Header) && !loop.Blocks[sortCall.Block()], rule, key+"/sort-dominates", ck.P.instrPos(sortCall), funcID(fn), "the sort call dominates the loop", "", "the list is sorted after (or inside) the loop")
	var dir int
	var how string
	var less *ssa.Function
	if lessClosure != nil {
		less = lessClosure
		dir, how = ck.lessShapeOf(lessClosure, nil, paramTerm(lessClosure.Params[0]), paramTerm(lessClosure.Params[1]))
	} else {
		dir, how, less = ck.lessShape(sortedType)
	}
	pos := ""
	if less != nil {
		pos = ck.P.position(less.Pos())
	}
	ck.cond(dir == wantDir, rule, key+"/comparator", pos, funcID(less), "Less(i,j) ≡ "+dirText, how, "the order used is not "+dirText)
	// element passed to the action is the current element's node (C08.R5) and the copy is complete (R2):
	ctx := ck.P.NewCtx(fn)
	var src *Term
	why := "the wrapped write does not receive the loop element's node"
	if ea.NodeArg != nil {
		src, why = ck.elemSourceList(fn, ctx, ea.NodeArg)
	}
	okSrc := src != nil && src.Kind == "param"
	ck.cond(okSrc, rule, key+"/complete-copy", ck.P.instrPos(call), funcID(fn), "the sorted slice holds one bundle per element of the input list (unconditional full range) and the write targets the current element's node", fmt.Sprint(src), why)
	// no store to the sorted slice's elements between the sort and the loop that would reorder: stores to bundle.node inside the loop are to a copy
}

func checkC08(ck *Check) {
	a := ck.A
	if !ck.need("C08.R1", map[string]interface{}{"taint loop": a.TaintLoop}) {
		return
	}
	ck.sortBeforeLoop("C08.R1", a.TaintLoop, "A-TAINT", 1, "CreationTimestamp(i).Before(CreationTimestamp(j)) (oldest first)")
	ck.boundedEffectLoop("C08.R4", a.TaintLoop, "A-TAINT")
	ck.actionTargets("C08.R2")
	ck.nodeListImmutability("C08.R2")
	// R5 the candidates are all the untainted nodes: the classifier withholds none
	ck.classificationComplete("C08.R5")
	// R6 a node counted as tainted is tainted: the writer's nil error means the Update succeeded or the
	// taint was already there (decided as C03.R6) — a slot used up without a taint goes to a younger node
	ck.writeConfirmed("C08.R6", a.AddTaint)
}

// ---------------------------------------------------------------------------------------------
// C07

func checkC07(ck *Check) {
	a := ck.A
	if !ck.need("C07.R1", map[string]interface{}{"ScaleUp": a.ScaleUp, "untaint step": a.UntaintStep, "untaint loop": a.UntaintLoop, "cloud step": a.CloudStep}) {
		return
	}
	fn := a.ScaleUp
	ctx := ck.P.NewCtx(fn)
	uts, css := callsTo(fn, a.UntaintStep), callsTo(fn, a.CloudStep)
	if len(uts) != 1 || len(css) != 1 {
		ck.fail("C07.R1", funcID(fn)+"/steps", "", funcID(fn), "ScaleUp calls the untaint step and the cloud step once each", fmt.Sprintf("%d / %d", len(uts), len(css)), "")
		return
	}
	ut, cs := uts[0].(*ssa.Call), css[0].(*ssa.Call)
	utT := ctx.Term(ut)
	// R1 order
	ck.cond(dominatesInstr(ut, cs), "C07.R1", ck.P.siteKey(cs)+"/after-untaint", ck.P.instrPos(cs), funcID(fn), "the untaint step dominates the cloud step", "", "capacity is bought before tainted nodes are reused")
	errNil := cmpFormula(token.EQL, &Term{Kind: "extract", Name: "1", Args: []*Term{utT}}, &Term{Kind: "const", Name: "nil"})
	for _, at := range ctx.PC(cs).Atoms() {
		if at.Kind == "cmp" && at.Name == "==" && hasConstStr(at, "nil") {
			for _, x := range at.Args {
				if isExtractOf(x, 1, func(t *Term) bool { return t.Key() == utT.Key() }) {
					errNil = Atom(at)
				}
			}
		}
	}
	// an untaint step without an error result cannot fail as a whole (failed nodes are not counted)
	_, utTuple := ut.Type().(*types.Tuple)
	if utTuple {
		ck.entails("C07.R1", ck.P.siteKey(cs)+"/untaint-ok", cs, ctx.PC(cs), errNil, "PC(cloud step) ⇒ the untaint step returned err == nil")
	} else {
		ck.ok("C07.R1", ck.P.siteKey(cs)+"/untaint-ok", ck.P.instrPos(cs), funcID(fn), "PC(cloud step) ⇒ the untaint step returned err == nil", "the untaint step has no error result")
	}
	// the untaint step gets ScaleUp's options unchanged
	for _, av := range ut.Common().Args {
		if types.Identical(av.Type(), a.TScaleOpts) {
			t := ctx.Term(av)
			ck.cond(ck.isParamStruct(t), "C07.R1", ck.P.siteKey(ut)+"/opts", ck.P.instrPos(ut), funcID(fn), "the untaint step is given ScaleUp's own options (N = opts.nodesDelta)", t.String(), "")
		}
	}
	// R2 remainder
	{
		prm := ck.paramOfType(fn, a.TScaleOpts, false)
		st := a.TScaleOpts.Underlying().(*types.Struct)
		var N *Term
		idx := -1
		for i := 0; i < st.NumFields(); i++ {
			if st.Field(i) == field(a.TScaleOpts, "nodesDelta") {
				N = mkField(paramTerm(prm), st.Field(i))
				idx = i
			}
		}
		var rem *Term
		// the cloud step may take the options structure or just (group, count)
		hasOptsArg := false
		for _, av := range cs.Common().Args {
			if types.Identical(av.Type(), a.TScaleOpts) {
				hasOptsArg = true
			}
		}
		if !hasOptsArg {
			for _, av := range cs.Common().Args {
				if isInteger(av.Type()) {
					rem = ctx.Term(av)
				}
				if a.isPtrTo(av.Type(), a.TState) {
					gt, want := ctx.Term(av), ck.groupTerm(fn)
					ck.cond(want != nil && gt.Key() == want.Key(), "C07.R2", ck.P.siteKey(cs)+"/group", ck.P.instrPos(cs), funcID(fn), "the cloud step works on ScaleUp's own group", gt.String(), "")
				}
			}
		}
		for _, av := range cs.Common().Args {
			if types.Identical(av.Type(), a.TScaleOpts) {
				t := ctx.Term(av)
				if t.Kind == "struct" {
					rem = t.Args[idx]
					// all other fields unchanged
					for i := 0; i < st.NumFields(); i++ {
						if i != idx && t.Args[i].Key() != mkField(paramTerm(prm), st.Field(i)).Key() {
							ck.fail("C07.R2", ck.P.siteKey(cs)+"/opts:"+st.Field(i).Name(), ck.P.instrPos(cs), funcID(fn), "only nodesDelta differs between ScaleUp's options and the cloud step's", t.Args[i].String(), "")
						}
					}
				} else if t.Kind == "param" {
					rem = N
				}
			}
		}
		untaintedT := &Term{Kind: "extract", Name: "0", Args: []*Term{utT}}
		if !utTuple {
			untaintedT = utT
		}
		want := &Term{Kind: "binop", Name: "-", Args: []*Term{N, untaintedT}}
		env := &linEnv{choices: map[string]int{}, root: ctx}
		same := false
		if rem != nil {
			l1, e1 := env.linTerm(rem)
			l2, e2 := env.linTerm(want)
			if e1 == nil && e2 == nil {
				diff := l1.add(l2, -1)
				same = diff.isConst() && diff.konst.Sign() == 0
			}
		}
		ck.cond(same, "C07.R2", ck.P.siteKey(cs)+"/remainder", ck.P.instrPos(cs), funcID(fn), "the cloud step is asked for N − (number actually untainted)", fmt.Sprint(rem), "the cloud request is not the remainder after untainting")
		if rem != nil {
			okv, why, err := ctx.EntailsLinear(ctx.PC(cs), []LinFact{{A: intConstTerm(1), B: rem, K: 0, Text: "remainder ≥ 1"}})
			if err != nil {
				ck.undecided("C07.R2", ck.P.siteKey(cs)+"/positive", ck.P.instrPos(cs), funcID(fn), "remainder ≥ 1", err.Error())
			} else {
				ck.cond(okv, "C07.R2", ck.P.siteKey(cs)+"/positive", ck.P.instrPos(cs), funcID(fn), "PC(cloud step) ⇒ remainder ≥ 1", ctx.PC(cs).String(), why)
			}
		}
	}
	// the untaint step returns len(untaintNewestN(opts.taintedNodes, g, opts.nodesDelta))
	{
		us := a.UntaintStep
		// read the step in the vocabulary of ScaleUp: its parameters bound to the arguments of
		// ScaleUp's call (the step may take the whole options or just the fields it needs)
		utArgs := make([]*Term, len(ut.Common().Args))
		for i, av := range ut.Common().Args {
			utArgs[i] = ctx.Term(av)
		}
		uctx := ctx.child(us, ut, utArgs)
		uctx.depth = 0
		ug := ck.groupTerm(fn)
		okv := false
		var got string
		for _, ci := range callsTo(us, a.UntaintLoop) {
			c := ci.(*ssa.Call)
			var lst, nn, grp *Term
			for _, av := range c.Common().Args[1:] {
				t := uctx.Term(av)
				switch {
				case isInteger(av.Type()):
					nn = t
				case ck.A.isPtrTo(av.Type(), a.TState):
					grp = t
				default:
					lst = t
				}
			}
			got = fmt.Sprintf("list=%v n=%v group=%v", lst, nn, grp)
			if lst != nil && nn != nil && grp != nil && ck.isScaleOptsField(lst, "taintedNodes") && ck.isScaleOptsField(nn, "nodesDelta") && ug != nil && grp.Key() == ug.Key() {
				// result 0 of the step on this path is len(result)
				for _, b := range us.Blocks {
					if r, ok := b.Instrs[len(b.Instrs)-1].(*ssa.Return); ok {
						rt := uctx.Term(r.Results[0])
						if rt.Kind == "len" && rt.Args[0].Key() == uctx.Term(c).Key() {
							okv = true
						}
					}
				}
			}
		}
		ck.cond(okv, "C07.R2", funcID(us)+"/count", ck.P.position(us.Pos()), funcID(us), "the untaint step runs the untaint loop on opts.taintedNodes with n = opts.nodesDelta and reports len(untainted)", got, "the reported number of untainted nodes is not what the loop achieved")
	}
	// R3 loop + R4 comparator
	ck.boundedEffectLoop("C07.R3", a.UntaintLoop, "A-UNTAINT")
	ck.untaintAgreement("C07.R3")
	ck.sortBeforeLoop("C07.R4", a.UntaintLoop, "A-UNTAINT", -1, "CreationTimestamp(j).Before(CreationTimestamp(i)) (newest first)")
	// R8 every tainted node the loop reaches is attempted
	ck.everyCandidateAttempted("C07.R8", a.UntaintLoop, "A-UNTAINT")
	// R9 what is untainted first is a tainted, uncordoned node of the group (decided as C01.R5)
	ck.classification("C07.R9", map[int]string{1: "tainted"})
	// R10 … and the loop is offered all of them: the tainted list handed to ScaleUp is the classifier's
	// whole result, not a filtered copy (decided as C01.R5 / C09.R2)
	ck.scaleOptsBinding("C07.R10")
	// R12 the remainder is always asked for: ScaleUp skips the cloud step when the untaint step
	// reports an error, so that step reports none — a write that failed is a node not reused (R2
	// subtracts only the successes), not a reason to buy nothing
	ck.untaintNeverFails("C07.R12")
	// R11 a node counted as reused has lost the escalator taint: the untaint searches the fetched
	// node's own taint list and removes the element it found there (decided as C15.R4 / R5)
	ck.shareRules(checkC15, "C07.R11", "C15.R4", "C15.R5")
	// R5 typestate
	ck.cacheTypestate("C07.R5")
	// R6
	ck.absoluteSet("C07.R6")
	// R7 a node counts as untainted only when the server confirmed the write
	ck.writeConfirmed("C07.R7", a.DelTaint)
}

// isParamStruct: t is a scaleOpts parameter, or a struct term whose every component is the
// corresponding field of one scaleOpts parameter (an unchanged copy).
func (ck *Check) isParamStruct(t *Term) bool {
	if t.Kind == "param" {
		return true
	}
	if t.Kind != "struct" {
		return false
	}
	st, ok := t.Typ.Underlying().(*types.Struct)
	if !ok {
		return false
	}
	var base *Term
	for i, c := range t.Args {
		if c.Kind != "field" || c.Obj != st.Field(i) || c.Args[0].Kind != "param" {
			return false
		}
		if base != nil && base.Key() != c.Args[0].Key() {
			return false
		}
		base = c.Args[0]
	}
	return true
}

// starvePredicate (C06.R11): scale_on_starve turns the decision into a scale-up "whenever there is a
// pod that cannot currently be scheduled due to no node having capacity to run it". The
// predicate summarises that per dimension: the largest pending request of a dimension exceeds the
// largest free amount *of that same dimension*. Decided on the predicate's result formula:
// it implies the option, room below max_nodes, and one of the properly paired comparisons
// (LargestAvailable<D>.<d> < LargestPending<D>.<d>, D and d the same dimension); no comparison
// pairs different dimensions or a pending amount with the free amount of the node that is roomiest
// in the *other* dimension — that would fire for pods that fit.
func (ck *Check) starvePredicate(rule string) {
	fn := ck.A.IsStarve
	if fn == nil {
		ck.lost(rule, "scale_on_starve predicate", "not resolved")
		return
	}
	got, ok := ck.qResult(ck.P.NewCtx(fn), fn, 0)
	if !ok {
		ctx := ck.P.NewCtx(fn)
		got = ctx.returnFormula(0)
	}
	type side struct {
		leaf, parent string
	}
	sideOf := func(t *Term) (side, bool) {
		if t.Kind != "field" || len(t.Args) != 1 {
			return side{}, false
		}
		p := t.Args[0]
		for p != nil && p.Kind != "field" && len(p.Args) == 1 {
			p = p.Args[0] // through deref / &
		}
		if p == nil || p.Kind != "field" || !strings.HasPrefix(p.Name, "Largest") {
			return side{}, false
		}
		return side{t.Name, p.Name}, true
	}
	dimOf := func(name string) string {
		switch {
		case strings.HasSuffix(name, "CPU"):
			return "cpu"
		case strings.HasSuffix(name, "Memory"):
			return "mem"
		}
		return "?"
	}
	var proper []*Formula
	var bad []string
	dims := map[string]bool{}
	for _, at := range got.Atoms() {
		if at.Kind != "cmp" || len(at.Args) != 2 {
			continue
		}
		l, okl := sideOf(at.Args[0])
		r, okr := sideOf(at.Args[1])
		if !okl && !okr {
			continue
		}
		if !okl || !okr {
			if at.Name == "==" {
				continue // emptiness tests of one side (IsEmpty)
			}
			bad = append(bad, at.String())
			continue
		}
		okPair := at.Name == "<" && strings.HasPrefix(l.parent, "LargestAvailable") && strings.HasPrefix(r.parent, "LargestPending") &&
			dimOf(l.leaf) == dimOf(r.leaf) && dimOf(l.parent) == dimOf(l.leaf) && dimOf(r.parent) == dimOf(r.leaf) && dimOf(l.leaf) != "?"
		if !okPair {
			bad = append(bad, at.String())
			continue
		}
		dims[dimOf(l.leaf)] = true
		proper = append(proper, Atom(at))
	}
	ck.cond(len(bad) == 0, rule, "starve/pairing", ck.P.position(fn.Pos()), funcID(fn), "every comparison of the starve predicate pairs the largest pending request of a dimension with the largest free amount of the same dimension", strings.Join(bad, "; "), "the trigger fires for pods that fit on some node: escalator adds a node instead of tainting")
	ck.cond(dims["cpu"] && dims["mem"], rule, "starve/both-dimensions", ck.P.position(fn.Pos()), funcID(fn), "both cpu and memory are examined", fmt.Sprint(dims), "")
	if len(proper) > 0 {
		imp, why, err := Entails(got, Or(proper...))
		if err != nil {
			ck.undecided(rule, "starve/necessary", ck.P.position(fn.Pos()), funcID(fn), "starve ⇒ some pending request exceeds the largest free amount of its dimension", err.Error())
		} else {
			ck.cond(imp, rule, "starve/necessary", ck.P.position(fn.Pos()), funcID(fn), "starve ⇒ some pending request exceeds the largest free amount of its dimension", "", why)
		}
	}
	// the option and the head-room below max_nodes
	var opt, room *Formula
	for _, at := range got.Atoms() {
		if at.Kind == "field" && at.Name == "ScaleOnStarve" {
			opt = Atom(at)
		}
		if at.Kind == "cmp" && at.Name == "<" && at.Args[1].Kind == "field" && at.Args[1].Name == "MaxNodes" {
			room = Atom(at) // the number of untainted nodes (len of the list, or a count handed in) below max_nodes
		}
	}
	okOpt := false
	if opt != nil && room != nil {
		okOpt, _, _ = Entails(got, And(opt, room))
	}
	ck.cond(okOpt, rule, "starve/enabled", ck.P.position(fn.Pos()), funcID(fn), "starve ⇒ scale_on_starve ∧ untainted < max_nodes", "", "the trigger ignores the option or the maximum")
}

// untaintNeverFails (C07.R12 / C03.R8): every return of the untaint step (what ScaleUp calls before
// the cloud step) yields the nil constant as its error, or the error of a repo function of that kind
// — when the step has an error result at all.
func (ck *Check) untaintNeverFails(rule string) {
	a := ck.A
	fn := a.UntaintStep
	if fn == nil {
		ck.lost(rule, "untaint step", "not resolved")
		return
	}
	res := fn.Signature.Results()
	idx := -1
	for i := 0; i < res.Len(); i++ {
		if isErrorType(res.At(i).Type()) {
			idx = i
		}
	}
	if idx < 0 {
		ck.ok(rule, funcID(fn)+"/no-error", ck.P.position(fn.Pos()), funcID(fn), "the untaint step cannot stop the cloud request", "no error result")
		return
	}
	// only a condition when ScaleUp leaves before the cloud step on that error
	ck.cond(ck.benignErrorOf(fn, idx, 0), rule, funcID(fn)+"/no-error", ck.P.position(fn.Pos()), funcID(fn), "the untaint step reports no error of its own (failed writes are nodes not reused, the remainder is still requested)", "",
		"ScaleUp returns before the cloud step when the untaint step fails: with one tainted node that cannot be written, N − untainted nodes are never requested")
}
