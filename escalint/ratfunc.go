package main

// ratfunc.go — E8: exact multivariate rational functions over ℚ, used to decide that a
// floating-point expression computes a documented closed form *as a real-valued function*
// (explicitly not its floating-point evaluation).

import (
	"go/constant"
	"math/big"
	"sort"
	"strings"

	"golang.org/x/tools/go/ssa"
)

// Poly maps a monomial key ("" = 1, otherwise "x^2*y") to its coefficient.
type Poly map[string]*big.Rat

type RatFunc struct {
	num, den Poly
	leaves   map[string]*Term
}

func polyConst(r *big.Rat) Poly {
	p := Poly{}
	if r.Sign() != 0 {
		p[""] = new(big.Rat).Set(r)
	}
	return p
}

func monoMul(a, b string) string {
	exp := map[string]int{}
	for _, m := range []string{a, b} {
		if m == "" {
			continue
		}
		for _, f := range strings.Split(m, "*") {
			name, e := f, 1
			if i := strings.LastIndex(f, "^"); i >= 0 {
				name = f[:i]
				e = 0
				for _, ch := range f[i+1:] {
					e = e*10 + int(ch-'0')
				}
			}
			exp[name] += e
		}
	}
	var names []string
	for n := range exp {
		names = append(names, n)
	}
	sort.Strings(names)
	var parts []string
	for _, n := range names {
		if exp[n] == 1 {
			parts = append(parts, n)
		} else {
			parts = append(parts, n+"^"+itoa(exp[n]))
		}
	}
	return strings.Join(parts, "*")
}

func itoa(i int) string {
	if i == 0 {
		return "0"
	}
	s := ""
	for i > 0 {
		s = string(rune('0'+i%10)) + s
		i /= 10
	}
	return s
}

func polyAdd(a, b Poly, sign int64) Poly {
	r := Poly{}
	for k, v := range a {
		r[k] = new(big.Rat).Set(v)
	}
	s := big.NewRat(sign, 1)
	for k, v := range b {
		if r[k] == nil {
			r[k] = new(big.Rat)
		}
		r[k].Add(r[k], new(big.Rat).Mul(v, s))
		if r[k].Sign() == 0 {
			delete(r, k)
		}
	}
	return r
}

func polyMul(a, b Poly) Poly {
	r := Poly{}
	for ka, va := range a {
		for kb, vb := range b {
			k := monoMul(ka, kb)
			if r[k] == nil {
				r[k] = new(big.Rat)
			}
			r[k].Add(r[k], new(big.Rat).Mul(va, vb))
			if r[k].Sign() == 0 {
				delete(r, k)
			}
		}
	}
	return r
}

func polyZero(p Poly) bool { return len(p) == 0 }

func rfConst(r *big.Rat) RatFunc {
	return RatFunc{num: polyConst(r), den: polyConst(big.NewRat(1, 1)), leaves: map[string]*Term{}}
}

// leafName makes a monomial-safe variable name.
func leafName(k string) string {
	r := strings.NewReplacer("*", "∗", "^", "ˆ")
	return "⟦" + r.Replace(k) + "⟧"
}

func rfLeaf(t *Term) RatFunc {
	n := leafName(t.Key())
	return RatFunc{num: Poly{n: big.NewRat(1, 1)}, den: polyConst(big.NewRat(1, 1)), leaves: map[string]*Term{n: t}}
}

func mergeLeaves(a, b map[string]*Term) map[string]*Term {
	r := map[string]*Term{}
	for k, v := range a {
		r[k] = v
	}
	for k, v := range b {
		r[k] = v
	}
	return r
}

func (a RatFunc) add(b RatFunc, sign int64) RatFunc {
	return RatFunc{num: polyAdd(polyMul(a.num, b.den), polyMul(b.num, a.den), sign), den: polyMul(a.den, b.den), leaves: mergeLeaves(a.leaves, b.leaves)}
}

func (a RatFunc) mul(b RatFunc) RatFunc {
	return RatFunc{num: polyMul(a.num, b.num), den: polyMul(a.den, b.den), leaves: mergeLeaves(a.leaves, b.leaves)}
}

func (a RatFunc) div(b RatFunc) RatFunc {
	return RatFunc{num: polyMul(a.num, b.den), den: polyMul(a.den, b.num), leaves: mergeLeaves(a.leaves, b.leaves)}
}

// equal: a ≡ b as rational functions (cross-multiplication).
func (a RatFunc) equal(b RatFunc) bool {
	return polyZero(polyAdd(polyMul(a.num, b.den), polyMul(b.num, a.den), -1))
}

func (a RatFunc) String() string {
	ps := func(p Poly) string {
		var ks []string
		for k := range p {
			ks = append(ks, k)
		}
		sort.Strings(ks)
		var parts []string
		for _, k := range ks {
			c := p[k].RatString()
			if k == "" {
				parts = append(parts, c)
			} else if c == "1" {
				parts = append(parts, k)
			} else {
				parts = append(parts, c+"·"+k)
			}
		}
		if len(parts) == 0 {
			return "0"
		}
		return strings.Join(parts, " + ")
	}
	return "(" + ps(a.num) + ") / (" + ps(a.den) + ")"
}

// ratOf expands a float-typed term into a rational function. Anything that is not + − × ÷
// or a numeric constant is a leaf (keyed by the canonical term; int→float conversions are
// transparent so float64(x) and x are one leaf).
func ratOf(t *Term) RatFunc {
	switch t.Kind {
	case "const":
		if c, ok := t.Val.(*ssa.Const); ok && c.Value != nil && (c.Value.Kind() == constant.Int || c.Value.Kind() == constant.Float) {
			if r, ok := constRat(c.Value); ok {
				return rfConst(r)
			}
		}
		return rfLeaf(t)
	case "conv":
		if t.Name == "float64" || t.Name == "float32" {
			return rfLeaf(t.Args[0])
		}
		return rfLeaf(t)
	case "binop":
		switch t.Name {
		case "+":
			return ratOf(t.Args[0]).add(ratOf(t.Args[1]), 1)
		case "-":
			return ratOf(t.Args[0]).add(ratOf(t.Args[1]), -1)
		case "*":
			return ratOf(t.Args[0]).mul(ratOf(t.Args[1]))
		case "/":
			if isFloatTerm(t) {
				return ratOf(t.Args[0]).div(ratOf(t.Args[1]))
			}
		}
	case "unop":
		if t.Name == "-" {
			return rfConst(big.NewRat(-1, 1)).mul(ratOf(t.Args[0]))
		}
	}
	return rfLeaf(t)
}

func isFloatTerm(t *Term) bool {
	if t.Typ != nil {
		return !isInteger(t.Typ)
	}
	if t.Val != nil {
		return !isInteger(t.Val.Type())
	}
	return true
}

func constRat(v constant.Value) (*big.Rat, bool) {
	switch v.Kind() {
	case constant.Int:
		if i, ok := constant.Int64Val(v); ok {
			return big.NewRat(i, 1), true
		}
	case constant.Float:
		n, d := constant.Num(v), constant.Denom(v)
		ni, ok1 := constant.Int64Val(n)
		di, ok2 := constant.Int64Val(d)
		if ok1 && ok2 && di != 0 {
			return big.NewRat(ni, di), true
		}
	}
	return nil, false
}
