package main

// core.go — E1/E2: loading /repo's current working tree, the function index,
// the repo-level call graph (static callees + CHA over shipped repo types) and
// the transitive field read/write summaries the term canonicaliser relies on.

import (
	"fmt"
	"go/token"
	"go/types"
	"os"
	"sort"
	"strings"

	"golang.org/x/tools/go/packages"
	"golang.org/x/tools/go/ssa"
	"golang.org/x/tools/go/ssa/ssautil"
)

const repoModule = "github.com/atlassian/escalator"

// Prog is everything a rule can ask about the loaded tree.
type Prog struct {
	Dir      string
	Fset     *token.FileSet
	Pkgs     []*packages.Package
	ByPath   map[string]*packages.Package
	SSA      *ssa.Program
	SSAPkg   map[string]*ssa.Package
	Shipped  map[string]bool // repo packages transitively imported by cmd (excludes pkg/test)
	Funcs    []*ssa.Function // every function with a body in shipped repo packages (incl. closures)
	funcByID map[string]*ssa.Function

	callees map[*ssa.Function][]*ssa.Function // repo-internal edges
	callers map[*ssa.Function][]*ssa.Function

	mutFields  map[*ssa.Function]map[*types.Var]bool // fields possibly stored, transitively
	readFields map[*ssa.Function]map[*types.Var]bool
	wholeStore map[*ssa.Function]map[string]bool // struct types wholly overwritten through a non-local pointer
	extImpure  map[*ssa.Function]bool            // calls (transitively) an external function that is not in the effect-free table

	noExpand    map[*ssa.Function]bool // functions whose (value, error) results keep their call atoms
	storedFields map[*types.Var]bool // neverStoredFuncField: fields some function stores to
	nonNilPtr   types.Type             // anchors: *NodeGroupState — parameters and scaleOpts fields of this type are never nil (reviewed)
	keepCalls   map[*ssa.Function]bool // anchors: their calls are never replaced by the returned expression (nil until anchors are resolved)
	implCache   map[string][]*ssa.Function
	tagLabel    string
	Desugared   []string        // range-over-func loops rewritten in the overlay (desugar.go)
	inlinedAway map[string]bool // iterator functions all of whose uses were rewritten: dead code in the analysed program
}

// loadProg loads dir (the repository root) with the given extra build tags / env.
func loadProg(dir string, tags string, extraEnv []string) (*Prog, error) {
	env := append(os.Environ(), "GOWORK=off", "GOFLAGS=-mod=mod -trimpath", "GOPROXY=off", "GOSUMDB=off", "GOTOOLCHAIN=local")
	env = append(env, extraEnv...)
	cfg := &packages.Config{
		Mode:  packages.LoadSyntax | packages.NeedModule,
		Dir:   dir,
		Tests: false,
		Env:   env,
	}
	if tags != "" {
		cfg.BuildFlags = []string{"-tags=" + tags}
	}
	pkgs, err := packages.Load(cfg, "./...")
	if err != nil {
		return nil, fmt.Errorf("go/packages: %v", err)
	}
	if len(pkgs) < 8 {
		return nil, fmt.Errorf("only %d packages loaded from %s (expected >= 8)", len(pkgs), dir)
	}
	p := &Prog{Dir: dir, ByPath: map[string]*packages.Package{}, SSAPkg: map[string]*ssa.Package{}, Shipped: map[string]bool{},
		funcByID: map[string]*ssa.Function{}, implCache: map[string][]*ssa.Function{}, tagLabel: tags}
	var errs []string
	for _, pk := range pkgs {
		for _, e := range pk.Errors {
			errs = append(errs, e.Error())
		}
		p.ByPath[pk.PkgPath] = pk
	}
	if len(errs) > 0 {
		return nil, fmt.Errorf("type errors: %s", strings.Join(errs, "; "))
	}
	// range-over-func loops over simple repo iterators are read as the loop nests they denote
	// (desugar.go): an overlay, type-checked again; dropped when it does not check
	if overlay, notes, away := desugarIterators(pkgs); len(overlay) > 0 {
		cfg2 := *cfg
		cfg2.Overlay = overlay
		pkgs2, err2 := packages.Load(&cfg2, "./...")
		okLoad := err2 == nil && len(pkgs2) == len(pkgs)
		var why []string
		if err2 != nil {
			why = append(why, err2.Error())
		}
		for _, pk := range pkgs2 {
			for _, e := range pk.Errors {
				okLoad = false
				why = append(why, e.Error())
			}
		}
		if okLoad {
			pkgs = pkgs2
			p.ByPath = map[string]*packages.Package{}
			for _, pk := range pkgs {
				p.ByPath[pk.PkgPath] = pk
			}
			p.Desugared = notes
			p.inlinedAway = away
		} else {
			p.Desugared = []string{"desugaring of range-over-func loops abandoned (the rewritten package does not type-check): " + trunc(strings.Join(why, "; "))}
		}
	}
	sort.Slice(pkgs, func(i, j int) bool { return pkgs[i].PkgPath < pkgs[j].PkgPath })
	p.Pkgs = pkgs
	p.Fset = pkgs[0].Fset
	prog, spkgs := ssautil.Packages(pkgs, ssa.InstantiateGenerics)
	prog.Build()
	p.SSA = prog
	for i, sp := range spkgs {
		if sp == nil {
			return nil, fmt.Errorf("no SSA for %s", pkgs[i].PkgPath)
		}
		p.SSAPkg[pkgs[i].PkgPath] = sp
	}
	// shipped = import closure of the main package inside the module
	var mainPkg *packages.Package
	for _, pk := range pkgs {
		if pk.Name == "main" {
			mainPkg = pk
		}
	}
	if mainPkg == nil {
		return nil, fmt.Errorf("no main package under %s", dir)
	}
	var visit func(pk *packages.Package)
	visit = func(pk *packages.Package) {
		if p.Shipped[pk.PkgPath] || !strings.HasPrefix(pk.PkgPath, repoModule) {
			return
		}
		p.Shipped[pk.PkgPath] = true
		for _, imp := range pk.Imports {
			visit(imp)
		}
	}
	visit(mainPkg)
	p.indexFuncs()
	p.buildCallGraph()
	p.buildSummaries()
	// from here on a local whose address is only handed to read-only repo functions (value
	// receivers spilled for a pointer-receiver accessor, `x.IsEmpty()`) stays under the function's
	// control; per-function facts computed before the summaries existed are recomputed
	strict := map[*ssa.Function]int{} // 0 unknown, 1 in progress / pure, 2 impure
	var strictPure func(f *ssa.Function, depth int) bool
	strictPure = func(f *ssa.Function, depth int) bool {
		if f == nil || f.Blocks == nil || !p.inRepo(f) || depth > 6 {
			return false
		}
		switch strict[f] {
		case 1:
			return true
		case 2:
			return false
		}
		strict[f] = 1
		okv := p.readOnly(f)
		for _, b := range f.Blocks {
			for _, in := range b.Instrs {
				switch x := in.(type) {
				case *ssa.Store:
					// not even a lazily filled cache: nothing is written through a pointer
					if _, isAlloc := baseOfAddr(x.Addr).(*ssa.Alloc); !isAlloc {
						okv = false
					}
				case *ssa.MapUpdate, *ssa.Send, *ssa.Go, *ssa.Defer:
					okv = false
				case ssa.CallInstruction:
					g := x.Common().StaticCallee()
					switch {
					case g == nil:
						if _, isBuiltin := x.Common().Value.(*ssa.Builtin); !isBuiltin {
							okv = false
						}
					case p.inRepo(g) && g.Blocks != nil:
						if !strictPure(g, depth+1) {
							okv = false
						}
					default:
						if !pureExternal(g) {
							okv = false
						}
					}
				}
			}
		}
		if !okv {
			strict[f] = 2
		}
		return okv
	}
	readOnlyHook = func(f *ssa.Function) bool {
		if strictPure(f, 0) {
			return true
		}
		// the reading methods of resource.Quantity leave the quantity's value as it is (String only
		// fills its cache): a local quantity whose address is their receiver stays under the
		// function's own control
		return pkgPathOfFn(f) == "k8s.io/apimachinery/pkg/api/resource" && pureExternal(f)
	}
	finfoCache = map[*ssa.Function]*funcInfo{}
	return p, nil
}

func (p *Prog) isShippedPkg(pk *types.Package) bool {
	return pk != nil && p.Shipped[pk.Path()]
}

func (p *Prog) inRepo(fn *ssa.Function) bool {
	for fn != nil && fn.Parent() != nil {
		fn = fn.Parent()
	}
	if fn == nil {
		return false
	}
	if fn.Pkg != nil {
		return p.Shipped[fn.Pkg.Pkg.Path()]
	}
	if o := fn.Object(); o != nil && o.Pkg() != nil {
		return p.Shipped[o.Pkg().Path()]
	}
	return false
}

func (p *Prog) indexFuncs() {
	seen := map[*ssa.Function]bool{}
	var add func(fn *ssa.Function)
	add = func(fn *ssa.Function) {
		if fn == nil || seen[fn] || fn.Blocks == nil {
			return
		}
		if obj, ok := fn.Object().(*types.Func); ok && p.inlinedAway[obj.FullName()] {
			return // a simple iterator every use of which is read as the loop nest it denotes
		}
		seen[fn] = true
		p.Funcs = append(p.Funcs, fn)
		for _, a := range fn.AnonFuncs {
			add(a)
		}
	}
	var paths []string
	for path := range p.Shipped {
		paths = append(paths, path)
	}
	sort.Strings(paths)
	for _, path := range paths {
		sp := p.SSAPkg[path]
		if sp == nil {
			continue
		}
		var names []string
		for n := range sp.Members {
			names = append(names, n)
		}
		sort.Strings(names)
		for _, n := range names {
			switch m := sp.Members[n].(type) {
			case *ssa.Function:
				add(m)
			case *ssa.Type:
				for _, t := range []types.Type{m.Type(), types.NewPointer(m.Type())} {
					ms := p.SSA.MethodSets.MethodSet(t)
					for i := 0; i < ms.Len(); i++ {
						f := p.SSA.MethodValue(ms.At(i))
						if f != nil && f.Synthetic == "" {
							add(f)
						}
					}
				}
			}
		}
		// package initialiser holds the package-level var initialisers
		if init := sp.Func("init"); init != nil {
			add(init)
		}
	}
	for _, fn := range p.Funcs {
		p.funcByID[funcID(fn)] = fn
	}
}

// funcID is a stable human-readable identity: "pkg/controller.(*Controller).scaleNodeGroup",
// closures get "$k" suffixes.
func funcID(fn *ssa.Function) string {
	if fn == nil {
		return "<nil>"
	}
	s := fn.String()
	return strings.TrimPrefix(strings.ReplaceAll(s, repoModule+"/", ""), repoModule)
}

// Func looks a function up by its funcID; nil if absent.
func (p *Prog) Func(id string) *ssa.Function { return p.funcByID[id] }

// position renders a token.Pos relative to the repository root.
func (p *Prog) position(pos token.Pos) string {
	if !pos.IsValid() {
		return "-"
	}
	ps := p.Fset.Position(pos)
	f := strings.TrimPrefix(ps.Filename, p.Dir+"/")
	return fmt.Sprintf("%s:%d", f, ps.Line)
}

func (p *Prog) instrPos(in ssa.Instruction) string {
	pos := in.Pos()
	if !pos.IsValid() {
		if v, ok := in.(ssa.Value); ok {
			pos = v.Pos()
		}
	}
	if !pos.IsValid() {
		// fall back on the closest positioned instruction of the block
		b := in.Block()
		if b != nil {
			for _, x := range b.Instrs {
				if x.Pos().IsValid() {
					pos = x.Pos()
					if x == in {
						break
					}
				}
			}
		}
	}
	return p.position(pos)
}

// ---- call graph ---------------------------------------------------------------------------

// implementers returns the shipped repo functions that an invoke of iface method m may reach (CHA).
func (p *Prog) implementers(recv types.Type, m *types.Func) []*ssa.Function {
	iface, _ := recv.Underlying().(*types.Interface)
	if iface == nil {
		return nil
	}
	key := types.TypeString(recv, nil) + "." + m.Name()
	if r, ok := p.implCache[key]; ok {
		return r
	}
	var out []*ssa.Function
	for path := range p.Shipped {
		pk := p.ByPath[path]
		scope := pk.Types.Scope()
		for _, n := range scope.Names() {
			tn, ok := scope.Lookup(n).(*types.TypeName)
			if !ok || tn.IsAlias() {
				continue
			}
			if _, isIface := tn.Type().Underlying().(*types.Interface); isIface {
				continue
			}
			for _, t := range []types.Type{tn.Type(), types.NewPointer(tn.Type())} {
				if !types.Implements(t, iface) {
					continue
				}
				sel := p.SSA.MethodSets.MethodSet(t).Lookup(m.Pkg(), m.Name())
				if sel == nil {
					continue
				}
				if f := p.SSA.MethodValue(sel); f != nil {
					// unwrap synthetic pointer-receiver wrappers to the declared method
					if f.Synthetic != "" {
						if obj, ok := sel.Obj().(*types.Func); ok {
							if d := p.SSA.FuncValue(obj); d != nil {
								f = d
							}
						}
					}
					out = append(out, f)
				}
				break
			}
		}
	}
	sort.Slice(out, func(i, j int) bool { return funcID(out[i]) < funcID(out[j]) })
	out = dedupFuncs(out)
	p.implCache[key] = out
	return out
}

func dedupFuncs(in []*ssa.Function) []*ssa.Function {
	var out []*ssa.Function
	seen := map[*ssa.Function]bool{}
	for _, f := range in {
		if !seen[f] {
			seen[f] = true
			out = append(out, f)
		}
	}
	return out
}

// calleesOf resolves the repo functions a call instruction may reach: the static callee, CHA
// implementers for interface invokes, closures for calls of function values created in the repo
// (matched by signature among address-taken repo functions), and the modelled callbacks of
// library higher-order functions (sort.Sort → Less/Swap/Len, …Pages(_, f) → f).
func (p *Prog) calleesOf(call ssa.CallInstruction) []*ssa.Function {
	c := call.Common()
	var out []*ssa.Function
	if c.IsInvoke() {
		out = append(out, p.implementers(c.Value.Type(), c.Method)...)
		return out
	}
	if f := c.StaticCallee(); f != nil {
		if p.inRepo(f) && f.Blocks != nil {
			out = append(out, f)
		} else {
			// library higher-order functions: function-valued or interface-valued arguments defined in the repo
			for _, a := range c.Args {
				out = append(out, p.funcValuesOf(a)...)
			}
		}
		return out
	}
	// dynamic call of a function value
	out = append(out, p.funcValuesOf(c.Value)...)
	if len(out) == 0 {
		sig, _ := c.Value.Type().Underlying().(*types.Signature)
		if sig != nil {
			for _, f := range p.addressTaken() {
				if types.Identical(f.Signature, sig) {
					out = append(out, f)
				}
			}
		}
	}
	return out
}

// funcValuesOf: repo functions a value may denote when passed to a library function.
// staticSitesOf: the static call sites of fn in shipped code; for a generic function, the calls of
// its instantiations (go/ssa analyses the generic body once, the callers call the instances).
// neverStoredFuncField: f is a function-typed field of a structure declared in shipped code and no
// function of the program (shipped or not: tests are not loaded) stores to it — not by assignment,
// not in a composite literal. Such a seam is nil in the running program.
func (p *Prog) neverStoredFuncField(f *types.Var) bool {
	if f == nil || !f.IsField() || f.Pkg() == nil || !p.Shipped[f.Pkg().Path()] {
		return false
	}
	if _, isSig := f.Type().Underlying().(*types.Signature); !isSig {
		return false
	}
	if p.storedFields == nil {
		p.storedFields = map[*types.Var]bool{}
		for fn := range ssautil.AllFunctions(p.SSA) {
			for _, b := range fn.Blocks {
				for _, in := range b.Instrs {
					if st, ok := in.(*ssa.Store); ok {
						if fv := fieldOfAddr(st.Addr); fv != nil {
							p.storedFields[fv] = true
						}
						// a whole structure value stored or copied may carry the field
						if sv, ok := st.Val.Type().Underlying().(*types.Struct); ok {
							if _, zero := st.Val.(*ssa.Const); !zero {
								for i := 0; i < sv.NumFields(); i++ {
									if _, isSig := sv.Field(i).Type().Underlying().(*types.Signature); isSig {
										// copies of an existing structure (a load, a value parameter, a merge,
										// a component) create nothing; what a call hands back may be anything
										isCopy := false
										switch st.Val.(type) {
										case *ssa.UnOp, *ssa.Parameter, *ssa.FreeVar, *ssa.Phi, *ssa.Field, *ssa.Index, *ssa.Lookup:
											isCopy = true
										}
										if !isCopy {
											p.storedFields[sv.Field(i)] = true
										}
									}
								}
							}
						}
					}
				}
			}
		}
	}
	return !p.storedFields[f]
}

func (p *Prog) staticSitesOf(fn *ssa.Function) []ssa.CallInstruction {
	var out []ssa.CallInstruction
	for _, f := range p.Funcs {
		for _, b := range f.Blocks {
			for _, in := range b.Instrs {
				ci, ok := in.(ssa.CallInstruction)
				if !ok {
					continue
				}
				g := ci.Common().StaticCallee()
				if g == nil {
					continue
				}
				if g == fn || (g.Origin() != nil && g.Origin() == fn) {
					out = append(out, ci)
				}
			}
		}
	}
	return out
}

func (p *Prog) funcValuesOf(v ssa.Value) []*ssa.Function {
	return p.funcValuesRec(v, map[ssa.Value]bool{})
}

func (p *Prog) funcValuesRec(v ssa.Value, seen map[ssa.Value]bool) []*ssa.Function {
	if seen[v] {
		return nil
	}
	seen[v] = true
	switch x := v.(type) {
	case *ssa.Function:
		if p.inRepo(x) {
			return []*ssa.Function{x}
		}
	case *ssa.MakeClosure:
		if f, ok := x.Fn.(*ssa.Function); ok && p.inRepo(f) {
			return []*ssa.Function{f}
		}
	case *ssa.ChangeType:
		return p.funcValuesRec(x.X, seen)
	case *ssa.MakeInterface:
		// e.g. sort.Sort(sorted): every method of the dynamic type may be called back
		t := x.X.Type()
		var out []*ssa.Function
		ms := p.SSA.MethodSets.MethodSet(t)
		for i := 0; i < ms.Len(); i++ {
			if f := p.SSA.MethodValue(ms.At(i)); f != nil {
				if f.Synthetic != "" {
					if obj, ok := ms.At(i).Obj().(*types.Func); ok {
						if d := p.SSA.FuncValue(obj); d != nil {
							f = d
						}
					}
				}
				if p.inRepo(f) && f.Blocks != nil {
					out = append(out, f)
				}
			}
		}
		return out
	case *ssa.Phi:
		var out []*ssa.Function
		for _, e := range x.Edges {
			out = append(out, p.funcValuesRec(e, seen)...)
		}
		return out
	case *ssa.Parameter:
		// a function handed in: whatever the static call sites pass (none if the function is also
		// entered dynamically)
		fn := x.Parent()
		if fn == nil || p.callers == nil {
			return nil
		}
		idx := -1
		for i, q := range fn.Params {
			if q == x {
				idx = i
			}
		}
		var out []*ssa.Function
		for _, cf := range p.callers[fn] {
			sites := callsTo(cf, fn)
			if len(sites) == 0 {
				return nil
			}
			for _, ci := range sites {
				if idx < 0 || idx >= len(ci.Common().Args) {
					return nil
				}
				fs := p.funcValuesRec(ci.Common().Args[idx], seen)
				if len(fs) == 0 {
					return nil
				}
				out = append(out, fs...)
			}
		}
		return out
	}
	return nil
}

var addrTakenCache []*ssa.Function
var addrTakenFor *Prog

func (p *Prog) addressTaken() []*ssa.Function {
	if addrTakenFor == p {
		return addrTakenCache
	}
	seen := map[*ssa.Function]bool{}
	for _, fn := range p.Funcs {
		for _, b := range fn.Blocks {
			for _, in := range b.Instrs {
				ops := in.Operands(nil)
				for i, op := range ops {
					if op == nil || *op == nil {
						continue
					}
					var f *ssa.Function
					switch x := (*op).(type) {
					case *ssa.Function:
						f = x
					case *ssa.MakeClosure:
						f, _ = x.Fn.(*ssa.Function)
					}
					if f == nil || !p.inRepo(f) {
						continue
					}
					if ci, ok := in.(ssa.CallInstruction); ok && i == 0 && !ci.Common().IsInvoke() && ci.Common().Value == *op {
						continue // direct call, not address-taken
					}
					if _, ok := in.(*ssa.MakeClosure); ok && i == 0 {
						// the MakeClosure itself: counts when the closure value is used other than by a direct call
						continue
					}
					seen[f] = true
				}
				if mc, ok := in.(*ssa.MakeClosure); ok {
					f, _ := mc.Fn.(*ssa.Function)
					if f != nil && p.inRepo(f) {
						direct := true
						for _, r := range *mc.Referrers() {
							ci, ok := r.(ssa.CallInstruction)
							if !ok || ci.Common().Value != ssa.Value(mc) {
								direct = false
							}
						}
						if !direct {
							seen[f] = true
						}
					}
				}
			}
		}
	}
	var out []*ssa.Function
	for f := range seen {
		out = append(out, f)
	}
	sort.Slice(out, func(i, j int) bool { return funcID(out[i]) < funcID(out[j]) })
	addrTakenCache, addrTakenFor = out, p
	return out
}

func (p *Prog) buildCallGraph() {
	p.callees = map[*ssa.Function][]*ssa.Function{}
	p.callers = map[*ssa.Function][]*ssa.Function{}
	for _, fn := range p.Funcs {
		set := map[*ssa.Function]bool{}
		for _, b := range fn.Blocks {
			for _, in := range b.Instrs {
				if ci, ok := in.(ssa.CallInstruction); ok {
					for _, g := range p.calleesOf(ci) {
						set[g] = true
					}
				}
				// closures defined here are conservatively considered callable from here
				if mc, ok := in.(*ssa.MakeClosure); ok {
					if g, ok := mc.Fn.(*ssa.Function); ok {
						set[g] = true
					}
				}
			}
		}
		var list []*ssa.Function
		for g := range set {
			list = append(list, g)
		}
		sort.Slice(list, func(i, j int) bool { return funcID(list[i]) < funcID(list[j]) })
		p.callees[fn] = list
		for _, g := range list {
			p.callers[g] = append(p.callers[g], fn)
		}
	}
}

// reachableFrom returns the repo functions reachable from roots, not following edges into any
// function in cut.
func (p *Prog) reachableFrom(roots []*ssa.Function, cut map[*ssa.Function]bool) map[*ssa.Function]bool {
	seen := map[*ssa.Function]bool{}
	var stack []*ssa.Function
	for _, r := range roots {
		if r != nil && !cut[r] {
			stack = append(stack, r)
		}
	}
	for len(stack) > 0 {
		f := stack[len(stack)-1]
		stack = stack[:len(stack)-1]
		if seen[f] {
			continue
		}
		seen[f] = true
		for _, g := range p.callees[f] {
			if !seen[g] && !cut[g] {
				stack = append(stack, g)
			}
		}
	}
	return seen
}

// chain returns a shortest call chain from -> to in the repo call graph (for reports).
func (p *Prog) chain(from, to *ssa.Function) []string {
	prev := map[*ssa.Function]*ssa.Function{from: nil}
	q := []*ssa.Function{from}
	for len(q) > 0 {
		f := q[0]
		q = q[1:]
		if f == to {
			var out []string
			for x := to; x != nil; x = prev[x] {
				out = append([]string{funcID(x)}, out...)
			}
			return out
		}
		for _, g := range p.callees[f] {
			if _, ok := prev[g]; !ok {
				prev[g] = f
				q = append(q, g)
			}
		}
	}
	return nil
}

// ---- field summaries -------------------------------------------------------------------

// effectFreeExternal: external callees whose effects are irrelevant to escalator's own state
// (logging, metrics, formatting, pure library code). Anything else external called from a
// function makes it "extImpure" (its result may differ between two calls).
func effectFreeExternalPkg(path string) bool {
	switch {
	case path == "fmt", path == "strings", path == "strconv", path == "math", path == "sort", path == "errors",
		path == "time", path == "slices", path == "maps", path == "bytes", path == "unicode", path == "unicode/utf8", path == "sync":
		return true
	case strings.HasPrefix(path, "github.com/sirupsen/logrus"),
		strings.HasPrefix(path, "github.com/prometheus/"),
		strings.HasPrefix(path, "github.com/pkg/errors"),
		strings.HasPrefix(path, "github.com/stephanos/clock"),
		strings.HasPrefix(path, "github.com/aws/aws-sdk-go/aws"), // awsapi.String/Int64/… helpers only; service packages are separate paths
		strings.HasPrefix(path, "k8s.io/api/"),
		strings.HasPrefix(path, "k8s.io/apimachinery/pkg/api/resource"),
		strings.HasPrefix(path, "k8s.io/apimachinery/pkg/apis/meta/v1"),
		strings.HasPrefix(path, "k8s.io/apimachinery/pkg/labels"):
		return true
	}
	return false
}

func fieldOfAddr(v ssa.Value) *types.Var {
	if fa, ok := v.(*ssa.FieldAddr); ok {
		st := derefStruct(fa.X.Type())
		if st != nil {
			return st.Field(fa.Field)
		}
	}
	return nil
}

func derefStruct(t types.Type) *types.Struct {
	if t == nil {
		return nil
	}
	if pt, ok := t.Underlying().(*types.Pointer); ok {
		t = pt.Elem()
	}
	st, _ := t.Underlying().(*types.Struct)
	return st
}

// baseOfAddr walks FieldAddr/IndexAddr chains down to the root value of an address.
func baseOfAddr(v ssa.Value) ssa.Value {
	for {
		switch x := v.(type) {
		case *ssa.FieldAddr:
			v = x.X
		case *ssa.IndexAddr:
			v = x.X
		default:
			return v
		}
	}
}

func (p *Prog) buildSummaries() {
	p.mutFields = map[*ssa.Function]map[*types.Var]bool{}
	p.readFields = map[*ssa.Function]map[*types.Var]bool{}
	p.wholeStore = map[*ssa.Function]map[string]bool{}
	p.extImpure = map[*ssa.Function]bool{}
	// lazy caches: fields every store to which is result 0 of time.ParseDuration (the options'
	// memoised durations). Filling such a cache changes no observable value — the accessors are
	// verified idempotent by C16.R3 — so it does not count as a mutation for purity purposes.
	lazyCache := map[*types.Var]bool{}
	notLazy := map[*types.Var]bool{}
	for _, fn := range p.Funcs {
		for _, b := range fn.Blocks {
			for _, in := range b.Instrs {
				st, ok := in.(*ssa.Store)
				if !ok {
					continue
				}
				f := fieldOfAddr(st.Addr)
				if f == nil {
					continue
				}
				isParse := false
				if ex, ok := st.Val.(*ssa.Extract); ok && ex.Index == 0 {
					if c, ok := ex.Tuple.(*ssa.Call); ok {
						if g := c.Common().StaticCallee(); g != nil && pkgPathOfFn(g) == "time" && g.Name() == "ParseDuration" {
							isParse = true
						}
					}
				}
				if isParse && !notLazy[f] {
					lazyCache[f] = true
				} else {
					notLazy[f] = true
					delete(lazyCache, f)
				}
			}
		}
	}
	for _, fn := range p.Funcs {
		mut, rd, whole := map[*types.Var]bool{}, map[*types.Var]bool{}, map[string]bool{}
		for _, b := range fn.Blocks {
			for _, in := range b.Instrs {
				switch x := in.(type) {
				case *ssa.Store:
					if _, isAlloc := baseOfAddr(x.Addr).(*ssa.Alloc); isAlloc {
						continue // local memory
					}
					if f := fieldOfAddr(x.Addr); f != nil {
						if !lazyCache[f] {
							mut[f] = true
						}
					} else if pt, ok := x.Addr.Type().Underlying().(*types.Pointer); ok {
						if _, isSt := pt.Elem().Underlying().(*types.Struct); isSt {
							whole[types.TypeString(pt.Elem(), nil)] = true
						}
					}
				case *ssa.FieldAddr:
					if f := fieldOfAddr(x); f != nil {
						rd[f] = true
					}
				case *ssa.Field:
					if st, ok := x.X.Type().Underlying().(*types.Struct); ok {
						rd[st.Field(x.Field)] = true
					}
				case ssa.CallInstruction:
					c := x.Common()
					if c.IsInvoke() {
						if len(p.implementers(c.Value.Type(), c.Method)) == 0 {
							// interface with no repo implementation: external behaviour
							if !effectFreeExternalPkg(pkgPathOf(c.Method)) {
								p.extImpure[fn] = true
							}
						}
					} else if f := c.StaticCallee(); f != nil {
						if !p.inRepo(f) && !effectFreeExternalPkg(pkgPathOfFn(f)) {
							p.extImpure[fn] = true
						}
					} else if _, isBuiltin := c.Value.(*ssa.Builtin); !isBuiltin {
						if len(p.calleesOf(x)) == 0 {
							p.extImpure[fn] = true
						}
					}
				}
			}
		}
		p.mutFields[fn], p.readFields[fn], p.wholeStore[fn] = mut, rd, whole
	}
	// transitive closure (fixpoint)
	for changed := true; changed; {
		changed = false
		for _, fn := range p.Funcs {
			for _, g := range p.callees[fn] {
				for f := range p.mutFields[g] {
					if !p.mutFields[fn][f] {
						p.mutFields[fn][f] = true
						changed = true
					}
				}
				for f := range p.readFields[g] {
					if !p.readFields[fn][f] {
						p.readFields[fn][f] = true
						changed = true
					}
				}
				for t := range p.wholeStore[g] {
					if !p.wholeStore[fn][t] {
						p.wholeStore[fn][t] = true
						changed = true
					}
				}
				if p.extImpure[g] && !p.extImpure[fn] {
					p.extImpure[fn] = true
					changed = true
				}
			}
		}
	}
}

func pkgPathOf(o types.Object) string {
	if o != nil && o.Pkg() != nil {
		return o.Pkg().Path()
	}
	return ""
}

func pkgPathOfFn(f *ssa.Function) string {
	if f.Pkg != nil {
		return f.Pkg.Pkg.Path()
	}
	if o := f.Object(); o != nil {
		return pkgPathOf(o)
	}
	if f.Parent() != nil {
		return pkgPathOfFn(f.Parent())
	}
	// instantiated generics / wrappers: derive from the origin
	if o := f.Origin(); o != nil && o != f {
		return pkgPathOfFn(o)
	}
	return ""
}

// mayMutate reports whether running fn (or anything it calls) may store into field f.
func (p *Prog) mayMutate(fn *ssa.Function, f *types.Var) bool {
	if p.mutFields[fn][f] {
		return true
	}
	return false
}

// readOnly: fn never stores into non-local memory (transitively) and calls no impure externals.
func (p *Prog) readOnly(fn *ssa.Function) bool {
	return len(p.mutFields[fn]) == 0 && len(p.wholeStore[fn]) == 0 && !p.extImpure[fn]
}
