package main

// prov.go — E6: slice / value provenance on SSA.

import (
	"go/token"
	"go/types"

	"golang.org/x/tools/go/ssa"
)

// AppendSite is one `append(acc, elems...)` contributing to a slice value.
type AppendSite struct {
	Call   *ssa.Call
	Elems  []ssa.Value // individually appended element values (variadic packing resolved)
	Spread ssa.Value   // non-nil for append(acc, other...) with a slice operand
}

// SliceProv is the backward closure of a slice-typed value.
type SliceProv struct {
	Appends []AppendSite
	Roots   []ssa.Value // non-append origins (parameters, call results, loads, nil consts, make)
}

func isBuiltinCall(v ssa.Value, name string) (*ssa.Call, bool) {
	c, ok := v.(*ssa.Call)
	if !ok {
		return nil, false
	}
	b, ok := c.Common().Value.(*ssa.Builtin)
	if !ok || b.Name() != name {
		return nil, false
	}
	return c, true
}

// variadicElems: for a value `slice t[:]` over `new [k]T (varargs)`, the values stored in the
// array cells; ok=false when v is not such a packing.
func variadicElems(v ssa.Value) ([]ssa.Value, bool) {
	sl, ok := v.(*ssa.Slice)
	if !ok {
		return nil, false
	}
	al, ok := sl.X.(*ssa.Alloc)
	if !ok {
		return nil, false
	}
	pt, ok := al.Type().Underlying().(*types.Pointer)
	if !ok {
		return nil, false
	}
	arr, ok := pt.Elem().Underlying().(*types.Array)
	if !ok {
		return nil, false
	}
	elems := make([]ssa.Value, arr.Len())
	for _, r := range *al.Referrers() {
		ia, ok := r.(*ssa.IndexAddr)
		if !ok {
			continue
		}
		k, ok := ia.Index.(*ssa.Const)
		if !ok {
			return nil, false
		}
		idx := int(k.Int64())
		for _, rr := range *ia.Referrers() {
			if st, ok := rr.(*ssa.Store); ok && st.Addr == ssa.Value(ia) && idx < len(elems) {
				elems[idx] = st.Val
			}
		}
	}
	for _, e := range elems {
		if e == nil {
			return nil, false
		}
	}
	return elems, true
}

func sliceProv(v ssa.Value) SliceProv {
	var out SliceProv
	seen := map[ssa.Value]bool{}
	var rec func(v ssa.Value)
	rec = func(v ssa.Value) {
		if v == nil || seen[v] {
			return
		}
		seen[v] = true
		switch x := v.(type) {
		case *ssa.Phi:
			for _, e := range x.Edges {
				rec(e)
			}
		case *ssa.Call:
			if c, ok := isBuiltinCall(x, "append"); ok {
				site := AppendSite{Call: c}
				args := c.Common().Args
				if len(args) == 2 {
					if el, ok := variadicElems(args[1]); ok {
						site.Elems = el
					} else {
						site.Spread = args[1]
					}
				}
				out.Appends = append(out.Appends, site)
				rec(args[0])
				return
			}
			out.Roots = append(out.Roots, v)
		case *ssa.Slice:
			rec(x.X)
		case *ssa.ChangeType:
			rec(x.X)
		case *ssa.Convert:
			rec(x.X)
		case *ssa.UnOp:
			// load of a local slice variable that lives in memory (captured read-only by a closure,
			// or address-taken): union over every store to it (flow-insensitive superset)
			if al, ok := x.X.(*ssa.Alloc); ok && x.Op == token.MUL && addrConfined(al, al) {
				for _, r := range *al.Referrers() {
					if st, ok := r.(*ssa.Store); ok && st.Addr == ssa.Value(al) {
						rec(st.Val)
					}
				}
				return
			}
			out.Roots = append(out.Roots, v)
		case *ssa.Const:
			// nil slice: contributes no elements
		case *ssa.MakeSlice:
			// empty (length given separately); contributes no elements when len == 0
			out.Roots = append(out.Roots, v)
		default:
			out.Roots = append(out.Roots, v)
		}
	}
	rec(v)
	return out
}

// makeSliceEmpty: make([]T, 0, …)
func makeSliceEmpty(v ssa.Value) bool {
	if al, ok := v.(*ssa.Alloc); ok {
		// make([]T, 0) with constant zero length lowers to new [0]T + slice
		if pt, ok := al.Type().Underlying().(*types.Pointer); ok {
			if arr, ok := pt.Elem().Underlying().(*types.Array); ok && arr.Len() == 0 {
				return true
			}
		}
		return false
	}
	ms, ok := v.(*ssa.MakeSlice)
	if !ok {
		return false
	}
	k, ok := ms.Len.(*ssa.Const)
	return ok && k.Value != nil && k.Int64() == 0
}

// callsIn lists the call instructions of fn (optionally filtered).
func callsIn(fn *ssa.Function, pred func(ssa.CallInstruction) bool) []ssa.CallInstruction {
	var out []ssa.CallInstruction
	if fn == nil {
		return nil
	}
	for _, b := range fn.Blocks {
		for _, in := range b.Instrs {
			if ci, ok := in.(ssa.CallInstruction); ok && (pred == nil || pred(ci)) {
				out = append(out, ci)
			}
		}
	}
	return out
}

func callsTo(fn *ssa.Function, callee *ssa.Function) []ssa.CallInstruction {
	if callee == nil {
		return nil
	}
	return callsIn(fn, func(ci ssa.CallInstruction) bool { return ci.Common().StaticCallee() == callee })
}

// derefLoadOf: v is `*addr`; returns addr.
func derefLoadOf(v ssa.Value) (ssa.Value, bool) {
	u, ok := v.(*ssa.UnOp)
	if !ok || u.Op != token.MUL {
		return nil, false
	}
	return u.X, true
}

// dominatesInstr: a executes before b on every path to b (same function).
func dominatesInstr(a, b ssa.Instruction) bool {
	ba, bb := a.Block(), b.Block()
	if ba == bb {
		for _, in := range ba.Instrs {
			if in == a {
				return true
			}
			if in == b {
				return false
			}
		}
		return false
	}
	return ba.Dominates(bb)
}

// reachesWithout: is there a CFG path from instruction `from` to instruction `to` that does not
// pass through any instruction satisfying stop (checked on instructions strictly between)?
func reachesWithout(from, to ssa.Instruction, stop func(ssa.Instruction) bool) bool {
	fn := from.Parent()
	type pt struct{ b, i int }
	start := infoOf(fn).pos[from]
	goal := infoOf(fn).pos[to]
	seen := map[int]bool{}
	var walk func(b *ssa.BasicBlock, i int) bool
	walk = func(b *ssa.BasicBlock, i int) bool {
		for ; i < len(b.Instrs); i++ {
			if b.Index == goal[0] && i == goal[1] {
				return true
			}
			if stop(b.Instrs[i]) {
				return false
			}
		}
		for _, s := range b.Succs {
			if seen[s.Index] {
				continue
			}
			seen[s.Index] = true
			if walk(s, 0) {
				return true
			}
		}
		return false
	}
	return walk(fn.Blocks[start[0]], start[1]+1)
}
