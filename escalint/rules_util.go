package main

// rules_util.go — C05 (scale-up delta formula) and C13 (utilisation: units, composition, folds).

import (
	"fmt"
	"go/token"
	"go/types"
	"math/big"
	"strings"

	"golang.org/x/tools/go/ssa"
)

func init() {
	register(&propSpec{ID: "C05", Run: checkC05,
		Explanation: "Structural necessary condition only: the real-valued function computed for the delta is the documented one — per resource ⌈n·(p−t)/t⌉ in the normal branch and ⌈100·req/(cap₁·t)⌉ from the cached node size in the from-zero branch (rational-function normal form, any algebraically equal spelling passes), combined as int(max(ceil_cpu, ceil_mem)); 1 when no node size was ever cached; the percent inputs are 100·req/cap; the node count is the untainted list; the from-zero sentinel is one constant, produced only when there are 0 untainted nodes and tested with equality on both consumers; the cached node size is written only from a listed node's allocatable. By the lemma in DESIGN.md §4 C05 the exact value is the least sufficient N; floating-point rounding (the statement's \"+1\") is NOT decided.",
		RuleText:    "R1 percent formula (2), R2 delta formula per branch and resource (4) + skeleton + no-cache branch, R3 rounding direction, R4 node-count provenance, R5 sentinel agreement, R6 cached node size stores, R7 composition (C07.R2), R8 capacity summed over every listed node, R9 the cloud request is cut short by the maximum only, R10 an untainted node is one brought into service: the untaint candidates are uncordoned tainted nodes (C01.R5), R11 the delta acted on is the computed one (band table and overrides, C06.R1 / R2)",
		Assumptions: []string{"floating-point evaluation, overflow and unequal node sizes are not decided; this is a structural necessary condition of the numeric property"}})
	register(&propSpec{ID: "C13", Run: checkC13,
		Explanation: "Units, composition and fold shape: Resource.MilliCPU is only ever stored from millicore-valued terms and Resource.Memory from byte-valued terms (unit analysis over Quantity accessors, switch cases on the resource name, constructor arguments); per pod the accumulator receives Add(container requests) for every container, then SetMaxResource(init container requests) for every init container, then Add(overhead) if present, in that dominance order, with Add ≡ += and SetMaxResource ≡ max per resource; totals over pods / untainted nodes are loop-carried sums updated only by += of a per-element term in full range loops (hence permutation-invariant, every element counted once); percent ≡ 100·req/cap per resource with like divided by like; decisions use max(cpu%, mem%).",
		RuleText:    "R1 unit of every store to Resource fields + constructor arguments + percent operands, R2 per-pod composition order and operator bodies, R3 commutative folds (4 accumulators), R4 percent formula, R5 capacity list, R6 max of the two, R7 the informers list every pod that can still run and every node, R8 no client before both caches synced",
		Assumptions: []string{"resource.Quantity parsing/rounding, float division and int64 overflow are not decided; the largest-pending / largest-available trackers are outside utilisation"}})
}

// leafByHint finds, among the leaves of rf, the one whose rendering contains every hint.
func leafByHint(rf RatFunc, hints ...string) *Term {
	var found *Term
	for _, t := range rf.leaves {
		s := t.String()
		ok := true
		for _, h := range hints {
			if !strings.Contains(s, h) {
				ok = false
			}
		}
		if ok {
			if found != nil && found.Key() != t.Key() {
				return nil
			}
			found = t
		}
	}
	return found
}

func rfInt(k int64) RatFunc { return rfConst(big.NewRat(k, 1)) }

// leafBy: the unique leaf of rf accepted by pred (nil if none or several).
func leafBy(rf RatFunc, pred func(*Term) bool) *Term {
	var found *Term
	for _, t := range rf.leaves {
		if pred(t) {
			if found != nil && found.Key() != t.Key() {
				return nil
			}
			found = t
		}
	}
	return found
}

// mentionsParam: t contains the parameter p.
func mentionsParam(t *Term, p *ssa.Parameter) bool {
	return p != nil && t.contains(func(x *Term) bool {
		if x.Kind == "param" && x.Val == ssa.Value(p) {
			return true
		}
		// the compiler's spill of a by-value parameter whose address is taken
		if al, ok := x.Val.(*ssa.Alloc); ok && x.Kind == "alloc" {
			n := 0
			var src ssa.Value
			for _, r := range *al.Referrers() {
				if st, ok := r.(*ssa.Store); ok && st.Addr == ssa.Value(al) {
					n++
					src = st.Val
				}
			}
			return n == 1 && src == ssa.Value(p)
		}
		return false
	})
}

// milliOf: t is a MilliValue() reading that satisfies on (applied to the whole leaf).
func milliOf(on func(*Term) bool) func(*Term) bool {
	return func(t *Term) bool { return strings.Contains(t.String(), "MilliValue") && on(t) }
}

// paramsOfKind: fn's parameters whose type satisfies ok, in declaration order.
func paramsOfKind(fn *ssa.Function, ok func(types.Type) bool) []*ssa.Parameter {
	var out []*ssa.Parameter
	for _, p := range fn.Params {
		if ok(p.Type()) {
			out = append(out, p)
		}
	}
	return out
}

func isFloat64(t types.Type) bool {
	b, ok := t.Underlying().(*types.Basic)
	return ok && b.Kind() == types.Float64
}

func isQuantity(t types.Type) bool { return strings.HasSuffix(typeName(t), "resource.Quantity") }

// percentFormula (C05.R1 / C13.R4)
func (ck *Check) percentFormula(rule string) {
	fn := ck.A.CalcPercent
	ctx := ck.P.NewCtx(fn)
	done := false
	for _, b := range fn.Blocks {
		r, ok := b.Instrs[len(b.Instrs)-1].(*ssa.Return)
		if !ok {
			continue
		}
		if et := ctx.Term(r.Results[2]); !(et.Kind == "const" && et.Name == "nil") {
			continue
		}
		if _, isConst := r.Results[0].(*ssa.Const); isConst {
			continue
		}
		done = true
		// parameters by position: (cpu request, mem request, cpu capacity, mem capacity) — the call
		// site's argument roles are decided in C13.R1
		qp := paramsOfKind(fn, isQuantity)
		if len(qp) != 4 {
			ck.fail(rule, "calcPercentUsage/params", "", funcID(fn), "calcPercentUsage takes four quantities (cpu request, mem request, cpu capacity, mem capacity)", fmt.Sprint(len(qp)), "")
			return
		}
		for i, res := range []string{"cpu", "mem"} {
			rf := ratOf(ctx.Term(r.Results[i]))
			reqP, capP := qp[i], qp[2+i]
			req := leafBy(rf, milliOf(func(t *Term) bool { return mentionsParam(t, reqP) }))
			cp := leafBy(rf, milliOf(func(t *Term) bool { return mentionsParam(t, capP) }))
			key := "calcPercentUsage/" + res
			if req == nil || cp == nil {
				ck.fail(rule, key, ck.P.instrPos(r), funcID(fn), res+"% = 100 · "+res+" request / "+res+" capacity", rf.String(), "the operands are not the "+res+" request and capacity in the same (milli) scaling")
				continue
			}
			want := rfInt(100).mul(rfLeaf(req)).div(rfLeaf(cp))
			ck.cond(rf.equal(want), rule, key, ck.P.instrPos(r), funcID(fn), res+"% ≡ 100 · "+res+"Request.MilliValue() / "+res+"Capacity.MilliValue() (as a rational function)", rf.String(), "the percent formula differs")
		}
		// the division is guarded: PC ⇒ capacities non-zero
		pc := ctx.BlockPC(b)
		for i, res := range []string{"cpu", "mem"} {
			var zero *Term
			for _, at := range pc.Atoms() {
				if at.Kind == "cmp" && at.Name == "==" && hasConstStr(at, "0") && mentionsParam(at, qp[2+i]) && strings.Contains(at.String(), "MilliValue") {
					zero = at
				}
			}
			okv := false
			if zero != nil {
				okv, _, _ = Entails(pc, Not(Atom(zero)))
			}
			ck.cond(okv, rule, "calcPercentUsage/"+res+"-nonzero", ck.P.instrPos(r), funcID(fn), "the quotient is computed only when the "+res+" capacity is non-zero", pc.String(), "division by a zero capacity yields ±Inf/NaN utilisation")
		}
	}
	if !done {
		ck.fail(rule, "calcPercentUsage/normal-return", "", funcID(fn), "a return of the two computed percentages", "not found", "")
	}
}

func checkC05(ck *Check) {
	a := ck.A
	if !ck.need("C05.R1", map[string]interface{}{"calcPercentUsage": a.CalcPercent, "calcScaleUpDelta": a.CalcDelta, "scan": a.Scan}) {
		return
	}
	ck.percentFormula("C05.R1")
	fn := a.CalcDelta
	ctx := ck.P.NewCtx(fn)
	g := ck.groupTerm(fn)
	// the successful returns, with tail calls of helpers looked through and merged values split by
	// the edge they come from: every case is (path condition, delta) — int(math.Max(X, Y)) or the
	// constant 1 of the no-cache branch
	cases := ck.returnCases(ctx, FTrue, 0)
	var computed, constant []retCase
	for _, rc := range cases {
		if len(rc.Res) != 2 {
			continue
		}
		if et := rc.Res[1]; !(et.Kind == "const" && et.Name == "nil") {
			continue
		}
		if rc.Res[0].Kind == "const" {
			constant = append(constant, rc)
		} else {
			computed = append(computed, rc)
		}
	}
	if len(computed) == 0 || g == nil {
		ck.fail("C05.R2", "calcScaleUpDelta/return", "", funcID(fn), "a successful return of the computed delta", "not found", "")
		return
	}
	t := &Term{Kind: "conv", Name: "float64", Args: []*Term{ck.optTerm(g, "scale_up_threshold_percent")}}
	var nodesParam *ssa.Parameter
	for _, p := range fn.Params {
		if _, ok := p.Type().(*types.Slice); ok {
			nodesParam = p
		}
	}
	n := lenOf("len", paramTerm(nodesParam))
	var sentinel *Formula
	for _, rc := range cases {
		for _, at := range rc.PC.Atoms() {
			if at.Kind == "cmp" && at.Name == "==" && strings.Contains(at.String(), "1.79769e+308") {
				if sentinel == nil {
					sentinel = Atom(at)
				} else if !strings.Contains(sentinel.String(), at.String()) {
					sentinel = Or(sentinel, Atom(at))
				}
			}
		}
	}
	// parameters by position: the two float64 are (cpu %, mem %), the two quantities (cpu request,
	// mem request); the cached node size is read from the state's cpuCapacity / memCapacity fields
	pctP := paramsOfKind(fn, isFloat64)
	reqP := paramsOfKind(fn, isQuantity)
	capF := []string{"cpuCapacity", "memCapacity"}
	for i, nm := range capF {
		if fv := field(a.TState, nm); fv != nil {
			capF[i] = fv.Name()
		}
	}
	if len(pctP) != 2 || len(reqP) != 2 {
		ck.fail("C05.R2", "calcScaleUpDelta/params", "", funcID(fn), "calcScaleUpDelta takes (cpu %, mem %) and (cpu request, mem request)", fmt.Sprintf("%d floats, %d quantities", len(pctP), len(reqP)), "")
		return
	}
	nNormal, nZero := [2]int{}, [2]int{}
	seenKey := map[string]int{}
	uniq := func(k string) string {
		seenKey[k]++
		if seenKey[k] > 1 {
			return fmt.Sprintf("%s#%d", k, seenKey[k])
		}
		return k
	}
	for _, rc := range computed {
		rt := rc.Res[0]
		pos := ck.P.instrPos(rc.Ret)
		okSkel := rt.Kind == "conv" && rt.Args[0].Kind == "call" && rt.Args[0].Name == "math.Max" && len(rt.Args[0].Args) == 2
		ck.cond(okSkel, "C05.R3", uniq("calcScaleUpDelta/skeleton"), pos, funcID(fn), "delta = int(math.Max(needed_cpu, needed_mem)) — both resources, converted only after rounding", rt.String(), "one resource is ignored or the conversion truncates an un-rounded value")
		if !okSkel {
			continue
		}
		isZeroBranch := false
		if sentinel != nil {
			isZeroBranch, _, _ = Entails(rc.PC, sentinel)
		}
		for i, res := range []string{"cpu", "mem"} {
			mentions := func(x *Term, j int) bool { return mentionsParam(x, pctP[j]) || mentionsParam(x, reqP[j]) }
			// the operand of the max that is computed from this resource's parameters
			var et *Term
			for _, x := range rt.Args[0].Args {
				if mentions(x, i) && !mentions(x, 1-i) {
					et = x
				}
			}
			key := "calcScaleUpDelta/" + res
			if et == nil {
				ck.fail("C05.R2", uniq(key), pos, funcID(fn), "one operand of the max is computed from the "+res+" percentage and request only", rt.String(), "")
				continue
			}
			if !(et.Kind == "call" && et.Name == "math.Ceil" && len(et.Args) == 1) {
				ck.fail("C05.R3", uniq(key+"/ceil"), pos, funcID(fn), "needed_"+res+" is rounded up with math.Ceil", et.String(), "rounding down or to nearest under-provisions")
				continue
			}
			rf := ratOf(et.Args[0])
			if isZeroBranch {
				nZero[i]++
				ri, cf := reqP[i], capF[i]
				req := leafBy(rf, milliOf(func(t *Term) bool { return mentionsParam(t, ri) }))
				cp := leafBy(rf, milliOf(func(t *Term) bool {
					return t.contains(func(x *Term) bool { return x.Kind == "field" && x.Name == cf })
				}))
				if req == nil || cp == nil {
					ck.fail("C05.R2", uniq(key+"/from-zero"), pos, funcID(fn), "from zero: 100·request/(cached node "+res+" · threshold)", rf.String(), "operands are not the "+res+" request and the cached node "+res+" capacity")
					continue
				}
				want := rfInt(100).mul(rfLeaf(req)).div(rfLeaf(cp).mul(ratOf(t)))
				ck.cond(rf.equal(want), "C05.R2", uniq(key+"/from-zero"), pos, funcID(fn), "from zero: needed_"+res+" ≡ ⌈100·req/(cap₁·t)⌉", rf.String(), "the from-zero formula differs from the documented one")
			} else {
				nNormal[i]++
				p := paramTerm(pctP[i])
				if p == nil {
					ck.fail("C05.R2", uniq(key+"/normal"), pos, funcID(fn), "normal: n·(p−t)/t", rf.String(), "the "+res+" percentage is not an operand")
					continue
				}
				want := rfLeaf(n).mul(ratOf(p).add(ratOf(t), -1)).div(ratOf(t))
				ck.cond(rf.equal(want), "C05.R2", uniq(key+"/normal"), pos, funcID(fn), "normal: needed_"+res+" ≡ ⌈n·(p−t)/t⌉ with n = len(untainted nodes), t = scale_up_threshold_percent", rf.String(), "the delta formula differs from the documented one")
			}
		}
	}
	for i, res := range []string{"cpu", "mem"} {
		ck.cond(nNormal[i] >= 1 && nZero[i] >= 1, "C05.R2", "calcScaleUpDelta/"+res+"/branches", "", funcID(fn), "both the normal and the from-zero branch define needed_"+res, fmt.Sprintf("%d normal, %d from-zero", nNormal[i], nZero[i]), "")
	}
	// no-cache branch: return 1 under sentinel ∧ (cpuCapacity.IsZero() ∨ memCapacity.IsZero())
	{
		okv := false
		for _, rc := range constant {
			if rc.Res[0].Name == "1" && sentinel != nil {
				if imp, _, _ := Entails(rc.PC, sentinel); imp && strings.Contains(rc.PC.String(), "IsZero") {
					okv = true
				}
			}
		}
		ck.cond(okv, "C05.R2", "calcScaleUpDelta/no-cache", "", funcID(fn), "from zero with no node size ever observed: exactly 1", "", "")
	}
	// R4 node-count provenance
	ck.countingArgs("C05.R4")
	ck.deltaArgRoles("C05.R4")
	// R5 sentinel
	ck.sentinelAgreement("C05.R5")
	// R6 cached node size
	ck.cachedNodeSize("C05.R6")
	ck.ok("C05.R7", "composition", "", "", "requested = delta − (number actually untainted) (decided as C07.R2)", "see C07.R2")
	ck.untaintAgreement("C05.R7")
	// R8 the capacity the percentage divides by is the sum over exactly the nodes the delta
	// multiplies by (every element of the list handed in, unconditionally — decided as C13.R3)
	if kp := ck.P.SSAPkg[pkgK8s]; kp != nil {
		ck.commutativeFold("C05.R8", kp.Func("CalculateNodesCapacity"), "Total")
	}
	// R9 sufficient unless the maximum is reached
	ck.onlyTheMaximumClamps("C05.R9")
	// R10 a node untainted counts as one node brought into service: the untaint candidates are
	// uncordoned tainted nodes (the classifier's guard, decided as C01.R5)
	ck.classification("C05.R10", map[int]string{1: "tainted"})
	// R11 the delta handed to ScaleUp is the computed one: above the scale-up threshold the decision
	// takes calcScaleUpDelta's result, raised — never replaced — by the two documented overrides
	// (the band table and the overrides of C06.R1 / R2)
	ck.shareRules(checkC06, "C05.R11", "C06.R1", "C06.R2")
	// R12 "unless the maximum is reached": under auto-discovery the maximum is the cloud group's own,
	// re-read every scan (the discovery stores of C03.R5)
	ck.autoDiscovery("C05.R12")
}

// retCase: one way a function returns — the path condition (helpers' conditions conjoined) and the
// result terms read in the frame of the function the enumeration started from.
type retCase struct {
	PC  *Formula
	Res []*Term
	Ctx *Ctx
	Ret *ssa.Return
}

// returnCases enumerates the returns of ctx's function. A return that hands on all results of a
// static repo callee (`return h(…)`) is replaced by the callee's own cases with its parameters
// bound; a result that merges values at one join point is split into one case per incoming edge.
func (ck *Check) returnCases(ctx *Ctx, prefix *Formula, depth int) []retCase {
	var out []retCase
	fn := ctx.fn
	for _, b := range fn.Blocks {
		r, ok := b.Instrs[len(b.Instrs)-1].(*ssa.Return)
		if !ok {
			continue
		}
		pc := And(prefix, ctx.BlockPC(b))
		if sat, err := Satisfiable(pc); err == nil && !sat {
			continue
		}
		// tail call
		var tail *ssa.Call
		for i, rv := range r.Results {
			var c *ssa.Call
			switch x := rv.(type) {
			case *ssa.Extract:
				if x.Index == i {
					c, _ = x.Tuple.(*ssa.Call)
				}
			case *ssa.Call:
				if len(r.Results) == 1 {
					c = x
				}
			}
			if c == nil || (tail != nil && tail != c) {
				tail = nil
				break
			}
			tail = c
		}
		if tail != nil && depth < 3 {
			if h := tail.Common().StaticCallee(); h != nil && ck.P.inRepo(h) && h.Blocks != nil && h != fn && h.Signature.Results().Len() == len(r.Results) {
				args := make([]*Term, len(tail.Common().Args))
				for i, av := range tail.Common().Args {
					args[i] = ctx.Term(av)
				}
				ch := ctx.child(h, tail, args)
				ch.depth = 0
				out = append(out, ck.returnCases(ch, pc, depth+1)...)
				continue
			}
		}
		res := make([]*Term, len(r.Results))
		for i, rv := range r.Results {
			res[i] = ctx.Term(rv)
		}
		// split merged values: all φ of one block, by incoming edge — and again for the values that
		// merge at another block (a delta computed on two branches, an error set on a third)
		var expand func(pc *Formula, res []*Term, done map[*ssa.BasicBlock]bool, d int)
		expand = func(pc *Formula, res []*Term, done map[*ssa.BasicBlock]bool, d int) {
			var join *ssa.BasicBlock
			for _, t := range res {
				t.walk(func(x *Term) bool {
					if ph, ok := x.Val.(*ssa.Phi); ok && x.Kind == "phi" && ph.Parent() == fn && join == nil && !done[ph.Block()] && len(ph.Edges) == len(ph.Block().Preds) && ph.Block().Dominates(b) {
						if l := innermostLoop(fn, ph.Block()); l == nil || l.Header != ph.Block() {
							join = ph.Block()
						}
					}
					return true
				})
			}
			if join == nil || d > 3 {
				out = append(out, retCase{PC: pc, Res: res, Ctx: ctx, Ret: r})
				return
			}
			done2 := map[*ssa.BasicBlock]bool{join: true}
			for k := range done {
				done2[k] = true
			}
			for ei, pred := range join.Preds {
				sub := make([]*Term, len(res))
				for i, t := range res {
					sub[i] = rewriteTermDeep(t, func(x *Term) *Term {
						if ph, ok := x.Val.(*ssa.Phi); ok && x.Kind == "phi" && ph.Block() == join {
							return ctx.Term(ph.Edges[ei])
						}
						return nil
					})
				}
				epc := And(pc, ctx.edgePC(pred, join))
				if sat, err := Satisfiable(epc); err == nil && !sat {
					continue
				}
				expand(epc, sub, done2, d+1)
			}
		}
		expand(pc, res, map[*ssa.BasicBlock]bool{}, 0)
	}
	return out
}

// rewriteTermDeep applies f top-down (a replaced sub-term is not visited again).
func rewriteTermDeep(t *Term, f func(*Term) *Term) *Term {
	if t == nil {
		return nil
	}
	if r := f(t); r != nil {
		return r
	}
	changed := false
	args := make([]*Term, len(t.Args))
	for i, a := range t.Args {
		args[i] = rewriteTermDeep(a, f)
		if args[i] != a {
			changed = true
		}
	}
	if !changed {
		return t
	}
	c := *t
	c.Args = args
	c.key, c.str = "", ""
	return &c
}

func (ck *Check) sentinelAgreement(rule string) {
	a := ck.A
	// producer: calcPercentUsage returns MaxFloat64 only under n == 0
	fn := a.CalcPercent
	ctx := ck.P.NewCtx(fn)
	var nParam *ssa.Parameter
	for _, p := range fn.Params {
		if isInteger(p.Type()) {
			nParam = p
		}
	}
	produced := 0
	var sentinelVal string
	for _, b := range fn.Blocks {
		r, ok := b.Instrs[len(b.Instrs)-1].(*ssa.Return)
		if !ok {
			continue
		}
		k, isC := r.Results[0].(*ssa.Const)
		if !isC || k.Value == nil || !strings.Contains(k.Value.String(), "e+308") {
			continue
		}
		produced++
		sentinelVal = k.Value.ExactString()
		k2, _ := r.Results[1].(*ssa.Const)
		same := k2 != nil && k2.Value != nil && k2.Value.ExactString() == sentinelVal
		zeroN := cmpFormula(token.EQL, paramTerm(nParam), zeroTerm(types.Typ[types.Int64]))
		imp, _, _ := Entails(ctx.BlockPC(b), zeroN)
		ck.cond(same && imp, rule, "calcPercentUsage/sentinel", ck.P.instrPos(r), funcID(fn), "the from-zero sentinel is returned (for both resources) only when there are 0 untainted nodes", ctx.BlockPC(b).String(), "a group with nodes but zero capacity is treated as scale-from-zero")
	}
	ck.cond(produced == 1, rule, "calcPercentUsage/sentinel-sites", "", funcID(fn), "exactly one producer of the sentinel", fmt.Sprint(produced), "")
	// consumers compare with the same constant using ==
	for _, cf := range []*ssa.Function{a.CalcDelta, a.Scan} {
		n := 0
		seenBO := map[ssa.Instruction]bool{}
		var bos []*ssa.BinOp
		// the consumer's own body and the helpers it delegates the test to
		ck.bodyInstrs(cf, func(_ *Ctx, _ *ssa.Function, in ssa.Instruction) {
			if bo, ok := in.(*ssa.BinOp); ok && !seenBO[bo] {
				seenBO[bo] = true
				bos = append(bos, bo)
			}
		})
		{
			for _, bo := range bos {
				for _, op := range []ssa.Value{bo.X, bo.Y} {
					if k, ok := op.(*ssa.Const); ok && k.Value != nil && strings.Contains(k.Value.String(), "e+308") {
						n++
						ck.cond(k.Value.ExactString() == sentinelVal && (bo.Op == token.EQL || bo.Op == token.NEQ), rule, fmt.Sprintf("%s/sentinel-test#%d", funcID(cf), n), ck.P.instrPos(bo), funcID(cf), "the consumer tests the same constant exactly (== or !=)", bo.String(), "producer and consumer of the from-zero sentinel disagree")
					}
				}
			}
		}
		ck.floor(rule, "sentinel tests in "+cf.Name(), n, 1)
	}
}

func (ck *Check) cachedNodeSize(rule string) {
	a := ck.A
	fc, fm := field(a.TState, "cpuCapacity"), field(a.TState, "memCapacity")
	n := 0
	inBody := map[ssa.Instruction]bool{}
	g := ck.groupTerm(a.Scan)
	// stores in the scan body, extended by the helpers it calls (parameters bound)
	ck.bodyInstrs(a.Scan, func(ctx *Ctx, fn *ssa.Function, in ssa.Instruction) {
		st, ok := in.(*ssa.Store)
		if !ok {
			return
		}
		f := fieldOfAddr(st.Addr)
		if f != fc && f != fm {
			return
		}
		if inBody[st] {
			return
		}
		inBody[st] = true
		n++
		key := fmt.Sprintf("%s/store:%s", funcID(fn), f.Name())
		want := "Cpu"
		if f == fm {
			want = "Memory"
		}
		v := ctx.Term(st.Val)
		okv := v.Kind == "deref" && v.Args[0].Kind == "call" && strings.HasSuffix(v.Args[0].Name, "ResourceList)."+want) && strings.Contains(v.Args[0].String(), "Status.Allocatable")
		// … of the scanned group's own state
		if fa, ok := st.Addr.(*ssa.FieldAddr); ok && g != nil {
			bt := ctx.Term(fa.X)
			okv = okv && bt.Key() == g.Key()
		}
		ck.cond(okv, rule, key, ck.P.instrPos(st), funcID(fn), "the cached node size is written only in the scan body from a listed node's Allocatable."+want+"()", v.String(), "")
		// under len(allNodes) > 0 with index 0
		if okv {
			pc := ctx.PC(st)
			guarded := false
			for _, at := range pc.Atoms() {
				if at.Kind == "cmp" && at.Name == "<" && at.Args[0].Name == "0" && at.Args[1].Kind == "len" {
					if imp, _, _ := Entails(pc, Atom(at)); imp {
						guarded = true
					}
				}
			}
			if !guarded {
				// the same guard in another spelling (an early return under len == 0, 1 ≤ len, …)
				seen := map[string]bool{}
				for _, at := range pc.Atoms() {
					if at.Kind != "cmp" {
						continue
					}
					for _, x := range at.Args {
						if x.Kind == "len" && !seen[x.Key()] {
							seen[x.Key()] = true
							if imp, _, err := ctx.EntailsLinear(pc, []LinFact{{A: zeroTerm(types.Typ[types.Int]), B: x, K: -1, Text: "0 < len"}}); err == nil && imp {
								guarded = true
							}
						}
					}
				}
			}
			ck.cond(guarded, rule, key+"/guard", ck.P.instrPos(st), funcID(fn), "… under len(allNodes) > 0", pc.String(), "")
		}
	})
	// … and nowhere else
	for _, fn := range ck.P.Funcs {
		for _, b := range fn.Blocks {
			for _, in := range b.Instrs {
				st, ok := in.(*ssa.Store)
				if !ok || inBody[st] {
					continue
				}
				if f := fieldOfAddr(st.Addr); f == fc || f == fm {
					n++
					ck.fail(rule, fmt.Sprintf("%s/store:%s", funcID(fn), f.Name()), ck.P.instrPos(st), funcID(fn), "the cached node size is written only in the scan body from a listed node's Allocatable", "", "the size remembered for scale-up-from-zero is written outside the scan")
				}
			}
		}
	}
	ck.floor(rule, "stores to the cached node size", n, 2)
}

// ---------------------------------------------------------------------------------------------
// C13

// unitOf assigns a unit to an int64 term: "mcpu", "bytes", "cores", "millibytes", "" unknown,
// "!" mismatch. env maps terms (by key) with externally known units (parameters, range values).
func (ck *Check) unitOf(t *Term, env map[string]string) string {
	if u, ok := env[t.Key()]; ok {
		return u
	}
	switch t.Kind {
	case "field":
		if f, ok := t.Obj.(*types.Var); ok && f.Pkg() != nil && f.Pkg().Path() == pkgScheduler {
			switch f.Name() {
			case "MilliCPU":
				return "mcpu"
			case "Memory":
				return "bytes"
			}
		}
	case "call":
		name := t.Name
		switch {
		case strings.HasSuffix(name, "Quantity).MilliValue"), strings.HasSuffix(name, "Quantity).Value"):
			k := ck.quantityKind(t.Args[0], env)
			milli := strings.HasSuffix(name, "MilliValue")
			switch {
			case k == "cpu" && milli:
				return "mcpu"
			case k == "cpu":
				return "cores"
			case k == "mem" && milli:
				return "millibytes"
			case k == "mem":
				return "bytes"
			}
			return ""
		case t.Fn == nil && strings.HasPrefix(name, "("):
			// "the operation" handed in as a function value: every function the value can be is one
			// expression over its parameters, read with the arguments' units
			call, ok := t.Val.(*ssa.Call)
			if !ok {
				return ""
			}
			fvs := ck.P.funcValuesOf(call.Common().Value)
			unit := ""
			for i, f := range fvs {
				if f == nil || f.Blocks == nil || len(f.Blocks) != 1 || len(f.Params) != len(t.Args) {
					return ""
				}
				r, ok := f.Blocks[0].Instrs[len(f.Blocks[0].Instrs)-1].(*ssa.Return)
				if !ok || len(r.Results) != 1 {
					return ""
				}
				e2 := map[string]string{}
				for j, prm := range f.Params {
					e2[paramTerm(prm).Key()] = ck.unitOf(t.Args[j], env)
				}
				u := ck.unitOf(ck.P.NewCtx(f).Term(r.Results[0]), e2)
				if i > 0 && u != unit {
					return "!"
				}
				unit = u
			}
			return unit
		case t.Fn != nil && t.Fn.Name() == "max" && len(t.Args) == 2, name == "max", name == "min":
			a, b := ck.unitOf(t.Args[0], env), ck.unitOf(t.Args[1], env)
			if a == b {
				return a
			}
			return "!"
		}
	case "binop":
		if t.Name == "+" || t.Name == "-" {
			a, b := ck.unitOf(t.Args[0], env), ck.unitOf(t.Args[1], env)
			if a == b {
				return a
			}
			if a == "" || b == "" {
				return ""
			}
			return "!"
		}
	case "memphi", "phi":
		return env["*"+t.Key()]
	}
	return ""
}

// quantityKind: "cpu" / "mem" for a Quantity (or pointer to it).
func (ck *Check) quantityKind(q *Term, env map[string]string) string {
	if q.Kind == "unop" && q.Name == "&" {
		q = q.Args[0]
	}
	if q.Kind == "deref" {
		q = q.Args[0]
	}
	if k, ok := env["q:"+q.Key()]; ok {
		return k
	}
	if q.Kind == "call" {
		switch {
		case strings.HasSuffix(q.Name, "ResourceList).Cpu"), strings.HasSuffix(q.Name, "GetCPUQuantity"), strings.HasSuffix(q.Name, "NewCPUQuantity"):
			return "cpu"
		case strings.HasSuffix(q.Name, "ResourceList).Memory"), strings.HasSuffix(q.Name, "GetMemoryQuantity"), strings.HasSuffix(q.Name, "NewMemoryQuantity"):
			return "mem"
		}
	}
	if q.Kind == "field" {
		switch q.Obj {
		case types.Object(field(ck.A.TState, "cpuCapacity")):
			return "cpu"
		case types.Object(field(ck.A.TState, "memCapacity")):
			return "mem"
		}
	}
	if q.Kind == "alloc" || q.Kind == "param" {
		// parameters of the two calculators: by position among the quantity parameters
		for _, fn := range []*ssa.Function{ck.A.CalcPercent, ck.A.CalcDelta} {
			if fn == nil {
				continue
			}
			for i, p := range paramsOfKind(fn, isQuantity) {
				if mentionsParam(q, p) {
					return []string{"cpu", "mem"}[i%2]
				}
			}
		}
		s := strings.ToLower(q.String())
		// parameter roles of calcPercentUsage / calcScaleUpDelta are validated at their call sites (R1)
		switch {
		case strings.Contains(s, "cpu"):
			return "cpu"
		case strings.Contains(s, "mem"):
			return "mem"
		}
	}
	return ""
}

func checkC13(ck *Check) {
	a := ck.A
	sched := ck.P.SSAPkg[pkgScheduler]
	kp := ck.P.SSAPkg[pkgK8s]
	if sched == nil || kp == nil {
		ck.lost("C13.R1", "packages", "scheduler / k8s not loaded")
		return
	}
	tRes := a.named(pkgScheduler, "Resource")
	fCPU, fMem := field(tRes, "MilliCPU"), field(tRes, "Memory")
	if fCPU == nil || fMem == nil {
		ck.lost("C13.R1", "Resource fields", "MilliCPU / Memory")
		return
	}
	// R1: every store to the two fields
	nst := 0
	for _, fn := range ck.P.Funcs {
		var ctx *Ctx
		for _, b := range fn.Blocks {
			for _, in := range b.Instrs {
				st, ok := in.(*ssa.Store)
				if !ok {
					continue
				}
				f := fieldOfAddr(st.Addr)
				if f != fCPU && f != fMem {
					continue
				}
				nst++
				if ctx == nil {
					ctx = ck.P.NewCtx(fn)
				}
				want := "mcpu"
				if f == fMem {
					want = "bytes"
				}
				env := map[string]string{}
				// range-over-ResourceList value: its kind follows from the switch case guarding the store
				pc := ctx.PC(st)
				for _, at := range pc.Atoms() {
					if at.Kind == "cmp" && at.Name == "==" {
						var keyT *Term
						var lit string
						for _, x := range at.Args {
							if x.Kind == "key" {
								keyT = x
							}
							if x.Kind == "const" {
								lit = x.Name
							}
						}
						if keyT != nil {
							if imp, _, _ := Entails(pc, Atom(at)); imp {
								kind := map[string]string{`"cpu"`: "cpu", `"memory"`: "mem"}[lit]
								if kind != "" {
									valT := &Term{Kind: "val", Args: keyT.Args, ID: keyT.ID}
									env["q:"+valT.Key()] = kind
									// the value may have been copied into a local whose address is taken
									for _, bb := range fn.Blocks {
										for _, ii := range bb.Instrs {
											if s2, ok := ii.(*ssa.Store); ok {
												if al, ok := s2.Addr.(*ssa.Alloc); ok && ctx.Term(s2.Val).Key() == valT.Key() {
													env["q:"+ctx.Term(al).Key()] = kind
												}
											}
										}
									}
								}
							}
						}
					}
				}
				// constructor parameters: NewResource(cpu, memory) — checked at call sites below
				v := ctx.Term(st.Val)
				if v.Kind == "param" {
					continue
				}
				if v.Kind == "const" && v.Name == "0" {
					continue
				}
				// the previous value of the very location being stored (loop-carried total) has the field's unit
				v.walk(func(x *Term) bool {
					if x.Kind == "memphi" {
						env["*"+x.Key()] = want
					}
					return true
				})
				u := ck.unitOf(v, env)
				ck.cond(u == want, "C13.R1", fmt.Sprintf("%s/store:%s@%s", funcID(fn), f.Name(), ck.P.siteKeyInstr(st)), ck.P.instrPos(st), funcID(fn), "Resource."+f.Name()+" is stored from a value in "+want, v.String()+" : "+u, "unit mismatch: "+f.Name()+" receives "+u)
			}
		}
	}
	ck.floor("C13.R1", "stores to Resource.MilliCPU / Resource.Memory", nst, 4)
	// constructor call sites
	for _, spec := range []struct {
		pkg, name string
		units     []string
	}{{pkgScheduler, "NewResource", []string{"mcpu", "bytes"}}, {repoModule + "/pkg/k8s/resource", "NewCPUQuantity", []string{"mcpu"}}, {repoModule + "/pkg/k8s/resource", "NewMemoryQuantity", []string{"bytes"}}} {
		sp := ck.P.SSAPkg[spec.pkg]
		if sp == nil || sp.Func(spec.name) == nil {
			ck.lost("C13.R1", spec.name, "constructor not found")
			continue
		}
		callee := sp.Func(spec.name)
		for _, fn := range ck.P.Funcs {
			for _, ci := range callsTo(fn, callee) {
				ctx := ck.P.NewCtx(fn)
				for i, want := range spec.units {
					v := ctx.Term(ci.Common().Args[i])
					u := ck.unitOf(v, map[string]string{})
					if u == "" {
						ck.info("C13.R1: unit of argument %d of %s at %s is not determined (%s); it feeds only the largest-available tracker, which is outside utilisation", i, spec.name, ck.P.instrPos(ci), v.String())
						continue
					}
					ck.cond(u == want, "C13.R1", fmt.Sprintf("%s/arg%d", ck.P.siteKey(ci), i), ck.P.instrPos(ci), funcID(fn), fmt.Sprintf("%s argument %d is in %s", spec.name, i, want), v.String()+" : "+u, "unit mismatch")
				}
			}
		}
	}
	// percent operands: call site roles in the scan body
	{
		ctx := ck.P.NewCtx(a.Scan)
		for _, ci := range callsTo(a.Scan, a.CalcPercent) {
			wantKind := []string{"cpu", "mem", "cpu", "mem"}
			wantSrc := []string{"podRequests", "podRequests", "nodeCapacity", "nodeCapacity"}
			wantFn := []string{"CalculatePodsRequestedUsage", "CalculatePodsRequestedUsage", "CalculateNodesCapacity", "CalculateNodesCapacity"}
			for i := 0; i < 4; i++ {
				v := ctx.Term(ci.Common().Args[i])
				k := ck.quantityKind(v, map[string]string{})
				// the source is the local holding the result of the totalling function (whatever it is named)
				fromTotal := false
				v.walk(func(x *Term) bool {
					if al, ok := x.Val.(*ssa.Alloc); ok && x.Kind == "alloc" {
						if f := allocInitCallee(al); f != nil && f.Name() == wantFn[i] {
							fromTotal = true
						}
					}
					if x.Kind == "call" && x.Fn != nil && x.Fn.Name() == wantFn[i] {
						fromTotal = true
					}
					return true
				})
				okv := k == wantKind[i] && fromTotal && strings.Contains(v.String(), ".Total")
				ck.cond(okv, "C13.R1", fmt.Sprintf("%s/arg%d", ck.P.siteKey(ci), i), ck.P.instrPos(ci), funcID(a.Scan), fmt.Sprintf("calcPercentUsage argument %d is the %s quantity of %s.Total", i, wantKind[i], wantSrc[i]), v.String(), "requests / capacities or cpu / memory are crossed")
			}
		}
		// podRequests / nodeCapacity are the results of the two total functions on the right lists
		for _, spec := range []struct{ fn, name string }{{"CalculatePodsRequestedUsage", "podRequests"}, {"CalculateNodesCapacity", "nodeCapacity"}} {
			f := kp.Func(spec.fn)
			cs := callsTo(a.Scan, f)
			ck.cond(len(cs) == 1, "C13.R1", "scan/"+spec.fn, "", funcID(a.Scan), "the scan body computes "+spec.name+" with "+spec.fn, fmt.Sprint(len(cs)), "")
			if len(cs) == 1 && spec.fn == "CalculatePodsRequestedUsage" {
				o := ck.listOrigin(ctx.Term(cs[0].Common().Args[0]))
				ck.cond(o == "pods", "C13.R1", "scan/request-list", ck.P.instrPos(cs[0]), funcID(a.Scan), "requests are totalled over the group's own pod list", o, "")
			}
		}
	}
	// the totals the percentages are taken of are the folds' results, untouched: nothing in the scan
	// body writes to the two locals between the fold and their use
	ck.totalsUntouched("C13.R1")
	// R2 composition order
	ck.podComposition("C13.R2", sched)
	// R3 folds
	ck.commutativeFold("C13.R3", kp.Func("CalculatePodsRequestedUsage"), "Total")
	ck.commutativeFold("C13.R3", kp.Func("CalculateNodesCapacity"), "Total")
	// R4
	ck.percentFormula("C13.R4")
	// R5 / R6
	ck.countingArgs("C13.R5")
	ck.nodeListImmutability("C13.R5")
	ck.ok("C13.R6", "max", "", "", "decisions use math.Max(cpu%, mem%) (decided as C06.R6)", "see C06.R6")
	// R7 "its pods", "untainted uncordoned nodes": of the whole cluster
	ck.clusterView("C13.R7")
	ck.cacheSynced("C13.R8")
}

// totalsUntouched: the locals of the scan body that hold the results of the two totalling
// functions are written once (by that call) and afterwards only read.
func (ck *Check) totalsUntouched(rule string) {
	a := ck.A
	ck.bodyInstrs(a.Scan, func(_ *Ctx, fn *ssa.Function, in ssa.Instruction) {
		al, ok := in.(*ssa.Alloc)
		if !ok {
			return
		}
		f := allocInitCallee(al)
		if f == nil || (f.Name() != "CalculatePodsRequestedUsage" && f.Name() != "CalculateNodesCapacity") {
			return
		}
		inits := 0
		bad := ck.writtenThrough(al, nil, 0, map[ssa.Value]bool{}, func(st *ssa.Store) bool {
			inits++
			return inits == 1
		})
		pos, got := ck.P.instrPos(al), ""
		if bad != nil {
			pos, got = ck.P.instrPos(bad), bad.String()+" in "+funcID(bad.Parent())
		}
		ck.cond(bad == nil, rule, "scan/totals-untouched:"+f.Name(), pos, funcID(fn), "the result of "+f.Name()+" is only read after the fold", got, "the totals the utilisation is taken of are adjusted after the fold: they are no longer the sums over the listed pods / nodes")
	})
}

// siteKeyInstr: stable-ish key for a non-call instruction: ordinal among the function's stores.
func (p *Prog) siteKeyInstr(in ssa.Instruction) string {
	n := 0
	for _, b := range in.Parent().Blocks {
		for _, x := range b.Instrs {
			if _, ok := x.(*ssa.Store); ok {
				if x == in {
					return fmt.Sprintf("store#%d", n)
				}
				n++
			}
		}
	}
	return "store"
}

// podComposition (C13.R2)
// delegate: fn is a one-block function that hands its work to one repo function g and returns g's
// results as they are (`func F(p *Pod) *R { return f(p.Spec.A, p.Spec.B) }`): g, read with its
// parameters bound to the argument terms of that call.
func (ck *Check) delegate(fn *ssa.Function) (*ssa.Function, *Ctx) {
	if fn == nil || len(fn.Blocks) != 1 {
		return nil, nil
	}
	r, ok := fn.Blocks[0].Instrs[len(fn.Blocks[0].Instrs)-1].(*ssa.Return)
	if !ok || len(r.Results) == 0 {
		return nil, nil
	}
	// the call whose results are returned as they are
	var call *ssa.Call
	for i, rv := range r.Results {
		var c *ssa.Call
		switch x := rv.(type) {
		case *ssa.Call:
			if len(r.Results) == 1 {
				c = x
			}
		case *ssa.Extract:
			if x.Index == i {
				c, _ = x.Tuple.(*ssa.Call)
			}
		}
		if c == nil || (call != nil && c != call) {
			return nil, nil
		}
		call = c
	}
	if call == nil {
		return nil, nil
	}
	g := call.Common().StaticCallee()
	if g == nil || !ck.P.inRepo(g) || g.Blocks == nil {
		return nil, nil
	}
	// anything else the wrapper calls only reads (it computes an argument: `c.dryMode(g)`)
	for _, in := range fn.Blocks[0].Instrs {
		c, ok := in.(*ssa.Call)
		if !ok || c == call {
			continue
		}
		if _, isB := c.Common().Value.(*ssa.Builtin); isB {
			continue
		}
		h := c.Common().StaticCallee()
		if h == nil || !(ck.P.inRepo(h) && h.Blocks != nil && ck.P.readOnly(h)) && !pureExternal(h) {
			return nil, nil
		}
	}
	ctx := ck.P.NewCtx(fn)
	args := make([]*Term, len(call.Common().Args))
	for i, av := range call.Common().Args {
		args[i] = ctx.Term(av)
	}
	ch := ctx.child(g, call, args)
	ch.depth = 0
	return g, ch
}

func (ck *Check) podComposition(rule string, sched *ssa.Package) {
	fn := sched.Func("ComputePodResourceRequest")
	tRes := ck.A.named(pkgScheduler, "Resource")
	add := ck.A.method(tRes, "Add")
	setMax := ck.A.method(tRes, "SetMaxResource")
	if fn == nil || add == nil || setMax == nil {
		ck.lost(rule, "ComputePodResourceRequest / Add / SetMaxResource", "not found")
		return
	}
	ctx := ck.P.NewCtx(fn)
	if g, ch := ck.delegate(fn); g != nil {
		fn, ctx = g, ch
	}
	type phase struct {
		call   *ssa.Call
		loop   *Loop
		callee *ssa.Function
		arg    *Term
	}
	var phases []phase
	for _, b := range fn.Blocks {
		for _, in := range b.Instrs {
			c, ok := in.(*ssa.Call)
			if !ok {
				continue
			}
			f := c.Common().StaticCallee()
			if f == add || f == setMax {
				phases = append(phases, phase{c, innermostLoop(fn, b), f, ctx.Term(c.Common().Args[1])})
			}
		}
	}
	okv := len(phases) == 3
	var why []string
	if okv {
		p0, p1, p2 := phases[0], phases[1], phases[2]
		chk := func(p phase, callee *ssa.Function, list string, inLoop bool) {
			if p.callee != callee {
				okv = false
				why = append(why, fmt.Sprintf("%s applied where %s is expected", p.callee.Name(), callee.Name()))
			}
			if inLoop {
				if p.loop == nil || !p.loop.FullTraversal() || !strings.HasSuffix(ctx.Term(p.loop.Over).String(), "Spec."+list) {
					okv = false
					why = append(why, "no full range over pod.Spec."+list)
					return
				}
				body := p.loop.bodyPC(ctx)
				if eq, _, _ := Equivalent(ctx.PC(p.call), body); !eq {
					okv = false
					why = append(why, "conditional application inside the loop over "+list)
				}
				if !strings.Contains(p.arg.String(), "elem(") || !strings.HasSuffix(p.arg.String(), "Resources.Requests") {
					okv = false
					why = append(why, "the operand is not the element's Resources.Requests: "+p.arg.String())
				}
			}
		}
		chk(p0, add, "Containers", true)
		chk(p1, setMax, "InitContainers", true)
		if p2.callee != add || p2.loop != nil || !strings.HasSuffix(p2.arg.String(), "Spec.Overhead") {
			okv = false
			why = append(why, "the last step is not Add(pod.Spec.Overhead)")
		} else {
			// guarded by Overhead != nil
			pc := ctx.PC(p2.call)
			g := false
			for _, at := range pc.Atoms() {
				if at.Kind == "cmp" && at.Name == "==" && hasConstStr(at, "nil") && strings.Contains(at.String(), "Overhead") {
					if imp, _, _ := Entails(pc, Not(Atom(at))); imp {
						g = true
					}
				}
			}
			if !g {
				why = append(why, "overhead is added without the nil test (harmless: Add of a nil list adds nothing)")
			}
		}
		// dominance order: loop1 header ≺ loop2 header ≺ overhead
		if okv && !(p0.loop.Header.Dominates(p1.loop.Header) && !p0.loop.Blocks[p1.loop.Header] && p1.loop.Header.Dominates(p2.call.Block()) && !p1.loop.Blocks[p2.call.Block()]) {
			okv = false
			why = append(why, "the three phases are not in the order containers → init containers → overhead")
		}
		// all on the same accumulator
		r0 := ctx.Term(p0.call.Common().Args[0]).Key()
		for _, p := range phases[1:] {
			if ctx.Term(p.call.Common().Args[0]).Key() != r0 {
				okv = false
				why = append(why, "the phases work on different accumulators")
			}
		}
	} else {
		why = append(why, fmt.Sprintf("expected Add / SetMaxResource / Add, found %d applications", len(phases)))
	}
	ck.cond(okv, rule, "ComputePodResourceRequest/order", ck.P.position(fn.Pos()), funcID(fn), "request(pod) = max(Σ containers, each init container) + overhead, per resource, in that order", "", strings.Join(why, "; "))
	// operator bodies
	for _, op := range []struct {
		fn   *ssa.Function
		kind string
	}{{add, "+="}, {setMax, "max"}} {
		recv := paramTerm(op.fn.Params[0])
		okb := true
		var whyb []string
		seen := map[string]bool{}
		// the operator's extended body: the method itself, or a helper it shares with its sibling and
		// hands "the operation" to as a function value (parameters bound)
		ck.bodyInstrsPC(op.fn, func(octx *Ctx, ofn *ssa.Function, in ssa.Instruction, prefix *Formula) {
			b := in.Block()
			{
				st, ok := in.(*ssa.Store)
				if !ok {
					return
				}
				f := fieldOfAddr(st.Addr)
				if f == nil || (f.Name() != "MilliCPU" && f.Name() != "Memory") {
					return
				}
				if fa, isFA := st.Addr.(*ssa.FieldAddr); !isFA || octx.Term(fa.X).Key() != recv.Key() {
					return
				}
				if eq, _, _ := Equivalent(prefix, FTrue); !eq && ofn != op.fn {
					okb = false
					whyb = append(whyb, "the shared helper is called conditionally")
				}
				seen[f.Name()] = true
				v := octx.Term(st.Val)
				isOld := func(t *Term) bool { return t.Kind == "field" && t.Obj == f && t.Args[0].Key() == recv.Key() }
				switch op.kind {
				case "+=":
					if !(v.Kind == "binop" && v.Name == "+" && (isOld(v.Args[0]) || isOld(v.Args[1]))) {
						okb = false
						whyb = append(whyb, f.Name()+" is not updated with +=: "+v.String())
					}
				case "max":
					if !(v.Kind == "call" && v.Fn != nil && ck.isMaxHelper(v.Fn) && (isOld(v.Args[0]) || isOld(v.Args[1]))) && !(v.Kind == "call" && v.Name == "max") {
						okb = false
						whyb = append(whyb, f.Name()+" is not updated with max(old, new): "+v.String())
					}
				}
				// full range over the list, no early exit — or a direct comma-ok lookup of the
				// resource's own key in the list (the store happens iff the key is present)
				l := innermostLoop(ofn, b)
				if l == nil {
					pc := octx.PC(st)
					direct := false
					wantKey := map[string]string{"MilliCPU": `"cpu"`, "Memory": `"memory"`}[f.Name()]
					for _, at := range pc.Atoms() {
						if at.Kind == "extract" && at.Name == "1" && at.Args[0].Kind == "lookup" && len(at.Args[0].Args) == 2 &&
							at.Args[0].Args[0].Kind == "param" && at.Args[0].Args[1].Kind == "const" && at.Args[0].Args[1].Name == wantKey {
							// relative to a non-nil receiver, the store happens exactly when the key is present
							nonNil := Not(cmpFormula(token.EQL, recv, &Term{Kind: "const", Name: "nil"}))
							if eq, _, _ := Equivalent(And(pc, nonNil), And(Atom(at), nonNil)); eq {
								direct = true
							}
						}
					}
					if !direct {
						okb = false
						whyb = append(whyb, "the resource list is not fully traversed")
					}
				} else if !l.FullTraversal() {
					okb = false
					whyb = append(whyb, "the resource list is not fully traversed")
				}
			}
		})
		if !seen["MilliCPU"] || !seen["Memory"] {
			okb = false
			whyb = append(whyb, "one of the two resources is not handled")
		}
		ck.cond(okb, rule, op.fn.Name()+"/body", ck.P.position(op.fn.Pos()), funcID(op.fn), op.fn.Name()+" applies "+op.kind+" per resource over the whole list", "", strings.Join(whyb, "; "))
	}
}

func (ck *Check) isMaxHelper(f *ssa.Function) bool {
	if f == nil || f.Blocks == nil || len(f.Params) != 2 || infoOf(f).hasLoop {
		return false
	}
	ctx := ck.P.NewCtx(f)
	x, y := paramTerm(f.Params[0]), paramTerm(f.Params[1])
	for _, b := range f.Blocks {
		r, ok := b.Instrs[len(b.Instrs)-1].(*ssa.Return)
		if !ok {
			continue
		}
		rt := ctx.Term(r.Results[0])
		var other *Term
		switch rt.Key() {
		case x.Key():
			other = y
		case y.Key():
			other = x
		default:
			return false
		}
		okv, _, err := ctx.EntailsLinear(ctx.BlockPC(b), []LinFact{{A: other, B: rt, K: 0}})
		if err != nil || !okv {
			return false
		}
	}
	return true
}

// commutativeFold (C13.R3): in fn, the stores to <acc>.Total.{Memory,MilliCPU} inside the range
// loop over the first parameter have the form old + f(element), unconditionally, and there is
// no other store to them in the loop.
func (ck *Check) commutativeFold(rule string, fn *ssa.Function, accField string) {
	if fn == nil {
		ck.lost(rule, "total function", "not found")
		return
	}
	ctx := ck.P.NewCtx(fn)
	// the fold may sit one frame down: `func Total(xs) (T, error) { return total(xs, perElement) }`
	if g, ch := ck.delegate(fn); g != nil && len(g.Params) > 0 && len(fn.Params) > 0 {
		if ch.Term(g.Params[0]).Key() != paramTerm(fn.Params[0]).Key() {
			ck.fail(rule, funcID(fn)+"/loop", ck.P.position(fn.Pos()), funcID(fn), "a full range loop over the list parameter", ch.Term(g.Params[0]).String(), "the helper that totals is handed something other than the list")
			return
		}
		fn, ctx = g, ch
	}
	var loop *Loop
	for _, l := range loopsOf(fn) {
		if l.Over == ssa.Value(fn.Params[0]) {
			loop = l
		}
	}
	if loop == nil || !loop.FullTraversal() {
		ck.fail(rule, funcID(fn)+"/loop", ck.P.position(fn.Pos()), funcID(fn), "a full range loop over the list parameter", "", "elements can be skipped (early exit) or the list is not the parameter")
		return
	}
	body := loop.bodyPC(ctx)
	found := map[string]bool{}
	for b := range loop.Blocks {
		for _, in := range b.Instrs {
			st, ok := in.(*ssa.Store)
			if !ok {
				continue
			}
			path, rootedAlloc := fieldPathOfAddr(st.Addr)
			if !rootedAlloc || len(path) < 2 || path[len(path)-2] != accField {
				continue
			}
			leaf := path[len(path)-1]
			key := fmt.Sprintf("%s/%s.%s", funcID(fn), accField, leaf)
			v := ctx.Term(st.Val)
			okv := v.Kind == "binop" && v.Name == "+"
			why := ""
			if okv {
				var old, inc *Term
				for i := 0; i < 2; i++ {
					if v.Args[i].Kind == "memphi" {
						old, inc = v.Args[i], v.Args[1-i]
					}
				}
				switch {
				case old == nil:
					okv, why = false, "not of the form old + term"
				case !strings.Contains(inc.String(), "elem("):
					okv, why = false, "the added term does not depend on the current element"
				case inc.contains(func(x *Term) bool { return x.Kind == "memphi" }):
					okv, why = false, "the added term depends on the running total"
				}
			} else {
				why = "the total is not updated with +=: " + v.String()
			}
			if okv {
				if eq, _, _ := Equivalent(ctx.PC(st), body); !eq {
					okv, why = false, "the update is conditional: "+ctx.PC(st).String()
				}
			}
			if found[leaf] {
				okv, why = false, "several updates of the same total in one iteration"
			}
			found[leaf] = true
			ck.cond(okv, rule, key, ck.P.instrPos(st), funcID(fn), accField+"."+leaf+" += f(element) for every element, unconditionally (commutative fold ⇒ order-independent)", v.String(), why)
		}
	}
	// the step of the fold in a helper handed the accumulator's address (a method of the totals'
	// type called once per element): the same shape, read in the helper with its parameters bound
	for b := range loop.Blocks {
		for _, in := range b.Instrs {
			call, ok := in.(*ssa.Call)
			if !ok {
				continue
			}
			h := call.Common().StaticCallee()
			if h == nil || !ck.P.inRepo(h) || h.Blocks == nil {
				continue
			}
			for ai, av := range call.Common().Args {
				if _, isAlloc := av.(*ssa.Alloc); !isAlloc || ai >= len(h.Params) {
					continue
				}
				acc := h.Params[ai]
				args := make([]*Term, len(call.Common().Args))
				for i, x := range call.Common().Args {
					args[i] = ctx.Term(x)
				}
				ch := ctx.child(h, call, args)
				ch.depth = 0
				accT := ch.Term(acc)
				for _, hb := range h.Blocks {
					for _, hin := range hb.Instrs {
						st, ok := hin.(*ssa.Store)
						if !ok {
							continue
						}
						path, root := fieldPathFrom(st.Addr)
						if root != ssa.Value(acc) || len(path) < 2 || path[len(path)-2] != accField {
							continue
						}
						leaf := path[len(path)-1]
						key := fmt.Sprintf("%s/%s.%s", funcID(fn), accField, leaf)
						okv, why := true, ""
						var inc *Term
						if bo, isAdd := st.Val.(*ssa.BinOp); isAdd && bo.Op == token.ADD {
							for i, side := range []ssa.Value{bo.X, bo.Y} {
								if ld, isLoad := side.(*ssa.UnOp); isLoad && ld.Op == token.MUL && sameFieldAddr(ld.X, st.Addr) {
									inc = ch.Term([]ssa.Value{bo.Y, bo.X}[i])
								}
							}
						}
						switch {
						case inc == nil:
							okv, why = false, "the total is not updated with +=: "+ch.Term(st.Val).String()
						case !strings.Contains(inc.String(), "elem("):
							okv, why = false, "the added term does not depend on the current element"
						case inc.contains(func(x *Term) bool { return x.Key() == accT.Key() }):
							okv, why = false, "the added term depends on the running total"
						}
						if okv {
							eqH, _, _ := Equivalent(ch.PC(st), FTrue)
							eqC, _, _ := Equivalent(ctx.PC(call), body)
							if !eqH || !eqC || innermostLoop(h, st.Block()) != nil {
								okv, why = false, "the update is conditional: "+And(ctx.PC(call), ch.PC(st)).String()
							}
						}
						if found[leaf] {
							okv, why = false, "several updates of the same total in one iteration"
						}
						found[leaf] = true
						ck.cond(okv, rule, key, ck.P.instrPos(st), funcID(fn), accField+"."+leaf+" += f(element) for every element, unconditionally (commutative fold ⇒ order-independent)", ch.Term(st.Val).String(), why)
					}
				}
			}
		}
	}
	ck.cond(found["Memory"] && found["MilliCPU"], rule, funcID(fn)+"/both", "", funcID(fn), "both resources are totalled", fmt.Sprint(found), "")
}

// fieldPathFrom: the field names leading from a root value (a parameter, a local) to addr.
func fieldPathFrom(addr ssa.Value) ([]string, ssa.Value) {
	var path []string
	for {
		fa, ok := addr.(*ssa.FieldAddr)
		if !ok {
			return path, addr
		}
		path = append([]string{fieldOfAddr(fa).Name()}, path...)
		addr = fa.X
	}
}

// sameFieldAddr: two field-address chains name the same location (same root value, same fields).
func sameFieldAddr(a, b ssa.Value) bool {
	for {
		fa, okA := a.(*ssa.FieldAddr)
		fb, okB := b.(*ssa.FieldAddr)
		if okA != okB {
			return false
		}
		if !okA {
			return a == b
		}
		if fa.Field != fb.Field {
			return false
		}
		a, b = fa.X, fb.X
	}
}

// fieldPathOfAddr: field names from a local alloc root.
func fieldPathOfAddr(addr ssa.Value) ([]string, bool) {
	var path []string
	for {
		switch x := addr.(type) {
		case *ssa.FieldAddr:
			path = append([]string{fieldOfAddr(x).Name()}, path...)
			addr = x.X
		case *ssa.Alloc:
			return path, true
		default:
			return path, false
		}
	}
}

// allocInitCallee: the function whose result is the only value ever stored (whole) into the local al.
func allocInitCallee(al *ssa.Alloc) *ssa.Function {
	var f *ssa.Function
	n := 0
	for _, r := range *al.Referrers() {
		st, ok := r.(*ssa.Store)
		if !ok || st.Addr != ssa.Value(al) {
			continue
		}
		n++
		v := st.Val
		if ex, ok := v.(*ssa.Extract); ok {
			v = ex.Tuple
		}
		if c, ok := v.(*ssa.Call); ok {
			f = c.Common().StaticCallee()
		}
	}
	if n != 1 {
		return nil
	}
	return f
}

// deltaArgRoles: at the call of calcScaleUpDelta in the (extended) scan body the two percentages are
// results 0 and 1 of calcPercentUsage, in that order, and the two quantities are the cpu and the
// memory total of the pod requests, in that order (the callee's formulas are stated by position).
func (ck *Check) deltaArgRoles(rule string) {
	a := ck.A
	fn := a.CalcDelta
	if fn == nil {
		return
	}
	pctIdx, qIdx := []int{}, []int{}
	for i, p := range fn.Params {
		if isFloat64(p.Type()) {
			pctIdx = append(pctIdx, i)
		}
		if isQuantity(p.Type()) {
			qIdx = append(qIdx, i)
		}
	}
	calls := ck.bodyCalls(a.Scan, func(ci ssa.CallInstruction) bool { return ci.Common().StaticCallee() == fn })
	for _, bc := range calls {
		args := bc.Call.Common().Args
		key := bc.Key + "/arg-roles"
		if len(pctIdx) != 2 || len(qIdx) != 2 {
			ck.fail(rule, key, ck.P.instrPos(bc.Call), funcID(bc.Fn), "calcScaleUpDelta takes (cpu %, mem %) and (cpu request, mem request)", "", "")
			continue
		}
		okv := true
		var why []string
		for i := 0; i < 2; i++ {
			pt := bc.Ctx.Term(args[pctIdx[i]])
			if !isExtractOf(pt, i, func(t *Term) bool { return isCallTo(t, a.CalcPercent) }) {
				okv = false
				why = append(why, fmt.Sprintf("percentage %d is %s", i, pt))
			}
			qt := bc.Ctx.Term(args[qIdx[i]])
			if k := ck.quantityKind(qt, map[string]string{}); k != []string{"cpu", "mem"}[i] {
				okv = false
				why = append(why, fmt.Sprintf("quantity %d is %s (%s)", i, qt, k))
			}
		}
		ck.cond(okv, rule, key, ck.P.instrPos(bc.Call), funcID(bc.Fn), "calcScaleUpDelta is given (cpu %, mem %) = results 0, 1 of calcPercentUsage and (cpu, mem) request totals, in that order", "", strings.Join(why, "; "))
	}
}
