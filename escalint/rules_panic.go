package main

// rules_panic.go — C20 (a scan never panics or wedges): E11 panic-site census, stop census,
// loop-bound census.

import (
	"fmt"
	"go/constant"
	"go/token"
	"go/types"
	"sort"
	"strings"

	"golang.org/x/tools/go/ssa"
)

func init() {
	register(&propSpec{ID: "C20", Run: checkC20,
		Explanation: "(a) Every potentially panicking operation in repo code reachable from RunOnce — index and slice expressions, unchecked type assertions, integer divisions, explicit panics, and dereferences of values that are optional by construction (results paired with an error/ok, map lookups, pointer fields of Kubernetes / AWS API objects) — is discharged by a dominating guard found as a path-condition implication (len / nil / comma-ok / err == nil), by being a range index, or by a reviewed table entry with its reason; (b) results of failed calls are never dereferenced; (c) the ways a scan can stop the process are enumerated: log.Fatal*/os.Exit/panic sites and non-nil returns of RunOnce other than *NodeNotInNodeGroup are reported (three recorded findings); (d) every loop reachable from RunOnce is a range, has a monotone induction variable against an invariant bound, is a chunking loop, or is a timed wait; time.Sleep arguments are constants.",
		RuleText:    "R1 one obligation per panic site, R2 fallible-result dereferences (same census), R3 stop census (exit calls + RunOnce returns), R4 one obligation per loop + Sleep arguments, R5 guarded float divisions, R6 per-group containment, R7 allocation sizes non-negative and bounded by held quantities, R8 library preconditions (metric label arity, Counter.Add sign, ticker interval, mutex pairing)",
		Assumptions: []string{"parameters, receivers and elements of lister results are non-nil (client-go contract)", "absence of hangs inside client-go / the AWS SDK and 'the next scan proceeds normally' are liveness over library and network behaviour: not decided", "successful AWS replies are well-formed (reviewed table)"}})
}

// reviewedDerefs: dereferences accepted without a local guard, keyed by function and field.
// Each entry states why the statement does not quantify over the case.
var reviewedDerefs = map[string]string{
	"(pkg/cloudprovider/aws.Builder).Build/Client":                    "embedded *client.Client of an AWS service client just built by autoscaling.New, which always sets it (provider rebuild path)",
	"<group-step>/lookup":                                             "NewController stores an entry under every configured group's Name and the map is never modified afterwards (C12.R1/R3/R4), so the lookup by the same Name cannot miss",
	"(*pkg/cloudprovider/aws.Instance).InstantiationTime/ec2Instance": "set from a length-checked successful DescribeInstances reply when err == nil",
	"(*pkg/controller.Controller).calculateNewNodeMetrics/Node":       "entries whose node is nil are removed when the node-info map is built (CreateNodeNameToInfoMap deletes incomplete infos)",
}

// reviewedReplyFields: pointer fields of AWS SDK reply structures dereferenced without a local
// guard, keyed by structure type and field. The statement quantifies over listed Kubernetes objects
// and failing calls, not over malformed successful AWS replies (an assumption of this property).
var reviewedReplyFields = map[string]string{
	"autoscaling.TerminateInstanceInAutoScalingGroupOutput.Activity": "field of a successful TerminateInstanceInAutoScalingGroup reply",
	"autoscaling.Activity.Description":                               "same successful reply",
	"ec2.InstanceStatus.InstanceState":                               "element of a successful DescribeInstanceStatus page",
	"ec2.InstanceState.Name":                                         "same successful page",
	"autoscaling.Instance.AvailabilityZone":                          "instance of the cached, successfully described ASG",
	"autoscaling.Instance.InstanceId":                                "instance of the cached, successfully described ASG",
	"autoscaling.Group.VPCZoneIdentifier":                            "group of a successful DescribeAutoScalingGroups reply (length checked)",
	"ec2.Instance.LaunchTime":                                        "instance of a successful DescribeInstances reply with exactly one reservation and instance",
	"ec2.CreateFleetError.ErrorMessage":                              "element of the Errors list of a successful CreateFleet reply",
	"autoscaling.TagDescription.Key":                                 "tag of the successfully described ASG (registration path)",
}

// reviewedCallResults: possibly-nil results of repo accessors dereferenced without a local guard,
// keyed by the accessor.
var reviewedCallResults = map[string]string{
	"(*pkg/k8s.NodeInfo).Node": "entries whose node is nil are removed when the node-info map is built (CreateNodeNameToInfoMap deletes incomplete infos), and the map is only read afterwards",
}

type panicSite struct {
	in   ssa.Instruction
	kind string
	key  string
}

func checkC20(ck *Check) {
	a := ck.A
	if !ck.need("C20.R1", map[string]interface{}{"RunOnce": a.RunOnce, "scan": a.Scan}) {
		return
	}
	reach := ck.P.reachCut([]*ssa.Function{a.RunOnce}, nil)
	var fns []*ssa.Function
	for fn := range reach {
		if ck.P.inRepo(fn) && fn.Blocks != nil {
			fns = append(fns, fn)
		}
	}
	sort.Slice(fns, func(i, j int) bool { return funcID(fns[i]) < funcID(fns[j]) })
	ck.floor("C20.R1", "repo functions reachable from RunOnce", len(fns), 40)

	ck.panicSites(func(n int) string { return fmt.Sprintf("C20.R%d", n) }, fns)
	ck.stopCensus("C20.R3", fns)
	ck.fatalErrorCreation("C20.R3")
	ck.loopCensus("C20.R4", fns)
	ck.percentGuards("C20.R5")
	ck.loopContainment("C20.R6")
	ck.fallibleStores("C20.R9", fns)
	ck.singleThreadedScan("C20.R10", fns)
}

// scanFunctions: repo functions reachable from RunOnce.
func (ck *Check) scanFunctions() []*ssa.Function {
	reach := ck.P.reachCut([]*ssa.Function{ck.A.RunOnce}, nil)
	var fns []*ssa.Function
	for fn := range reach {
		if ck.P.inRepo(fn) && fn.Blocks != nil {
			fns = append(fns, fn)
		}
	}
	sort.Slice(fns, func(i, j int) bool { return funcID(fns[i]) < funcID(fns[j]) })
	return fns
}

// panicSites: every potentially panicking operation of the scan-reachable functions (R1 index /
// slice / assertion / division / explicit panic, R2 optional-value dereferences, R7 allocation
// sizes, R8 library preconditions); rule(n) names the rule the n-th group is reported under.
func (ck *Check) panicSites(rule func(n int) string, fns []*ssa.Function) {
	counts := map[string]int{}
	for _, fn := range fns {
		ctx := ck.P.NewCtx(fn)
		ord := map[string]int{}
		mkKey := func(kind string) string {
			ord[kind]++
			return fmt.Sprintf("%s/%s#%d", funcID(fn), kind, ord[kind]-1)
		}
		for _, b := range fn.Blocks {
			if b == fn.Recover {
				continue
			}
			for _, in := range b.Instrs {
				switch x := in.(type) {
				case *ssa.IndexAddr:
					ck.indexSite(ctx, x, x.X, x.Index, mkKey, counts)
				case *ssa.Index:
					if _, isMap := x.X.Type().Underlying().(*types.Map); !isMap {
						ck.indexSite(ctx, x, x.X, x.Index, mkKey, counts)
					}
				case *ssa.Slice:
					ck.sliceSite(ctx, x, mkKey, counts)
				case *ssa.TypeAssert:
					if !x.CommaOk {
						counts["typeassert"]++
						ck.fail(rule(1), mkKey("typeassert"), ck.P.instrPos(x), funcID(fn), "type assertions on scan paths use the comma-ok form", x.String(), "an unexpected dynamic type panics the scan")
					}
				case *ssa.BinOp:
					if (x.Op == token.QUO || x.Op == token.REM) && isInteger(x.Type()) {
						counts["intdiv"]++
						key := mkKey("intdiv")
						if k, ok := x.Y.(*ssa.Const); ok && k.Value != nil && constant.Sign(k.Value) != 0 {
							ck.ok(rule(1), key, ck.P.instrPos(x), funcID(fn), "integer divisor non-zero", "constant "+k.Value.String())
							continue
						}
						d := ctx.Term(x.Y)
						zero := cmpFormula(token.EQL, d, zeroTerm(x.Y.Type()))
						imp, _, _ := Entails(ctx.PC(x), Not(zero))
						ck.cond(imp, rule(1), key, ck.P.instrPos(x), funcID(fn), "integer divisor non-zero on every path", d.String(), "integer division by zero panics")
					}
				case *ssa.Panic:
					if strings.HasPrefix(b.Comment, "select") {
						continue // go/ssa's unreachable arm of a blocking select
					}
					if b.Comment == "yield-invalid" || strings.HasPrefix(b.Comment, "rangefunc.") {
						continue // go/ssa's lowering of range-over-func: the iterator-protocol checks of the runtime, not a panic statement
					}
					counts["panic"]++
					ck.fail(rule(3), mkKey("panic"), ck.P.instrPos(x), funcID(fn), "no explicit panic on scan paths", x.String(), "")
				}
				ck.derefSite(ctx, in, mkKey, counts)
			}
		}
	}
	for k, v := range counts {
		ck.Stats["C20.R1 sites:"+k] = v
	}
	ck.floor(rule(1), "index / slice sites examined", counts["index"]+counts["slice"], 10)
	ck.floor(rule(2), "optional-value dereference sites examined", counts["deref"], 10)

	ck.allocationBounds(rule(7), fns)
	ck.libraryPreconditions(rule(8), fns)
}

func (ck *Check) indexSite(ctx *Ctx, in ssa.Instruction, x, idx ssa.Value, mkKey func(string) string, counts map[string]int) {
	fn := in.Parent()
	// array literals (variadic packing, fixed arrays) with constant in-range index
	if pt, ok := x.Type().Underlying().(*types.Pointer); ok {
		if arr, ok := pt.Elem().Underlying().(*types.Array); ok {
			if k, ok := idx.(*ssa.Const); ok && k.Int64() >= 0 && k.Int64() < arr.Len() {
				return
			}
		}
	}
	counts["index"]++
	key := mkKey("index")
	if ph := rangeLoopOf(idx); ph != nil {
		if l := loopOfHeaderPhi(ph); l != nil && l.Over != nil && ctx.Term(l.Over).Key() == ctx.Term(x).Key() {
			ck.ok("C20.R1", key, ck.P.instrPos(in), funcID(fn), "index within bounds", "range index over the same slice")
			return
		}
		// ranging over one slice and indexing another of the same length is not recognised
	}
	xt, it := ctx.Term(x), ctx.Term(idx)
	// sort.Interface methods: the sort package passes indices in [0, Len())
	if fn.Signature.Recv() != nil && (fn.Name() == "Less" || fn.Name() == "Swap") {
		if _, isParam := idx.(*ssa.Parameter); isParam && xt.Kind == "param" {
			ck.ok("C20.R1", key, ck.P.instrPos(in), funcID(fn), "index within bounds", "sort.Interface contract: indices in [0, Len())")
			return
		}
	}
	facts := []LinFact{
		{A: zeroTerm(types.Typ[types.Int]), B: it, K: 0, Text: "0 ≤ index"},
		{A: it, B: lenOf("len", xt), K: -1, Text: "index < len"},
	}
	okv, why, err := ctx.EntailsLinear(ctx.PC(in), facts)
	if err != nil {
		ck.undecided("C20.R1", key, ck.P.instrPos(in), funcID(fn), "index within bounds on every path", err.Error())
		return
	}
	if !okv {
		// an index that is a parameter (an executor handed the position a search found): decided with
		// the arguments and path conditions of every static caller
		mk := func(cx *Ctx) []LinFact {
			xt, it := cx.Term(x), cx.Term(idx)
			return []LinFact{
				{A: zeroTerm(types.Typ[types.Int]), B: it, K: 0, Text: "0 ≤ index"},
				{A: it, B: lenOf("len", xt), K: -1, Text: "index < len"},
			}
		}
		if lok, lwhy, _ := ck.liftedEntails(fn, in, mk); lok {
			okv = true
		} else if lwhy != "" {
			why = lwhy
		}
	}
	ck.cond(okv, "C20.R1", key, ck.P.instrPos(in), funcID(fn), "PC ⇒ 0 ≤ index < len("+xt.String()+")", it.String(), "index out of range panics the scan: "+why)
}

func (ck *Check) sliceSite(ctx *Ctx, x *ssa.Slice, mkKey func(string) string, counts map[string]int) {
	fn := x.Parent()
	if x.Low == nil && x.High == nil && x.Max == nil {
		return // s[:] never panics (for non-nil array pointers: locals)
	}
	counts["slice"]++
	key := mkKey("slice")
	xt := ctx.Term(x.X)
	mk := func(ctx *Ctx) []LinFact {
		xt := ctx.Term(x.X)
		var facts []LinFact
		zero := zeroTerm(types.Typ[types.Int])
		// bound: cap for slices; len is a sound under-approximation of cap
		bound := lenOf("len", xt)
		if x.Low != nil {
			lo := ctx.Term(x.Low)
			facts = append(facts, LinFact{A: zero, B: lo, K: 0, Text: "0 ≤ low"})
			if x.High == nil {
				facts = append(facts, LinFact{A: lo, B: bound, K: 0, Text: "low ≤ len"})
			}
		}
		if x.High != nil {
			hi := ctx.Term(x.High)
			facts = append(facts, LinFact{A: hi, B: bound, K: 0, Text: "high ≤ len"})
			if x.Low != nil {
				facts = append(facts, LinFact{A: ctx.Term(x.Low), B: hi, K: 0, Text: "low ≤ high"})
			} else {
				facts = append(facts, LinFact{A: zero, B: hi, K: 0, Text: "0 ≤ high"})
			}
		}
		return facts
	}
	okv, why, err := ctx.EntailsLinear(ctx.PC(x), mk(ctx))
	if err != nil {
		ck.undecided("C20.R1", key, ck.P.instrPos(x), funcID(fn), "slice bounds in range on every path", err.Error())
		return
	}
	if !okv {
		// a bound that is a parameter (a generic split / window helper): decided with the arguments
		// of every static caller bound
		if lok, lwhy, _ := ck.liftedEntails(fn, x, mk); lok {
			okv = true
		} else if lwhy != "" {
			why = lwhy
		}
	}
	ck.cond(okv, "C20.R1", key, ck.P.instrPos(x), funcID(fn), "PC ⇒ 0 ≤ low ≤ high ≤ len("+xt.String()+")", ctx.Term(x).String(), "slice bounds out of range panic the scan: "+why)
}

// optionalOrigin classifies a pointer / interface value as optional by construction.
// Returns a description, the guard formulas that discharge it (any one suffices), and ok.
func (ck *Check) optionalOrigin(ctx *Ctx, v ssa.Value) (string, []*Formula, bool) {
	nilT := &Term{Kind: "const", Name: "nil"}
	switch x := v.(type) {
	case *ssa.Extract:
		switch src := x.Tuple.(type) {
		case *ssa.Call:
			tup, _ := src.Type().(*types.Tuple)
			if tup == nil || x.Index == tup.Len()-1 {
				return "", nil, false
			}
			last := tup.At(tup.Len() - 1).Type()
			vt := ctx.Term(x)
			guards := []*Formula{Not(cmpFormula(token.EQL, vt, nilT))}
			// an interface result may be non-nil yet hold a nil pointer (typed nil): then `!= nil`
			// proves nothing about the receiver of a method call
			if _, isIface := x.Type().Underlying().(*types.Interface); isIface {
				for _, g := range ck.P.calleesOf(src) {
					if mayReturnTypedNil(g, x.Index) {
						guards = nil
					}
				}
			}
			if types.Identical(last, types.Universe.Lookup("error").Type()) {
				// err == nil guarantees a result only if every possible callee returns a non-nil
				// result whenever it returns a nil error (external callees: library contract)
				contract := true
				for _, g := range ck.P.calleesOf(src) {
					if !ck.nonNilWhenOK(g, x.Index) {
						contract = false
					}
				}
				if contract {
					errT := &Term{Kind: "extract", Name: fmt.Sprint(tup.Len() - 1), Args: []*Term{ctx.Term(src)}}
					guards = append(guards, cmpFormula(token.EQL, errT, nilT))
				}
				return "result of fallible call " + calleeName(src), guards, true
			}
			if isBool(last) {
				okT := &Term{Kind: "extract", Name: fmt.Sprint(tup.Len() - 1), Args: []*Term{ctx.Term(src)}}
				guards = append(guards, Atom(okT))
				// the ok result as the path conditions spell it (a small helper's ok is read through its returns)
				if refs := src.Referrers(); refs != nil {
					for _, r := range *refs {
						if ex, isEx := r.(*ssa.Extract); isEx && ex.Index == tup.Len()-1 {
							guards = append(guards, ctx.Formula(ex))
						}
					}
				}
				return "result of comma-ok call " + calleeName(src), guards, true
			}
		case *ssa.Lookup:
			if x.Index == 0 {
				okT := &Term{Kind: "extract", Name: "1", Args: []*Term{ctx.Term(src)}}
				return "comma-ok map lookup", []*Formula{Atom(okT), Not(cmpFormula(token.EQL, ctx.Term(x), nilT))}, true
			}
		case *ssa.TypeAssert:
			if x.Index == 0 {
				okT := &Term{Kind: "extract", Name: "1", Args: []*Term{ctx.Term(src)}}
				return "comma-ok type assertion", []*Formula{Atom(okT)}, true
			}
		}
	case *ssa.Lookup:
		if !x.CommaOk {
			if _, isMap := x.X.Type().Underlying().(*types.Map); isMap {
				return "map lookup", []*Formula{Not(cmpFormula(token.EQL, ctx.Term(x), nilT))}, true
			}
		}
	case *ssa.UnOp:
		if x.Op == token.MUL {
			if f := fieldOfAddr(x.X); f != nil && f.Pkg() != nil {
				p := f.Pkg().Path()
				if strings.HasPrefix(p, "k8s.io/api") || strings.HasPrefix(p, "github.com/aws/aws-sdk-go/service") {
					return "pointer field " + f.Name() + " of an API object", []*Formula{Not(cmpFormula(token.EQL, ctx.Term(x), nilT))}, true
				}
			}
		}
	case *ssa.Call:
		// repo functions that may return nil pointers: results of (*NodeInfo).Node()
		if f := x.Common().StaticCallee(); f != nil && ck.P.inRepo(f) && f.Name() == "Node" {
			return "possibly-nil result of " + funcID(f), []*Formula{Not(cmpFormula(token.EQL, ctx.Term(x), nilT))}, true
		}
	}
	return "", nil, false
}

// derefSite: is `in` a dereference of an optional value?
func (ck *Check) derefSite(ctx *Ctx, in ssa.Instruction, mkKey func(string) string, counts map[string]int) {
	fn := in.Parent()
	var ptr ssa.Value
	var what string
	switch x := in.(type) {
	case *ssa.UnOp:
		if x.Op == token.MUL {
			ptr, what = x.X, "load"
		}
	case *ssa.FieldAddr:
		ptr, what = x.X, "field "+fieldOfAddr(x).Name()
	case *ssa.Call:
		if x.Common().IsInvoke() {
			ptr, what = x.Common().Value, "method "+x.Common().Method.Name()
		} else if f := x.Common().StaticCallee(); f != nil && f.Signature.Recv() != nil && len(x.Common().Args) > 0 {
			// a method with a pointer receiver dereferences it unless it checks for nil first
			if _, isPtr := f.Signature.Recv().Type().(*types.Pointer); isPtr && !(ck.P.inRepo(f) && receiverNilSafe(f)) {
				ptr, what = x.Common().Args[0], "receiver of "+f.Name()
			}
		}
	case *ssa.Store:
		ptr, what = x.Addr, "store"
	}
	if ptr == nil {
		return
	}
	// address computations themselves are checked at their own instruction
	switch ptr.(type) {
	case *ssa.FieldAddr, *ssa.IndexAddr, *ssa.Alloc, *ssa.Global, *ssa.Parameter, *ssa.FreeVar:
		return
	}
	desc, guards, ok := ck.optionalOrigin(ctx, ptr)
	if !ok {
		return
	}
	counts["deref"]++
	key := mkKey("deref")
	pc := ctx.PC(in)
	for _, g := range guards {
		if imp, _, err := Entails(pc, g); err == nil && imp {
			ck.ok("C20.R2", key, ck.P.instrPos(in), funcID(fn), "the dereferenced value ("+desc+") is known to be present", g.String())
			return
		}
	}
	// m[k] with k the key of the enclosing range over the same map, which the loop does not modify:
	// the entry is the range's own value
	if lk, isLk := ptr.(*ssa.Lookup); isLk {
		if ex, ok := lk.Index.(*ssa.Extract); ok && ex.Index == 1 {
			if nx, ok := ex.Tuple.(*ssa.Next); ok {
				if rg, ok := nx.Iter.(*ssa.Range); ok && (rg.X == lk.X || ctx.Term(rg.X).Key() == ctx.Term(lk.X).Key()) {
					modified := false
					if l := innermostLoop(fn, in.Block()); l != nil {
						for b := range l.Blocks {
							for _, i2 := range b.Instrs {
								switch y := i2.(type) {
								case *ssa.MapUpdate:
									if y.Map == lk.X || ctx.Term(y.Map).Key() == ctx.Term(lk.X).Key() {
										modified = true
									}
								case *ssa.Call:
									if bi, ok := y.Common().Value.(*ssa.Builtin); ok && bi.Name() == "delete" {
										modified = true
									}
								}
							}
						}
					}
					if !modified {
						ck.ok("C20.R2", key, ck.P.instrPos(in), funcID(fn), "the dereferenced value ("+desc+") is known to be present", "looked up under the key of the enclosing range over the same, unmodified map")
						return
					}
				}
			}
		}
	}
	// a map entry stored under the same key earlier in the function (insert-then-use idiom)
	if lk, isLk := ptr.(*ssa.Lookup); isLk {
		for _, b := range fn.Blocks {
			for _, i2 := range b.Instrs {
				if mu, ok := i2.(*ssa.MapUpdate); ok && (mu.Map == lk.X || ctx.Term(mu.Map).Key() == ctx.Term(lk.X).Key()) && ctx.Term(mu.Key).Key() == ctx.Term(lk.Index).Key() {
					// every path to the lookup either found the key or just inserted it
					if dominatesInstr(mu, in) || ck.insertOrPresent(ctx, mu, lk) {
						ck.ok("C20.R2", key, ck.P.instrPos(in), funcID(fn), "the dereferenced value ("+desc+") is known to be present", "a non-nil entry is stored under the same key whenever it was absent")
						return
					}
				}
			}
		}
	}
	// reviewed table
	fieldName := ""
	switch p := ptr.(type) {
	case *ssa.UnOp:
		if f := fieldOfAddr(p.X); f != nil {
			fieldName = f.Name()
		}
	case *ssa.Call:
		if f := p.Common().StaticCallee(); f != nil {
			fieldName = f.Name()
		}
	case *ssa.Extract:
		fieldName = "result"
	case *ssa.Lookup:
		fieldName = "lookup"
	}
	// fields of AWS SDK reply structures are reviewed by type, wherever the code that reads them lives
	typeKey := ""
	if u, ok := ptr.(*ssa.UnOp); ok {
		if fa, ok := u.X.(*ssa.FieldAddr); ok {
			if pt, ok := fa.X.Type().Underlying().(*types.Pointer); ok {
				if nt, ok := pt.Elem().(*types.Named); ok && nt.Obj().Pkg() != nil && strings.Contains(nt.Obj().Pkg().Path(), "aws-sdk-go/service/") {
					typeKey = nt.Obj().Pkg().Name() + "." + nt.Obj().Name() + "." + fieldName
				}
			}
		}
	}
	if why, ok := reviewedReplyFields[typeKey]; ok && typeKey != "" {
		// the reply object itself reaches this read through a field of a repo structure: whatever is
		// stored into that field must be present (a reply element, stored under the condition that
		// makes it one)
		if u, isLoad := ptr.(*ssa.UnOp); isLoad {
			if fa, isFA := u.X.(*ssa.FieldAddr); isFA {
				if bl, isBL := fa.X.(*ssa.UnOp); isBL && bl.Op == token.MUL {
					if bf := fieldOfAddr(bl.X); bf != nil && bf.Pkg() != nil && ck.P.isShippedPkg(bf.Pkg()) {
						if okS, whyS := ck.fieldStoresPresent(bf); !okS {
							ck.fail("C20.R2", key, ck.P.instrPos(in), funcID(fn), "the API object read here ("+bf.Name()+") is present (reviewed ("+typeKey+"): "+why+")", whyS, "a value that may be nil is stored into "+bf.Name()+" and dereferenced here: "+whyS)
							return
						}
					}
				}
			}
		}
		ck.ok("C20.R2", key, ck.P.instrPos(in), funcID(fn), "the dereferenced value ("+desc+") is known to be present", "reviewed ("+typeKey+"): "+why)
		return
	}
	// results of repo accessors reviewed by callee, wherever the caller lives
	if c, ok := ptr.(*ssa.Call); ok {
		if g := c.Common().StaticCallee(); g != nil {
			if why, ok := reviewedCallResults[funcID(g)]; ok {
				ck.ok("C20.R2", key, ck.P.instrPos(in), funcID(fn), "the dereferenced value ("+desc+") is known to be present", "reviewed ("+funcID(g)+"): "+why)
				return
			}
		}
	}
	where := funcID(fn)
	if fn == ck.A.GroupStep {
		where = "<group-step>" // RunOnce, or the per-group helper it calls in its loop
	}
	if why, ok := reviewedDerefs[where+"/"+fieldName]; ok {
		// a reviewed field of a repo structure is backed by its stores: whatever is stored into it is
		// present under the condition it is stored under (an entry whose reason stopped being true is
		// reported, not trusted)
		if u, isLoad := ptr.(*ssa.UnOp); isLoad {
			if f := fieldOfAddr(u.X); f != nil && f.Pkg() != nil && ck.P.isShippedPkg(f.Pkg()) {
				if okS, whyS := ck.fieldStoresPresent(f); !okS {
					ck.fail("C20.R2", key, ck.P.instrPos(in), funcID(fn), "the dereferenced value ("+desc+") is known to be present (reviewed: "+why+")", whyS, "the reason of the reviewed entry no longer holds: a value that may be nil is stored into the field and dereferenced here")
					return
				}
			}
		}
		ck.ok("C20.R2", key, ck.P.instrPos(in), funcID(fn), "the dereferenced value ("+desc+") is known to be present", "reviewed: "+why)
		return
	}
	ck.fail("C20.R2", key, ck.P.instrPos(in), funcID(fn), "the dereferenced value ("+desc+") is guarded (nil / err == nil / comma-ok) on every path", what+" on "+ctx.Term(ptr).String()+" under "+trunc(pc.String()), "a missing or failed value is dereferenced: the scan panics (type key "+typeKey+"; funcID/field for the reviewed table: "+funcID(fn)+"/"+fieldName+")")
}

// insertOrPresent: the MapUpdate stores under key k exactly on the path where the preceding
// comma-ok lookup of k failed, and both paths reach the later lookup.
func (ck *Check) insertOrPresent(ctx *Ctx, mu *ssa.MapUpdate, lk *ssa.Lookup) bool {
	pc := ctx.PC(mu)
	for _, at := range pc.Atoms() {
		if at.Kind == "extract" && at.Name == "1" && at.Args[0].Kind == "lookup" &&
			at.Args[0].Args[0].Key() == ctx.Term(lk.X).Key() && at.Args[0].Args[1].Key() == ctx.Term(lk.Index).Key() {
			if imp, _, _ := Entails(pc, Not(Atom(at))); imp {
				// the update block's successor leads to the lookup
				return mu.Block().Dominates(lk.Block()) || (len(mu.Block().Succs) == 1 && mu.Block().Succs[0].Dominates(lk.Block())) || mu.Block().Succs[0] == lk.Block()
			}
		}
	}
	return false
}

// singleThreadedScan (C20.R10): every rule reads the scan as one sequential computation. No code
// reachable from RunOnce starts a goroutine, sends on a channel or waits for a group of goroutines:
// a send nobody receives (or a wait for a goroutine blocked on one) wedges the scan for every group
// without a panic or an error.
func (ck *Check) singleThreadedScan(rule string, fns []*ssa.Function) {
	n := 0
	for _, fn := range fns {
		ord := 0
		for _, b := range fn.Blocks {
			for _, in := range b.Instrs {
				n++
				switch x := in.(type) {
				case *ssa.Go:
					ck.fail(rule, fmt.Sprintf("%s/go#%d", funcID(fn), ord), ck.P.instrPos(x), funcID(fn), "code reachable from RunOnce starts no goroutine", "go statement", "the scan is no longer one sequential computation: its steps race, and a goroutine blocked on a channel can wedge it")
					ord++
				case *ssa.Send:
					ck.fail(rule, fmt.Sprintf("%s/send#%d", funcID(fn), ord), ck.P.instrPos(x), funcID(fn), "code reachable from RunOnce sends on no channel", "channel send", "a send that nobody receives blocks forever")
					ord++
				case *ssa.Call:
					if f := x.Common().StaticCallee(); f != nil && f.String() == "(*sync.WaitGroup).Wait" {
						ck.fail(rule, fmt.Sprintf("%s/wait#%d", funcID(fn), ord), ck.P.instrPos(x), funcID(fn), "code reachable from RunOnce waits for no goroutine group", "WaitGroup.Wait", "the wait never returns if one of the goroutines blocks")
						ord++
					}
				}
			}
		}
	}
	ck.Stats[rule+" instructions examined"] = n
	ck.ok(rule, "scan/sequential", "", funcID(ck.A.RunOnce), "no go statement, channel send or WaitGroup.Wait in code reachable from RunOnce", fmt.Sprintf("%d instructions in %d functions", n, len(fns)))
}

// stopCensus (C20.R3)
func (ck *Check) stopCensus(rule string, fns []*ssa.Function) {
	a := ck.A
	n := 0
	for _, fn := range fns {
		for _, ci := range callsIn(fn, nil) {
			f := ci.Common().StaticCallee()
			if f == nil {
				continue
			}
			if !isExitCallee(f) {
				continue
			}
			n++
			// named by role where the function has one, so that a rename is not a new finding
			where := funcID(fn)
			if ck.ownedBy(fn, a.AwsTerminateOrphans, 0) {
				where = "<orphan-terminator>"
			}
			ck.fail(rule, fmt.Sprintf("exit:%s/%s", where, f.Name()), ck.P.instrPos(ci), funcID(fn), "only the documented not-in-group condition stops the controller from inside a scan", f.String(), "a process exit is reachable from RunOnce: "+strings.Join(ck.P.chain(a.RunOnce, fn), " → "))
		}
	}
	ck.Stats[rule+" exit calls reachable"] = n
	// RunOnce returns
	fn := a.RunOnce
	ctx := ck.P.NewCtx(fn)
	nret := 0
	for _, b := range fn.Blocks {
		r, ok := b.Instrs[len(b.Instrs)-1].(*ssa.Return)
		if !ok {
			continue
		}
		rt := ctx.Term(r.Results[0])
		if rt.Kind == "const" && rt.Name == "nil" {
			continue
		}
		nret++
		pc := ctx.BlockPC(b)
		allowed := false
		for _, at := range pc.Atoms() {
			if at.Kind == "extract" && at.Name == "1" && at.Args[0].Kind == "typeassert" && strings.HasSuffix(at.Args[0].Name, "NodeNotInNodeGroup") {
				if imp, _, _ := Entails(pc, Atom(at)); imp {
					allowed = true
				}
			}
		}
		// the construct that fails is where the error comes from, also when it travels through a
		// helper of RunOnce (a φ, or the return sites of a repo function called here)
		originUnderTypeTest = map[string]bool{}
		for _, org := range errorOrigins(ck.P, ctx, r.Results[0], 0) {
			key := "RunOnce/return:" + returnShape(org)
			if allowed || originUnderTypeTest[org.Key()] {
				ck.ok(rule, key, ck.P.instrPos(r), funcID(fn), "RunOnce returns an error only for *NodeNotInNodeGroup", "under the type test")
				continue
			}
			ck.fail(rule, key, ck.P.instrPos(r), funcID(fn), "RunOnce returns a non-nil error (which ends the process) only for *NodeNotInNodeGroup", org.String(), "another condition stops the controller")
		}
	}
	ck.floor(rule, "non-nil returns of RunOnce", nret, 1)
}

func returnShape(t *Term) string {
	return strings.ReplaceAll(returnShape0(t), " ", "_")
}

func returnShape0(t *Term) string {
	switch t.Kind {
	case "call":
		s := t.Name
		for _, a := range t.Args {
			if a.Kind == "const" {
				s += "(" + a.Name + ")"
			}
		}
		return s
	case "extract":
		if len(t.Args) == 1 && (t.Args[0].Kind == "invoke" || t.Args[0].Kind == "call") {
			return t.Args[0].Name + ".#" + t.Name
		}
	}
	return t.Kind
}

// loopCensus (C20.R4)
func (ck *Check) loopCensus(rule string, fns []*ssa.Function) {
	n := 0
	for _, fn := range fns {
		for li, l := range loopsOf(fn) {
			n++
			key := fmt.Sprintf("%s/loop#%d", funcID(fn), li)
			pos := ck.P.instrPos(l.Header.Instrs[len(l.Header.Instrs)-1])
			switch {
			case l.IsRange():
				ck.ok(rule, key, pos, funcID(fn), "structurally bounded loop", "range loop")
			case ck.isInductionLoop(l):
				ck.ok(rule, key, pos, funcID(fn), "structurally bounded loop", "monotone induction variable against a loop-invariant bound")
			case peelLoopOf(ck, l) != nil:
				ck.ok(rule, key, pos, funcID(fn), "structurally bounded loop", "peeling: every trip takes a non-empty prefix off the remaining slice")
			case ck.isChunkLoopAt(l):
				ck.ok(rule, key, pos, funcID(fn), "structurally bounded loop", "head/tail chunking: the remaining slice shrinks by a positive constant")
			case ck.isTimedWait(l):
				ck.ok(rule, key, pos, funcID(fn), "structurally bounded loop", "select on a time.Timer channel whose case leaves the loop")
			default:
				ck.fail(rule, key, pos, funcID(fn), "every loop reachable from RunOnce is a range, an induction loop, a chunking loop or a timed wait", "unrecognised loop shape", "the scan can spin forever (retry loop without a bound)")
			}
		}
		for _, ci := range callsIn(fn, nil) {
			if f := ci.Common().StaticCallee(); f != nil && pkgPathOfFn(f) == "time" && f.Name() == "Sleep" {
				_, isConst := ci.Common().Args[0].(*ssa.Const)
				ck.cond(isConst, rule, ck.P.siteKey(ci), ck.P.instrPos(ci), funcID(fn), "time.Sleep durations on scan paths are constants", ci.Common().Args[0].String(), "")
			}
		}
	}
	ck.floor(rule, "loops reachable from RunOnce", n, 15)
}

func (ck *Check) isInductionLoop(l *Loop) bool {
	h := l.Header
	// the header (or the first test on the way into the body) compares an induction φ with an invariant
	// every exit test that each trip around the loop passes (it dominates all latches): the header's
	// own test, or a later conjunct of a compound condition
	var tests []*ssa.BinOp
	for b := range l.Blocks {
		br, ok := b.Instrs[len(b.Instrs)-1].(*ssa.If)
		if !ok {
			continue
		}
		leaves := false
		for _, s := range b.Succs {
			if !l.Blocks[s] {
				leaves = true
			}
		}
		if !leaves {
			continue
		}
		onEveryTrip := true
		for _, p := range h.Preds {
			if l.Blocks[p] && !b.Dominates(p) {
				onEveryTrip = false
			}
		}
		if !onEveryTrip {
			continue
		}
		if bo, ok := br.Cond.(*ssa.BinOp); ok {
			tests = append(tests, bo)
		}
	}
	sort.Slice(tests, func(i, j int) bool { return tests[i].Pos() < tests[j].Pos() })
	for _, bo := range tests {
		for _, side := range [][2]ssa.Value{{bo.X, bo.Y}, {bo.Y, bo.X}} {
			ph, ok := side[0].(*ssa.Phi)
			if !ok {
				// the rotated form go/ssa gives `for i := range n`: the test at the bottom of the body
				// reads the stepped value i+1, which is the φ of the next trip
				if st, isStep := side[0].(*ssa.BinOp); isStep && (st.Op == token.ADD || st.Op == token.SUB) {
					if p2, isPhi := st.X.(*ssa.Phi); isPhi {
						if k, isK := st.Y.(*ssa.Const); isK && k.Value != nil && k.Int64() > 0 {
							ph, ok = p2, true
						}
					}
				}
			}
			if !ok || ph.Block() != h {
				continue
			}
			if in, ok := side[1].(ssa.Instruction); ok && l.Blocks[in.Block()] {
				continue // bound not invariant
			}
			// the direction in which the test lets the loop go on: φ below the bound (+1) or above it (-1)
			op := bo.Op
			if side[0] != bo.X {
				op = map[token.Token]token.Token{token.LSS: token.GTR, token.LEQ: token.GEQ, token.GTR: token.LSS, token.GEQ: token.LEQ}[bo.Op]
			}
			dir := 0
			switch op {
			case token.LSS, token.LEQ:
				dir = 1
			case token.GTR, token.GEQ:
				dir = -1
			default:
				continue
			}
			if br, ok := bo.Block().Instrs[len(bo.Block().Instrs)-1].(*ssa.If); ok && br.Cond == ssa.Value(bo) {
				if !l.Blocks[bo.Block().Succs[0]] {
					dir = -dir // the loop goes on when the test fails
				}
			} else {
				continue
			}
			mono := true
			stepped := false
			for i, e := range ph.Edges {
				if !l.Blocks[h.Preds[i]] {
					continue
				}
				st, ok := e.(*ssa.BinOp)
				if !ok || (st.Op != token.ADD && st.Op != token.SUB) || st.X != ssa.Value(ph) {
					mono = false
					continue
				}
				k, ok := st.Y.(*ssa.Const)
				if !ok || k.Int64() <= 0 {
					mono = false
					continue
				}
				if (st.Op == token.ADD) != (dir > 0) {
					mono = false // stepping away from the bound
					continue
				}
				stepped = true
			}
			if mono && stepped {
				return true
			}
		}
	}
	return false
}

func (ck *Check) isChunkLoopAt(l *Loop) bool {
	cl := findChunkLoop(l.Fn)
	return cl != nil && cl.loop == l && cl.K > 0
}

func (ck *Check) isTimedWait(l *Loop) bool {
	for b := range l.Blocks {
		for _, in := range b.Instrs {
			sel, ok := in.(*ssa.Select)
			if !ok || !sel.Blocking {
				continue
			}
			for _, st := range sel.States {
				if ck.isTimerChan(st.Chan, 0) {
					// some path from the select leaves the loop via a return / exit edge: the timer case
					for _, e := range l.Exits {
						if !l.exhaustionExit(e[0]) {
							return true
						}
					}
				}
			}
		}
	}
	return false
}

// percentGuards (C20.R5): float divisions in the percent / delta calculators are reached only
// with non-zero divisors or are float (cannot trap); the zero-capacity paths return an error
// or the sentinel.
func (ck *Check) percentGuards(rule string) {
	a := ck.A
	for _, fn := range []*ssa.Function{a.CalcPercent, a.CalcDelta} {
		n := 0
		// the calculator and the expression helpers / closures it calls
		ck.bodyInstrs(fn, func(_ *Ctx, in_ *ssa.Function, in ssa.Instruction) {
			if bo, ok := in.(*ssa.BinOp); ok && bo.Op == token.QUO {
				n++
				ck.cond(!isInteger(bo.Type()), rule, fmt.Sprintf("%s/div#%d", funcID(fn), n), ck.P.instrPos(bo), funcID(in_), "divisions in the calculators are floating-point (cannot trap)", bo.Type().String(), "integer division by a zero capacity / threshold panics")
			}
		})
		ck.floor(rule, "divisions in "+fn.Name(), n, 1)
	}
	// zero capacity returns an error or the sentinel
	fn := a.CalcPercent
	ctx := ck.P.NewCtx(fn)
	okv := false
	for _, b := range fn.Blocks {
		if r, ok := b.Instrs[len(b.Instrs)-1].(*ssa.Return); ok {
			et := ctx.Term(r.Results[2])
			if !(et.Kind == "const" && et.Name == "nil") && strings.Contains(ctx.BlockPC(b).String(), "Capacity") {
				okv = true
			}
		}
	}
	ck.cond(okv, rule, "calcPercentUsage/zero-capacity-error", "", funcID(fn), "a zero capacity with nodes present is reported as an error", "", "")
}

// nonNilWhenOK: every return of f with a (possibly) nil error returns a definitely non-nil
// result idx. Computed structurally; unknown shapes count as "may be nil".
func (ck *Check) nonNilWhenOK(f *ssa.Function, idx int) bool {
	if f == nil || f.Blocks == nil {
		return true // external: library contract
	}
	key := fmt.Sprintf("%s#%d", funcID(f), idx)
	if v, ok := nonNilCache[key]; ok {
		return v
	}
	nonNilCache[key] = true // optimistic for recursion
	ctx := ck.P.NewCtx(f)
	res := true
	nilT := &Term{Kind: "const", Name: "nil"}
	for _, b := range f.Blocks {
		r, ok := b.Instrs[len(b.Instrs)-1].(*ssa.Return)
		if !ok || b == f.Recover || idx >= len(r.Results) {
			continue
		}
		errV := r.Results[len(r.Results)-1]
		if mi, ok := errV.(*ssa.MakeInterface); ok {
			_ = mi
			continue // definitely an error
		}
		if c, ok := errV.(*ssa.Call); ok && c.Common().StaticCallee() != nil {
			n := c.Common().StaticCallee().Name()
			if n == "New" || n == "Errorf" || n == "Wrap" || n == "Wrapf" {
				continue
			}
		}
		v := r.Results[idx]
		pc := ctx.BlockPC(b)
		// look through the interface conversion: the interface is usable iff the pointer inside is non-nil
		if mi, ok := v.(*ssa.MakeInterface); ok {
			if _, isPtr := mi.X.Type().Underlying().(*types.Pointer); isPtr {
				v = mi.X
			}
		}
		// result and error merged from several paths: check them edge by edge
		if ph, ok := v.(*ssa.Phi); ok && ph.Block() == b {
			eph, _ := errV.(*ssa.Phi)
			okEdges := true
			for i, ev := range ph.Edges {
				if ck.alwaysNonNil(ev, 0) {
					continue
				}
				// a nil (or unknown) result on this edge is fine only if the error is non-nil on it
				var ee ssa.Value = errV
				if eph != nil && eph.Block() == b {
					ee = eph.Edges[i]
				}
				if mi, ok := ee.(*ssa.MakeInterface); ok {
					_ = mi
					continue
				}
				if c, ok := ee.(*ssa.Call); ok && c.Common().StaticCallee() != nil {
					n := c.Common().StaticCallee().Name()
					if n == "New" || n == "Errorf" || n == "Wrap" || n == "Wrapf" {
						continue
					}
				}
				// result and error of this edge are the pair a helper returned: `v, err = h(…)` with h
				// itself handing out a non-nil result whenever its error is nil
				if rx, ok := ev.(*ssa.Extract); ok {
					if ex, ok := ee.(*ssa.Extract); ok && ex.Tuple == rx.Tuple {
						if hc, ok := rx.Tuple.(*ssa.Call); ok {
							if h := hc.Common().StaticCallee(); h != nil && ck.P.inRepo(h) && h.Blocks != nil && ex.Index == h.Signature.Results().Len()-1 && ck.nonNilWhenOK(h, rx.Index) {
								continue
							}
						}
					}
				}
				et := ctx.Term(ee)
				if imp, _, _ := Entails(ctx.edgePC(b.Preds[i], b), Not(cmpFormula(token.EQL, et, nilT))); imp {
					continue
				}
				okEdges = false
			}
			if !okEdges {
				res = false
			}
			continue
		}
		switch x := v.(type) {
		case *ssa.Alloc, *ssa.MakeInterface, *ssa.MakeMap, *ssa.MakeSlice, *ssa.FieldAddr, *ssa.Function, *ssa.MakeClosure:
			continue
		case *ssa.Const:
			if x.Value == nil {
				// returns nil: fine only if the error is definitely non-nil on this path
				et := ctx.Term(errV)
				if imp, _, _ := Entails(pc, Not(cmpFormula(token.EQL, et, nilT))); imp {
					continue
				}
				res = false
			}
			continue
		}
		if ck.alwaysNonNil(v, 0) {
			continue
		}
		vt := ctx.Term(v)
		if imp, _, _ := Entails(pc, Not(cmpFormula(token.EQL, vt, nilT))); imp {
			continue
		}
		// both results handed on from one fallible call: (x, err) := g(); return x, err
		if ex, ok := v.(*ssa.Extract); ok {
			if eex, ok := errV.(*ssa.Extract); ok && eex.Tuple == ex.Tuple {
				if c, ok := ex.Tuple.(*ssa.Call); ok {
					if tup, ok := c.Type().(*types.Tuple); ok && eex.Index == tup.Len()-1 {
						inner := len(ck.P.calleesOf(c)) > 0
						for _, g := range ck.P.calleesOf(c) {
							if !ck.nonNilWhenOK(g, ex.Index) {
								inner = false
							}
						}
						if inner {
							continue
						}
					}
				}
			}
		}
		// result of another fallible call whose error was checked
		if ex, ok := v.(*ssa.Extract); ok {
			if c, ok := ex.Tuple.(*ssa.Call); ok {
				if tup, ok := c.Type().(*types.Tuple); ok {
					errT := &Term{Kind: "extract", Name: fmt.Sprint(tup.Len() - 1), Args: []*Term{ctx.Term(c)}}
					inner := true
					for _, g := range ck.P.calleesOf(c) {
						if !ck.nonNilWhenOK(g, ex.Index) {
							inner = false
						}
					}
					if imp, _, _ := Entails(pc, cmpFormula(token.EQL, errT, nilT)); imp && inner {
						continue
					}
				}
			}
		}
		// error definitely non-nil on this path?
		et := ctx.Term(errV)
		if imp, _, _ := Entails(pc, Not(cmpFormula(token.EQL, et, nilT))); imp {
			continue
		}
		// the value comes out of a helper (or a merge) case by case: each case either yields a fresh
		// object or cannot occur together with a nil error
		{
			cases := ck.valueCases(ctx, pc, v, 0)
			okCases := len(cases) > 1
			errIsNil := cmpFormula(token.EQL, et, nilT)
			for _, c := range cases {
				switch {
				case c.term.Kind == "alloc" || (c.term.Kind == "unop" && c.term.Name == "&"):
				default:
					if sat, err := Satisfiable(And(c.guard, errIsNil)); err != nil || sat {
						okCases = false
					}
				}
			}
			if okCases {
				continue
			}
		}
		res = false
	}
	nonNilCache[key] = res
	return res
}

var nonNilCache = map[string]bool{}

// receiverNilSafe: the method tests its receiver against nil before any dereference.
func receiverNilSafe(f *ssa.Function) bool {
	if f.Blocks == nil || len(f.Params) == 0 {
		return false
	}
	recv := f.Params[0]
	entry := f.Blocks[0]
	for _, in := range entry.Instrs {
		switch x := in.(type) {
		case *ssa.FieldAddr:
			if x.X == ssa.Value(recv) {
				return false
			}
		case *ssa.UnOp:
			if x.X == ssa.Value(recv) {
				return false
			}
		case *ssa.If:
			if bo, ok := x.Cond.(*ssa.BinOp); ok && (bo.Op == token.EQL || bo.Op == token.NEQ) && (bo.X == ssa.Value(recv) || bo.Y == ssa.Value(recv)) {
				return true
			}
		}
	}
	return false
}

// mayReturnTypedNil: some return of f yields, at result idx, an interface built from a pointer
// that may be nil.
func mayReturnTypedNil(f *ssa.Function, idx int) bool {
	if f == nil || f.Blocks == nil {
		return false
	}
	var mayNil func(v ssa.Value, seen map[ssa.Value]bool) bool
	mayNil = func(v ssa.Value, seen map[ssa.Value]bool) bool {
		if seen[v] {
			return false
		}
		seen[v] = true
		switch x := v.(type) {
		case *ssa.Const:
			return x.Value == nil
		case *ssa.Alloc, *ssa.FieldAddr, *ssa.IndexAddr:
			return false
		case *ssa.Phi:
			for _, e := range x.Edges {
				if mayNil(e, seen) {
					return true
				}
			}
			return false
		case *ssa.Extract:
			// comma-ok type assertion / map lookup results may be nil
			switch x.Tuple.(type) {
			case *ssa.TypeAssert, *ssa.Lookup:
				return true
			}
		}
		return true // unknown: conservatively may be nil
	}
	for _, b := range f.Blocks {
		r, ok := b.Instrs[len(b.Instrs)-1].(*ssa.Return)
		if !ok || idx >= len(r.Results) {
			continue
		}
		if mi, ok := r.Results[idx].(*ssa.MakeInterface); ok {
			if _, isPtr := mi.X.Type().Underlying().(*types.Pointer); isPtr && mayNil(mi.X, map[ssa.Value]bool{}) {
				return true
			}
		}
	}
	return false
}

// isExitCallee: logrus / log Fatal* and Panic*, os.Exit.
func isExitCallee(f *ssa.Function) bool {
	if f == nil {
		return false
	}
	p := pkgPathOfFn(f)
	return (strings.Contains(p, "logrus") && (strings.HasPrefix(f.Name(), "Fatal") || strings.HasPrefix(f.Name(), "Panic"))) ||
		(p == "os" && f.Name() == "Exit") || (p == "log" && (strings.HasPrefix(f.Name(), "Fatal") || strings.HasPrefix(f.Name(), "Panic")))
}

// errorOrigins: the terms an error value can have come from, looking through φs and through the
// return sites of statically called repo functions (depth ≤ 3); nil constants are dropped.
// originUnderTypeTest: for an error origin reached through helpers' returns, whether every such
// return was taken under a type test for *NodeNotInNodeGroup (filled by errorOrigins).
var originUnderTypeTest = map[string]bool{}

// typedAbove: depth of helper returns, on the way down to the origin being looked at, that are
// taken only under the type test (errorOrigins' recursion state).
var typedAbove = 0

func errorOrigins(p *Prog, ctx *Ctx, v ssa.Value, depth int) []*Term {
	if k, ok := v.(*ssa.Const); ok && k.IsNil() {
		return nil
	}
	if depth <= 3 {
		switch x := v.(type) {
		case *ssa.Phi:
			if !ctx.loopCarried(x) || true {
				var out []*Term
				seen := map[string]bool{}
				for _, e := range x.Edges {
					if e == ssa.Value(x) {
						continue
					}
					for _, o := range errorOrigins(p, ctx, e, depth+1) {
						if !seen[o.Key()] {
							seen[o.Key()] = true
							out = append(out, o)
						}
					}
				}
				if len(out) > 0 {
					return out
				}
			}
		case *ssa.Call, *ssa.Extract:
			call, idx := (*ssa.Call)(nil), 0
			if c, ok := x.(*ssa.Call); ok {
				call = c
			} else if e := x.(*ssa.Extract); true {
				call, _ = e.Tuple.(*ssa.Call)
				idx = e.Index
			}
			if call != nil {
				if h := call.Common().StaticCallee(); h != nil && p.inRepo(h) && h.Blocks != nil && !errorConstructor(call) {
					args := make([]*Term, len(call.Common().Args))
					for i, av := range call.Common().Args {
						args[i] = ctx.Term(av)
					}
					ch := ctx.child(h, call, args)
					ch.depth = 0
					var out []*Term
					seen := map[string]bool{}
					for _, b := range h.Blocks {
						r, ok := b.Instrs[len(b.Instrs)-1].(*ssa.Return)
						if !ok || idx >= len(r.Results) {
							continue
						}
						// a return of the helper taken only under "the error is *NodeNotInNodeGroup"
						typed := false
						hpc := ch.BlockPC(b)
						rvT := ch.Term(r.Results[idx])
						for _, at := range hpc.Atoms() {
							if at.Kind == "extract" && at.Name == "1" && at.Args[0].Kind == "typeassert" && strings.HasSuffix(at.Args[0].Name, "NodeNotInNodeGroup") && len(at.Args[0].Args) == 1 && at.Args[0].Args[0].Key() == rvT.Key() {
								if imp, _, _ := Entails(hpc, Atom(at)); imp {
									typed = true
								}
							}
						}
						if typed {
							typedAbove++
						}
						sub := errorOrigins(p, ch, r.Results[idx], depth+1)
						if typed {
							typedAbove--
						}
						for _, o := range sub {
							if !seen[o.Key()] {
								seen[o.Key()] = true
								out = append(out, o)
							}
						}
					}
					if len(out) > 0 {
						return out
					}
				}
			}
		}
	}
	// an origin: allowed only if every way down to it passed a return under the type test
	t := ctx.Term(v)
	if prev, known := originUnderTypeTest[t.Key()]; known {
		originUnderTypeTest[t.Key()] = prev && typedAbove > 0
	} else {
		originUnderTypeTest[t.Key()] = typedAbove > 0
	}
	return []*Term{t}
}

// isTimerChan: v is the channel of a one-shot timer — *(&timer.C) with timer = time.NewTimer(…),
// time.After(…), or a channel parameter that receives such a channel at every call site of the
// function (the wait loop extracted into a helper).
func (ck *Check) isTimerChan(v ssa.Value, depth int) bool {
	switch x := v.(type) {
	case *ssa.UnOp:
		if fa, ok := x.X.(*ssa.FieldAddr); ok {
			if c, ok := fa.X.(*ssa.Call); ok {
				if f := c.Common().StaticCallee(); f != nil && pkgPathOfFn(f) == "time" && f.Name() == "NewTimer" {
					return true
				}
			}
		}
	case *ssa.Call:
		if f := x.Common().StaticCallee(); f != nil && pkgPathOfFn(f) == "time" && f.Name() == "After" {
			return true
		}
	case *ssa.ChangeType:
		return ck.isTimerChan(x.X, depth)
	case *ssa.Parameter:
		if depth >= 2 {
			return false
		}
		fn := x.Parent()
		idx := -1
		for i, p := range fn.Params {
			if p == x {
				idx = i
			}
		}
		n := 0
		for _, cf := range ck.P.callers[fn] {
			sites := callsTo(cf, fn)
			if len(sites) == 0 {
				return false // entered dynamically: the argument cannot be seen
			}
			for _, ci := range sites {
				n++
				if idx < 0 || idx >= len(ci.Common().Args) || !ck.isTimerChan(ci.Common().Args[idx], depth+1) {
					return false
				}
			}
		}
		return n > 0
	}
	return false
}

// alwaysNonNil: v is a freshly made object, or the single result of a repo constructor all of
// whose returns are.
func (ck *Check) alwaysNonNil(v ssa.Value, depth int) bool {
	if depth > 3 {
		return false
	}
	switch x := v.(type) {
	case *ssa.Alloc, *ssa.MakeMap, *ssa.MakeSlice, *ssa.MakeClosure, *ssa.FieldAddr:
		return true
	case *ssa.Call:
		f := x.Common().StaticCallee()
		if f == nil || !ck.P.inRepo(f) || f.Blocks == nil || f.Signature.Results().Len() != 1 {
			return false
		}
		n := 0
		for _, b := range f.Blocks {
			r, ok := b.Instrs[len(b.Instrs)-1].(*ssa.Return)
			if !ok {
				continue
			}
			n++
			if !ck.alwaysNonNil(r.Results[0], depth+1) {
				return false
			}
		}
		return n > 0
	}
	return false
}

// isYieldOf: y is go/ssa's synthetic body function of a range-over-func loop of fn.
func isYieldOf(y, fn *ssa.Function) bool {
	return y != nil && y.Synthetic == "range-over-func yield" && y.Parent() == fn
}

// ownedBy: fn is owner itself, the body of one of its range-over-func loops, or a private helper
// all of whose callers are (depth ≤ 2).
func (ck *Check) ownedBy(fn, owner *ssa.Function, depth int) bool {
	if fn == nil || owner == nil {
		return false
	}
	if fn == owner || isYieldOf(fn, owner) {
		return true
	}
	if depth >= 2 || fn.Object() == nil || fn.Object().Exported() {
		return false
	}
	cs := ck.P.callers[fn]
	if len(cs) == 0 {
		return false
	}
	for _, c := range cs {
		if len(callsTo(c, fn)) == 0 || !ck.ownedBy(c, owner, depth+1) {
			return false
		}
	}
	return true
}

var fieldStoresMemo = map[*types.Var][2]string{}

// fieldStoresPresent: every store into field f (of a repo structure) stores a value that is
// present — an element or field of an API reply or a fresh object — under the path condition of
// the store; a value that comes out of a structure parameter is followed to the call sites, case
// by case of what the callers hand in (so `lookup{found, err}` built by one helper and consumed by
// another under `err == nil` is decided on the pairs the first helper can build).
func (ck *Check) fieldStoresPresent(f *types.Var) (bool, string) {
	if m, ok := fieldStoresMemo[f]; ok {
		return m[0] == "ok", m[1]
	}
	res, why := true, ""
	for _, fn := range ck.P.Funcs {
		for _, b := range fn.Blocks {
			for _, in := range b.Instrs {
				st, ok := in.(*ssa.Store)
				if !ok || fieldOfAddr(st.Addr) != f {
					continue
				}
				ctx := ck.P.NewCtx(fn)
				if okv, w := ck.presentUnder(fn, ctx.Term(st.Val), ctx.PC(st), 0); !okv && res {
					res, why = false, "store at "+ck.P.instrPos(st)+": "+w
				}
			}
		}
	}
	tag := "ok"
	if !res {
		tag = "bad"
	}
	fieldStoresMemo[f] = [2]string{tag, why}
	return res, why
}

func definitelyNilTerm(t *Term) bool {
	return t == nil || t.Kind == "zero" || (t.Kind == "const" && t.Name == "nil")
}

func definitelyPresentTerm(t *Term) bool {
	switch t.Kind {
	case "alloc":
		return true
	case "unop":
		return t.Name == "&"
	case "call":
		n := t.Name
		return n == "errors.New" || n == "fmt.Errorf" || strings.HasSuffix(n, "errors.Errorf") || strings.HasSuffix(n, "errors.New")
	}
	return false
}

// presentUnder: value v of fn is present (non-nil) whenever pc holds.
func (ck *Check) presentUnder(fn *ssa.Function, v *Term, pc *Formula, depth int) (bool, string) {
	if sat, err := Satisfiable(pc); err == nil && !sat {
		return true, ""
	}
	if definitelyNilTerm(v) {
		return false, "nil is stored under " + trunc(pc.String())
	}
	if definitelyPresentTerm(v) {
		return true, ""
	}
	// the guard itself
	if imp, _, _ := Entails(pc, Not(cmpFormula(token.EQL, v, &Term{Kind: "const", Name: "nil"}))); imp {
		return true, ""
	}
	// a field of a structure handed in by value: followed to the call sites
	var prm *ssa.Parameter
	if v.Kind == "field" && len(v.Args) == 1 && v.Args[0].Kind == "param" {
		if p, ok := v.Args[0].Val.(*ssa.Parameter); ok && p.Parent() == fn {
			if _, isStruct := p.Type().Underlying().(*types.Struct); isStruct {
				prm = p
			}
		}
	}
	if prm == nil {
		// an element / field path of a reply or of repo state, or a pointer handed in: present by
		// the reply assumption (parameters are non-nil by assumption)
		switch v.Kind {
		case "elem", "index", "field", "deref", "extract", "param":
			return true, ""
		}
		return false, "value not understood: " + v.String()
	}
	if depth >= 2 {
		return false, "value not understood: " + v.String()
	}
	idx := -1
	for i, q := range fn.Params {
		if q == prm {
			idx = i
		}
	}
	pT := paramTerm(prm)
	sites := 0
	for _, caller := range ck.P.callers[fn] {
		cs := callsTo(caller, fn)
		if len(cs) == 0 {
			return false, funcID(fn) + " is also entered dynamically"
		}
		cctx := ck.P.NewCtx(caller)
		for _, ci := range cs {
			sites++
			if idx < 0 || idx >= len(ci.Common().Args) {
				return false, "argument not found"
			}
			var cases []valueCase
			for _, vc := range ck.valueCases(cctx, cctx.PC(ci), ci.Common().Args[idx], 0) {
				// the structure is what a repo function returned (whatever that function does besides):
				// one case per return
				if c, isCall := vc.term.Val.(*ssa.Call); isCall && vc.term.Kind == "call" && vc.term.Fn != nil && ck.P.inRepo(vc.term.Fn) && vc.term.Fn.Blocks != nil && vc.term.Fn.Signature.Results().Len() == 1 {
					h := vc.term.Fn
					args := make([]*Term, len(c.Common().Args))
					for i, av := range c.Common().Args {
						args[i] = cctx.Term(av)
					}
					ch := cctx.child(h, c, args)
					ch.depth = 0
					for _, hb := range h.Blocks {
						if hr, ok := hb.Instrs[len(hb.Instrs)-1].(*ssa.Return); ok && len(hr.Results) == 1 {
							cases = append(cases, valueCase{guard: And(vc.guard, ch.BlockPC(hb)), term: ch.Term(hr.Results[0]), pos: hr})
						}
					}
					continue
				}
				cases = append(cases, vc)
			}
			for _, vc := range cases {
				st, _ := vc.term.Typ.Underlying().(*types.Struct)
				comp := func(fld types.Object) *Term {
					if vc.term.Kind == "zero" {
						return &Term{Kind: "const", Name: "nil"}
					}
					for i := 0; st != nil && i < st.NumFields() && i < len(vc.term.Args); i++ {
						if st.Field(i) == fld {
							if vc.term.Args[i] == nil {
								return &Term{Kind: "const", Name: "nil"}
							}
							return vc.term.Args[i]
						}
					}
					return nil
				}
				if vc.term.Kind != "struct" && vc.term.Kind != "zero" {
					return false, "the structure handed to " + fn.Name() + " is not understood: " + vc.term.String()
				}
				known := true
				sub := rewriteFormula(pc, func(t *Term) *Term {
					if t.Kind == "field" && len(t.Args) == 1 && t.Args[0].Key() == pT.Key() {
						if c := comp(t.Obj); c != nil {
							return c
						}
						known = false
					}
					return nil
				})
				if !known {
					return false, "a field of the structure is not determined"
				}
				sub = sub.Subst(func(t *Term) *Formula {
					if t.Kind == "cmp" && t.Name == "==" && len(t.Args) == 2 {
						for i := 0; i < 2; i++ {
							if definitelyNilTerm(t.Args[i]) {
								if definitelyNilTerm(t.Args[1-i]) {
									return FTrue
								}
								if definitelyPresentTerm(t.Args[1-i]) {
									return FFalse
								}
							}
						}
					}
					return nil
				})
				nv := comp(v.Obj)
				if nv == nil {
					return false, "a field of the structure is not determined"
				}
				if okv, w := ck.presentUnder(caller, nv, And(vc.guard, sub), depth+1); !okv {
					return false, w
				}
			}
		}
	}
	if sites == 0 {
		return false, "no call site of " + funcID(fn)
	}
	return true, ""
}
