package main

// framework.go — obligations, evidence files, violation reports, known findings, the check driver.

import (
	"bufio"
	"encoding/json"
	"flag"
	"fmt"
	"os"
	"path/filepath"
	"runtime/debug"
	"sort"
	"strconv"
	"strings"
	"time"
	"unicode/utf8"

	"golang.org/x/tools/go/ssa"
)

type Obligation struct {
	Rule     string `json:"rule"`
	Key      string `json:"key"`
	Pos      string `json:"pos,omitempty"`
	Func     string `json:"function,omitempty"`
	Required string `json:"required"`
	Found    string `json:"found,omitempty"`
	Status   string `json:"result"` // discharged | violated | undecided | vacuous | anchor-lost | known-finding
	Detail   string `json:"detail,omitempty"`
}

// Check accumulates the obligations of one property on one loaded program.
type Check struct {
	Prop  string
	P     *Prog
	A     *Anchors
	Obls  []Obligation
	Info  []string
	Stats map[string]int
	cfg   string
	// relabel, when set, renames rule ids of obligations produced by shared rule code
	relabel func(string) string
}

func (ck *Check) add(o Obligation) {
	if ck.relabel != nil {
		o.Rule = ck.relabel(o.Rule)
	}
	if ck.cfg != "" {
		o.Key = o.Key + " [" + ck.cfg + "]"
	}
	ck.Obls = append(ck.Obls, o)
}

// shareRules runs another property's rule set and re-reports, under rule `as`, the obligations of
// the rules in `from` (a rule decided once, obligation of two properties).
func (ck *Check) shareRules(run func(*Check), as string, from ...string) {
	sub := &Check{Prop: ck.Prop, P: ck.P, A: ck.A, Stats: map[string]int{}, cfg: ""}
	run(sub)
	want := map[string]bool{}
	for _, f := range from {
		want[f] = true
	}
	for _, o := range sub.Obls {
		if want[o.Rule] {
			o.Rule = as
			ck.add(o)
		}
	}
}

func (ck *Check) ok(rule, key, pos, fn, required, found string) {
	ck.add(Obligation{Rule: rule, Key: key, Pos: pos, Func: fn, Required: required, Found: trunc(found), Status: "discharged"})
}

func (ck *Check) fail(rule, key, pos, fn, required, found, detail string) {
	ck.add(Obligation{Rule: rule, Key: key, Pos: pos, Func: fn, Required: required, Found: trunc(found), Status: "violated", Detail: detail})
}

func (ck *Check) undecided(rule, key, pos, fn, required, why string) {
	ck.add(Obligation{Rule: rule, Key: key, Pos: pos, Func: fn, Required: required, Status: "undecided", Detail: why})
}

func (ck *Check) lost(rule, anchor, why string) {
	ck.add(Obligation{Rule: rule, Key: "anchor:" + anchor, Required: "anchor resolves", Status: "anchor-lost", Detail: why})
}

// floor: a rule that enumerates fewer instances than were confirmed by hand fails as vacuous.
func (ck *Check) floor(rule, what string, got, min int) bool {
	ck.Stats[rule+" "+what] = got
	if got < min {
		ck.add(Obligation{Rule: rule, Key: "floor:" + what, Required: fmt.Sprintf("at least %d %s", min, what), Found: fmt.Sprint(got), Status: "vacuous",
			Detail: "the rule's enumerator matched fewer instances than confirmed by reading; a rule matching nothing would pass vacuously"})
		return false
	}
	ck.ok(rule, "floor:"+what, "", "", fmt.Sprintf("at least %d %s", min, what), fmt.Sprint(got))
	return true
}

func (ck *Check) info(format string, a ...interface{}) {
	ck.Info = append(ck.Info, fmt.Sprintf(format, a...))
}

// cond records an obligation from a boolean.
func (ck *Check) cond(okv bool, rule, key, pos, fn, required, found, detail string) bool {
	if okv {
		ck.ok(rule, key, pos, fn, required, found)
	} else {
		ck.fail(rule, key, pos, fn, required, found, detail)
	}
	return okv
}

// entails records PC ⇒ required for a site.
func (ck *Check) entails(rule, key string, in ssa.Instruction, pc, required *Formula, reqText string) bool {
	pos, fn := "", ""
	if in != nil {
		pos, fn = ck.P.instrPos(in), funcID(in.Parent())
	}
	okv, counter, err := Entails(pc, required)
	if err != nil {
		ck.undecided(rule, key, pos, fn, reqText, err.Error())
		return false
	}
	if okv {
		ck.ok(rule, key, pos, fn, reqText, pc.String())
		return true
	}
	ck.fail(rule, key, pos, fn, reqText, pc.String(), "path condition does not imply the requirement; falsifying assignment: "+counter)
	return false
}

func trunc(s string) string {
	if len(s) > 1500 {
		cut := 1500
		for cut > 0 && !utf8.RuneStart(s[cut]) {
			cut--
		}
		return s[:cut] + " …"
	}
	return s
}

// ---- known findings ---------------------------------------------------------------------------

type knownFinding struct {
	Prop, Rule, Key, Text string
}

func loadKnownFindings(path string) ([]knownFinding, error) {
	f, err := os.Open(path)
	if err != nil {
		if os.IsNotExist(err) {
			return nil, nil
		}
		return nil, err
	}
	defer f.Close()
	var out []knownFinding
	sc := bufio.NewScanner(f)
	for sc.Scan() {
		line := strings.TrimSpace(sc.Text())
		if !strings.HasPrefix(line, "finding:") {
			continue // comments and "fixed:" lines suppress nothing
		}
		kf := knownFinding{}
		rest := strings.TrimSpace(strings.TrimPrefix(line, "finding:"))
		fields := strings.Fields(rest)
		var text []string
		for _, fld := range fields {
			switch {
			case strings.HasPrefix(fld, "property=") && kf.Prop == "":
				kf.Prop = strings.TrimPrefix(fld, "property=")
			case strings.HasPrefix(fld, "rule=") && kf.Rule == "":
				kf.Rule = strings.TrimPrefix(fld, "rule=")
			case strings.HasPrefix(fld, "key=") && kf.Key == "":
				kf.Key = strings.TrimPrefix(fld, "key=")
			default:
				text = append(text, fld)
			}
		}
		kf.Text = strings.Join(text, " ")
		out = append(out, kf)
	}
	return out, sc.Err()
}

// ---- evidence ------------------------------------------------------------------------------

type levelInfo struct {
	Level string
}

var propLevel = map[string]string{
	"C01": "proof", "C02": "proof", "C03": "proof", "C04": "proof", "C05": "other", "C06": "other", "C07": "other",
	"C08": "other", "C09": "proof", "C10": "proof", "C11": "proof", "C12": "other", "C13": "other", "C14": "other",
	"C15": "other", "C16": "other", "C17": "other", "C18": "other", "C19": "other", "C20": "other",
}

type ruleFunc func(ck *Check)

type propSpec struct {
	ID          string
	Run         ruleFunc
	Explanation string
	Assumptions []string
	RuleText    string
}

var registry = map[string]*propSpec{}

func register(s *propSpec) { registry[s.ID] = s }

var commonAssumptions = []string{
	"the Go type checker and x/tools go/ssa v0.29.0 are sound for this code (no unsafe, reflect-driven calls, cgo or linkname in repo packages)",
	"library code behaves as documented (client-go listers/clients, sort, strconv, time, the AWS SDK)",
	"RunOnce is the only goroutine touching NodeGroupState and the provider cache",
	"integers do not overflow (node counts, batch sizes)",
}

func cmdCheck(args []string) int {
	fs := flag.NewFlagSet("check", flag.ExitOnError)
	repo := fs.String("repo", "/repo", "repository root")
	verif := fs.String("verif", "/verif", "verification directory (evidence, reports, known findings)")
	prop := fs.String("prop", "", "property id (Cxx) or 'all'")
	tier := fs.String("tier", "quick", "quick|thorough")
	noWrite := fs.Bool("n", false, "do not write evidence/report files")
	fs.Parse(args)
	if t := os.Getenv("VERIF_TIER"); t == "quick" || t == "thorough" {
		*tier = t
	}
	seed := 0
	if s := os.Getenv("VERIF_SEED"); s != "" {
		if n, err := strconv.Atoi(s); err == nil {
			seed = n
		}
	}
	var props []string
	if *prop == "all" {
		for id := range registry {
			props = append(props, id)
		}
		sort.Strings(props)
	} else if registry[*prop] != nil {
		props = []string{*prop}
	} else {
		fmt.Fprintf(os.Stderr, "unknown property %q\n", *prop)
		return 2
	}
	abs, _ := filepath.Abs(*repo)
	*repo = abs
	start := time.Now()
	exit := 0
	prog, err := loadProg(*repo, "", nil)
	var progs []*cfgProg
	if err == nil {
		progs = append(progs, &cfgProg{"", prog})
		if *tier == "thorough" {
			// the same rules under every build configuration that can change the file set
			for _, cfg := range []struct {
				name, tags string
				env        []string
			}{
				{"tags=verif", "verif", nil},
				{"GOARCH=386", "", []string{"GOARCH=386"}},
				{"GOOS=darwin", "", []string{"GOOS=darwin", "CGO_ENABLED=0"}},
			} {
				p2, e2 := loadProg(*repo, cfg.tags, cfg.env)
				if e2 != nil {
					err = fmt.Errorf("configuration %s: %v", cfg.name, e2)
					break
				}
				progs = append(progs, &cfgProg{cfg.name, p2})
			}
		}
	}
	loadDur := time.Since(start).Seconds()
	known, kerr := loadKnownFindings(filepath.Join(*verif, "known-findings.txt"))
	if kerr != nil {
		fmt.Fprintln(os.Stderr, "known-findings:", kerr)
		return 2
	}
	for _, id := range props {
		t0 := time.Now()
		res := runProperty(id, progs, err, *tier)
		if *tier == "thorough" && err == nil && os.Getenv("ESCALINT_NO_SELFTEST") == "" {
			res.selfValid = selfValidate(id, *repo, *verif, 8)
		}
		res.finish(id, *tier, seed, known, *verif, *noWrite, time.Since(t0).Seconds()+loadDur)
		if res.exit != 0 {
			exit = 1
		}
	}
	return exit
}

type cfgProg struct {
	name string
	p    *Prog
}

type propResult struct {
	obls      []Obligation
	info      []string
	stats     map[string]int
	exit      int
	pkgs      int
	funcs     int
	edges     int
	configs   []string
	selfValid map[string]interface{}
}

func runProperty(id string, progs []*cfgProg, loadErr error, tier string) *propResult {
	res := &propResult{stats: map[string]int{}}
	if loadErr != nil {
		res.obls = append(res.obls, Obligation{Rule: id + ".load", Key: "load", Required: "the repository loads and type-checks", Status: "undecided", Detail: loadErr.Error()})
		return res
	}
	spec := registry[id]
	for _, cp := range progs {
		resetInterned() // terms of one loaded program must never be handed out for another
		ck := &Check{Prop: id, P: cp.p, Stats: map[string]int{}, cfg: cp.name}
		func() {
			defer func() {
				if r := recover(); r != nil {
					ck.add(Obligation{Rule: id + ".panic", Key: "analyser", Required: "the analyser completes", Status: "undecided",
						Detail: fmt.Sprintf("panic: %v\n%s", r, debug.Stack())})
				}
			}()
			ck.A = resolveAnchors(cp.p)
			for _, n := range cp.p.Desugared {
				ck.info("%s", n)
			}
			spec.Run(ck)
			if tier == "thorough" && cp.name == "" && callGraphProps[id] {
				ck.vtaObligation()
			}
		}()
		res.obls = append(res.obls, ck.Obls...)
		if cp.name == "" {
			res.info = ck.Info
			for k, v := range ck.Stats {
				res.stats[k] = v
			}
			res.pkgs = len(cp.p.Shipped)
			res.funcs = len(cp.p.Funcs)
			for _, cs := range cp.p.callees {
				res.edges += len(cs)
			}
		}
		res.configs = append(res.configs, "default"+map[bool]string{true: "", false: "+" + cp.name}[cp.name == ""])
	}
	return res
}

func (res *propResult) finish(id, tier string, seed int, known []knownFinding, verif string, noWrite bool, wall float64) {
	spec := registry[id]
	// classify failures against the known-findings file
	var violations []Obligation
	for i := range res.obls {
		o := &res.obls[i]
		if o.Status == "discharged" {
			continue
		}
		matched := false
		if o.Status == "violated" {
			for _, kf := range known {
				if kf.Prop == id && kf.Rule == o.Rule && kf.Key == baseKey(o.Key) {
					matched = true
					fmt.Printf("KNOWN-FINDING: property=%s %s (rule %s, %s)\n", id, kf.Text, o.Rule, o.Key)
				}
			}
		}
		if matched {
			o.Status = "known-finding"
		} else {
			violations = append(violations, *o)
		}
	}
	total, discharged, knownN := 0, 0, 0
	for _, o := range res.obls {
		total++
		switch o.Status {
		case "discharged":
			discharged++
		case "known-finding":
			knownN++
		}
	}
	level := propLevel[id]
	if knownN > 0 && level == "proof" {
		level = "other" // a property with an open finding is never reported at level proof
	}
	// reports
	repDir := filepath.Join(verif, "reports")
	if !noWrite {
		os.MkdirAll(repDir, 0o755)
		old, _ := filepath.Glob(filepath.Join(repDir, id+"-*.json"))
		for _, f := range old {
			os.Remove(f)
		}
	}
	for i, v := range violations {
		path := filepath.Join(repDir, fmt.Sprintf("%s-%d.json", id, i+1))
		rep := map[string]interface{}{
			"property": id, "rule": v.Rule, "key": v.Key, "pos": v.Pos, "function": v.Func, "status": v.Status,
			"required": v.Required, "found": v.Found, "message": v.Detail,
		}
		if !noWrite {
			writeJSON(path, rep)
		}
		fmt.Printf("%s %s %s %s: %s — %s\n", strings.ToUpper(v.Status), v.Rule, v.Pos, v.Key, v.Required, firstLine(v.Detail))
		if os.Getenv("ESCALINT_SHOW_FOUND") != "" && v.Found != "" {
			fmt.Printf("    found: %s\n", v.Found)
		}
		fmt.Printf("VIOLATION property=%s replay=%s\n", id, path)
	}
	if len(violations) > 0 {
		res.exit = 1
	}
	// evidence
	samples := res.obls
	ev := map[string]interface{}{
		"property_id": id,
		"tier":        tier,
		"seed":        seed,
		"level":       level,
		"coverage": map[string]interface{}{
			"obligations":         total,
			"discharged":          discharged,
			"known_findings":      knownN,
			"checker_cmd":         fmt.Sprintf("./run check -prop %s -tier %s", id, tier),
			"trusted_base":        []string{"go/types (go1.23.5)", "golang.org/x/tools v0.29.0 go/packages + go/ssa", "escalint's own engines (term canonicaliser, truth tables, Fourier–Motzkin)", "the assumptions listed under 'assumptions'"},
			"explanation":         spec.Explanation,
			"rule":                spec.RuleText,
			"samples":             samples,
			"evaluations":         total,
			"distinct_nontrivial": distinctKeys(res.obls),
			"packages":            res.pkgs,
			"functions":           res.funcs,
			"callgraph_edges":     res.edges,
			"configurations":      res.configs,
			"instance_counts":     res.stats,
			"info":                res.info,
			"exhaustive":          true,
		},
		"assumptions": append(append([]string{}, commonAssumptions...), spec.Assumptions...),
		"wall_s":      wall,
		"violations":  len(violations),
	}
	if res.selfValid != nil {
		ev["coverage"].(map[string]interface{})["self_validation"] = res.selfValid
	}
	if !noWrite {
		os.MkdirAll(filepath.Join(verif, "evidence"), 0o755)
		writeJSON(filepath.Join(verif, "evidence", id+".json"), ev)
	}
	fmt.Printf("%s %s: %d obligations, %d discharged, %d known findings, %d violations (%d packages, %d functions) %.1fs\n",
		id, tier, total, discharged, knownN, len(violations), res.pkgs, res.funcs, wall)
}

func baseKey(k string) string {
	if i := strings.Index(k, " ["); i >= 0 {
		return k[:i]
	}
	return k
}

func distinctKeys(obls []Obligation) int {
	seen := map[string]bool{}
	for _, o := range obls {
		if !strings.HasPrefix(o.Key, "floor:") {
			seen[o.Rule+"|"+o.Key] = true
		}
	}
	return len(seen)
}

func firstLine(s string) string {
	if i := strings.IndexByte(s, '\n'); i >= 0 {
		s = s[:i]
	}
	if len(s) > 400 {
		s = s[:400] + " …"
	}
	return s
}

func writeJSON(path string, v interface{}) {
	b, err := json.MarshalIndent(v, "", " ")
	if err != nil {
		fmt.Fprintln(os.Stderr, "marshal:", err)
		return
	}
	if err := os.WriteFile(path, append(b, '\n'), 0o644); err != nil {
		fmt.Fprintln(os.Stderr, "write:", err)
	}
}

func cmdExplain(args []string) int {
	if len(args) < 1 {
		usage()
	}
	b, err := os.ReadFile(args[0])
	if err != nil {
		fmt.Fprintln(os.Stderr, err)
		return 1
	}
	var rep map[string]interface{}
	if err := json.Unmarshal(b, &rep); err != nil {
		fmt.Fprintln(os.Stderr, err)
		return 1
	}
	fmt.Printf("property  %v\nrule      %v\nconstruct %v\nat        %v in %v\nrequired  %v\nfound     %v\nwhy       %v\n",
		rep["property"], rep["rule"], rep["key"], rep["pos"], rep["function"], rep["required"], rep["found"], rep["message"])
	fmt.Println("\nre-run the check to confirm it on the current tree:  ./run check -prop", rep["property"])
	return 0
}

// resetInterned clears every string-keyed global store (hash-consed formulas, boolean terms,
// linear-variable terms, nil-ness summaries). Their values carry pointers into one loaded SSA
// program; a thorough run analyses several programs (build configurations) in one process.
func resetInterned() {
	fcons = map[string]*Formula{"T": FTrue, "F": FFalse}
	boolfStore = map[string]*Formula{}
	linTermOf = map[string]*Term{}
	nonNilCache = map[string]bool{}
	existsStore = map[string]*Formula{}
	idxSumCache = map[*ssa.Function]*idxSum{}
	memphiInfo = map[string]memphiSite{}
}
