package main

// qpred.go — quantified reading of boolean search functions.
//
// A predicate such as "the pod has a required node-affinity term with an expression Key = k,
// Operator = In, one of whose Values is v" can be written as three nested range loops, as a
// method of a matcher value handed to slices.ContainsFunc, or as any mix of the two. All of them
// denote the same formula with existential atoms
//
//	∃ e ∈ L : body(e)
//
// and that formula — not the loop shape — is what the filter rules compare with the documented
// predicate. An existential atom is the term exists:<canonical body>(L); the bound element is
// elem(L)@∃. Two such atoms are the same propositional atom exactly when list and body agree
// (bodies are hash-consed formulas with sorted operands), so Equivalent() decides the rest.
//
// What is read as a search (everything else is left as the opaque atom it was):
//   - a repo function without loop-carried state whose loops are slice ranges left early only to
//     `return true`, every other return outside the loops: result ⇔ ∨ over the returns of
//     (path condition ∧ returned value), each disjunct closed under ∃ for the loops its path
//     condition speaks about;
//   - slices.Contains(L, x) ⇔ ∃ e ∈ L: e == x; slices.ContainsFunc(L, p) ⇔ ∃ e ∈ L: p(e) where p is
//     a closure made in the analysed code (bound method values included) or a repo function.

import (
	"go/token"
	"go/types"
	"sort"
	"strings"

	"golang.org/x/tools/go/ssa"
)

var existsStore = map[string]*Formula{}

func elemTypeOf(t types.Type) types.Type {
	if t == nil {
		return nil
	}
	if sl, ok := t.Underlying().(*types.Slice); ok {
		return sl.Elem()
	}
	return nil
}

func boundElem(list *Term) *Term {
	return &Term{Kind: "elem", Args: []*Term{list}, ID: "∃", Typ: elemTypeOf(list.Typ)}
}

func mkExists(list *Term, body *Formula) *Formula {
	if body == FFalse {
		return FFalse
	}
	t := &Term{Kind: "exists", Name: body.key, Args: []*Term{list}, Typ: types.Typ[types.Bool]}
	t.str = "∃ e ∈ " + list.String() + ": " + body.String()
	t.key = "exists:" + body.key + "(" + list.Key() + ")"
	existsStore[t.key] = body
	return Atom(t)
}

// qRewriteF rebuilds f with g applied to every term, descending into the bodies of ∃ atoms.
func qRewriteF(f *Formula, g func(*Term) *Term) *Formula {
	return f.Subst(func(t *Term) *Formula {
		if t.Kind == "exists" {
			body := existsStore[t.Key()]
			if body == nil {
				return nil
			}
			nl := rewriteTerm(t.Args[0], g)
			nb := qRewriteF(body, g)
			if nl == t.Args[0] && nb == body {
				return nil
			}
			return mkExists(nl, nb)
		}
		n := rewriteTerm(t, g)
		if n == t {
			return nil
		}
		return termFormula(n)
	})
}

// qMentions: some term of f (inside ∃ bodies too) satisfies pred.
func qMentions(f *Formula, pred func(*Term) bool) bool {
	for _, at := range f.Atoms() {
		if at.Kind == "exists" {
			if at.Args[0].contains(pred) {
				return true
			}
			if b := existsStore[at.Key()]; b != nil && qMentions(b, pred) {
				return true
			}
			continue
		}
		if at.contains(pred) {
			return true
		}
	}
	return false
}

type qlit struct {
	f   *Formula // an atom
	neg bool
}

// dnf: f as a disjunction of cubes (nil, false when it grows beyond the cap).
func dnf(f *Formula, neg bool) ([][]qlit, bool) {
	const cap = 128
	switch f.kind {
	case fTrue:
		if neg {
			return nil, true
		}
		return [][]qlit{{}}, true
	case fFalse:
		if neg {
			return [][]qlit{{}}, true
		}
		return nil, true
	case fAtom:
		return [][]qlit{{{f, neg}}}, true
	case fNot:
		return dnf(f.args[0], !neg)
	}
	isAnd := (f.kind == fAnd) != neg
	if !isAnd {
		var out [][]qlit
		for _, a := range f.args {
			c, ok := dnf(a, neg)
			if !ok {
				return nil, false
			}
			out = append(out, c...)
			if len(out) > cap {
				return nil, false
			}
		}
		return out, true
	}
	out := [][]qlit{{}}
	for _, a := range f.args {
		c, ok := dnf(a, neg)
		if !ok {
			return nil, false
		}
		var next [][]qlit
		for _, x := range out {
			for _, y := range c {
				cube := append(append([]qlit{}, x...), y...)
				next = append(next, cube)
				if len(next) > cap {
					return nil, false
				}
			}
		}
		out = next
	}
	return out, true
}

func litFormula(l qlit) *Formula {
	if l.neg {
		return Not(l.f)
	}
	return l.f
}

// qResult: the last (boolean) result of fn, called in context ctx (parameters and captured
// variables bound), as a formula with ∃ atoms. ok is false when fn is not read as a search.
func (ck *Check) qResult(ctx *Ctx, fn *ssa.Function, depth int) (*Formula, bool) {
	if fn == nil || fn.Blocks == nil || depth > 5 {
		return nil, false
	}
	res := fn.Signature.Results()
	if res.Len() == 0 || !isBool(res.At(res.Len()-1).Type()) {
		return nil, false
	}
	last := res.Len() - 1
	loops := loopsOf(fn)
	if len(loops) == 0 {
		return ck.qExpand(ctx, ctx.returnFormula(last), depth), true
	}
	// shape
	for _, l := range loops {
		if l.IdxPhi == nil || l.Over == nil {
			return nil, false
		}
		for _, in := range l.Header.Instrs {
			if ph, ok := in.(*ssa.Phi); ok && ph != l.IdxPhi {
				return nil, false // loop-carried state
			}
		}
		for _, e := range l.Exits {
			if l.exhaustionExit(e[0]) {
				continue
			}
			r, ok := e[1].Instrs[len(e[1].Instrs)-1].(*ssa.Return)
			if !ok {
				return nil, false
			}
			k, ok := r.Results[last].(*ssa.Const)
			if !ok || k.Value == nil || k.Value.String() != "true" {
				return nil, false
			}
		}
		for b := range l.Blocks {
			for _, in := range b.Instrs {
				switch x := in.(type) {
				case *ssa.Store:
					al, isAlloc := baseOfAddr(x.Addr).(*ssa.Alloc)
					if !isAlloc || !l.Blocks[al.Block()] {
						return nil, false
					}
				case *ssa.MapUpdate, *ssa.Send, *ssa.Defer, *ssa.Go, *ssa.Panic:
					return nil, false
				}
			}
		}
	}
	if !ck.P.readOnly(fn) {
		return nil, false
	}
	depthOf := func(l *Loop) int {
		n := 0
		for _, o := range loops {
			if o != l && o.Blocks[l.Header] {
				n++
			}
		}
		return n
	}
	order := append([]*Loop{}, loops...)
	sort.SliceStable(order, func(i, j int) bool { return depthOf(order[i]) > depthOf(order[j]) })
	// two loops over the same list would share one bound element
	seenOver := map[string]bool{}
	for _, l := range loops {
		k := ctx.Term(l.Over).Key()
		if seenOver[k] {
			return nil, false
		}
		seenOver[k] = true
	}
	var alts []*Formula
	for _, b := range fn.Blocks {
		r, ok := b.Instrs[len(b.Instrs)-1].(*ssa.Return)
		if !ok || b == fn.Recover {
			continue
		}
		f := ctx.BlockPC(b)
		if k, isConst := r.Results[last].(*ssa.Const); isConst && k.Value != nil {
			if k.Value.String() != "true" {
				continue
			}
		} else {
			f = And(f, ctx.Formula(r.Results[last]))
		}
		f = ck.qExpand(ctx, f, depth)
		for _, l := range order {
			over := ctx.Term(l.Over)
			lid := "L" + ctx.instrID(l.IdxPhi)
			isElem := func(t *Term) bool {
				return t.Kind == "elem" && t.ID == lid && len(t.Args) == 1 && t.Args[0].Key() == over.Key()
			}
			rangeAtoms := map[string]bool{}
			for _, s := range l.Header.Succs {
				if l.Blocks[s] {
					for _, at := range ctx.edgeCond(l.Header, s).Atoms() {
						rangeAtoms[at.Key()] = true
					}
				}
			}
			speaks := qMentions(f, isElem)
			for _, at := range f.Atoms() {
				if rangeAtoms[at.Key()] {
					speaks = true
				}
			}
			if !speaks {
				continue
			}
			f = f.Subst(func(t *Term) *Formula {
				if rangeAtoms[t.Key()] {
					return FTrue
				}
				return nil
			})
			cubes, ok := dnf(f, false)
			if !ok {
				return nil, false
			}
			be := boundElem(over)
			var ds []*Formula
			for _, cube := range cubes {
				var in, out []*Formula
				for _, lit := range cube {
					lf := litFormula(lit)
					if qMentions(lit.f, isElem) {
						in = append(in, qRewriteF(lf, func(t *Term) *Term {
							if isElem(t) {
								return be
							}
							return nil
						}))
					} else {
						out = append(out, lf)
					}
				}
				ds = append(ds, And(append(out, mkExists(over, And(in...)))...))
			}
			f = Or(ds...)
		}
		alts = append(alts, f)
	}
	return Or(alts...), true
}

// qExpand replaces the atoms of f that are calls of search functions by their quantified reading.
func (ck *Check) qExpand(ctx *Ctx, f *Formula, depth int) *Formula {
	if depth > 5 {
		return f
	}
	return f.Subst(func(t *Term) *Formula {
		if t.Kind != "call" || t.Fn == nil {
			return nil
		}
		h := t.Fn
		if pkgPathOfFn(h) == "slices" && len(t.Args) == 2 {
			list := t.Args[0]
			be := boundElem(list)
			switch {
			case strings.HasPrefix(h.Name(), "ContainsFunc"):
				if body := ck.qPredicate(ctx, t.Args[1], be, depth+1); body != nil {
					return mkExists(list, body)
				}
			case strings.HasPrefix(h.Name(), "Contains"):
				return mkExists(list, cmpFormula(token.EQL, be, t.Args[1]))
			}
			return nil
		}
		if !ck.P.inRepo(h) || h.Blocks == nil || !infoOf(h).hasLoop || h.Signature.Results().Len() != 1 {
			return nil
		}
		if r, ok := ck.qResult(ctx.childTermQ(t), h, depth+1); ok {
			return r
		}
		return nil
	})
}

// childTermQ: the context of the call term t with a fresh inlining budget.
func (c *Ctx) childTermQ(t *Term) *Ctx {
	ch := c.childTerm(t)
	ch.depth = 0
	return ch
}

// qPredicate: the boolean result of applying the function value p (a term) to elem.
func (ck *Check) qPredicate(ctx *Ctx, p *Term, elem *Term, depth int) *Formula {
	switch p.Kind {
	case "closure":
		mc, ok := p.Val.(*ssa.MakeClosure)
		if !ok || p.C == nil {
			return nil
		}
		cf, _ := mc.Fn.(*ssa.Function)
		ch := p.C.closureCtx(mc, mc, []*Term{elem})
		if ch == nil {
			return nil
		}
		ch.depth = 0
		if r, ok := ck.qResult(ch, cf, depth); ok {
			return r
		}
	case "call":
		// a predicate factory: h(args) returns a closure over its parameters
		h := p.Fn
		if h == nil || !ck.P.inRepo(h) || h.Blocks == nil || len(h.Blocks) != 1 {
			return nil
		}
		r, ok := h.Blocks[0].Instrs[len(h.Blocks[0].Instrs)-1].(*ssa.Return)
		if !ok || len(r.Results) != 1 {
			return nil
		}
		mc, ok := r.Results[0].(*ssa.MakeClosure)
		if !ok {
			return nil
		}
		hc := ctx.childTermQ(p)
		ch := hc.closureCtx(mc, mc, []*Term{elem})
		if ch == nil {
			return nil
		}
		ch.depth = 0
		cf, _ := mc.Fn.(*ssa.Function)
		if r, ok := ck.qResult(ch, cf, depth); ok {
			return r
		}
	case "func":
		if p.Fn != nil && ck.P.inRepo(p.Fn) && p.Fn.Blocks != nil && len(p.Fn.Params) == 1 {
			call := &Term{Kind: "call", Name: funcID(p.Fn), Fn: p.Fn, Obj: p.Fn.Object(), Args: []*Term{elem}}
			if r, ok := ck.qResult(ctx.childTermQ(call), p.Fn, depth); ok {
				return r
			}
		}
	}
	return nil
}

// builtFilter: the predicate a filter constructor returns — `func NewX(k, v string) FilterFunc`
// returning a closure or a bound method value — read in the constructor's vocabulary: the result
// formula, the term standing for the filtered object, and the constructor's parameters.
type builtFilter struct {
	Got    *Formula
	Obj    *Term
	Params []*Term
	Fn     *ssa.Function // the closure / bound-method wrapper
	Ctx    *Ctx
}

func (ck *Check) builtFilterOf(cons *ssa.Function) (*builtFilter, string) {
	if cons == nil || cons.Blocks == nil {
		return nil, "constructor not found"
	}
	ctx := ck.P.NewCtx(cons)
	var mc *ssa.MakeClosure
	for _, b := range cons.Blocks {
		r, ok := b.Instrs[len(b.Instrs)-1].(*ssa.Return)
		if !ok || len(r.Results) != 1 {
			continue
		}
		v := r.Results[0]
		for {
			if ct, ok := v.(*ssa.ChangeType); ok {
				v = ct.X
				continue
			}
			break
		}
		m, ok := v.(*ssa.MakeClosure)
		if !ok {
			return nil, "the constructor returns something other than a closure or a method value: " + v.String()
		}
		if mc != nil && mc != m {
			return nil, "the constructor returns several different closures"
		}
		mc = m
	}
	if mc == nil {
		return nil, "no returned closure"
	}
	cf, _ := mc.Fn.(*ssa.Function)
	if cf == nil || len(cf.Params) != 1 {
		return nil, "the returned function does not take exactly one object"
	}
	obj := paramTerm(cf.Params[0])
	ch := ctx.closureCtx(mc, mc, []*Term{obj})
	if ch == nil {
		return nil, "a captured variable of the returned closure is written after its construction"
	}
	ch.depth = 0
	got, ok := ck.qResult(ch, cf, 0)
	if !ok {
		return nil, "the returned function is not a search (loop-carried state, or a loop left other than by `return true`)"
	}
	bf := &builtFilter{Got: got, Obj: obj, Fn: cf, Ctx: ch}
	for _, p := range cons.Params {
		bf.Params = append(bf.Params, paramTerm(p))
	}
	return bf, ""
}

// ---- index searches ---------------------------------------------------------------------------

// idxSum: h returns the index of the first element e of List (a term over h's parameters) with
// e.Field == Lit, and a negative constant when there is none. So r ≥ 0 ⇒ r < len(List) ∧
// List[r].Field == Lit, and r < 0 ⇔ no element matches.
type idxSum struct {
	Fn    *ssa.Function
	List  *Term
	Field string
	Lit   *Term
}

var idxSumCache = map[*ssa.Function]*idxSum{}

// indexSearchSummary recognises a hand-written index search: one slice range / counted loop, left
// early only to return the loop index under exactly `elem.Field == Lit`; every other return a
// negative constant, outside the loop.
func indexSearchSummary(p *Prog, h *ssa.Function) *idxSum {
	if h == nil || h.Blocks == nil || !p.inRepo(h) {
		return nil
	}
	if s, ok := idxSumCache[h]; ok {
		return s
	}
	idxSumCache[h] = nil
	res := h.Signature.Results()
	if res.Len() != 1 || !isInteger(res.At(0).Type()) || !p.readOnly(h) {
		return nil
	}
	var loop *Loop
	for _, l := range loopsOf(h) {
		if l.IdxPhi == nil || loop != nil {
			return nil
		}
		loop = l
	}
	if loop == nil {
		return nil
	}
	ctx := p.NewCtx(h)
	ctx.maxD = 0
	sum := &idxSum{Fn: h, List: ctx.Term(loop.Over)}
	hits := 0
	for _, b := range h.Blocks {
		r, ok := b.Instrs[len(b.Instrs)-1].(*ssa.Return)
		if !ok {
			continue
		}
		v := r.Results[0]
		if k, isC := v.(*ssa.Const); isC {
			if k.Value == nil || k.Int64() >= 0 || innermostLoop(h, b) != nil {
				return nil
			}
			continue
		}
		if !(v == loop.Idx || rangeLoopOf(v) == loop.IdxPhi) {
			return nil
		}
		hits++
		pc := ctx.BlockPC(b)
		var m *Term
		for _, at := range pc.Atoms() {
			switch {
			case at.Kind == "cmp" && at.Name == "<" && (strings.Contains(at.String(), "rangeindex") || at.Args[1].Kind == "len"):
			case at.Kind == "cmp" && at.Name == "==" && m == nil:
				m = at
			default:
				return nil
			}
		}
		if m == nil {
			return nil
		}
		if imp, _, _ := Entails(pc, Atom(m)); !imp {
			return nil
		}
		var lit *Term
		fname, hit := "", false
		for i, x := range m.Args {
			if x.Kind == "field" && isElemOf(x.Args[0], func(t *Term) bool { return t.Key() == sum.List.Key() }) {
				fname, lit, hit = x.Name, m.Args[1-i], true
			}
		}
		if !hit || !(lit.Kind == "const" || lit.Kind == "param") {
			return nil
		}
		if sum.Lit != nil && (sum.Lit.Key() != lit.Key() || sum.Field != fname) {
			return nil
		}
		sum.Field, sum.Lit = fname, lit
	}
	if hits == 0 {
		return nil
	}
	for _, e := range loop.Exits {
		if loop.exhaustionExit(e[0]) {
			continue
		}
		r, ok := e[1].Instrs[len(e[1].Instrs)-1].(*ssa.Return)
		if !ok {
			return nil
		}
		if _, isC := r.Results[0].(*ssa.Const); isC {
			return nil
		}
	}
	idxSumCache[h] = sum
	return sum
}

var tupleIdxCache = map[*ssa.Function]int{}

// tupleIndexSearch recognises `func indexOf(list []T, …) (int, bool)`: one range loop over a slice
// parameter, every return inside it hands out (the loop index, true), every return outside it
// (a negative constant, false). It returns the position of the list parameter, or −1.
func tupleIndexSearch(p *Prog, h *ssa.Function) int {
	if h == nil || h.Blocks == nil || !p.inRepo(h) {
		return -1
	}
	if v, ok := tupleIdxCache[h]; ok {
		return v
	}
	tupleIdxCache[h] = -1
	res := h.Signature.Results()
	if res.Len() != 2 || !isInteger(res.At(0).Type()) || !isBool(res.At(1).Type()) || !p.readOnly(h) {
		return -1
	}
	var loop *Loop
	for _, l := range loopsOf(h) {
		if l.IdxPhi == nil || loop != nil {
			return -1
		}
		loop = l
	}
	if loop == nil {
		return -1
	}
	listIdx := -1
	for i, prm := range h.Params {
		if loop.Over == ssa.Value(prm) {
			listIdx = i
		}
	}
	if listIdx < 0 {
		return -1
	}
	hits := 0
	for _, b := range h.Blocks {
		r, ok := b.Instrs[len(b.Instrs)-1].(*ssa.Return)
		if !ok {
			continue
		}
		kb, isB := r.Results[1].(*ssa.Const)
		if !isB || kb.Value == nil {
			return -1
		}
		found := kb.Value.String() == "true"
		if ki, isC := r.Results[0].(*ssa.Const); isC {
			if found || ki.Value == nil || ki.Int64() >= 0 || loop.Blocks[b] {
				return -1
			}
			continue
		}
		if !found || !(r.Results[0] == loop.Idx || rangeLoopOf(r.Results[0]) == loop.IdxPhi) {
			return -1
		}
		hits++
	}
	if hits == 0 {
		return -1
	}
	tupleIdxCache[h] = listIdx
	return listIdx
}

// bound: the summary's list and literal with h's parameters replaced by the call's arguments.
func (s *idxSum) bound(args []*Term) (*Term, *Term) {
	bind := map[ssa.Value]*Term{}
	for i, p := range s.Fn.Params {
		if i < len(args) {
			bind[p] = args[i]
		}
	}
	return s.List.subst(bind), s.Lit.subst(bind)
}
