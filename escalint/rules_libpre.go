package main

// rules_libpre.go — C20.R7 / C20.R8: run-time preconditions of allocation and of library calls
// made on scan paths. These are panics (or fatal errors) that no index / nil rule sees:
//
//	R7  make([]T, len, cap): 0 ≤ size, and size is bounded above by quantities the process already
//	    holds (lengths of live collections, configured options, constants). A size computed from
//	    listed objects' contents (e.g. the scale-up delta, which grows with pod requests) makes
//	    runtime.makeslice panic ("cap out of range") or the process die of memory exhaustion.
//	R8  library preconditions, enumerated from the external callees of scan-reachable code:
//	    (*prometheus.XVec).WithLabelValues — as many values as the vector has label names;
//	    prometheus Counter.Add — non-negative argument; time.NewTicker — positive duration;
//	    sync (RW)Mutex — every Lock is followed by the deferred matching Unlock on the same mutex.

import (
	"fmt"
	"go/ast"
	"go/constant"
	"go/token"
	"go/types"
	"sort"
	"strings"

	"golang.org/x/tools/go/ssa"
)

// heldQuantity: a variable of a linear form that is bounded by what the process already holds.
func (ck *Check) heldQuantity(t *Term) bool {
	if t == nil {
		return false
	}
	switch t.Kind {
	case "len", "cap":
		return true
	case "field":
		v, ok := t.Obj.(*types.Var)
		if !ok {
			return false
		}
		for _, n := range []*types.Named{ck.A.TOptions, ck.A.TOpts, ck.A.TAWSOptions} {
			if n == nil {
				continue
			}
			if st, ok := n.Underlying().(*types.Struct); ok {
				for i := 0; i < st.NumFields(); i++ {
					if st.Field(i) == v {
						return true
					}
				}
			}
		}
	}
	return false
}

type liftFrame struct {
	fn   *ssa.Function
	call ssa.CallInstruction // call in the previous (outer) frame that enters fn; nil for the outermost
}

// chainCtx builds the nested contexts for a call chain (outermost first) and returns the innermost
// context together with the conjunction of the call sites' path conditions.
func (ck *Check) chainCtx(chain []liftFrame) (*Ctx, *Formula) {
	ctx := ck.P.NewCtx(chain[0].fn)
	pc := FTrue
	for i := 1; i < len(chain); i++ {
		ci := chain[i].call
		pc = And(pc, ctx.PC(ci))
		var args []*Term
		for _, a := range ci.Common().Args {
			args = append(args, ctx.Term(a))
		}
		ctx = ctx.child(chain[i].fn, ci, args)
		ctx.depth = 0 // caller frames are not inlining depth
	}
	return ctx, pc
}

// liftedEntails proves facts(ctx) at instruction in of fn, lifting through static callers (up to
// three frames) when fn's own path condition does not suffice. Returns the failure text of the
// outermost attempt.
func (ck *Check) liftedEntails(fn *ssa.Function, in ssa.Instruction, mk func(ctx *Ctx) []LinFact) (bool, string, int) {
	var try func(chain []liftFrame) (bool, string, int)
	try = func(chain []liftFrame) (bool, string, int) {
		ctx, pc := ck.chainCtx(chain)
		okv, why, err := ctx.EntailsLinear(And(pc, ctx.PC(in)), mk(ctx))
		if err != nil {
			why = err.Error()
		}
		if okv && err == nil {
			return true, "", len(chain) - 1
		}
		if len(chain) > 5 {
			return false, why, len(chain) - 1
		}
		outer := chain[0].fn
		callers := ck.P.callers[outer]
		if len(callers) == 0 {
			return false, why, len(chain) - 1
		}
		n := 0
		seen := map[*ssa.Function]bool{}
		for _, cf := range callers {
			if seen[cf] || cf.Blocks == nil || !ck.P.inRepo(cf) {
				continue
			}
			seen[cf] = true
			sites := callsTo(cf, outer)
			if len(sites) == 0 {
				// reached dynamically (interface / closure): arguments cannot be bound
				return false, why + " (and " + funcID(outer) + " is also entered dynamically from " + funcID(cf) + ")", len(chain) - 1
			}
			for _, ci := range sites {
				n++
				nc := append([]liftFrame{{fn: cf}, {fn: outer, call: ci}}, chain[1:]...)
				if okv, w, d := try(nc); !okv {
					return false, w + " [via " + funcID(cf) + " → " + funcID(outer) + "]", d
				}
			}
		}
		if n == 0 {
			return false, why, len(chain) - 1
		}
		return true, "", len(chain)
	}
	return try([]liftFrame{{fn: fn}})
}

// sizeFromLengths: v is built from non-negative constants and lengths of live collections with + and
// × (merges included); a loop-carried value only as a running sum. Such a size is never negative and
// is bounded by a polynomial in quantities the process already holds.
func (ck *Check) sizeFromLengths(v ssa.Value, seen map[ssa.Value]bool, underMul bool, depth int) bool {
	if depth > 8 {
		return false
	}
	switch x := v.(type) {
	case *ssa.Const:
		return x.Value != nil && x.Value.Kind() == constant.Int && constant.Sign(x.Value) >= 0
	case *ssa.Convert:
		return isInteger(x.Type()) && isInteger(x.X.Type()) && ck.sizeFromLengths(x.X, seen, underMul, depth+1)
	case *ssa.Call:
		if b, ok := x.Common().Value.(*ssa.Builtin); ok && (b.Name() == "len" || b.Name() == "cap") {
			return true
		}
		return false
	case *ssa.BinOp:
		switch x.Op {
		case token.ADD:
			return ck.sizeFromLengths(x.X, seen, underMul, depth+1) && ck.sizeFromLengths(x.Y, seen, underMul, depth+1)
		case token.MUL:
			return ck.sizeFromLengths(x.X, seen, true, depth+1) && ck.sizeFromLengths(x.Y, seen, true, depth+1)
		}
		return false
	case *ssa.Phi:
		if seen[v] {
			return !underMul // a running sum, not a running product
		}
		seen[v] = true
		defer delete(seen, v)
		for _, e := range x.Edges {
			if !ck.sizeFromLengths(e, seen, underMul, depth+1) {
				return false
			}
		}
		return true
	}
	return false
}

func (ck *Check) allocationBounds(rule string, fns []*ssa.Function) {
	n, nonConst := 0, 0
	for _, fn := range fns {
		ord := 0
		for _, b := range fn.Blocks {
			for _, in := range b.Instrs {
				ms, ok := in.(*ssa.MakeSlice)
				if !ok {
					continue
				}
				n++
				for wi, sz := range []ssa.Value{ms.Len, ms.Cap} {
					what := []string{"len", "cap"}[wi]
					if k, ok := sz.(*ssa.Const); ok && k.Value != nil && constant.Sign(k.Value) >= 0 {
						continue
					}
					if wi == 1 && ms.Cap == ms.Len {
						continue
					}
					nonConst++
					key := fmt.Sprintf("%s/make#%d/%s", funcID(fn), ord, what)
					szv := sz
					if ck.sizeFromLengths(sz, map[ssa.Value]bool{}, false, 0) {
						ck.ok(rule, key, ck.P.instrPos(ms), funcID(fn), "make: 0 ≤ "+what+" ≤ bound over held quantities", ck.P.NewCtx(fn).Term(sz).String()+" (sums and products of lengths of live collections and non-negative constants)")
						continue
					}
					okLow, whyLow, d1 := ck.liftedEntails(fn, ms, func(ctx *Ctx) []LinFact {
						return []LinFact{{A: zeroTerm(szv.Type()), B: ctx.Term(szv), K: 0, Text: "0 ≤ " + what}}
					})
					okUp, whyUp, d2 := ck.liftedEntails(fn, ms, func(ctx *Ctx) []LinFact {
						return []LinFact{{A: ctx.Term(szv), Text: what + " ≤ a bound over held quantities", Held: ck.heldQuantity}}
					})
					st := ck.P.NewCtx(fn).Term(sz).String()
					switch {
					case !okLow:
						ck.fail(rule, key, ck.P.instrPos(ms), funcID(fn), "make: 0 ≤ "+what+" on every path (through up to five caller frames)", st, "a negative size panics in runtime.makeslice: "+whyLow)
					case !okUp:
						ck.fail(rule, key, ck.P.instrPos(ms), funcID(fn), "make: "+what+" is bounded by lengths of live collections, configured options and constants", st,
							"the size follows a quantity computed from listed objects (unbounded): makeslice panics with 'cap out of range' or the process runs out of memory: "+whyUp)
					default:
						ck.ok(rule, key, ck.P.instrPos(ms), funcID(fn), "make: 0 ≤ "+what+" ≤ bound over held quantities", fmt.Sprintf("%s (lower bound at caller depth %d, upper bound at depth %d)", st, d1, d2))
					}
				}
				ord++
			}
		}
	}
	ck.Stats[rule+" make sites"] = n
	ck.Stats[rule+" make sizes examined"] = nonConst
	ck.floor(rule, "make([]T, …) sites on scan paths", n, 4)
}

// ---- R8 ---------------------------------------------------------------------------------------

// nonNegative: sound sign analysis (modulo overflow) for integer / float values.
func (ck *Check) nonNegative(v ssa.Value, seen map[ssa.Value]bool, depth int) bool {
	if seen[v] {
		return true // coinductive: loop-carried φ
	}
	if depth > 6 {
		return false
	}
	seen[v] = true
	defer delete(seen, v)
	switch x := v.(type) {
	case *ssa.Const:
		return x.Value != nil && constant.Sign(x.Value) >= 0
	case *ssa.Convert:
		return isNumeric(x.X.Type()) && ck.nonNegative(x.X, seen, depth)
	case *ssa.ChangeType:
		return ck.nonNegative(x.X, seen, depth)
	case *ssa.Phi:
		if countDownFromLen(x) {
			return true
		}
		for _, e := range x.Edges {
			if !ck.nonNegative(e, seen, depth) {
				return false
			}
		}
		return true
	case *ssa.BinOp:
		switch x.Op {
		case token.ADD, token.MUL:
			return ck.nonNegative(x.X, seen, depth) && ck.nonNegative(x.Y, seen, depth)
		}
		return false
	case *ssa.Extract:
		if c, ok := x.Tuple.(*ssa.Call); ok {
			return ck.resultNonNegative(c, x.Index, seen, depth)
		}
	case *ssa.Call:
		return ck.resultNonNegative(x, 0, seen, depth)
	case *ssa.Parameter:
		// a parameter of an unexported repo function that is only called statically: non-negative
		// when every call site's argument is (a metric accessor `recordPodsEvicted(n int)`)
		fn := x.Parent()
		if fn == nil || !ck.P.inRepo(fn) || fn.Object() == nil || fn.Object().Exported() || fn.Signature.Recv() != nil {
			return false
		}
		idx := -1
		for i, p := range fn.Params {
			if p == x {
				idx = i
			}
		}
		sites := ck.P.staticSitesOf(fn)
		if idx < 0 || len(sites) == 0 {
			return false
		}
		for _, g := range ck.P.addressTaken() {
			if g == fn {
				return false
			}
		}
		for _, ci := range sites {
			if idx >= len(ci.Common().Args) || !ck.nonNegative(ci.Common().Args[idx], seen, depth+1) {
				return false
			}
		}
		return true
	case *ssa.Field:
		// a field of a structure value (the count of a result structure)
		return ck.structFieldNonNeg(x.X, x.Field, seen, depth)
	case *ssa.UnOp:
		if x.Op == token.MUL {
			if fa, ok := x.X.(*ssa.FieldAddr); ok {
				if al, ok := fa.X.(*ssa.Alloc); ok {
					return ck.allocFieldNonNeg(al, fa.Field, seen, depth)
				}
			}
		}
	}
	return false
}

// allocField keys the coinductive hypothesis "field f of local al is non-negative".
type allocField struct {
	ssa.Value
	f int
}

// structFieldNonNeg: field f of the structure value v is non-negative: v is the zero value, the
// content of a local all of whose writes to f are non-negative, or what repo functions return.
func (ck *Check) structFieldNonNeg(v ssa.Value, f int, seen map[ssa.Value]bool, depth int) bool {
	if depth > 6 {
		return false
	}
	switch x := v.(type) {
	case *ssa.Const:
		return x.Value == nil // the zero structure
	case *ssa.UnOp:
		if al, ok := x.X.(*ssa.Alloc); ok && x.Op == token.MUL {
			return ck.allocFieldNonNeg(al, f, seen, depth)
		}
	case *ssa.Phi:
		for _, e := range x.Edges {
			if !ck.structFieldNonNeg(e, f, seen, depth+1) {
				return false
			}
		}
		return true
	case *ssa.Call, *ssa.Extract:
		idx := 0
		c, _ := x.(*ssa.Call)
		if ex, ok := x.(*ssa.Extract); ok {
			c, _ = ex.Tuple.(*ssa.Call)
			idx = ex.Index
		}
		if c == nil {
			return false
		}
		g := c.Call.StaticCallee()
		if g == nil || g.Blocks == nil || !ck.P.inRepo(g) {
			return false
		}
		found := false
		for _, b := range g.Blocks {
			r, ok := b.Instrs[len(b.Instrs)-1].(*ssa.Return)
			if !ok || idx >= len(r.Results) {
				continue
			}
			found = true
			if !ck.structFieldNonNeg(r.Results[idx], f, seen, depth+1) {
				return false
			}
		}
		return found
	}
	return false
}

// allocFieldNonNeg: every value ever stored into field f of the local al is non-negative (the
// zero value it starts with included), and the field's address goes nowhere else.
func (ck *Check) allocFieldNonNeg(al *ssa.Alloc, f int, seen map[ssa.Value]bool, depth int) bool {
	key := allocField{al, f}
	if seen[key] {
		return true // coinductive: count = count + 1
	}
	if depth > 6 || al.Referrers() == nil {
		return false
	}
	seen[key] = true
	defer delete(seen, key)
	for _, r := range *al.Referrers() {
		switch x := r.(type) {
		case *ssa.DebugRef:
		case *ssa.UnOp:
			if x.Op != token.MUL {
				return false
			}
		case *ssa.Store:
			if x.Addr != ssa.Value(al) || !ck.structFieldNonNeg(x.Val, f, seen, depth+1) {
				return false
			}
		case *ssa.FieldAddr:
			if x.Field != f {
				continue
			}
			for _, rr := range *x.Referrers() {
				switch y := rr.(type) {
				case *ssa.DebugRef:
				case *ssa.UnOp:
					if y.Op != token.MUL {
						return false
					}
				case *ssa.Store:
					if y.Addr != ssa.Value(x) || !ck.nonNegative(y.Val, seen, depth+1) {
						return false
					}
				default:
					return false
				}
			}
		default:
			return false
		}
	}
	return true
}

func (ck *Check) resultNonNegative(c *ssa.Call, idx int, seen map[ssa.Value]bool, depth int) bool {
	if b, ok := c.Call.Value.(*ssa.Builtin); ok {
		return b.Name() == "len" || b.Name() == "cap"
	}
	// the callee, or — for a call of a function value — every function the value can be
	fs := []*ssa.Function{c.Call.StaticCallee()}
	if fs[0] == nil {
		fs = ck.P.calleesOf(c)
		if len(fs) == 0 {
			return false
		}
	}
	found := false
	for _, f := range fs {
		if f == nil || f.Blocks == nil || !ck.P.inRepo(f) {
			return false
		}
		for _, b := range f.Blocks {
			r, ok := b.Instrs[len(b.Instrs)-1].(*ssa.Return)
			if !ok || idx >= len(r.Results) {
				continue
			}
			found = true
			if !ck.nonNegative(r.Results[idx], seen, depth+1) {
				return false
			}
		}
	}
	return found
}

// metricLabelCount: the number of label names the vector behind a package-level metric variable
// was created with (second argument of prometheus.New*Vec), from the declaration's syntax.
func (ck *Check) metricLabelCount(g *ssa.Global) (int, string) {
	obj, ok := g.Object().(*types.Var)
	if !ok {
		return -1, "not a package-level variable"
	}
	for _, pkg := range ck.P.Pkgs {
		if pkg.Types != obj.Pkg() {
			continue
		}
		for _, file := range pkg.Syntax {
			for _, d := range file.Decls {
				gd, ok := d.(*ast.GenDecl)
				if !ok || gd.Tok != token.VAR {
					continue
				}
				for _, sp := range gd.Specs {
					vs := sp.(*ast.ValueSpec)
					for i, nm := range vs.Names {
						if pkg.TypesInfo.Defs[nm] != obj || i >= len(vs.Values) {
							continue
						}
						call, ok := vs.Values[i].(*ast.CallExpr)
						if !ok || len(call.Args) != 2 {
							return -1, "initialiser is not a New*Vec(opts, labels) call"
						}
						lit, ok := call.Args[1].(*ast.CompositeLit)
						if !ok {
							return -1, "label names are not a slice literal"
						}
						return len(lit.Elts), ""
					}
				}
			}
		}
	}
	return -1, "declaration not found"
}

func variadicCount(v ssa.Value) (int, bool) {
	switch x := v.(type) {
	case *ssa.Const:
		if x.Value == nil {
			return 0, true // nil slice: no values
		}
	case *ssa.Slice:
		if a, ok := x.X.(*ssa.Alloc); ok && x.Low == nil && x.High == nil {
			if arr, ok := a.Type().(*types.Pointer).Elem().Underlying().(*types.Array); ok {
				return int(arr.Len()), true
			}
		}
	}
	return 0, false
}

func (ck *Check) libraryPreconditions(rule string, fns []*ssa.Function) {
	counts := map[string]int{}
	for _, fn := range fns {
		ord := map[string]int{}
		mk := func(kind string) string {
			ord[kind]++
			return fmt.Sprintf("%s/%s#%d", funcID(fn), kind, ord[kind]-1)
		}
		for _, b := range fn.Blocks {
			for ii, in := range b.Instrs {
				ci, ok := in.(ssa.CallInstruction)
				if !ok {
					continue
				}
				cc := ci.Common()
				pos := ck.P.instrPos(in)
				if cc.IsInvoke() {
					recv := cc.Value.Type().String()
					if strings.HasSuffix(recv, "prometheus.Counter") && cc.Method.Name() == "Add" && len(cc.Args) == 1 {
						counts["counter-add"]++
						ck.cond(ck.nonNegative(cc.Args[0], map[ssa.Value]bool{}, 0), rule, mk("counter-add"), pos, funcID(fn),
							"Counter.Add is given a non-negative value (constants, lengths, sums and products of such, results of repo helpers that return only such)", cc.Args[0].String(),
							"prometheus counters panic on a negative increment")
					}
					continue
				}
				f := cc.StaticCallee()
				if f == nil {
					continue
				}
				full := f.String()
				switch {
				case strings.HasSuffix(full, "Vec).WithLabelValues") && strings.Contains(full, "prometheus."):
					counts["label-arity"]++
					key := mk("label-arity")
					// the package-level vectors the receiver can be: directly, or through a parameter, a
					// captured variable, a table of vectors
					gs, whyG := ck.vectorOrigins(fn, cc.Args[0], map[ssa.Value]bool{}, 0)
					if len(gs) == 0 && whyG == "" {
						whyG = "no origin found"
					}
					if whyG != "" {
						ck.undecided(rule, key, pos, funcID(fn), "WithLabelValues is called on a package-level metric vector", "receiver "+cc.Args[0].String()+": "+whyG)
						continue
					}
					got, okc := variadicCount(cc.Args[1])
					okAll, undec := true, ""
					var found []string
					for _, g := range gs {
						want, why := ck.metricLabelCount(g)
						if want < 0 || !okc {
							undec = g.Name() + ": " + why
							break
						}
						found = append(found, fmt.Sprintf("%s: %d label names, %d values", g.Name(), want, got))
						if want != got {
							okAll = false
						}
					}
					if undec != "" {
						ck.undecided(rule, key, pos, funcID(fn), "label names and label values can be counted", undec)
						continue
					}
					if len(found) > 4 {
						found = append(found[:4], fmt.Sprintf("… (%d vectors)", len(gs)))
					}
					ck.cond(okAll, rule, key, pos, funcID(fn), "WithLabelValues passes as many values as the vector has label names",
						strings.Join(found, "; "), "prometheus panics with 'inconsistent label cardinality' when the scan reaches this call")
				case (f.Name() == "As") && (pkgPathOfFn(f) == "errors" || pkgPathOfFn(f) == "github.com/pkg/errors") && len(cc.Args) == 2:
					// errors.As panics unless target is a non-nil pointer to an interface type or to a
					// type implementing error
					counts["errors-as"]++
					okT, got := false, cc.Args[1].String()
					if mi, isMI := cc.Args[1].(*ssa.MakeInterface); isMI {
						got = mi.X.Type().String()
						if pt, isPtr := mi.X.Type().Underlying().(*types.Pointer); isPtr {
							et := pt.Elem()
							if _, isIface := et.Underlying().(*types.Interface); isIface {
								okT = true
							} else if errT, _ := types.Universe.Lookup("error").Type().Underlying().(*types.Interface); errT != nil && types.Implements(et, errT) {
								okT = true
							}
						}
					}
					ck.cond(okT, rule, mk("errors-as"), pos, funcID(fn), "errors.As is given a pointer to an interface type or to a type that implements error", got, "errors.As panics (\"target must be interface or implement error\") as soon as the examined error is non-nil")
				case full == "time.NewTicker" || full == "time.Tick":
					counts["ticker"]++
					k, ok := cc.Args[0].(*ssa.Const)
					ck.cond(ok && k.Value != nil && constant.Sign(k.Value) > 0, rule, mk("ticker"), pos, funcID(fn), "time.NewTicker on scan paths is given a positive constant", cc.Args[0].String(), "a non-positive interval panics")
				case pkgPathOfFn(f) == "k8s.io/apimachinery/pkg/util/wait" && strings.HasPrefix(f.Name(), "Poll"):
					// wait.Poll and friends arm their timeout only when it is non-zero: a zero timeout
					// polls forever; the variants without a timeout do so by design
					counts["poll"]++
					idx := -1
					switch f.Name() {
					case "Poll", "PollImmediate":
						idx = 1
					case "PollWithContext", "PollImmediateWithContext", "PollUntilContextTimeout":
						idx = 2
					}
					key := mk("poll")
					if idx < 0 || idx >= len(cc.Args) {
						ck.fail(rule, key, pos, funcID(fn), "a poll on a scan path has a timeout", f.Name(), "the scan waits for as long as the condition stays false")
						break
					}
					tv := cc.Args[idx]
					okT := false
					if k, isC := tv.(*ssa.Const); isC && k.Value != nil && constant.Sign(k.Value) > 0 {
						okT = true
					} else if call, isCall := in.(*ssa.Call); isCall {
						okT, _, _ = ck.liftedEntails(fn, call, func(ctx *Ctx) []LinFact {
							return []LinFact{{A: zeroTerm(tv.Type()), B: ctx.Term(tv), K: 1, Text: "0 < timeout"}}
						})
					}
					ck.cond(okT, rule, key, pos, funcID(fn), "the timeout of a poll on a scan path is positive on every path (a zero timeout polls forever)", tv.String(),
						"with a timeout of 0 the poll never gives up: the scan does not return while the condition stays false")
				case full == "(*sync.RWMutex).Lock" || full == "(*sync.RWMutex).RLock" || full == "(*sync.Mutex).Lock":
					counts["mutex"]++
					want := map[string]string{"Lock": "Unlock", "RLock": "RUnlock"}[f.Name()]
					okp := false
					// the next call instruction of the block is `defer <same mutex>.<want>()`
					for _, nx := range b.Instrs[ii+1:] {
						if d, ok := nx.(*ssa.Defer); ok {
							if df := d.Call.StaticCallee(); df != nil && df.Name() == want && len(d.Call.Args) == 1 && sameAddr(d.Call.Args[0], cc.Args[0]) {
								okp = true
							}
							break
						}
						if _, ok := nx.(ssa.CallInstruction); ok {
							break
						}
						if _, ok := nx.(*ssa.Return); ok {
							break
						}
					}
					ck.cond(okp, rule, mk("mutex"), pos, funcID(fn), f.Name()+" is immediately followed by the deferred "+want+" of the same mutex", "", "a lock that is not released on some exit wedges every later scan")
				case full == "(*sync.RWMutex).Unlock" || full == "(*sync.RWMutex).RUnlock" || full == "(*sync.Mutex).Unlock":
					counts["unlock"]++
					_, isDefer := in.(*ssa.Defer)
					ck.cond(isDefer, rule, mk("unlock"), pos, funcID(fn), "mutexes are released only by the deferred call paired with their acquisition", "", "an unlock of an unlocked mutex is a fatal error")
				}
			}
		}
	}
	var parts []string
	for _, k := range sortedKeys(counts) {
		ck.Stats[rule+" sites:"+k] = counts[k]
		parts = append(parts, fmt.Sprintf("%s=%d", k, counts[k]))
	}
	sort.Strings(parts)
	ck.floor(rule, "WithLabelValues call sites on scan paths", counts["label-arity"], 10)
	ck.floor(rule, "mutex acquisitions on scan paths", counts["mutex"], 2)
}

// sameAddr: two SSA address values denote the same location (same value, or field addresses
// with the same field of the same base).
func sameAddr(a, b ssa.Value) bool {
	if a == b {
		return true
	}
	fa, ok1 := a.(*ssa.FieldAddr)
	fb, ok2 := b.(*ssa.FieldAddr)
	return ok1 && ok2 && fa.Field == fb.Field && sameAddr(fa.X, fb.X)
}

// countDownFromLen: ph is the header φ of a full range over X that starts at len(X) and loses at
// most one per iteration (every loop-carried input is ph or ph − 1, possibly through an inner φ):
// it never drops below 0.
func countDownFromLen(ph *ssa.Phi) bool {
	l := loopOfHeaderPhi(ph)
	if l == nil || l.IdxPhi == nil || !l.FullTraversal() || l.Over == nil {
		return false
	}
	okInit := false
	var step func(v ssa.Value, d int) bool
	step = func(v ssa.Value, d int) bool {
		if v == ssa.Value(ph) {
			return true
		}
		if d > 3 {
			return false
		}
		switch x := v.(type) {
		case *ssa.BinOp:
			k, ok := x.Y.(*ssa.Const)
			return ok && x.Op == token.SUB && k.Int64() == 1 && x.X == ssa.Value(ph)
		case *ssa.Phi:
			if l.Blocks[x.Block()] && x.Block() != l.Header {
				for _, e := range x.Edges {
					if !step(e, d+1) {
						return false
					}
				}
				return true
			}
		}
		return false
	}
	for i, e := range ph.Edges {
		pred := ph.Block().Preds[i]
		if !l.Blocks[pred] {
			lc, ok := isBuiltinCall(e, "len")
			if !ok || lc.Common().Args[0] != l.Over {
				return false
			}
			okInit = true
			continue
		}
		if !step(e, 0) {
			return false
		}
	}
	return okInit
}

// fallibleStores (C20.R9): a long-lived field of the controller or of a group's state that is
// overwritten with result 0 of a fallible call (a value paired with an error) must not keep the
// failed call's (nil) value beyond the scan: on every path from the store along which the error is
// non-nil the function reports the failure (returns a non-nil error) — or the store itself happens
// only under err == nil. Otherwise the next scan dereferences a nil provider / client.
func (ck *Check) fallibleStores(rule string, fns []*ssa.Function) {
	a := ck.A
	persistent := func(fa *ssa.FieldAddr) bool {
		st := derefStruct(fa.X.Type())
		if st == nil {
			return false
		}
		for _, n := range []*types.Named{a.TController, a.TState} {
			if n != nil && types.Identical(st, n.Underlying()) {
				return true
			}
		}
		return false
	}
	n := 0
	for _, fn := range fns {
		ctx := ck.P.NewCtx(fn)
		ord := 0
		for _, b := range fn.Blocks {
			for _, in := range b.Instrs {
				st, ok := in.(*ssa.Store)
				if !ok {
					continue
				}
				fa, ok := st.Addr.(*ssa.FieldAddr)
				if !ok || !persistent(fa) {
					continue
				}
				ex, ok := st.Val.(*ssa.Extract)
				if !ok || ex.Index != 0 {
					continue
				}
				call, ok := ex.Tuple.(*ssa.Call)
				if !ok {
					continue
				}
				tup, ok := call.Type().(*types.Tuple)
				if !ok || tup.Len() < 2 || !isErrorType(tup.At(tup.Len()-1).Type()) {
					continue
				}
				if _, isPtrLike := tup.At(0).Type().Underlying().(*types.Basic); isPtrLike {
					continue // a number: nothing to dereference
				}
				n++
				key := fmt.Sprintf("%s/fallible-store#%d:%s", funcID(fn), ord, fieldOfAddr(fa).Name())
				ord++
				ct := ctx.Term(call)
				errNil := cmpFormula(token.EQL, &Term{Kind: "extract", Name: fmt.Sprint(tup.Len() - 1), Args: []*Term{ct}}, &Term{Kind: "const", Name: "nil"})
				if imp, _, _ := Entails(ctx.PC(st), errNil); imp {
					ck.ok(rule, key, ck.P.instrPos(st), funcID(fn), "a fallible result is stored into long-lived state only when the call succeeded", "stored under err == nil")
					continue
				}
				// forward search along edges compatible with err != nil
				bad := ""
				seen := map[*ssa.BasicBlock]bool{}
				var walk func(blk *ssa.BasicBlock, from int)
				walk = func(blk *ssa.BasicBlock, from int) {
					for i := from; i < len(blk.Instrs); i++ {
						switch x := blk.Instrs[i].(type) {
						case *ssa.Store:
							if x != st && x.Addr == st.Addr {
								return // overwritten
							}
							if fa2, ok := x.Addr.(*ssa.FieldAddr); ok && x != st && fa2.Field == fa.Field && sameAddr(fa2.X, fa.X) {
								return
							}
						case *ssa.Return:
							reports := false
							for _, r := range x.Results {
								if isErrorType(r.Type()) {
									if k, ok := r.(*ssa.Const); !(ok && k.IsNil()) {
										reports = true
									}
								}
							}
							if !reports && bad == "" {
								bad = ck.P.instrPos(x)
							}
							return
						case *ssa.Call:
							if isExitCallee(x.Common().StaticCallee()) {
								return
							}
						}
					}
					for _, s := range blk.Succs {
						if seen[s] {
							continue
						}
						if sat, err := Satisfiable(And(ctx.edgeCond(blk, s), Not(errNil))); err == nil && !sat {
							continue
						}
						seen[s] = true
						walk(s, 0)
					}
				}
				pos := infoOf(fn).pos[st]
				walk(b, pos[1]+1)
				ck.cond(bad == "", rule, key, ck.P.instrPos(st), funcID(fn), "after a failed call whose result was stored into long-lived state the function reports the failure on every path", "",
					"the field keeps the failed call's nil result and the function returns normally at "+bad+": the next scan dereferences it")
			}
		}
	}
	ck.Stats[rule+" fallible stores into controller / group state"] = n
}

// vectorOrigins: the package-level variables a metric-vector value can have been loaded from. The
// value may be such a load, a φ of them, a parameter (then: the argument at every call of the
// function), a captured variable, or an element / field of a table filled from such loads (field
// stores are collected program-wide by field, element stores by backing array). A non-empty
// reason means the origin set is not known to be complete.
func (ck *Check) vectorOrigins(fn *ssa.Function, v ssa.Value, seen map[ssa.Value]bool, depth int) ([]*ssa.Global, string) {
	if seen[v] {
		return nil, ""
	}
	seen[v] = true
	if depth > 6 {
		return nil, "origin chain too deep"
	}
	var out []*ssa.Global
	add := func(gs []*ssa.Global, why string) string {
		for _, g := range gs {
			dup := false
			for _, o := range out {
				if o == g {
					dup = true
				}
			}
			if !dup {
				out = append(out, g)
			}
		}
		return why
	}
	storesInto := func(match func(addr ssa.Value) bool, fns []*ssa.Function) string {
		n := 0
		for _, f := range fns {
			for _, b := range f.Blocks {
				for _, in := range b.Instrs {
					if st, ok := in.(*ssa.Store); ok && match(st.Addr) {
						n++
						if why := add(ck.vectorOrigins(f, st.Val, seen, depth+1)); why != "" {
							return why
						}
					}
				}
			}
		}
		if n == 0 {
			return "no store into the table found"
		}
		return ""
	}
	switch x := v.(type) {
	case *ssa.UnOp:
		if x.Op != token.MUL {
			return nil, "unexpected operation " + x.String()
		}
		switch a := x.X.(type) {
		case *ssa.Global:
			return []*ssa.Global{a}, ""
		case *ssa.FieldAddr:
			f := fieldOfAddr(a)
			if why := storesInto(func(addr ssa.Value) bool { fa, ok := addr.(*ssa.FieldAddr); return ok && fieldOfAddr(fa) == f }, ck.P.Funcs); why != "" {
				return nil, why
			}
			return out, ""
		case *ssa.IndexAddr:
			base := a.X
			if sl, ok := base.(*ssa.Slice); ok {
				base = sl.X
			}
			if ld, ok := base.(*ssa.UnOp); ok && ld.Op == token.MUL {
				// a slice held in a local variable: the values stored into that variable
				if al, ok := ld.X.(*ssa.Alloc); ok {
					for _, r := range *al.Referrers() {
						if st, ok := r.(*ssa.Store); ok && st.Addr == ssa.Value(al) {
							if sl, ok := st.Val.(*ssa.Slice); ok {
								base = sl.X
							}
						}
					}
				}
			}
			al, ok := base.(*ssa.Alloc)
			if !ok {
				return nil, "element of a table that is not a local literal"
			}
			if why := storesInto(func(addr ssa.Value) bool { ia, ok := addr.(*ssa.IndexAddr); return ok && ia.X == ssa.Value(al) }, []*ssa.Function{fn}); why != "" {
				return nil, why
			}
			return out, ""
		case *ssa.Alloc:
			if why := storesInto(func(addr ssa.Value) bool { return addr == ssa.Value(a) }, append([]*ssa.Function{fn}, fn.AnonFuncs...)); why != "" {
				return nil, why
			}
			return out, ""
		case *ssa.FreeVar:
			return ck.freeVarOrigins(fn, a, true, seen, depth)
		}
		return nil, "load from " + x.X.String()
	case *ssa.Field:
		st, ok := x.X.Type().Underlying().(*types.Struct)
		if !ok {
			return nil, "field of a non-struct"
		}
		f := st.Field(x.Field)
		if why := storesInto(func(addr ssa.Value) bool { fa, ok := addr.(*ssa.FieldAddr); return ok && fieldOfAddr(fa) == f }, ck.P.Funcs); why != "" {
			return nil, why
		}
		return out, ""
	case *ssa.Phi:
		for _, e := range x.Edges {
			if why := add(ck.vectorOrigins(fn, e, seen, depth+1)); why != "" {
				return nil, why
			}
		}
		return out, ""
	case *ssa.FreeVar:
		return ck.freeVarOrigins(fn, x, false, seen, depth)
	case *ssa.Parameter:
		idx := -1
		for i, p := range fn.Params {
			if p == x {
				idx = i
			}
		}
		if idx < 0 {
			return nil, "parameter not found"
		}
		sites := 0
		scan := []*ssa.Function{}
		if fn.Parent() != nil {
			scan = append(scan, fn.Parent())
			scan = append(scan, fn.Parent().AnonFuncs...)
		} else {
			scan = ck.P.callers[fn]
		}
		for _, caller := range scan {
			for _, ci := range callsIn(caller, nil) {
				hit := false
				for _, g := range ck.P.calleesOf(ci) {
					if g == fn {
						hit = true
					}
				}
				if !hit {
					continue
				}
				args := ci.Common().Args
				off := 0
				if ci.Common().IsInvoke() {
					off = 1
				}
				if idx-off < 0 || idx-off >= len(args) {
					return nil, "argument not found at " + ck.P.instrPos(ci)
				}
				sites++
				if why := add(ck.vectorOrigins(caller, args[idx-off], seen, depth+1)); why != "" {
					return nil, why
				}
			}
		}
		if sites == 0 {
			return nil, "no call site of " + funcID(fn) + " resolved"
		}
		return out, ""
	}
	return nil, "unexpected value " + v.String()
}

// freeVarOrigins: the vectors behind a captured variable: the binding at the MakeClosure (a value,
// or — when loaded is set — the variable's cell, then every store into it).
func (ck *Check) freeVarOrigins(fn *ssa.Function, fv *ssa.FreeVar, loaded bool, seen map[ssa.Value]bool, depth int) ([]*ssa.Global, string) {
	parent := fn.Parent()
	if parent == nil {
		return nil, "captured variable without an enclosing function"
	}
	idx := -1
	for i, f := range fn.FreeVars {
		if f == fv {
			idx = i
		}
	}
	var out []*ssa.Global
	n := 0
	for _, b := range parent.Blocks {
		for _, in := range b.Instrs {
			mc, ok := in.(*ssa.MakeClosure)
			if !ok || mc.Fn != ssa.Value(fn) || idx < 0 || idx >= len(mc.Bindings) {
				continue
			}
			n++
			bd := mc.Bindings[idx]
			var gs []*ssa.Global
			var why string
			if loaded {
				al, ok := bd.(*ssa.Alloc)
				if !ok {
					return nil, "captured cell is not a local variable"
				}
				stores := 0
				for _, f := range append([]*ssa.Function{parent}, parent.AnonFuncs...) {
					for _, b2 := range f.Blocks {
						for _, in2 := range b2.Instrs {
							st, ok := in2.(*ssa.Store)
							if !ok {
								continue
							}
							if st.Addr == ssa.Value(al) {
								stores++
								g2, w2 := ck.vectorOrigins(f, st.Val, seen, depth+1)
								if w2 != "" {
									return nil, w2
								}
								gs = append(gs, g2...)
							}
						}
					}
				}
				if stores == 0 {
					why = "captured variable is never assigned"
				}
			} else {
				gs, why = ck.vectorOrigins(parent, bd, seen, depth+1)
			}
			if why != "" {
				return nil, why
			}
			out = append(out, gs...)
		}
	}
	if n == 0 {
		return nil, "closure construction not found"
	}
	return out, ""
}
