package main

// thorough.go — the thorough tier's extras: (1) whole-program VTA call graph cross-check of the
// quick tier's repo call graph, (2) checker self-validation against the mutant corpus.

import (
	"encoding/json"
	"flag"
	"fmt"
	"io"
	"io/fs"
	"os"
	"os/exec"
	"path/filepath"
	"sort"
	"strings"
	"sync"

	"golang.org/x/tools/go/callgraph/cha"
	"golang.org/x/tools/go/callgraph/vta"
	"golang.org/x/tools/go/packages"
	"golang.org/x/tools/go/ssa"
	"golang.org/x/tools/go/ssa/ssautil"
)

// ---- VTA cross-check --------------------------------------------------------------------------

type vtaResult struct {
	funcs, edges int
	missing      []string // repo→repo edges (possibly through library code) that VTA has and the quick graph lacks
	err          error
}

var vtaOnce sync.Once
var vtaRes vtaResult

// vtaCrossCheck loads the whole program (all dependencies from source), builds the VTA call
// graph, collapses paths through non-repo functions, and compares repo→repo successor sets with
// the quick tier's graph. The quick graph must over-approximate VTA.
func vtaCrossCheck(p *Prog) vtaResult {
	vtaOnce.Do(func() {
		env := append(os.Environ(), "GOWORK=off", "GOFLAGS=-mod=mod -trimpath", "GOPROXY=off", "GOSUMDB=off", "GOTOOLCHAIN=local")
		cfg := &packages.Config{Mode: packages.LoadAllSyntax, Dir: p.Dir, Tests: false, Env: env}
		pkgs, err := packages.Load(cfg, "./...")
		if err != nil {
			vtaRes.err = err
			return
		}
		if packages.PrintErrors(pkgs) > 0 {
			vtaRes.err = fmt.Errorf("type errors in whole-program load")
			return
		}
		prog, _ := ssautil.AllPackages(pkgs, ssa.InstantiateGenerics)
		prog.Build()
		all := ssautil.AllFunctions(prog)
		cg := vta.CallGraph(all, cha.CallGraph(prog))
		vtaRes.funcs = len(all)
		inRepo := func(f *ssa.Function) bool {
			for f != nil && f.Parent() != nil {
				f = f.Parent()
			}
			if f == nil {
				return false
			}
			var path string
			if f.Pkg != nil {
				path = f.Pkg.Pkg.Path()
			} else if o := f.Object(); o != nil && o.Pkg() != nil {
				path = o.Pkg().Path()
			}
			return p.Shipped[path] && f.Synthetic == ""
		}
		// direct repo→repo edges only. Paths through library code (sort.Sort → Less, fmt → String)
		// are context-insensitive in VTA and would conflate unrelated callers; the quick graph models
		// those callbacks from the dynamic type of the argument, which is more precise, so the two
		// over-approximations are only comparable on direct edges.
		succ := map[string]map[string]bool{}
		for f, node := range cg.Nodes {
			if f == nil || !inRepo(f) || f.Blocks == nil {
				continue
			}
			from := funcID(f)
			for _, e := range node.Out {
				vtaRes.edges++
				if e.Callee.Func != nil && inRepo(e.Callee.Func) && e.Callee.Func.Blocks != nil {
					if succ[from] == nil {
						succ[from] = map[string]bool{}
					}
					succ[from][funcID(e.Callee.Func)] = true
				}
			}
		}
		mine := map[string]map[string]bool{}
		for f, cs := range p.callees {
			m := map[string]bool{}
			for _, g := range cs {
				m[funcID(g)] = true
			}
			mine[funcID(f)] = m
		}
		for from, tos := range succ {
			for to := range tos {
				// String()/Error() methods reached through fmt / logging are not decision-relevant
				// callbacks; the quick graph does not model them
				if strings.HasSuffix(to, ").String") || strings.HasSuffix(to, ").Error") {
					continue
				}
				if strings.HasSuffix(to, ".init") || strings.HasSuffix(from, ".init") {
					continue
				}
				if !mine[from][to] {
					vtaRes.missing = append(vtaRes.missing, from+" → "+to)
				}
			}
		}
		sort.Strings(vtaRes.missing)
	})
	return vtaRes
}

func (ck *Check) vtaObligation() {
	r := vtaCrossCheck(ck.P)
	rule := ck.Prop + ".E2x"
	if r.err != nil {
		ck.undecided(rule, "vta/load", "", "", "whole-program VTA call graph builds", r.err.Error())
		return
	}
	ck.Stats[rule+" vta functions"] = r.funcs
	ck.cond(len(r.missing) == 0, rule, "vta/over-approximation", "", "", "the quick tier's repo call graph contains every direct repo→repo edge of the whole-program VTA graph (static calls, interface invokes, closures)", fmt.Sprintf("%d functions, %d edges out of repo functions examined", r.funcs, r.edges),
		"edges known to VTA but missing from the quick graph (who-may-call facts could be unsound): "+strings.Join(r.missing, "; "))
}

// properties whose rules use call-graph reachability
var callGraphProps = map[string]bool{"C01": true, "C11": true, "C20": true}

// ---- self-validation ------------------------------------------------------------------------------

type mutantSpec struct {
	ID     string   `json:"id"`
	Prop   string   `json:"prop"`
	Props  []string `json:"props"`
	Rule   string   `json:"rule"`
	File   string   `json:"file"`
	Old    string   `json:"old"`
	New    string   `json:"new"`
	Note   string   `json:"note"`
	Expect string   `json:"expect"`
}

type mutantOutcome struct {
	ID     string `json:"id"`
	Status string `json:"status"` // detected | blind | green | false-alarm | skipped | invalid
	Detail string `json:"detail,omitempty"`
	Rule   string `json:"rule,omitempty"`
	Note   string `json:"note,omitempty"`
}

func copyTree(src, dst string) error {
	return filepath.WalkDir(src, func(path string, d fs.DirEntry, err error) error {
		if err != nil {
			return err
		}
		rel, _ := filepath.Rel(src, path)
		if d.IsDir() {
			if d.Name() == ".git" || d.Name() == "_out" {
				return filepath.SkipDir
			}
			return os.MkdirAll(filepath.Join(dst, rel), 0o755)
		}
		if !d.Type().IsRegular() {
			return nil
		}
		in, err := os.Open(path)
		if err != nil {
			return err
		}
		defer in.Close()
		out, err := os.Create(filepath.Join(dst, rel))
		if err != nil {
			return err
		}
		defer out.Close()
		_, err = io.Copy(out, in)
		return err
	})
}

func runMutant(m mutantSpec, prop, repo, verif string) mutantOutcome {
	out := mutantOutcome{ID: m.ID, Rule: m.Rule, Note: m.Note}
	tmp, err := os.MkdirTemp("", "escalint-mut-")
	if err != nil {
		out.Status, out.Detail = "skipped", err.Error()
		return out
	}
	defer os.RemoveAll(tmp)
	dst := filepath.Join(tmp, "repo")
	if err := copyTree(repo, dst); err != nil {
		out.Status, out.Detail = "skipped", err.Error()
		return out
	}
	path := filepath.Join(dst, m.File)
	b, err := os.ReadFile(path)
	if err != nil || strings.Count(string(b), m.Old) != 1 {
		out.Status, out.Detail = "skipped", "the rewrite's anchor text no longer occurs exactly once in "+m.File
		return out
	}
	os.WriteFile(path, []byte(strings.Replace(string(b), m.Old, m.New, 1)), 0o644)
	env := append(os.Environ(), "GOWORK=off", "GOFLAGS=-mod=mod -trimpath", "GOPROXY=off", "GOSUMDB=off", "GOTOOLCHAIN=local")
	build := exec.Command("go", "build", "./...")
	build.Dir, build.Env = dst, env
	if o, err := build.CombinedOutput(); err != nil {
		out.Status, out.Detail = "invalid", "does not compile: "+firstLine(string(o))
		return out
	}
	self, _ := os.Executable()
	cmd := exec.Command(self, "check", "-prop", prop, "-repo", dst, "-verif", verif, "-n", "-tier", "quick")
	cmd.Env = append(env, "VERIF_TIER=quick")
	o, _ := cmd.CombinedOutput()
	code := cmd.ProcessState.ExitCode()
	var rules []string
	for _, l := range strings.Split(string(o), "\n") {
		if strings.HasPrefix(l, "VIOLATED") || strings.HasPrefix(l, "UNDECIDED") || strings.HasPrefix(l, "VACUOUS") || strings.HasPrefix(l, "ANCHOR-LOST") {
			f := strings.Fields(l)
			if len(f) > 1 {
				rules = append(rules, f[1])
			}
		}
	}
	out.Detail = strings.Join(rules, " ")
	expectGreen := m.Expect == "green"
	switch {
	case expectGreen && code == 0:
		out.Status = "green"
	case expectGreen:
		out.Status = "false-alarm"
	case code == 1:
		out.Status = "detected"
	default:
		out.Status = "blind"
	}
	return out
}

// selfValidate runs the corpus entries of one property against the current tree.
func selfValidate(prop, repo, verif string, parallel int) map[string]interface{} {
	b, err := os.ReadFile(filepath.Join(verif, "mutants", "corpus.json"))
	if err != nil {
		return map[string]interface{}{"error": err.Error()}
	}
	var corpus []mutantSpec
	if err := json.Unmarshal(b, &corpus); err != nil {
		return map[string]interface{}{"error": err.Error()}
	}
	var sel []mutantSpec
	for _, m := range corpus {
		ps := m.Props
		if len(ps) == 0 {
			ps = []string{m.Prop}
		}
		for _, p := range ps {
			if p == prop {
				sel = append(sel, m)
			}
		}
	}
	outs := make([]mutantOutcome, len(sel))
	sem := make(chan struct{}, parallel)
	var wg sync.WaitGroup
	for i, m := range sel {
		wg.Add(1)
		sem <- struct{}{}
		go func(i int, m mutantSpec) {
			defer wg.Done()
			defer func() { <-sem }()
			outs[i] = runMutant(m, prop, repo, verif)
		}(i, m)
	}
	wg.Wait()
	count := map[string]int{}
	var blind, falseAlarm, skipped []string
	for _, o := range outs {
		count[o.Status]++
		switch o.Status {
		case "blind":
			blind = append(blind, o.ID)
			fmt.Printf("SELFTEST-BLIND property=%s rule=%s mutant=%s (%s)\n", prop, o.Rule, o.ID, o.Note)
		case "false-alarm":
			falseAlarm = append(falseAlarm, o.ID)
			fmt.Printf("SELFTEST-FALSE-ALARM property=%s refactoring=%s rules=%s\n", prop, o.ID, o.Detail)
		case "skipped", "invalid":
			skipped = append(skipped, o.ID+": "+o.Detail)
		}
	}
	return map[string]interface{}{
		"corpus_entries": len(sel), "applied": count["detected"] + count["blind"] + count["green"] + count["false-alarm"],
		"detected": count["detected"], "blind": blind, "refactorings_green": count["green"], "false_alarms": falseAlarm, "skipped": skipped,
		"outcomes": outs,
		"note":     "self-validation says something about the checker, not about /repo: it never changes the verdict or exit code of the property check",
	}
}

func cmdSelftest(args []string) int {
	fs := flag.NewFlagSet("selftest", flag.ExitOnError)
	repo := fs.String("repo", "/repo", "repository root")
	verif := fs.String("verif", "/verif", "verification directory")
	prop := fs.String("prop", "all", "property or all")
	par := fs.Int("j", 8, "parallel mutants")
	fs.Parse(args)
	var props []string
	if *prop == "all" {
		for id := range registry {
			props = append(props, id)
		}
		sort.Strings(props)
	} else {
		props = []string{*prop}
	}
	bad := 0
	for _, p := range props {
		r := selfValidate(p, *repo, *verif, *par)
		fmt.Printf("%s: %v entries, %v detected, blind %v, refactorings green %v, false alarms %v, skipped %d\n", p, r["corpus_entries"], r["detected"], r["blind"], r["refactorings_green"], r["false_alarms"], len(r["skipped"].([]string)))
		if b, ok := r["blind"].([]string); ok {
			bad += len(b)
		}
		if b, ok := r["false_alarms"].([]string); ok {
			bad += len(b)
		}
	}
	if bad > 0 {
		return 1
	}
	return 0
}
