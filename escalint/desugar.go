package main

// Desugaring of range-over-func loops over *simple* repo iterators (Go 1.23).
//
// go/ssa lowers `for k, v := range it(args) { BODY }` into a synthetic closure for BODY plus a
// state machine of captured variables; the loop the rules reason about then lives in another
// function (the iterator) and its body in a third (the closure). For iterators of one fixed,
// syntactically recognised shape the loop is rewritten — in an overlay handed to go/packages, the
// files on disk are never touched — into the plain loop nest it denotes:
//
//	func it(params) iter.Seq2[K, V] {                 { p' := args
//	    return func(yield func(K, V) bool) {            PRE'
//	        PRE                                          L: for … {            // the iterator's loops
//	        for … {                              ⇒           …
//	            …                                             { k, v := e1', e2'
//	            if !yield(e1, e2) { return }                    BODY           // break ⇒ break L
//	        }                                                 }
//	    }                                                  }
//	}                                                    }
//
// Conditions (all syntactic, checked below): the function body is the single return of a function
// literal whose only parameter is the yield function; yield is called exactly once, as
// `if !yield(…) { return }`; that statement is the last statement of the body of every loop around
// it and the outermost of those loops is the last statement of the literal (so "yield returned
// false" and "the iteration is over" both mean: nothing else happens); no defer / go / nested
// function literal / labelled statement in the literal; iterator and loop are in the same package;
// no type parameters, no variadic parameters; the range statement is not labelled. Identifiers
// declared by the iterator are renamed apart. `/*line*/` directives keep every position outside
// the inserted text where it was. If the rewritten package does not type-check the overlay is
// dropped and the original program is analysed.

import (
	"fmt"
	"go/ast"
	"go/token"
	"go/types"
	"os"
	"sort"
	"strings"

	"golang.org/x/tools/go/packages"
)

type iterDef struct {
	decl    *ast.FuncDecl
	lit     *ast.FuncLit
	yield   types.Object
	yieldIf *ast.IfStmt
	call    *ast.CallExpr
	outer   ast.Stmt // outermost loop around the yield
	pkg     *packages.Package
	file    string
}

type textEdit struct {
	from, to int
	text     string
}

func applyEdits(src []byte, lo, hi int, edits []textEdit) string {
	var es []textEdit
	for _, e := range edits {
		if e.from >= lo && e.to <= hi {
			es = append(es, e)
		}
	}
	sort.Slice(es, func(i, j int) bool { return es[i].from < es[j].from })
	var b strings.Builder
	cur := lo
	for _, e := range es {
		if e.from < cur {
			continue
		}
		b.Write(src[cur:e.from])
		b.WriteString(e.text)
		cur = e.to
	}
	b.Write(src[cur:hi])
	return b.String()
}

// simpleIterator recognises the shape described above.
func simpleIterator(pk *packages.Package, fd *ast.FuncDecl) *iterDef {
	if fd.Body == nil || len(fd.Body.List) != 1 || fd.Type.TypeParams != nil {
		return nil
	}
	if fd.Recv != nil {
		for _, f := range fd.Recv.List {
			if _, isIdx := f.Type.(*ast.IndexExpr); isIdx {
				return nil
			}
		}
	}
	ret, ok := fd.Body.List[0].(*ast.ReturnStmt)
	if !ok || len(ret.Results) != 1 {
		return nil
	}
	lit, ok := ret.Results[0].(*ast.FuncLit)
	if !ok || lit.Type.Params == nil || len(lit.Type.Params.List) != 1 || len(lit.Type.Params.List[0].Names) != 1 {
		return nil
	}
	if lit.Type.Results != nil && len(lit.Type.Results.List) > 0 {
		return nil
	}
	for _, f := range fd.Type.Params.List {
		if _, variadic := f.Type.(*ast.Ellipsis); variadic {
			return nil
		}
	}
	yobj := pk.TypesInfo.Defs[lit.Type.Params.List[0].Names[0]]
	if yobj == nil {
		return nil
	}
	if sig, ok := yobj.Type().Underlying().(*types.Signature); !ok || sig.Results().Len() != 1 || !isBool(sig.Results().At(0).Type()) {
		return nil
	}
	d := &iterDef{decl: fd, lit: lit, yield: yobj, pkg: pk}
	bad := false
	uses := 0
	var path []ast.Node
	var yieldPath []ast.Node
	ast.Inspect(lit.Body, func(n ast.Node) bool {
		if n == nil {
			path = path[:len(path)-1]
			return true
		}
		path = append(path, n)
		switch x := n.(type) {
		case *ast.FuncLit, *ast.DeferStmt, *ast.GoStmt, *ast.LabeledStmt, *ast.SelectStmt:
			bad = true
		case *ast.Ident:
			if pk.TypesInfo.Uses[x] == yobj {
				uses++
			}
		case *ast.IfStmt:
			// if !yield(args) { return }
			if x.Init == nil && x.Else == nil && len(x.Body.List) == 1 {
				if r, isRet := x.Body.List[0].(*ast.ReturnStmt); isRet && len(r.Results) == 0 {
					if neg, isNeg := x.Cond.(*ast.UnaryExpr); isNeg && neg.Op == token.NOT {
						if c, isCall := neg.X.(*ast.CallExpr); isCall {
							if id, isID := c.Fun.(*ast.Ident); isID && pk.TypesInfo.Uses[id] == yobj {
								if d.yieldIf != nil {
									bad = true
								}
								d.yieldIf, d.call = x, c
								yieldPath = append([]ast.Node{}, path...)
							}
						}
					}
				}
			}
		}
		return true
	})
	if bad || d.yieldIf == nil || uses != 1 {
		return nil
	}
	// the yield statement is the last statement of every enclosing loop body, directly (no if /
	// switch in between), and the outermost loop is the last statement of the literal
	var loops []ast.Stmt
	for i := 1; i < len(yieldPath)-1; i++ { // yieldPath[0] is lit.Body, the last element the IfStmt
		switch x := yieldPath[i].(type) {
		case *ast.ForStmt:
			loops = append(loops, x)
		case *ast.RangeStmt:
			loops = append(loops, x)
		case *ast.BlockStmt:
		default:
			return nil
		}
	}
	if len(loops) == 0 {
		return nil
	}
	lastOf := func(b *ast.BlockStmt, s ast.Stmt) bool { return len(b.List) > 0 && b.List[len(b.List)-1] == s }
	var inner ast.Stmt = d.yieldIf
	for i := len(loops) - 1; i >= 0; i-- {
		var body *ast.BlockStmt
		switch x := loops[i].(type) {
		case *ast.ForStmt:
			body = x.Body
		case *ast.RangeStmt:
			body = x.Body
		}
		if !lastOf(body, inner) {
			return nil
		}
		inner = loops[i]
	}
	if !lastOf(lit.Body, inner) {
		return nil
	}
	d.outer = loops[0]
	return d
}

// desugarIterators builds the overlay; notes describe what was rewritten.
func desugarIterators(pkgs []*packages.Package) (map[string][]byte, []string, map[string]bool) {
	defs := map[types.Object]*iterDef{}
	for _, pk := range pkgs {
		if !strings.HasPrefix(pk.PkgPath, repoModule) || pk.TypesInfo == nil {
			continue
		}
		for i, f := range pk.Syntax {
			if i >= len(pk.CompiledGoFiles) {
				continue
			}
			for _, dcl := range f.Decls {
				fd, ok := dcl.(*ast.FuncDecl)
				if !ok {
					continue
				}
				if d := simpleIterator(pk, fd); d != nil {
					d.file = pk.CompiledGoFiles[i]
					if obj := pk.TypesInfo.Defs[fd.Name]; obj != nil {
						defs[obj] = d
					}
				}
			}
		}
	}
	rewritten := map[types.Object]int{}
	srcCache := map[string][]byte{}
	src := func(file string) []byte {
		if b, ok := srcCache[file]; ok {
			return b
		}
		b, err := os.ReadFile(file)
		if err != nil {
			b = nil
		}
		srcCache[file] = b
		return b
	}
	overlay := map[string][]byte{}
	var notes []string
	site := 0
	for _, pk := range pkgs {
		if !strings.HasPrefix(pk.PkgPath, repoModule) || pk.TypesInfo == nil {
			continue
		}
		fset := pk.Fset
		off := func(p token.Pos) int { return fset.Position(p).Offset }
		for i, f := range pk.Syntax {
			if i >= len(pk.CompiledGoFiles) {
				continue
			}
			file := pk.CompiledGoFiles[i]
			content := src(file)
			if content == nil {
				continue
			}
			var edits []textEdit
			keepImport := map[string]string{} // import path → local name: still referenced after the rewrite
			labelled := map[ast.Stmt]bool{}
			ast.Inspect(f, func(n ast.Node) bool {
				if l, ok := n.(*ast.LabeledStmt); ok {
					labelled[l.Stmt] = true
				}
				return true
			})
			var doneUntil token.Pos
			ast.Inspect(f, func(n ast.Node) bool {
				rs, ok := n.(*ast.RangeStmt)
				if !ok || rs.Pos() < doneUntil || labelled[rs] {
					return true
				}
				call, ok := rs.X.(*ast.CallExpr)
				if !ok || call.Ellipsis.IsValid() {
					return true
				}
				// the library's trivial adapters: slices.All / slices.Values / maps.All / maps.Keys /
				// maps.Values of x are the plain range over x (by the packages' documentation)
				if se, isSel := call.Fun.(*ast.SelectorExpr); isSel && len(call.Args) == 1 {
					if id, isID := se.X.(*ast.Ident); isID {
						if pn, isPkg := pk.TypesInfo.Uses[id].(*types.PkgName); isPkg {
							path, name := pn.Imported().Path(), se.Sel.Name
							arg := string(content[off(call.Args[0].Pos()):off(call.Args[0].End())])
							keyOnly := rs.Value == nil && rs.Key != nil
							switch {
							case (path == "slices" || path == "maps") && name == "All", path == "maps" && name == "Keys" && (keyOnly || rs.Key == nil):
								edits = append(edits, textEdit{off(call.Pos()), off(call.End()), arg})
							case (path == "slices" || path == "maps") && name == "Values" && (keyOnly || rs.Key == nil):
								if keyOnly {
									edits = append(edits, textEdit{off(rs.Key.Pos()), off(rs.Key.Pos()), "_, "})
								}
								edits = append(edits, textEdit{off(call.Pos()), off(call.End()), arg})
							default:
								return true
							}
							keepImport[path] = id.Name
							notes = append(notes, fmt.Sprintf("%s: range over %s.%s(x) read as the range over x", fset.Position(rs.For), path, name))
							return true
						}
					}
				}
				var fobj types.Object
				var recvExpr ast.Expr
				switch fn := call.Fun.(type) {
				case *ast.Ident:
					fobj = pk.TypesInfo.Uses[fn]
				case *ast.SelectorExpr:
					fobj = pk.TypesInfo.Uses[fn.Sel]
					if sel := pk.TypesInfo.Selections[fn]; sel != nil {
						recvExpr = fn.X
					}
				}
				d := defs[fobj]
				if d == nil || d.pkg != pk {
					return true
				}
				dsrc := src(d.file)
				if dsrc == nil {
					return true
				}
				site++
				sfx := fmt.Sprintf("_it%d", site)
				label := "itL" + fmt.Sprint(site)
				// renames of everything the iterator declares
				var dedits []textEdit
				declared := map[types.Object]bool{}
				ast.Inspect(d.decl, func(m ast.Node) bool {
					if id, ok := m.(*ast.Ident); ok {
						if o := pk.TypesInfo.Defs[id]; o != nil && id.Name != "_" && m != ast.Node(d.decl.Name) {
							declared[o] = true
						}
					}
					return true
				})
				ast.Inspect(d.decl, func(m ast.Node) bool {
					if id, ok := m.(*ast.Ident); ok && id.Name != "_" {
						o := pk.TypesInfo.Defs[id]
						if o == nil {
							o = pk.TypesInfo.Uses[id]
						}
						if o != nil && declared[o] {
							dedits = append(dedits, textEdit{off(id.Pos()), off(id.End()), id.Name + sfx})
						}
					}
					return true
				})
				// other returns of the literal end the iteration
				useLabel := false
				ast.Inspect(d.lit.Body, func(m ast.Node) bool {
					if m == ast.Node(d.yieldIf) {
						return false
					}
					if r, ok := m.(*ast.ReturnStmt); ok {
						dedits = append(dedits, textEdit{off(r.Pos()), off(r.End()), "break " + label})
						useLabel = true
					}
					return true
				})
				// break statements of BODY that leave the range loop
				var bedits []textEdit
				var walk func(m ast.Node, inBreakable bool)
				walk = func(m ast.Node, inBreakable bool) {
					ast.Inspect(m, func(x ast.Node) bool {
						switch y := x.(type) {
						case *ast.FuncLit:
							return false
						case *ast.ForStmt, *ast.RangeStmt, *ast.SwitchStmt, *ast.TypeSwitchStmt, *ast.SelectStmt:
							if x != m {
								walk(x, true)
								return false
							}
						case *ast.BranchStmt:
							if y.Tok == token.BREAK && y.Label == nil && !inBreakable {
								bedits = append(bedits, textEdit{off(y.Pos()), off(y.End()), "break " + label})
								useLabel = true
							}
						}
						return true
					})
				}
				walk(rs.Body, false)
				// parameter bindings
				var binds []string
				var pnames []string
				for _, fl := range d.decl.Type.Params.List {
					if len(fl.Names) == 0 {
						pnames = append(pnames, "_")
					}
					for _, nm := range fl.Names {
						pnames = append(pnames, nm.Name)
					}
				}
				if len(pnames) != len(call.Args) {
					site--
					return true
				}
				for k, nm := range pnames {
					at := string(content[off(call.Args[k].Pos()):off(call.Args[k].End())])
					if nm == "_" {
						binds = append(binds, "_ = "+at)
					} else {
						binds = append(binds, nm+sfx+" := "+at+"; _ = "+nm+sfx)
					}
				}
				if d.decl.Recv != nil && len(d.decl.Recv.List) == 1 {
					rn := "_"
					if len(d.decl.Recv.List[0].Names) == 1 {
						rn = d.decl.Recv.List[0].Names[0].Name
					}
					if recvExpr == nil {
						site--
						return true
					}
					rt := string(content[off(recvExpr.Pos()):off(recvExpr.End())])
					// a pointer receiver called on an addressable value, or the reverse: let the compiler's
					// implicit conversion be explicit
					want, got := pk.TypesInfo.TypeOf(d.decl.Recv.List[0].Type), pk.TypesInfo.TypeOf(recvExpr)
					if want != nil && got != nil && !types.Identical(want, got) {
						if _, wp := want.(*types.Pointer); wp {
							rt = "&" + rt
						} else {
							rt = "*" + rt
						}
					}
					if rn == "_" {
						binds = append(binds, "_ = "+rt)
					} else {
						binds = append(binds, rn+sfx+" := "+rt+"; _ = "+rn+sfx)
					}
				}
				// loop variables
				var lhs []string
				named := false
				for _, e := range []ast.Expr{rs.Key, rs.Value} {
					if e == nil {
						lhs = append(lhs, "_")
						continue
					}
					t := string(content[off(e.Pos()):off(e.End())])
					if t != "_" {
						named = true
					}
					lhs = append(lhs, t)
				}
				lhs = lhs[:len(d.call.Args)]
				var rhs []string
				for _, a := range d.call.Args {
					rhs = append(rhs, applyEdits(dsrc, off(a.Pos()), off(a.End()), dedits))
				}
				tok := ":="
				if rs.Tok == token.ASSIGN || !named {
					tok = "="
				}
				assign := strings.Join(lhs, ", ") + " " + tok + " " + strings.Join(rhs, ", ")
				prefix := applyEdits(dsrc, off(d.lit.Body.Lbrace)+1, off(d.yieldIf.Pos()), dedits)
				suffix := applyEdits(dsrc, off(d.yieldIf.End()), off(d.lit.Body.Rbrace), dedits)
				if useLabel {
					// the label goes in front of the outermost loop
					rel := off(d.outer.Pos()) - (off(d.lit.Body.Lbrace) + 1)
					shift := 0
					for _, e := range dedits {
						if e.from >= off(d.lit.Body.Lbrace)+1 && e.to <= off(d.outer.Pos()) {
							shift += len(e.text) - (e.to - e.from)
						}
					}
					at := rel + shift
					if at < 0 || at > len(prefix) {
						site--
						return true
					}
					prefix = prefix[:at] + label + ": " + prefix[at:]
				}
				bodyStart := fset.Position(rs.Body.Lbrace + 1)
				afterEnd := fset.Position(rs.Body.Rbrace + 1)
				preAt := fset.Position(d.lit.Body.Lbrace + 1)
				sufAt := fset.Position(d.yieldIf.End())
				head := "{\n" + strings.Join(binds, "\n") + "\n" + fmt.Sprintf("/*line %s:%d:%d*/", d.file, preAt.Line, preAt.Column) + prefix + "{\n" + assign + "\n" +
					fmt.Sprintf("/*line %s:%d:%d*/", file, bodyStart.Line, bodyStart.Column)
				tail := "}\n" + fmt.Sprintf("/*line %s:%d:%d*/", d.file, sufAt.Line, sufAt.Column) + suffix + "\n}" + fmt.Sprintf("/*line %s:%d:%d*/", file, afterEnd.Line, afterEnd.Column)
				edits = append(edits, textEdit{off(rs.For), off(rs.Body.Lbrace) + 1, head})
				edits = append(edits, bedits...)
				edits = append(edits, textEdit{off(rs.Body.Rbrace), off(rs.Body.Rbrace) + 1, tail})
				doneUntil = rs.End()
				rewritten[fobj]++
				notes = append(notes, fmt.Sprintf("%s: range over %s read as the loop nest it denotes", fset.Position(rs.For), d.decl.Name.Name))
				return false
			})
			// a function value chosen by one test and then only called (see selectedFuncValues)
			se, sn := selectedFuncValues(pk, f, content, file, &site)
			edits = append(edits, se...)
			notes = append(notes, sn...)
			// calls through a package-level function variable that is never assigned (see constantFuncVars)
			ce, cn := constantFuncVars(pk, f, fset)
			edits = append(edits, ce...)
			notes = append(notes, cn...)
			// … and through a function-valued parameter every caller binds to the same function
			pe, pn := constantFuncParams(pk, f, fset)
			edits = append(edits, pe...)
			notes = append(notes, pn...)
			if len(edits) > 0 {
				out := applyEdits(content, 0, len(content), edits)
				for path, local := range keepImport {
					switch path {
					case "slices":
						out += "\nvar _ = " + local + ".Contains[[]int]\n"
					case "maps":
						out += "\nvar _ = " + local + ".Keys[map[int]int]\n"
					}
				}
				overlay[file] = []byte(out)
			}
		}
	}
	// an iterator all of whose uses were rewritten is dead code in the program that is analysed
	inlinedAway := map[string]bool{}
	for obj, d := range defs {
		uses := 0
		for _, o := range d.pkg.TypesInfo.Uses {
			if o == obj {
				uses++
			}
		}
		if uses > 0 && uses == rewritten[obj] {
			if fn, ok := obj.(*types.Func); ok {
				inlinedAway[fn.FullName()] = true
			}
		}
	}
	return overlay, notes, inlinedAway
}

// selectedFuncValues rewrites
//
//	f := A                                   var sel bool
//	if COND { f = B }                 ⇒      if COND { sel = true }
//	if x, ok := f(ARGS); C { BODY }          { var x T1; var ok T2
//	                                           if sel { x, ok = B(ARGS) } else { x, ok = A(ARGS) }
//	                                           if C { BODY } }
//
// — the "strategy picked per iteration" idiom — into the two static calls it denotes. Conditions,
// all syntactic: f is a local of function type defined by `f := A`, the very next statement is
// `if COND { f = B }` without else, A and B are method values / function names rooted at
// parameters, the receiver or package-level functions, and every other use of f is the callee of a
// call that is the initialiser of an if statement (`if … := f(ARGS); …`). COND is still evaluated
// once, where it was; the arguments are evaluated once, in the arm that runs.
func selectedFuncValues(pk *packages.Package, file *ast.File, content []byte, fname string, site *int) ([]textEdit, []string) {
	fset := pk.Fset
	off := func(p token.Pos) int { return fset.Position(p).Offset }
	text := func(n ast.Node) string { return string(content[off(n.Pos()):off(n.End())]) }
	// import names of this file, for spelling result types
	imports := map[string]string{}
	for _, im := range file.Imports {
		path := strings.Trim(im.Path.Value, "\"")
		name := path[strings.LastIndex(path, "/")+1:]
		if im.Name != nil {
			name = im.Name.Name
		}
		imports[path] = name
	}
	missing := false
	qual := func(p *types.Package) string {
		if p == pk.Types {
			return ""
		}
		if n, ok := imports[p.Path()]; ok {
			return n
		}
		// the package's own name when the import path's last element differs (v1 → k8s.io/api/core/v1)
		for path, n := range imports {
			if path == p.Path() {
				return n
			}
		}
		missing = true
		return p.Name()
	}
	stable := func(e ast.Expr) bool {
		// A / B: an identifier or selector chain whose root is a parameter, the receiver or a function
		for {
			switch x := e.(type) {
			case *ast.SelectorExpr:
				e = x.X
				continue
			case *ast.Ident:
				switch o := pk.TypesInfo.Uses[x].(type) {
				case *types.Func, *types.PkgName:
					return true
				case *types.Var:
					return o.Parent() != nil && !o.IsField() && isParamOrRecv(pk, file, o)
				}
			}
			return false
		}
	}
	var edits []textEdit
	var notes []string
	ast.Inspect(file, func(n ast.Node) bool {
		blk, ok := n.(*ast.BlockStmt)
		if !ok {
			return true
		}
		for i := 0; i+1 < len(blk.List); i++ {
			def, ok := blk.List[i].(*ast.AssignStmt)
			if !ok || def.Tok != token.DEFINE || len(def.Lhs) != 1 || len(def.Rhs) != 1 {
				continue
			}
			fid, ok := def.Lhs[0].(*ast.Ident)
			if !ok {
				continue
			}
			fobj := pk.TypesInfo.Defs[fid]
			if fobj == nil {
				continue
			}
			sig, ok := fobj.Type().Underlying().(*types.Signature)
			if !ok || sig.Variadic() {
				continue
			}
			sel, ok := blk.List[i+1].(*ast.IfStmt)
			if !ok || sel.Init != nil || sel.Else != nil || len(sel.Body.List) != 1 {
				continue
			}
			re, ok := sel.Body.List[0].(*ast.AssignStmt)
			if !ok || re.Tok != token.ASSIGN || len(re.Lhs) != 1 || len(re.Rhs) != 1 {
				continue
			}
			if id, ok := re.Lhs[0].(*ast.Ident); !ok || pk.TypesInfo.Uses[id] != fobj {
				continue
			}
			A, B := def.Rhs[0], re.Rhs[0]
			if !stable(A) || !stable(B) {
				continue
			}
			// every other use: the callee of `if … := f(ARGS); …`
			type use struct {
				ifs  *ast.IfStmt
				init *ast.AssignStmt
				call *ast.CallExpr
			}
			var uses []use
			okUses := true
			nUses := 0
			ast.Inspect(file, func(m ast.Node) bool {
				if id, isID := m.(*ast.Ident); isID && pk.TypesInfo.Uses[id] == fobj {
					nUses++
				}
				ifs, isIf := m.(*ast.IfStmt)
				if !isIf || ifs.Init == nil {
					return true
				}
				as, isAs := ifs.Init.(*ast.AssignStmt)
				if !isAs || as.Tok != token.DEFINE || len(as.Rhs) != 1 {
					return true
				}
				c, isCall := as.Rhs[0].(*ast.CallExpr)
				if !isCall || c.Ellipsis.IsValid() {
					return true
				}
				if id, isID := c.Fun.(*ast.Ident); isID && pk.TypesInfo.Uses[id] == fobj {
					if len(as.Lhs) != sig.Results().Len() {
						okUses = false
					}
					uses = append(uses, use{ifs, as, c})
				}
				return true
			})
			// nUses counts the reassignment and one identifier per call
			if !okUses || len(uses) == 0 || nUses != len(uses)+1 {
				continue
			}
			*site++
			selName := fmt.Sprintf("fsel_%d", *site)
			var local []textEdit
			local = append(local, textEdit{off(def.Pos()), off(def.End()), "var " + selName + " bool"})
			local = append(local, textEdit{off(re.Pos()), off(re.End()), selName + " = true"})
			bad := false
			for _, u := range uses {
				var decls, lhs []string
				for k, l := range u.init.Lhs {
					name := text(l)
					lhs = append(lhs, name)
					if name != "_" {
						decls = append(decls, "var "+name+" "+types.TypeString(sig.Results().At(k).Type(), qual))
					}
				}
				args := ""
				if len(u.call.Args) > 0 {
					args = string(content[off(u.call.Args[0].Pos()):off(u.call.Args[len(u.call.Args)-1].End())])
				}
				assignTo := strings.Join(lhs, ", ") + " = "
				head := "{ " + strings.Join(decls, "; ") + "\nif " + selName + " { " + assignTo + text(B) + "(" + args + ") } else { " + assignTo + text(A) + "(" + args + ") }\nif "
				condAt := fset.Position(u.ifs.Cond.Pos())
				head += fmt.Sprintf("/*line %s:%d:%d*/", fname, condAt.Line, condAt.Column)
				// replace `if INIT; ` by head, close the extra block after the statement
				local = append(local, textEdit{off(u.ifs.Pos()), off(u.ifs.Cond.Pos()), head})
				endAt := fset.Position(u.ifs.End())
				local = append(local, textEdit{off(u.ifs.End()), off(u.ifs.End()), " }" + fmt.Sprintf("/*line %s:%d:%d*/", fname, endAt.Line, endAt.Column)})
			}
			if missing || bad {
				*site--
				missing = false
				continue
			}
			edits = append(edits, local...)
			notes = append(notes, fmt.Sprintf("%s: function value %s chosen by one test read as the two static calls it denotes", fset.Position(def.Pos()), fid.Name))
		}
		return true
	})
	return edits, notes
}

// isParamOrRecv: o is a parameter or the receiver of the function declaration it is used in.
func isParamOrRecv(pk *packages.Package, file *ast.File, o *types.Var) bool {
	found := false
	for _, d := range file.Decls {
		fd, ok := d.(*ast.FuncDecl)
		if !ok {
			continue
		}
		lists := []*ast.FieldList{fd.Type.Params}
		if fd.Recv != nil {
			lists = append(lists, fd.Recv)
		}
		for _, fl := range lists {
			if fl == nil {
				continue
			}
			for _, f := range fl.List {
				for _, nm := range f.Names {
					if pk.TypesInfo.Defs[nm] == types.Object(o) {
						found = true
					}
				}
			}
		}
	}
	return found
}

// constantFuncVars: the test seam `var sleep = time.Sleep` — an unexported package-level variable
// of function type, initialised with the name of a function (local or imported) and assigned
// nowhere in the package's shipped files (test files are not shipped), its address never taken —
// denotes that function: every use in this file is read as the function's name. A use in a file
// that does not import the function's package under the same name is left as it is.
func constantFuncVars(pk *packages.Package, f *ast.File, fset *token.FileSet) ([]textEdit, []string) {
	type seam struct {
		init ast.Expr
		text string
		pkg  *types.Package // package of the function, nil when local
		qual string         // the qualifier used in the initialiser
	}
	seams := map[types.Object]*seam{}
	for _, file := range pk.Syntax {
		for _, dcl := range file.Decls {
			gd, ok := dcl.(*ast.GenDecl)
			if !ok || gd.Tok != token.VAR {
				continue
			}
			for _, sp := range gd.Specs {
				vs, ok := sp.(*ast.ValueSpec)
				if !ok || len(vs.Names) != 1 || len(vs.Values) != 1 || vs.Type != nil {
					continue
				}
				obj := pk.TypesInfo.Defs[vs.Names[0]]
				if obj == nil || obj.Exported() {
					continue
				}
				if _, isSig := obj.Type().Underlying().(*types.Signature); !isSig {
					continue
				}
				sm := &seam{init: vs.Values[0]}
				switch e := vs.Values[0].(type) {
				case *ast.Ident:
					fo, ok := pk.TypesInfo.Uses[e].(*types.Func)
					if !ok || fo.Type().(*types.Signature).Recv() != nil {
						continue
					}
					sm.text = e.Name
				case *ast.SelectorExpr:
					x, ok := e.X.(*ast.Ident)
					if !ok {
						continue
					}
					pn, ok := pk.TypesInfo.Uses[x].(*types.PkgName)
					if !ok {
						continue
					}
					fo, ok := pk.TypesInfo.Uses[e.Sel].(*types.Func)
					if !ok || fo.Type().(*types.Signature).Recv() != nil {
						continue
					}
					sm.text, sm.pkg, sm.qual = x.Name+"."+e.Sel.Name, pn.Imported(), x.Name
				default:
					continue
				}
				seams[obj] = sm
			}
		}
	}
	if len(seams) == 0 {
		return nil, nil
	}
	// any write or address-of in the shipped files disqualifies the variable
	for _, file := range pk.Syntax {
		ast.Inspect(file, func(n ast.Node) bool {
			switch x := n.(type) {
			case *ast.AssignStmt:
				for _, l := range x.Lhs {
					if id, ok := l.(*ast.Ident); ok {
						if o := pk.TypesInfo.Uses[id]; o != nil {
							delete(seams, o)
						}
					}
				}
			case *ast.UnaryExpr:
				if x.Op == token.AND {
					if id, ok := x.X.(*ast.Ident); ok {
						if o := pk.TypesInfo.Uses[id]; o != nil {
							delete(seams, o)
						}
					}
				}
			}
			return true
		})
	}
	if len(seams) == 0 {
		return nil, nil
	}
	imported := map[string]string{} // local name → path, for this file
	for _, im := range f.Imports {
		path := strings.Trim(im.Path.Value, `"`)
		name := path[strings.LastIndex(path, "/")+1:]
		if im.Name != nil {
			name = im.Name.Name
		} else if pn := pk.TypesInfo.Implicits[im]; pn != nil {
			name = pn.Name()
		}
		imported[name] = path
	}
	var edits []textEdit
	var notes []string
	noted := map[types.Object]bool{}
	ast.Inspect(f, func(n ast.Node) bool {
		id, ok := n.(*ast.Ident)
		if !ok {
			return true
		}
		o := pk.TypesInfo.Uses[id]
		sm := seams[o]
		if sm == nil {
			return true
		}
		if sm.pkg != nil && imported[sm.qual] != sm.pkg.Path() {
			return true
		}
		edits = append(edits, textEdit{fset.Position(id.Pos()).Offset, fset.Position(id.End()).Offset, sm.text})
		if !noted[o] {
			noted[o] = true
			notes = append(notes, fmt.Sprintf("%s: the function variable %s (initialised to %s, assigned nowhere in shipped code) read as %s", fset.Position(id.Pos()), id.Name, sm.text, sm.text))
		}
		return true
	})
	return edits, notes
}

// constantFuncParams: `func (c *C) doAt(opts T, now func() time.Time)` whose one call site is the whole
// body of a delegating wrapper, `func (c *C) Do(opts T) R { return c.doAt(opts, time.Now) }` — an
// unexported function or method with a function-typed parameter to which that call hands a named
// function, that is never used as a value itself and never assigns the parameter: inside its body the parameter denotes that function, and
// its uses are read as the function's name (when this file imports the function's package under the
// name the call sites use).
func constantFuncParams(pk *packages.Package, f *ast.File, fset *token.FileSet) ([]textEdit, []string) {
	var edits []textEdit
	var notes []string
	imported := map[string]string{}
	for _, im := range f.Imports {
		path := strings.Trim(im.Path.Value, `"`)
		name := path[strings.LastIndex(path, "/")+1:]
		if im.Name != nil {
			name = im.Name.Name
		} else if pn := pk.TypesInfo.Implicits[im]; pn != nil {
			name = pn.Name()
		}
		imported[name] = path
	}
	for _, dcl := range f.Decls {
		fd, ok := dcl.(*ast.FuncDecl)
		if !ok || fd.Body == nil || fd.Name.IsExported() {
			continue
		}
		gobj := pk.TypesInfo.Defs[fd.Name]
		if gobj == nil {
			continue
		}
		// flat parameter list
		var params []*ast.Ident
		for _, fl := range fd.Type.Params.List {
			if len(fl.Names) == 0 {
				params = append(params, nil)
			}
			params = append(params, fl.Names...)
		}
		for pi, pid := range params {
			if pid == nil {
				continue
			}
			pobj := pk.TypesInfo.Defs[pid]
			if pobj == nil {
				continue
			}
			if _, isSig := pobj.Type().Underlying().(*types.Signature); !isSig {
				continue
			}
			// every use of g is a call, and every call hands the same named function
			text, qual := "", ""
			var fpkg *types.Package
			okAll, sites := true, 0
			for _, file := range pk.Syntax {
				ast.Inspect(file, func(n ast.Node) bool {
					call, ok := n.(*ast.CallExpr)
					if !ok {
						return true
					}
					var id *ast.Ident
					switch fx := call.Fun.(type) {
					case *ast.Ident:
						id = fx
					case *ast.SelectorExpr:
						id = fx.Sel
					}
					if id == nil || pk.TypesInfo.Uses[id] != gobj {
						return true
					}
					sites++
					if pi >= len(call.Args) || call.Ellipsis.IsValid() {
						okAll = false
						return true
					}
					t, q := "", ""
					var tp *types.Package
					switch a := call.Args[pi].(type) {
					case *ast.Ident:
						if fo, ok := pk.TypesInfo.Uses[a].(*types.Func); ok && fo.Type().(*types.Signature).Recv() == nil {
							t = a.Name
						}
					case *ast.SelectorExpr:
						if x, ok := a.X.(*ast.Ident); ok {
							if pn, ok := pk.TypesInfo.Uses[x].(*types.PkgName); ok {
								if fo, ok := pk.TypesInfo.Uses[a.Sel].(*types.Func); ok && fo.Type().(*types.Signature).Recv() == nil {
									t, q, tp = x.Name+"."+a.Sel.Name, x.Name, pn.Imported()
								}
							}
						}
					}
					if t == "" || (text != "" && t != text) {
						okAll = false
						return true
					}
					text, qual, fpkg = t, q, tp
					return true
				})
			}
			// g used other than as the callee of a call?
			uses := 0
			for id, o := range pk.TypesInfo.Uses {
				_ = id
				if o == gobj {
					uses++
				}
			}
			if !okAll || sites != 1 || uses != sites || text == "" {
				continue
			}
			// the one call site is the whole body of a delegating wrapper: `return g(args…, F)`
			wrapped := false
			for _, file := range pk.Syntax {
				for _, d2 := range file.Decls {
					w, ok := d2.(*ast.FuncDecl)
					if !ok || w.Body == nil || len(w.Body.List) != 1 {
						continue
					}
					var e ast.Expr
					switch st := w.Body.List[0].(type) {
					case *ast.ReturnStmt:
						if len(st.Results) == 1 {
							e = st.Results[0]
						}
					case *ast.ExprStmt:
						e = st.X
					}
					call, ok := e.(*ast.CallExpr)
					if !ok {
						continue
					}
					var id *ast.Ident
					switch fx := call.Fun.(type) {
					case *ast.Ident:
						id = fx
					case *ast.SelectorExpr:
						id = fx.Sel
					}
					if id != nil && pk.TypesInfo.Uses[id] == gobj {
						wrapped = true
					}
				}
			}
			if !wrapped {
				continue
			}
			if fpkg != nil && imported[qual] != fpkg.Path() {
				continue
			}
			// the parameter is only read
			written := false
			ast.Inspect(fd.Body, func(n ast.Node) bool {
				switch x := n.(type) {
				case *ast.AssignStmt:
					for _, l := range x.Lhs {
						if id, ok := l.(*ast.Ident); ok && pk.TypesInfo.Uses[id] == pobj {
							written = true
						}
					}
				case *ast.UnaryExpr:
					if id, ok := x.X.(*ast.Ident); ok && x.Op == token.AND && pk.TypesInfo.Uses[id] == pobj {
						written = true
					}
				}
				return true
			})
			if written {
				continue
			}
			n := 0
			ast.Inspect(fd.Body, func(nd ast.Node) bool {
				if id, ok := nd.(*ast.Ident); ok && pk.TypesInfo.Uses[id] == pobj {
					edits = append(edits, textEdit{fset.Position(id.Pos()).Offset, fset.Position(id.End()).Offset, text})
					n++
				}
				return true
			})
			if n > 0 {
				notes = append(notes, fmt.Sprintf("%s: the parameter %s of %s (bound to %s at every call site) read as %s", fset.Position(pid.Pos()), pid.Name, fd.Name.Name, text, text))
			}
		}
	}
	return edits, notes
}
